// C07 - control plane: only messages authenticated as their source change
// router state. Stage M: TLC on ControlPlane enumerates ping type x variant x
// claimed source x routing table and derives the only state change the
// property allows. Stage R: every case is built with the real peers' router
// stacks (real sessions, signatures, AEAD), altered as the variant says and
// delivered to a real victim router with three peers; the state the property
// names (keys, MTU, routing table, connection states, stored info, offline
// flag, stored records) is snapshotted before and after. Stage R-lost (lost.go):
// the same after good-byes and a loss of session objects. Stage T: all
// observations are judged by TLC (ControlPlane_Trace).
package main

import (
	"bytes"
	"crypto/sha256"
	"encoding/json"
	"fmt"
	"math/rand"
	"net/netip"
	"sort"
	"time"

	"github.com/fxamacker/cbor/v2"

	"github.com/mycoria/mycoria/config"
	"github.com/mycoria/mycoria/frame"
	"github.com/mycoria/mycoria/m"
	"github.com/mycoria/mycoria/mgr"
	"github.com/mycoria/mycoria/router"
	"github.com/mycoria/mycoria/state"
	"github.com/mycoria/mycoria/storage"

	"verifharness/internal/mesh"
	"verifharness/internal/vf"
	"verifharness/internal/world"
)

type route struct {
	Dst  int   `json:"dst"`
	Nh   int   `json:"nh"`
	Path []int `json:"path"`
}

type act struct {
	Name    string  `json:"name"`
	Type    string  `json:"type"`
	Variant string  `json:"variant"`
	Src     int     `json:"src"`
	Table   []route `json:"table"`
	Off     []int   `json:"off"` // "lost" cases: the routers that said good-bye before
	How     string  `json:"how"` // "lost" cases: how the victim lost session objects afterwards; "atonce" cases: why the victim does not know X
	// "atonce" cases (atonce.go): K1 copies of a ping of type T1 and K2 copies of a newer one of type T2 ("none": only
	// one ping), all of router Src, and - Hop != 0 - a genuine announcement of peer Hop with a hop record of Src
	T1  string `json:"t1"`
	K1  int    `json:"k1"`
	T2  string `json:"t2"`
	K2  int    `json:"k2"`
	Hop int    `json:"hop"`
}

type scene struct {
	ms      *mesh.Mesh
	v       *world.Node
	rng     *rand.Rand
	forceMT frame.MessageType // != 0: every ping is built with this message type
	lost    bool              // the history "good-bye, then the sessions are lost": building a ping must not make the victim touch its sessions
	store   *slowStore        // != nil: the victim's router storage takes a moment per query when told so (atonce.go)
}

// model number n <-> mesh node n+1 (victim 0 = node 1, peers 1..3, router 4 = node 5, unknown 5 = node 6)
func (s *scene) node(n int) *world.Node { return s.ms.Node(n + 1) }
func (s *scene) num(a netip.Addr) int   { return s.ms.ID(a) - 1 }

func newScene(rng *rand.Rand, table []route) *scene { return newSceneOpt(rng, table, nil) }

// newSceneOpt: the victim never set up end-to-end keys with the routers of unkeyed (it only knows them).
func newSceneOpt(rng *rand.Rand, table []route, unkeyed map[int]bool) *scene {
	return newSceneStore(rng, table, unkeyed, false)
}

// newSceneStore: with slow, the victim's router storage is the in-memory storage of /repo behind a slowStore (which
// answers at once until it is told otherwise).
func newSceneStore(rng *rand.Rand, table []route, unkeyed map[int]bool, slow bool) *scene {
	edges := []mesh.Edge{{A: 1, B: 2, LA: 21, LB: 12}, {A: 1, B: 3, LA: 31, LB: 13}, {A: 1, B: 4, LA: 41, LB: 14}}
	ms, err := mesh.New(4, edges, mesh.Opts{Extra: 2, WithTun: func(i int) bool { return i == 1 },
		Cfg: func(i int) config.Store {
			return config.Store{ServiceConfigs: []config.ServiceConfig{{Name: "web", URL: "tcp://:80", Public: true}}}
		}})
	if err != nil {
		panic(err)
	}
	s := &scene{ms: ms, v: ms.Node(1), rng: rng}
	if slow {
		// before the victim has any session worth keeping: the same records, a state manager on the wrapped storage
		s.store = newSlowStore(s.v.Store, rng.Int63())
		s.v.Store = s.store
		s.v.St = state.New(s.v, s.store)
	}
	// the victim knows router 4 (learnt through gossip) but not router 5
	pub4 := s.node(4).ID.PublicAddress
	_ = s.v.St.AddRouter(&pub4)
	// everybody who talks to the victim knows the victim
	pubV := s.v.ID.PublicAddress
	for _, n := range []int{4, 5} {
		_ = s.node(n).St.AddRouter(&pubV)
	}
	// end-to-end keys between the victim and routers 1..4
	for n := 1; n <= 4; n++ {
		x := s.node(n)
		px := x.ID.PublicAddress
		_ = s.v.St.AddRouter(&px)
		if unkeyed[n] {
			continue
		}
		sv, sx := s.v.St.GetSession(x.ID.IP), x.St.GetSession(s.v.ID.IP)
		kx, kxt, _ := sx.Encryption().InitKeyClientStart()
		rk, rkt, _ := sv.Encryption().InitKeyServer(kx, kxt)
		_ = sx.Encryption().InitKeyClientComplete(rk, rkt)
		sv.SetTunMTU(1400)
	}
	// routes of the case (peer routes exist through AddLink)
	for _, r := range table {
		if len(r.Path) <= 2 {
			continue
		}
		hops := make([]m.SwitchHop, len(r.Path))
		for i, x := range r.Path {
			hops[i] = m.SwitchHop{Router: s.node(x).ID.IP, ForwardLabel: m.SwitchLabel(50 + i), ReturnLabel: m.SwitchLabel(60 + i)}
		}
		hops[0].ReturnLabel = 0
		hops[0].ForwardLabel = s.v.LinkTo(s.node(r.Nh)).SwitchLabel()
		hops[len(hops)-1].ForwardLabel = 0
		added, err := s.v.RoutingTable().AddRoute(m.RoutingTableEntry{DstIP: s.node(r.Dst).ID.IP, NextHop: s.node(r.Nh).ID.IP, Source: m.RouteSourceGossip,
			Expires: time.Now().Add(time.Hour), Path: m.SwitchPath{Hops: hops}})
		if err != nil || !added {
			panic(fmt.Sprintf("install route %v: %v %v", r, added, err))
		}
	}
	// connection states towards routers 1..4 (outbound TCP to port 80)
	_ = world.WorkerCtx(func(w *mgr.WorkerCtx) {
		for n := 1; n <= 4; n++ {
			if unkeyed[n] {
				continue // never talked to: sending would open a key exchange
			}
			pkt := tcpPacket(s.v.ID.IP, s.node(n).ID.IP, 40000+uint16(n), 80)
			s.v.Rt.VerifHandleTunPacket(w, pkt)
		}
	})
	s.ms.W.Inflight = nil
	return s
}

func tcpPacket(src, dst netip.Addr, sport, dport uint16) []byte {
	p := make([]byte, 60)
	p[0] = 6 << 4
	p[4], p[5] = 0, 20
	p[6] = 6
	p[7] = 64
	a, b := src.As16(), dst.As16()
	copy(p[8:24], a[:])
	copy(p[24:40], b[:])
	p[40], p[41] = byte(sport>>8), byte(sport)
	p[42], p[43] = byte(dport>>8), byte(dport)
	return p
}

// ---- snapshots ----

type snap struct {
	Keys    map[int]string
	MTU     map[int]int
	Routes  []route
	Conn    []string
	Info    map[int]string
	Offline map[int]bool
	Stored  map[int]bool
}

func (s *scene) snapshot() snap { return s.snapshotSel(nil) }

// snapshotSel: State.GetSession CREATES the session object when there is none. Where the history under test is "the
// victim has no session object for X", the snapshot taken before the ping must not be what brings it back: sessions
// are then looked at only for the routers of live (nil = all stored routers). A router without a session object has
// no keys and no MTU (the defaults of diffKeys). All stored flags are read before any session is looked at.
func (s *scene) snapshotSel(live map[int]bool) snap {
	sn := snap{Keys: map[int]string{}, MTU: map[int]int{}, Info: map[int]string{}, Offline: map[int]bool{}, Stored: map[int]bool{}}
	q := storage.NewRouterQuery(nil, nil, 1000)
	_ = s.v.St.QueryRouters(q)
	for _, r := range q.Result() {
		n := s.num(r.Address.IP)
		sn.Stored[n] = true
		sn.Offline[n] = r.Offline
		if r.PublicInfo != nil {
			b, _ := json.Marshal(r.PublicInfo)
			sn.Info[n] = string(b)
		}
	}
	for _, r := range q.Result() {
		n := s.num(r.Address.IP)
		if live != nil && !live[n] {
			continue
		}
		if sess := s.v.St.GetSession(r.Address.IP); sess != nil {
			h := &state.EncryptionSessionTestHelper{EncryptionSession: sess.Encryption()}
			sum := sha256.Sum256(append(append([]byte{}, h.InKey()...), h.OutKey()...))
			sn.Keys[n] = fmt.Sprintf("%x/%v", sum[:6], sess.Encryption().IsSetUp())
			sn.MTU[n] = sess.TunMTU()
		}
	}
	for _, e := range s.v.RoutingTable().VerifEntries() {
		r := route{Dst: s.num(e.DstIP), Nh: s.num(e.NextHop), Path: []int{}}
		for _, h := range e.Path.Hops {
			r.Path = append(r.Path, s.num(h.Router))
		}
		if len(r.Path) == 0 {
			r.Path = []int{0, r.Dst} // the link-only peer route, same abstract path as the announced one
		}
		sn.Routes = append(sn.Routes, r)
	}
	for _, cs := range s.v.Rt.VerifConnStates() {
		sn.Conn = append(sn.Conn, fmt.Sprintf("%s>%s/%d/%d/%d=%s", cs.LocalIP, cs.RemoteIP, cs.Protocol, cs.LocalPort, cs.RemotePort, cs.Status))
	}
	sort.Strings(sn.Conn)
	return sn
}

// diffKeys lists the routers whose value differs; a missing entry counts as
// the default value def (a record that did not exist yet had no keys, no MTU,
// no info and was not offline).
func diffKeys[T comparable](a, b map[int]T, def T) []int {
	out := []int{}
	ks := map[int]bool{}
	for k := range a {
		ks[k] = true
	}
	for k := range b {
		ks[k] = true
	}
	for k := range ks {
		va, ok := a[k]
		if !ok {
			va = def
		}
		vb, ok := b[k]
		if !ok {
			vb = def
		}
		if va != vb {
			out = append(out, k)
		}
	}
	sort.Ints(out)
	return out
}

var emptyKeys = func() string {
	sum := sha256.Sum256(nil)
	return fmt.Sprintf("%x/%v", sum[:6], false)
}()

// ---- building pings with the real stacks ----

type pongMsg struct {
	Msg string `cbor:"msg,omitempty"`
}
type unreachableMsg struct {
	Unreachable netip.Addr `cbor:"u,omitempty"`
}
type deniedMsg struct {
	DstIP    netip.Addr `cbor:"d,omitempty"`
	Protocol uint8      `cbor:"t,omitempty"`
	DstPort  uint16     `cbor:"p,omitempty"`
}

// ping builds and seals a ping from `from` (claiming source `claim`) to the victim, the way sendPingMsg does.
func (s *scene) ping(from, claim *world.Node, mt frame.MessageType, pingType string, code uint8, followUp bool, id uint64, body any) []byte {
	hdr := router.PingHeader{PingID: id, PingType: pingType, PingCode: code, FollowUp: followUp,
		AddrHash: from.ID.Hash, KeyType: from.ID.Type, PublicKey: from.ID.PublicKey}
	hd, err := cbor.Marshal(&hdr)
	if err != nil {
		panic(err)
	}
	bd, err := cbor.Marshal(body)
	if err != nil {
		panic(err)
	}
	data := append([]byte{1, byte(len(hd))}, hd...)
	data = append(data, bd...)
	if s.forceMT != 0 {
		mt = s.forceMT
	}
	f, err := from.Builder.NewFrameV1(claim.ID.IP, s.v.ID.IP, mt, nil, data, nil)
	if err != nil {
		panic(err)
	}
	sess := from.St.GetSession(s.v.ID.IP)
	if sess == nil {
		panic("no session to victim")
	}
	if err := f.Seal(sess); err != nil {
		panic(err)
	}
	raw, _ := f.FrameDataWithMargins(0, 0)
	out := append([]byte(nil), raw...)
	f.ReturnToPool()
	return out
}

// helloRespByOther: the victim opens a hello exchange with x; router z reads the ping ID and the victim's key-exchange
// share off the wire and answers in its OWN name (its address, its signature).
func (s *scene) helloRespByOther(x, z *world.Node) []byte {
	s.ms.W.Inflight = nil
	s.v.Rt.HelloPing.VerifExpire(x.ID.IP)
	_, _ = s.v.Rt.HelloPing.Send(x.ID.IP)
	var id uint64
	var req router.HelloPingRequest
	for _, fl := range s.ms.W.Inflight {
		md := msgData(fl.Data)
		var hdr router.PingHeader
		if len(md) > 2 && cbor.Unmarshal(md[2:2+int(md[1])], &hdr) == nil && hdr.PingType == "hello" {
			id = hdr.PingID
			_ = cbor.Unmarshal(md[2+int(md[1]):], &req)
		}
	}
	s.ms.W.Inflight = nil
	if id == 0 {
		tmp := state.NewEncryptionSession()
		req.KeyExchange, req.KeyExchangeType, _ = tmp.InitKeyClientStart()
		id = s.rng.Uint64() | 1
	}
	es := state.NewEncryptionSession()
	kx, kxt, err := es.InitKeyServer(req.KeyExchange, req.KeyExchangeType)
	if err != nil {
		panic(err)
	}
	return s.ping(z, z, frame.RouterPing, "hello", 0, true, id, &router.HelloPingResponse{KeyExchange: kx, KeyExchangeType: kxt, MTU: 1300})
}

// genuinePing builds the ping of the given type as router x would send it to the victim.
func (s *scene) genuinePing(t string, from, claim *world.Node) []byte {
	r4 := s.node(4).ID.IP
	switch t {
	case "hello-req":
		es := state.NewEncryptionSession()
		kx, kxt, _ := es.InitKeyClientStart()
		return s.ping(from, claim, frame.RouterPing, "hello", 0, false, s.rng.Uint64()|1, &router.HelloPingRequest{KeyExchange: kx, KeyExchangeType: kxt, MTU: 1300})
	case "hello-resp":
		// the victim has an exchange open towards claim: answer it
		s.ms.W.Inflight = nil
		if !s.lost {
			_, _ = s.v.Rt.HelloPing.Send(claim.ID.IP)
		} // else: the answer to an exchange the victim no longer has (opening one would re-create the session)
		var id uint64
		var req router.HelloPingRequest
		for _, fl := range s.ms.W.Inflight {
			md := msgData(fl.Data)
			var hdr router.PingHeader
			if len(md) > 2 && cbor.Unmarshal(md[2:2+int(md[1])], &hdr) == nil && hdr.PingType == "hello" {
				id = hdr.PingID
				_ = cbor.Unmarshal(md[2+int(md[1]):], &req)
			}
		}
		s.ms.W.Inflight = nil
		if id == 0 {
			// the victim could not send a request (no route): answer an exchange that does not exist
			tmp := state.NewEncryptionSession()
			req.KeyExchange, req.KeyExchangeType, _ = tmp.InitKeyClientStart()
			id = s.rng.Uint64() | 1
		}
		es := state.NewEncryptionSession()
		kx, kxt, err := es.InitKeyServer(req.KeyExchange, req.KeyExchangeType)
		if err != nil {
			panic(err)
		}
		return s.ping(from, claim, frame.RouterPing, "hello", 0, true, id, &router.HelloPingResponse{KeyExchange: kx, KeyExchangeType: kxt, MTU: 1300})
	case "pong-req":
		return s.ping(from, claim, frame.RouterPing, "pong", 0, false, s.rng.Uint64()|1, &pongMsg{"ping"})
	case "pong-resp":
		return s.ping(from, claim, frame.RouterPing, "pong", 0, true, s.rng.Uint64()|1, &pongMsg{"pong"})
	case "err-generic":
		return s.ping(from, claim, frame.RouterPing, "error", 0, false, s.rng.Uint64()|1, "something failed")
	case "err-unreachable":
		return s.ping(from, claim, frame.RouterPing, "error", 1, false, s.rng.Uint64()|1, &unreachableMsg{r4})
	case "err-nokeys":
		return s.ping(from, claim, frame.RouterPing, "error", 2, false, s.rng.Uint64()|1, nil)
	case "err-denied":
		return s.ping(from, claim, frame.RouterCtrl, "error", 3, false, s.rng.Uint64()|1, &deniedMsg{r4, 6, 80})
	case "err-rejected":
		return s.ping(from, claim, frame.RouterCtrl, "error", 4, false, s.rng.Uint64()|1, &deniedMsg{r4, 6, 80})
	case "disconnect-down":
		return s.ping(from, claim, frame.RouterPing, "disconnect", 0, false, s.rng.Uint64()|1, &router.DisconnectPingMsg{GoingDown: true})
	case "disconnect-list":
		return s.ping(from, claim, frame.RouterPing, "disconnect", 0, false, s.rng.Uint64()|1, &router.DisconnectPingMsg{Disconnected: []netip.Addr{r4}})
	case "announce":
		s.ms.W.Inflight = nil
		time.Sleep(2 * time.Millisecond)
		_ = from.Rt.AnnouncePing.Send(s.v.ID.IP)
		var out []byte
		for _, fl := range s.ms.W.Inflight {
			if fl.To == s.v {
				out = fl.Data
			}
		}
		s.ms.W.Inflight = nil
		if out == nil {
			panic("no announcement captured")
		}
		if claim != from {
			out = append([]byte(nil), out...)
			a := claim.ID.IP.As16()
			copy(out[16:32], a[:])
		}
		return out
	}
	panic("type " + t)
}

// hdrLen returns the length of the ping header inside the message (for
// encrypted frames the message is ciphertext: split it in halves instead).
func hdrLen(data []byte) int {
	md := msgData(data)
	if frame.MessageType(data[4]).IsEncrypted() || len(md) < 2 || 2+int(md[1]) >= len(md) {
		return len(md)/2 - 2
	}
	return int(md[1])
}

func msgData(data []byte) []byte {
	mi := 49 + int(data[48])
	ml := int(data[mi])<<8 | int(data[mi+1])
	if mi+2+ml > len(data) {
		return nil
	}
	return data[mi+2 : mi+2+ml]
}

// learnThroughHops lets origin announce itself to the victim and dresses the announcement with the hop records of the
// given relays (outermost first), each made and signed by that relay for exactly this announcement; it is delivered
// over the link of the outermost relay.
func (s *scene) learnThroughHops(origin *world.Node, relays []*world.Node) {
	out := s.hopAnnouncement(origin, relays)
	res, err := s.ms.W.DeliverRaw(relays[0], s.v, out)
	if err != nil {
		panic(fmt.Sprintf("learnThroughHops: the genuine announcement was refused: %v", err))
	}
	for _, h := range res {
		if e := h.HandlerErr(); e != "" {
			panic("learnThroughHops: the genuine announcement was refused: " + e)
		}
	}
	s.ms.W.Inflight = nil
}

// hopAnnouncement: a fresh announcement of origin to the victim with genuine hop records of the relays (outermost
// first; relays[0] is the peer that delivers it), as bytes.
func (s *scene) hopAnnouncement(origin *world.Node, relays []*world.Node) []byte {
	s.ms.W.Inflight = nil
	time.Sleep(2 * time.Millisecond)
	_ = origin.Rt.AnnouncePing.Send(s.v.ID.IP)
	var fr []byte
	for _, fl := range s.ms.W.Inflight {
		if fl.To == s.v && fl.From == origin {
			fr = append([]byte(nil), fl.Data...)
		}
	}
	s.ms.W.Inflight = nil
	if fr == nil {
		panic("hopAnnouncement: no announcement captured")
	}
	mi := 49 + int(fr[48])
	ml := int(fr[mi])<<8 | int(fr[mi+1])
	authFrom := mi + 2 + ml
	ctx := make([]byte, 16+8+64)
	copy(ctx[:16], fr[16:32])
	copy(ctx[16:24], fr[8:16])
	copy(ctx[24:], fr[authFrom:authFrom+64])
	var inner []byte
	for i := len(relays) - 1; i >= 0; i-- {
		at := router.AnnouncePingAttachment{Router: relays[i].ID.PublicAddress, Delay: uint16(3 + i), ForwardLabel: m.SwitchLabel(70 + i), ReturnLabel: m.SwitchLabel(80 + i), NextAttachment: inner}
		if i == 0 {
			at.ReturnLabel = relays[0].LinkTo(s.v).SwitchLabel()
		}
		body, err := cbor.Marshal(at)
		if err != nil {
			panic(err)
		}
		sig, err := relays[i].ID.SignWithContext(body, ctx)
		if err != nil {
			panic(err)
		}
		inner = append(body, sig...)
	}
	s.ms.W.Inflight = nil
	return append(append([]byte(nil), fr[:authFrom+64]...), inner...)
}

// deliverFrom picks the link the frame arrives on: the claimed source if it is a peer, else peer 1.
func (s *scene) via(x int) *world.Node {
	if x >= 1 && x <= 3 {
		return s.node(x)
	}
	return s.node(1)
}

func main() { vf.Main("C07", "model_checking", run) }

func run(c *vf.Ctx) {
	c.Rule("M: TLC enumerates 12 ping types x 12 variants x claimed source x routing tables (all subsets of a 9-route catalogue with <= 4 entries for disconnects): 5835 cases, each with the only state change the property allows. R: every non-disconnect case and a seeded sample of the disconnect cases (thorough: all) built with the real peers' stacks, altered per variant (random authenticated byte/bit), delivered to a real victim with 3 peers, a gossip-known router and an unknown router; before/after snapshots of keys, MTU, routes, connection states, stored info, offline flags and stored records. R-lost: the same pings (action LostCase of the model: type x variant x claimed source x routers that said good-bye x kind of loss) after genuine good-byes set offline flags and the victim lost session objects - ticks of the real session cleaner after idle time, or a restart of the state manager on its reloaded JSON state file; the snapshot before the ping looks at no session believed lost; incl. a genuine announcement dressed with a forged hop record naming a router that said good-bye. R-atonce (action AtOnceCase of the model: two ping types x copies x unknown router x why it is unknown x an announcement whose hop record introduces it): the victim has no record and no session of router X (never heard of it, or restarted without its state file) when a burst arrives - verbatim copies of one or two genuine pings of X, possibly an announcement of another peer that travelled through X - that as many real router workers work on at the same moment (the victim's storage yields / takes some 100 us / a few ms per query); snapshots before and after the burst against what the distinct authentic pings allow once each, hello requests answered more than once counted; afterwards every ping of the burst again, one at a time (a replay). T: all observations judged by TLC. distinct = distinct (type, variant, source, table)")
	c.Assume("signatures / AEAD unforgeable (also tested by the flips)", "error pings are rate limited per (code, source) for 10 s: every case runs on a fresh victim")

	mc, err := c.TLC("ControlPlane", "ControlPlane_MC.cfg", vf.TLCOpts{Workers: 1, Timeout: 10 * time.Minute})
	if err != nil {
		c.Fatal("M: %v", err)
	}
	if mc.Violated != "" {
		c.Broken("M: %s violated in the model", mc.Violated)
	}
	c.AddModel(mc.Distinct, mc.Generated)
	var cases, lostCases, atOnceCases []act
	for _, e := range mc.Edges {
		var a act
		if json.Unmarshal(e.Act, &a) != nil {
			continue
		}
		switch a.Name {
		case "case":
			cases = append(cases, a)
		case "lost":
			lostCases = append(lostCases, a)
		case "atonce":
			atOnceCases = append(atOnceCases, a)
		}
	}
	c.Stage("M", map[string]any{"cases": len(cases), "lost_cases": len(lostCases), "atonce_cases": len(atOnceCases)})
	rng := rand.New(rand.NewSource(c.Seed))
	// all non-disconnect cases; disconnect cases sampled in quick
	var sel []act
	var disc []act
	for _, a := range cases {
		if a.Type == "disconnect-down" || a.Type == "disconnect-list" {
			disc = append(disc, a)
		} else {
			sel = append(sel, a)
		}
	}
	rng.Shuffle(len(disc), func(i, j int) { disc[i], disc[j] = disc[j], disc[i] })
	if lim := c.Pick(250, 1000000); len(disc) > lim {
		disc = disc[:lim]
	}
	sel = append(sel, disc...)
	c.Logf("M: %d cases, %d selected", len(cases), len(sel))

	var events []any
	for ci, a := range sel {
		s := newScene(rng, a.Table)
		x := s.node(a.Src)
		var data []byte
		from := s.via(a.Src)
		note := ""
		flip := func(d []byte, lo, hi int) {
			o := lo + rng.Intn(hi-lo)
			b := rng.Intn(8)
			d[o] ^= 1 << b
			note = fmt.Sprintf("byte %d bit %d", o, b)
		}
		pre := func() {}
		switch a.Variant {
		case "genuine", "first-genuine":
			data = s.genuinePing(a.Type, x, x)
		case "transit":
			data = s.genuinePing(a.Type, x, x)
			data[1] = byte(2 + rng.Intn(200))
			data[2] ^= byte(1 + rng.Intn(7))
		case "flip-header":
			data = s.genuinePing(a.Type, x, x)
			offs := []int{3, 4, 5, 6, 7, 8, 9, 10, 11, 12, 13, 14, 15, 48}
			for i := 16; i < 48; i++ {
				offs = append(offs, i)
			}
			mi := 49 + int(data[48])
			offs = append(offs, mi, mi+1)
			o := offs[rng.Intn(len(offs))]
			b := rng.Intn(8)
			data[o] ^= 1 << b
			note = fmt.Sprintf("header byte %d bit %d", o, b)
		case "flip-pinghdr":
			data = s.genuinePing(a.Type, x, x)
			mi := 49 + int(data[48]) + 2
			flip(data, mi, mi+2+hdrLen(data))
		case "flip-body":
			data = s.genuinePing(a.Type, x, x)
			mi := 49 + int(data[48]) + 2
			md := msgData(data)
			lo := mi + 2 + hdrLen(data)
			if lo >= mi+len(md) {
				lo = mi + len(md) - 1
			}
			flip(data, lo, mi+len(md))
		case "flip-sig":
			data = s.genuinePing(a.Type, x, x)
			mi := 49 + int(data[48]) + 2
			md := msgData(data)
			auth := 64
			if frame.MessageType(data[4]).IsEncrypted() {
				auth = 16
			}
			flip(data, mi+len(md), mi+len(md)+auth)
		case "src-rewritten":
			data = s.genuinePing(a.Type, x, x)
			other := s.node(a.Src%3 + 1)
			o := other.ID.IP.As16()
			copy(data[16:32], o[:])
			note = "source replaced by router " + fmt.Sprint(a.Src%3+1)
		case "dst-rewritten":
			data = s.genuinePing(a.Type, x, x)
			o := s.node(4).ID.IP.As16()
			copy(data[32:48], o[:])
		case "resealed":
			z := s.node(a.Src%3 + 1)
			if a.Type == "announce" {
				data = s.genuinePing(a.Type, z, x)
			} else {
				data = s.genuinePing(a.Type, z, x) // built and sealed by Z, claiming X
			}
			note = "sealed by router " + fmt.Sprint(a.Src%3+1)
		case "replayed":
			g1 := s.genuinePing(a.Type, x, x)
			time.Sleep(2 * time.Millisecond)
			g2 := s.genuinePing(a.Type, x, x)
			pre = func() {
				_, _ = s.ms.W.DeliverRaw(from, s.v, g1)
				_, _ = s.ms.W.DeliverRaw(from, s.v, g2)
			}
			data = g1
		case "replayed-after-rekey":
			g1 := s.genuinePing(a.Type, x, x)
			time.Sleep(2 * time.Millisecond)
			g2 := s.genuinePing(a.Type, x, x)
			pre = func() {
				_, _ = s.ms.W.DeliverRaw(from, s.v, g1)
				_, _ = s.ms.W.DeliverRaw(from, s.v, g2)
				// the victim starts a hello exchange with X and X's genuine answer completes it
				if a.Src >= 1 && a.Src <= 3 {
					s.ms.W.Inflight = nil
					_, _ = s.v.Rt.HelloPing.Send(x.ID.IP)
					for round := 0; round < 4 && s.ms.W.NInflight() > 0; round++ {
						for s.ms.W.NInflight() > 0 {
							fl := s.ms.W.Take(0)
							if (fl.From == s.v && fl.To == x) || (fl.From == x && fl.To == s.v) {
								_, _ = s.ms.W.Deliver(fl)
							}
						}
					}
					note = "after a hello exchange the victim started"
				}
			}
			data = g1
		case "resealed-after-hop-learning":
			z := s.node(a.Src%3 + 1)
			if a.Src == 5 {
				// the victim first hears of router 5 as a relay in a genuine announcement of peer 3 that travelled
				// 3 -> 2 -> 5 -> 1 -> victim: records of 1 (outermost), 5 and 2, each signed by its router
				z = s.node(2)
				pre = func() { s.learnThroughHops(s.node(3), []*world.Node{s.node(1), x, z}) }
				note = "router 5 learnt from a hop record; ping sealed by the next deeper relay, router 2"
			}
			data = s.genuinePing(a.Type, z, x)
		case "forged-at-newest-stamp":
			// X's newest signed frame is on record at the victim; Z makes a hop ping claiming X with exactly that stamp
			g1 := s.genuinePing("err-generic", x, x)
			pre = func() { _, _ = s.ms.W.DeliverRaw(from, s.v, g1) }
			z := s.node(a.Src%3 + 1)
			s.forceMT = frame.RouterHopPing
			data = append([]byte(nil), s.genuinePing(a.Type, z, x)...)
			s.forceMT = 0
			copy(data[8:16], g1[8:16])
			note = "hop ping made by router " + fmt.Sprint(a.Src%3+1) + " with the time stamp of X's newest frame"
		case "answered-by-another":
			// the victim's exchange is with X; router Z answers it in its own name
			zi := a.Src%3 + 1
			data = s.helloRespByOther(x, s.node(zi))
			from = s.via(zi)
			note = fmt.Sprintf("hello response of router %d, in its own name, echoing the ping ID of the victim's exchange with router %d", zi, a.Src)
		case "first-badkey":
			// a ping of the unknown router whose header carries the key of ANOTHER key pair
			y := s.node(4)
			data = s.genuinePing(a.Type, y, x) // header key and seal of router 4, source address of router 5
		}
		pre()
		if (a.Type == "disconnect-down" || a.Type == "disconnect-list") && ci%2 == 1 {
			// the victim's gossip routes have run out but the cleaner (every ten minutes) has not come by yet: they are
			// still in use, and a disconnect of X still only removes what mentions X
			s.v.RoutingTable().VerifAge(4 * time.Hour)
			note += " [the victim's gossip routes are past their expiry, not yet cleaned]"
		}
		s.ms.W.Inflight = nil
		before := s.snapshot()
		res, derr := s.ms.W.DeliverRaw(from, s.v, data)
		c.Eval(1)
		after := s.snapshot()
		panicked := false
		herr := ""
		for _, h := range res {
			if h.Panic {
				panicked = true
			}
			if e := h.HandlerErr(); e != "" {
				herr = e
			}
		}
		if derr != nil {
			herr = derr.Error()
		}
		ev := map[string]any{"ev": "case", "type": a.Type, "variant": a.Variant, "src": a.Src,
			"before": before.Routes, "after": after.Routes,
			"keys": diffKeys(before.Keys, after.Keys, emptyKeys), "mtu": diffKeys(before.MTU, after.MTU, 0),
			"conn": fmt.Sprint(before.Conn) != fmt.Sprint(after.Conn),
			"info": diffKeys(before.Info, after.Info, ""), "offline": diffKeys(before.Offline, after.Offline, false),
			"stored": diffKeys(before.Stored, after.Stored, false), "panic": panicked, "detail": note, "handler": herr}
		if ev["before"] == nil {
			ev["before"] = []route{}
		}
		events = append(events, ev)
		c.Distinct(fmt.Sprintf("%s|%s|%d|%v", a.Type, a.Variant, a.Src, a.Table))
		if ci%400 == 0 {
			c.Sample(ev)
		}
		_ = bytes.Equal
	}
	// R-lost: the same question after good-byes and a loss of session objects (cleaner / restart)
	events = append(events, lostStage(c, rng, lostCases)...)
	// R-atonce: first contact of an unknown router, the frames of a burst on several router workers at the same moment
	events = append(events, atOnceStage(c, rng, atOnceCases)...)

	rejectAt, inv, tres, err := c.TraceCheck("ControlPlane_Trace", "ControlPlane_Trace.cfg", events, vf.TLCOpts{Timeout: 30 * time.Minute, Heap: "8g"})
	if err != nil {
		c.Fatal("T: %v", err)
	}
	c.AddTraces(len(events))
	c.AddModel(tres.Distinct, tres.Generated)
	c.Stage("T", map[string]any{"events": len(events), "wall_s": tres.Wall.Seconds()})
	c.Logf("T: %d observations validated", len(events))
	evKey := func(ev map[string]any) string {
		if ev["ev"] == "lost" && ev["variant"] == "replayed-after-loss" {
			// one finding whatever the ping type, the kind of loss and the link: replay protection lives in the session object
			return "lost/replayed-after-session-loss"
		}
		if ev["ev"] == "lost" {
			return vf.Key("lost", ev["type"], ev["variant"])
		}
		if ev["ev"] == "atonce" {
			if n, _ := copiesEffective(ev); n > 1 {
				return "atonce/copies-of-one-ping-effective" // one finding whatever the burst
			}
			return vf.Key("atonce", "burst", ev["type"])
		}
		if ev["ev"] == "atonce-replay" {
			return vf.Key("atonce", "replayed-afterwards", ev["type"])
		}
		return vf.Key(ev["type"], ev["variant"])
	}
	for rejectAt > 0 || inv != "" {
		ev := events[rejectAt-1].(map[string]any)
		what := "state changed although the ping is not authentic as its source"
		if v := fmt.Sprint(ev["variant"]); v == "genuine" || v == "transit" || v == "first-genuine" {
			what = "an authentic ping changed more than its type allows"
		} else if v == "replayed-after-loss" {
			what = "a replayed ping changed state: the victim had received this very ping before it lost its session objects"
		} else if v == "forged-hop" {
			what = "a genuine announcement dressed with a hop record its named router never signed changed state of a router other than the announcing one"
		}
		hist := ""
		if ev["ev"] == "atonce" {
			hist = fmt.Sprintf("the victim has no record and no session of router %v (%s) when a burst arrives that as many router workers work on at the same moment - %s: ", ev["src"], ev["how"], burstText(ev))
			what = "the burst changed more than its distinct authentic pings allow once each"
			if n, txt := copiesEffective(ev); n > 1 {
				what = txt
			}
		} else if ev["ev"] == "atonce-replay" {
			hist = fmt.Sprintf("the victim met router %v for the first time (%s) in a burst that several router workers worked on at the same moment; afterwards, one frame at a time: ", ev["src"], ev["how"])
			what = "a replayed ping changed state: the victim had received this very ping in the burst"
		}
		if ev["panic"] == true {
			what = "the router worker panicked"
		}
		if ev["ev"] == "lost" {
			hist = fmt.Sprintf("after routers %v said good-bye (offline flag set) and the victim lost session objects (%s): ", ev["off"], ev["how"])
		}
		key := evKey(ev)
		c.Violation(key, fmt.Sprintf("%s%s ping, variant %s, claimed source %v (%v): %s - changed keys %v mtu %v routes %v->%v conn %v info %v offline %v stored %v",
			hist, ev["type"], ev["variant"], ev["src"], ev["detail"], what, ev["keys"], ev["mtu"], ev["before"], ev["after"], ev["conn"], ev["info"], ev["offline"], ev["stored"]), ev, nil)
		// continue with the rest of the observations; one with the same key would not be reported a second time
		rest := events[rejectAt:]
		events = events[:0:0]
		for _, e := range rest {
			if evKey(e.(map[string]any)) != key {
				events = append(events, e)
			}
		}
		if len(events) == 0 {
			break
		}
		rejectAt, inv, _, err = c.TraceCheck("ControlPlane_Trace", "ControlPlane_Trace.cfg", events, vf.TLCOpts{Timeout: 30 * time.Minute, Heap: "8g"})
		if err != nil {
			c.Fatal("T: %v", err)
		}
		if c.NViolations() > 8 {
			break
		}
	}
}
