// X01 - MeshChurn: a part of the specification that serves no listed
// property. The composition of link registry -> routing table, announcement
// flooding, route expiry and source-routed forwarding while links come and
// go is model-checked by TLC (NoRouteViaDeadLink, DataSafe, Heals), and
// TLC simulation walks are executed step by step on a real mesh of router
// stacks (real AddLink / RemoveLink, announce handlers, routing tables with
// ageing, switch and router workers). After every step the real tables are
// compared with the model's (drift) and the three questions are asked of the
// REAL state. Results are observations (explore/X01.json), not verdicts.
package main

import (
	"fmt"
	"math/rand"
	"net/netip"
	"os"
	"path/filepath"
	"reflect"
	"sort"
	"strings"
	"time"

	"github.com/fxamacker/cbor/v2"

	"github.com/mycoria/mycoria/m"
	"github.com/mycoria/mycoria/router"

	"verifharness/internal/mesh"
	"verifharness/internal/vf"
	"verifharness/internal/world"
)

type msg struct {
	O, K, From, To int
	Hops           []int
}

type run struct {
	c       *vf.Ctx
	ms      *mesh.Mesh
	stampK  map[int]map[int64]int
	flights map[int]msg // announcement flights
	dataFl  map[int]int // flight id -> source router of the data frame it carries
	replies map[int]bool
	annSent map[int]int
	steps   []string
	rng     *rand.Rand
	dataSrc int
	log     []string
}

func toInt(v any) int { n, _ := v.(int); return n }
func toInts(v any) []int {
	l, _ := v.([]any)
	out := []int{}
	for _, x := range l {
		out = append(out, toInt(x))
	}
	return out
}

func newRun(c *vf.Ctx, rng *rand.Rand, n int, edges [][2]int) *run {
	var es []mesh.Edge
	for _, e := range edges {
		es = append(es, mesh.Edge{A: e[0], B: e[1], LA: m.SwitchLabel(1 + rng.Intn(100)), LB: m.SwitchLabel(1 + rng.Intn(100))})
	}
	// labels at one router must differ
	used := map[int]map[m.SwitchLabel]bool{}
	for i := range es {
		for _, side := range []struct {
			n int
			l *m.SwitchLabel
		}{{es[i].A, &es[i].LA}, {es[i].B, &es[i].LB}} {
			if used[side.n] == nil {
				used[side.n] = map[m.SwitchLabel]bool{}
			}
			for used[side.n][*side.l] {
				*side.l = m.SwitchLabel(1 + rng.Intn(100))
			}
			used[side.n][*side.l] = true
		}
	}
	ms, err := mesh.New(n, es, mesh.Opts{})
	if err != nil {
		panic(err)
	}
	r := &run{c: c, ms: ms, stampK: map[int]map[int64]int{}, flights: map[int]msg{}, dataFl: map[int]int{}, replies: map[int]bool{}, annSent: map[int]int{}, rng: rng}
	ms.W.OnSend = func(fl *world.Flight) {
		a, err := ms.Decode(fl.Data)
		if err != nil {
			return
		}
		if a.IsAnn {
			if r.stampK[a.Origin] == nil {
				r.stampK[a.Origin] = map[int64]int{}
			}
			k, ok := r.stampK[a.Origin][a.Stamp]
			if !ok {
				k = len(r.stampK[a.Origin]) + 1
				r.stampK[a.Origin][a.Stamp] = k
			}
			hops := a.Hops
			if hops == nil {
				hops = []int{}
			}
			r.flights[fl.ID] = msg{O: a.Origin, K: k, Hops: hops, From: ms.ID(fl.From.ID.IP), To: ms.ID(fl.To.ID.IP)}
			return
		}
		if a.PingTyp == "pong" && !isFollowUp(fl.Data) {
			r.dataFl[fl.ID] = a.Origin
		} else {
			r.replies[fl.ID] = true // pong answers, error pings: not part of the model
		}
	}
	return r
}

func (r *run) tables() map[int][]string {
	out := map[int][]string{}
	for i := range r.ms.Nodes {
		var rows []string
		for _, e := range r.ms.Table(i + 1) {
			path := e.Path
			if e.Peer {
				path = []int{i + 1, e.Dst} // a peer route carries no hop list
			}
			rows = append(rows, fmt.Sprintf("%d:%v:%v", e.Dst, path, e.Peer))
		}
		sort.Strings(rows)
		out[i+1] = rows
	}
	return out
}

func modelTables(v any) map[int][]string {
	out := map[int][]string{}
	// table is printed as a sequence (function over 1..n) or as a :> function
	add := func(n int, set any) {
		var rows []string
		l, _ := set.([]any)
		for _, x := range l {
			e, _ := x.(map[string]any)
			rows = append(rows, fmt.Sprintf("%d:%v:%v", toInt(e["dst"]), toInts(e["path"]), e["peer"]))
		}
		sort.Strings(rows)
		out[n] = rows
	}
	switch t := v.(type) {
	case []any:
		for i, s := range t {
			add(i+1, s)
		}
	case map[string]any:
		for k, s := range t {
			var n int
			fmt.Sscan(k, &n)
			add(n, s)
		}
	}
	return out
}

func (r *run) find(mm msg) int {
	for i, fl := range r.ms.W.Inflight {
		x, ok := r.flights[fl.ID]
		if ok && x.O == mm.O && x.K == mm.K && x.From == mm.From && x.To == mm.To && reflect.DeepEqual(x.Hops, mm.Hops) {
			return i
		}
	}
	return -1
}

func (r *run) note(fl *world.Flight) {
	if os.Getenv("X01_DEBUG") == "" {
		return
	}
	f, err := r.ms.Node(1).Builder.ParseFrame(append([]byte(nil), fl.Data...), nil, 0)
	if err != nil {
		return
	}
	a, _ := r.ms.Decode(fl.Data)
	r.log = append(r.log, fmt.Sprintf("%d->%d src=%d dst=%d %v/%s stamp=%d", r.ms.ID(fl.From.ID.IP), r.ms.ID(fl.To.ID.IP), r.ms.ID(f.SrcIP()), r.ms.ID(f.DstIP()), f.MessageType(), a.PingTyp, f.SequenceTime().UnixMilli()%100000))
}

func (r *run) dropReplies() {
	for i := 0; i < r.ms.W.NInflight(); {
		if r.replies[r.ms.W.Inflight[i].ID] {
			r.ms.W.Take(i)
			continue
		}
		i++
	}
}

// dstOf returns the mesh id of the frame's destination address.
func (r *run) dstOf(data []byte) int {
	if len(data) < 48 {
		return 0
	}
	ip, _ := netip.AddrFromSlice(data[32:48])
	return r.ms.ID(ip)
}

func tailOf(s string) string {
	if len(s) > 120 {
		return s[len(s)-120:]
	}
	return s
}

// isFollowUp reports whether the frame is a ping answer.
func isFollowUp(data []byte) bool {
	if len(data) < 52 {
		return false
	}
	mi := 49 + int(data[48])
	if mi+2 > len(data) {
		return false
	}
	md := data[mi+2:]
	if len(md) < 3 || len(md) < 2+int(md[1]) {
		return false
	}
	var hdr router.PingHeader
	if cbor.Unmarshal(md[2:2+int(md[1])], &hdr) != nil {
		return false
	}
	return hdr.FollowUp
}

func main() { vf.Main("X01", "model_checking", run0) }

func run0(c *vf.Ctx) {
	c.Rule("M: TLC exhaustive on MeshChurn (triangle, 3 announcements per router one flood at a time, 1 link change, 2 ageing intervals, 1 data frame): NoRouteViaDeadLink, DataSafe, Heals. R: TLC simulation walks (quick 40 / thorough 600; up to 2 link changes, 3 intervals, 2 frames) executed on a real mesh; after every step the real routing tables are compared with the model's and the three questions are asked of the real state. Observations only.")
	res, err := c.TLC("MeshChurn_MC", "MeshChurn_MC.cfg", vf.TLCOpts{Workers: 12, Timeout: 20 * time.Minute, Heap: "10g"})
	if err != nil {
		c.Fatal("M: %v", err)
	}
	c.AddModel(res.Distinct, res.Generated)
	if res.Violated != "" {
		c.Violation("model/"+res.Violated, "the MeshChurn model itself violates "+res.Violated, res.ErrTrace, nil)
	}
	c.Logf("M: %d distinct states", res.Distinct)

	nWalks := c.Pick(40, 600)
	base := filepath.Join(c.Work, "w")
	if _, err := c.TLC("MeshChurn_MC", "MeshChurn_Sim.cfg", vf.TLCOpts{Workers: 1, Simulate: fmt.Sprintf("file=%s,num=%d", base, nWalks), Depth: 70, Seed: c.Seed, Timeout: 10 * time.Minute}); err != nil {
		c.Fatal("simulation: %v", err)
	}
	rng := rand.New(rand.NewSource(c.Seed))
	drift := map[string]int{}
	nSteps, nHealed, nData := 0, 0, 0
	var behaviours [][]map[string]any
	for wi := 0; wi < nWalks; wi++ {
		states, err := vf.SimWalk(fmt.Sprintf("%s_0_%d", base, wi), "act", "table", "edges", "sinceChurn", "churn", "inflight", "data")
		if err != nil || len(states) < 2 {
			continue
		}
		behaviours = append(behaviours, states)
	}
	// behaviours that end healed: TLC is asked to refute "never healed without link {a,b}" and its counterexample is one
	for _, t := range []string{"12", "23", "13"} {
		hr, err := c.TLC("MeshChurn_MC", "MeshChurn_Reach"+t+".cfg", vf.TLCOpts{Workers: 12, Timeout: 20 * time.Minute, Heap: "10g"})
		if err != nil {
			c.Fatal("reach %s: %v", t, err)
		}
		if hr.Violated == "" {
			c.Broken("no healed state without link %s is reachable in the model", t)
			continue
		}
		var states []map[string]any
		for _, txt := range hr.ErrTrace {
			st, err := vf.ParseState(txt, "act", "table", "edges", "sinceChurn", "churn", "inflight", "data")
			if err == nil {
				states = append(states, st)
			}
		}
		if len(states) > 2 {
			behaviours = append(behaviours, states)
			c.Logf("healing behaviour without link %s: %d states, last: sinceChurn=%v churn=%v act=%v", t, len(states), states[len(states)-1]["sinceChurn"], states[len(states)-1]["churn"], fmt.Sprintf("%v | raw tail: %q", states[len(states)-1]["act"], tailOf(hr.ErrTrace[len(hr.ErrTrace)-1])))
		}
	}
	for wi, states := range behaviours {
		r := newRun(c, rng, 3, [][2]int{{1, 2}, {2, 3}, {1, 3}})
		var hist []string
		for si, st := range states[1:] {
			a, _ := st["act"].(map[string]any)
			name, _ := a["name"].(string)
			step := name
			switch name {
			case "announce":
				o := toInt(a["o"])
				n := r.ms.Node(o)
				links := n.Peer.GetLinks()
				if len(links) > 0 {
					time.Sleep(2 * time.Millisecond)
					_ = n.Rt.AnnouncePing.Send(links[0].Peer())
				}
				step = fmt.Sprintf("announce(%d)", o)
			case "deliver":
				mmv, _ := a["m"].(map[string]any)
				mm := msg{O: toInt(mmv["o"]), K: toInt(mmv["k"]), From: toInt(mmv["from"]), To: toInt(mmv["to"]), Hops: toInts(mmv["hops"])}
				step = fmt.Sprintf("deliver(o=%d k=%d hops=%v %d->%d)=%v", mm.O, mm.K, mm.Hops, mm.From, mm.To, a["outcome"])
				i := r.find(mm)
				if i < 0 {
					drift["announcement-not-in-flight"]++
					hist = append(hist, step+" [no such real flight]")
					goto compare
				}
				fl0 := r.ms.W.Take(i)
				r.note(fl0)
				_, _ = r.ms.W.Deliver(fl0)
				r.dropReplies()
			case "linkdown":
				x, y := r.ms.Node(toInt(a["a"])), r.ms.Node(toInt(a["b"]))
				if l := x.LinkTo(y); l != nil {
					l.Close(nil)
				}
				if l := y.LinkTo(x); l != nil {
					l.Close(nil)
				}
				step = fmt.Sprintf("linkdown(%v,%v)", a["a"], a["b"])
			case "linkup":
				x, y := r.ms.Node(toInt(a["a"])), r.ms.Node(toInt(a["b"]))
				la, lb := m.SwitchLabel(101+rng.Intn(20)), m.SwitchLabel(101+rng.Intn(20))
				for x.Peer.GetLinkByLabel(la) != nil {
					la++
				}
				for y.Peer.GetLinkByLabel(lb) != nil {
					lb++
				}
				if _, _, err := r.ms.W.Connect(x, y, la, lb, 5); err != nil {
					drift["linkup-failed"]++
				}
				step = fmt.Sprintf("linkup(%v,%v)", a["a"], a["b"])
			case "ageall":
				for _, n := range r.ms.Nodes {
					n.RoutingTable().VerifAge(6 * time.Minute)
					n.RoutingTable().Clean()
				}
			case "senddata":
				s, d := toInt(a["s"]), toInt(a["d"])
				r.dataSrc = s
				step = fmt.Sprintf("senddata(%d->%d via %v)", s, d, toInts(a["path"]))
				seenBefore := map[int]bool{}
				for _, fl := range r.ms.W.Inflight {
					seenBefore[fl.ID] = true
				}
				if _, _, err := r.ms.Node(s).Rt.PingPong.Send(r.ms.Node(d).ID.IP, false, 0); err != nil {
					drift["send-refused"]++
					step += " [" + err.Error() + "]"
				}
				nData++
				{
					p := toInts(a["path"])
					emitted := false
					for _, fl := range r.ms.W.Inflight {
						if !seenBefore[fl.ID] && r.dataFl[fl.ID] == s && r.ms.ID(fl.From.ID.IP) == s {
							emitted = true
							if r.ms.ID(fl.To.ID.IP) != p[1] {
								drift["data-first-hop-differs"]++
								if os.Getenv("X01_DEBUG") != "" {
									fmt.Fprintf(os.Stderr, "FIRSTHOP %s real first hop %d, table of %d: %v; history %v\n", step, r.ms.ID(fl.To.ID.IP), s, r.tables()[s], hist)
								}
							}
						}
					}
					if !emitted {
						drift["data-not-emitted"]++
					}
				}
				if os.Getenv("X01_DEBUG") != "" {
					for _, fl := range r.ms.W.Inflight {
						a, _ := r.ms.Decode(fl.Data)
						fmt.Fprintf(os.Stderr, "  after %s: flight %d->%d type=%v ping=%q origin=%d data=%v reply=%v\n", step, r.ms.ID(fl.From.ID.IP), r.ms.ID(fl.To.ID.IP), a.Type, a.PingTyp, a.Origin, r.dataFl[fl.ID], r.replies[fl.ID])
					}
				}
			case "hop":
				f, _ := a["f"].(map[string]any)
				path, pos := toInts(f["path"]), toInt(f["pos"])
				outcome, _ := a["outcome"].(string)
				step = fmt.Sprintf("hop(%v at %d)=%s", path, path[pos-1], outcome)
				// the frame is on the link towards path[pos-1] (Go index) = the model's path[pos]
				var idx = -1
				{
					// several frames of one sender may be on the same link: the model's frames are told apart by their
					// stamps, the real ones by the order in which they were emitted
					rank := 0
					if prev, ok := states[si]["data"].([]any); ok {
						for _, g := range prev {
							gm, _ := g.(map[string]any)
							if toInt(gm["src"]) == toInt(f["src"]) && toInt(gm["dst"]) == toInt(f["dst"]) && toInt(gm["pos"]) == pos && toInt(gm["stamp"]) < toInt(f["stamp"]) {
								rank++
							}
						}
					}
					var cands []int
					for i, fl := range r.ms.W.Inflight {
						if r.dataFl[fl.ID] == path[0] && r.ms.ID(fl.To.ID.IP) == path[pos-1] && r.dstOf(fl.Data) == toInt(f["dst"]) {
							cands = append(cands, i)
						}
					}
					sort.Slice(cands, func(x, y int) bool { return r.ms.W.Inflight[cands[x]].ID < r.ms.W.Inflight[cands[y]].ID })
					if rank < len(cands) {
						idx = cands[rank]
					}
				}
				if idx < 0 {
					drift["data-frame-not-in-flight"]++
					goto compare
				}
				{
					fl := r.ms.W.Take(idx)
					r.note(fl)
					at := r.ms.ID(fl.To.ID.IP)
					before := r.ms.W.NInflight()
					hres, derr := r.ms.W.Deliver(fl)

					real := "dropped"
					if derr != nil && strings.Contains(derr.Error(), "no link") {
						real = "lost"
					}
					for _, x := range r.ms.W.Inflight[min(before, r.ms.W.NInflight()):] {
						if r.dataFl[x.ID] == path[0] {
							real = "forwarded"
							if pos < len(path) && r.ms.ID(x.To.ID.IP) != path[pos] {
								real = "rerouted"
							}
						}
					}
					if derr == nil && real == "dropped" && at == path[len(path)-1] {
						for _, h := range hres {
							if h.HandlerErr() == "" && !h.Panic {
								real = "delivered"
							} else if strings.Contains(h.HandlerErr(), "delayed frame") || strings.Contains(h.HandlerErr(), "duplicate frame") {
								real = "overtaken"
							}
						}
					}
					// DataSafe on the real system: delivered only at the destination
					if real == "delivered" && at != toInt(f["dst"]) {
						c.Violation("data-delivered-elsewhere", fmt.Sprintf("a frame for router %v was handled as delivered at router %d [%s]", f["dst"], at, strings.Join(hist, "; ")), hist, nil)
					}
					if real != outcome {
						if os.Getenv("X01_DEBUG") != "" {
							fmt.Fprintf(os.Stderr, "HOPDIFF %s real %s derr=%v hist=%v\n   delivered frames: %v\n", step, real, derr, hist, r.log)
							_ = hres
						}
						drift["data-"+outcome+"-vs-real-"+real]++
					}
					r.dropReplies()
				}
			}
		compare:
			hist = append(hist, step)
			nSteps++
			c.Eval(1)
			// (1) tables: model vs real
			mt, rt := modelTables(st["table"]), r.tables()
			if !reflect.DeepEqual(mt, rt) {
				drift["tables-differ-after-"+name]++
				if drift["tables-differ-after-"+name] <= 2 {
					c.Logf("tables differ after %s (walk %d step %d): model %v real %v", step, wi, si+1, mt, rt)
				}
				break // the rest of the walk would only repeat the difference
			}
			// (2) NoRouteViaDeadLink on the real state
			for i, n := range r.ms.Nodes {
				for _, e := range n.RoutingTable().VerifEntries() {
					if n.Peer.GetLink(e.NextHop) == nil {
						c.Violation("route-via-dead-link", fmt.Sprintf("router %d holds a route to %d whose next hop %d has no live link [%s]", i+1, r.ms.ID(e.DstIP), r.ms.ID(e.NextHop), strings.Join(hist, "; ")), hist, nil)
					}
				}
			}
			// (3) Heals on the real state
			quiet := true
			for _, fl := range r.ms.W.Inflight {
				if !r.replies[fl.ID] {
					quiet = false
				}
			}
			if quiet && toInt(st["sinceChurn"]) == 2 && toInt(st["churn"]) > 0 {
				nHealed++
				for i := range r.ms.Nodes {
					for _, e := range r.ms.Table(i + 1) {
						if e.Peer {
							continue
						}
						if len(e.Walk) != len(e.Path) || !reflect.DeepEqual(e.Walk, e.Path) {
							c.Violation("stale-route-after-healing", fmt.Sprintf("router %d still holds the route %v to %d, which is not a walk over live links (labels lead along %v) [%s]", i+1, e.Path, e.Dst, e.Walk, strings.Join(hist, "; ")), hist, nil)
						}
					}
				}
			}
		}
		c.Distinct(strings.Join(hist, ";"))
		if wi == 0 {
			c.Sample(hist)
		}
	}
	c.Extra("steps", nSteps)
	c.Extra("healed_states_checked", nHealed)
	c.Extra("data_frames", nData)
	c.Extra("drift", drift)
	c.AddTraces(len(behaviours))
	c.Logf("R: %d walks, %d steps, %d healed states, %d data frames; drift %v", nWalks, nSteps, nHealed, nData, drift)
}
