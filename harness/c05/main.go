// C05 - link layer after the handshake. Stage M: TLC on LinkLayer (4 frames,
// <= 2 wire faults of 10 kinds anywhere, reader with replay window and close
// threshold): OnlySent, OnceOnly, NothingAltered. Stage R: every fault plan of
// the model's graph is applied by the proxy to the REAL link frames of a REAL
// link between two real routers (both directions), with frames of all message
// types and sizes; after framing-breaking faults the sender keeps sending so
// that "keeps arriving or closed" can be judged. Stage T: what arrived at the
// remote frame handler, the closing state and the wire capture are judged by
// TLC (LinkLayer_Trace).
// Successor links: a link may have predecessors - earlier links between the
// SAME two router stacks (neither restarted), whose sealed frames the attacker
// kept. The model's fault prev-link puts one of them on the wire of the new
// link; the plans that contain it are run on chains of 2-3 links of one pair
// of routers (runOn / pair / succ) and judged by the same trace module.
// Old links: a link may have a long past - link sequence numbers next to the
// 2^32 wrap, where both ends change keys. The same plans are run on such links
// (old.go: age, wrapTrack; the last pass of R) and judged by the same module.
package main

import (
	"bytes"
	"encoding/json"
	"fmt"
	"math/rand"
	"net"
	"net/netip"
	"os"
	"sort"
	"strings"
	"sync"
	"sync/atomic"
	"time"

	"github.com/mycoria/mycoria/config"
	"github.com/mycoria/mycoria/frame"
	"github.com/mycoria/mycoria/m"
	"github.com/mycoria/mycoria/peering"
	"github.com/mycoria/mycoria/state"

	"verifharness/internal/linkworld"
	"verifharness/internal/mesh"
	"verifharness/internal/vf"
	"verifharness/internal/world"
)

type fault struct {
	Op    string `json:"op"`
	At    int    `json:"at"`
	After int    `json:"after"` // replay-late: the copy follows this frame
}

type act struct {
	Name  string `json:"name"`
	Op    string `json:"op"`
	At    int    `json:"at"`
	After int    `json:"after"`
}

var breaksFraming = map[string]bool{"flip-len": true, "truncate": true, "garbage-raw": true}

var msgTypes = []frame.MessageType{frame.RouterPing, frame.RouterCtrl, frame.RouterHopPing, frame.NetworkTraffic, frame.SessionCtrl, frame.SessionData}

type runner struct {
	c   *vf.Ctx
	rng *rand.Rand
	nUnsync, lostUnsync int // old links: runs in which an unauthenticated unit made the receiver change keys early; frames lost in them
	old *age // the links of the following runs are old (old.go); nil: young links, sequence numbers far from the wrap
}

// run sets up a real link, sends n frames from `dir` to its peer with the plan applied on the wire.
// scale > 1: every model frame stands for `scale` link frames of which only the first survives the wire (the
// adversary drops the rest), so that a distance of W model frames is W*scale sequence numbers - the real replay
// window of 64 is met exactly with the model's W = 2 and scale 32.
func (r *runner) run(plan []fault, dir string, n int, sizes []int, garbageLen int, scale int) (events []any, desc map[string]any) {
	return r.runOn(nil, plan, dir, n, sizes, garbageLen, scale)
}

// pair: two router stacks that outlive their links. The attacker keeps every link frame either of them sealed for the
// other on an earlier link (as it crossed the wire, before any fault was applied to it).
type pair struct {
	a, b   *world.Node
	da, db *linkworld.Drain
	recs   map[string][]prevRec // sealed by (name of the router) -> link frames, oldest first
	handed []prevRec            // the frames that were handed to the earlier links (to name a delivery; never a verdict)
	links  int                  // links these two have had so far
}

type prevRec struct {
	link int // 1-based number of the link between the two routers
	data []byte
}

func newPair() *pair {
	world.InstallLogCapture()
	w := world.NewWorld()
	ids := mesh.Identities(2)
	p := &pair{recs: map[string][]prevRec{}}
	p.a = w.NewNode("A", world.NodeOpts{ID: ids[0], Cfg: config.Store{}})
	p.b = w.NewNode("B", world.NodeOpts{ID: ids[1], Cfg: config.Store{}})
	p.da, p.db = linkworld.StartDrain(p.a), linkworld.StartDrain(p.b)
	return p
}

func (p *pair) stop() { p.da.Stop(); p.db.Stop() }

// succ describes one link in the life of a pair.
type succ struct {
	p        *pair
	swapped  bool // router B dials this time (A dialled the pair's first link unless that one was swapped as well)
	otherEnd bool // prev-link: the injected records were sealed by the RECEIVER of this direction (its own old frames come back to it)
	oldest   bool // prev-link: records of the oldest link on record instead of the latest
	closeBy  int  // how the link ends: 0 the dialler closes it, 1 the listener closes it, 2 the connection breaks
}

// runOn is run on a given pair of routers (sc == nil: a fresh pair that has never had a link).
func (r *runner) runOn(sc *succ, plan []fault, dir string, n int, sizes []int, garbageLen int, scale int) (events []any, desc map[string]any) {
	var pr *pair
	if sc != nil {
		pr = sc.p
	} else {
		pr = newPair()
		defer pr.stop()
	}
	// a is the router that dials, "A" the direction of the frames it sends
	a, b, da, db := pr.a, pr.b, pr.da, pr.db
	if sc != nil && sc.swapped {
		a, b, da, db = pr.b, pr.a, pr.db, pr.da
	}
	workers := [2]int{a.Peer.VerifWorkerCnt(), b.Peer.VerifWorkerCnt()}
	pr.links++
	// prev-link: which recorded frame goes in front of which unit is decided before the link exists
	prevPick := map[int][]byte{}
	prevDesc := []map[string]any{}
	for _, f := range plan {
		if f.Op != "prev-link" {
			continue
		}
		sealer := a
		if (dir == "B") != (sc != nil && sc.otherEnd) {
			sealer = b
		}
		pool := pr.recs[sealer.Name]
		if len(pool) == 0 {
			r.c.Broken("prev-link: the routers have no earlier link with frames sealed by %s", sealer.Name)
			return nil, map[string]any{"plan": plan}
		}
		want := pool[len(pool)-1].link
		if sc != nil && sc.oldest {
			want = pool[0].link
		}
		var of []prevRec
		for _, rec := range pool {
			if rec.link == want {
				of = append(of, rec)
			}
		}
		// the last frame of that link as often as any other: its sequence number is ahead of most of what the new link has seen
		rec := of[len(of)-1]
		if r.rng.Intn(2) == 0 {
			rec = of[r.rng.Intn(len(of))]
		}
		prevPick[f.At] = rec.data
		prevDesc = append(prevDesc, map[string]any{"before_frame": f.At, "recorded_on_link": rec.link, "sealed_by": sealer.Name, "bytes": len(rec.data)})
	}
	// faults by link-frame index (1-based, after the 3 handshake messages of the direction)
	byAt := map[int][]fault{}
	for _, f := range plan {
		byAt[f.At] = append(byAt[f.At], f)
	}
	var held []byte
	heldAt := 0
	swallow := map[int]bool{}
	copies := map[int][]byte{}     // replay-late: frame id -> its link frame
	replayAfter := map[int][]int{} // frame id -> ids to replay right behind it
	for _, f := range plan {
		if f.Op == "replay-late" {
			replayAfter[f.After] = append(replayAfter[f.After], f.At)
		}
	}
	var reverse [][]byte // link frames of the opposite direction, as they crossed the wire
	var revMu sync.Mutex
	// old links (old.go): the link has a past - its sequence numbers are next to the 2^32 wrap
	old := r.old
	if sc != nil {
		old = nil
	}
	h0 := 0 // frames the link carried right before the plan's frames (they are frames of this link like the others)
	var wt *wrapTrack
	var tapeAt atomic.Int32 // the attacker's tape (recorded frames of this link) is played in front of this frame
	var tapeRng *rand.Rand
	var histRec [][]byte
	if old != nil {
		h0 = old.hist
		wt = newWrapTrack()
		tapeRng = rand.New(rand.NewSource(r.rng.Int63()))
	}
	// the proxy hook runs on the proxy's goroutine while this goroutine draws payloads: it gets a generator of its own
	// (math/rand generators are not safe for concurrent use - two concurrent Reads of one generator can return the SAME
	// bytes, and raw garbage equal to a chunk of a payload looked like clear text on the wire: a false alarm, seed 2)
	hookRng := rand.New(rand.NewSource(r.rng.Int63()))
	inner := func(p *linkworld.Proxy, m linkworld.Msg) [][]byte {
		if m.Dir != dir && m.Idx > 3 {
			revMu.Lock()
			reverse = append(reverse, append([]byte(nil), m.Data...))
			revMu.Unlock()
		}
		if m.Dir != dir || m.Idx <= 3 {
			return nil
		}
		k := m.Idx - 3 - h0
		data := m.Data
		if k <= 0 {
			// the recent past of an old link: it crosses the wire untouched, the attacker keeps it
			histRec = append(histRec, append([]byte(nil), data...))
			wt.genuine(data, m.Idx-3)
			return nil
		}
		if scale > 1 && old != nil && k > n*scale {
			k = n + (k - n*scale) // what follows the plan's frames is not scaled
		} else if scale > 1 {
			if (k-1)%scale != 0 {
				wt.genuine(data, 0)
				return [][]byte{} // filler frames never reach the receiver
			}
			k = (k-1)/scale + 1
		}
		wt.genuine(data, h0+k)
		copies[k] = append([]byte(nil), data...)
		if swallow[k] {
			return [][]byte{}
		}
		if held != nil && k == heldAt+1 {
			out := [][]byte{data, held}
			held = nil
			return out
		}
		out := [][]byte{data}
		for _, f := range byAt[k] {
			if len(out) == 0 {
				break
			}
			d := append([]byte(nil), out[len(out)-1]...)
			switch f.Op {
			case "flip-hdr":
				d[2+hookRng.Intn(10)] ^= 1 << hookRng.Intn(8)
				out[len(out)-1] = d
			case "flip-body":
				if len(d) > 12+16 {
					d[12+hookRng.Intn(len(d)-28)] ^= 1 << hookRng.Intn(8)
				}
				out[len(out)-1] = d
			case "flip-mac":
				d[len(d)-1-hookRng.Intn(16)] ^= 1 << hookRng.Intn(8)
				out[len(out)-1] = d
			case "flip-len":
				d[hookRng.Intn(2)] ^= 1 << hookRng.Intn(8)
				out[len(out)-1] = d
			case "truncate":
				cut := 1 + hookRng.Intn(len(d)-3)
				out[len(out)-1] = d[:len(d)-cut]
			case "dup":
				out = append(out, append([]byte(nil), d...))
			case "swap":
				held, heldAt = d, k
				out = out[:len(out)-1]
			case "replay-late":
				// handled when the frame it follows passes
			case "drop":
				out = out[:len(out)-1]
			case "garbage-framed":
				g := make([]byte, garbageLen)
				hookRng.Read(g)
				g[0], g[1] = byte(len(g)>>8), byte(len(g))
				if old != nil {
					old.forgeSeq(g, data, hookRng) // a made-up frame carries the clear sequence number its maker likes
				}
				out = append([][]byte{g}, out...)
			case "reflect":
				revMu.Lock()
				if len(reverse) > 0 {
					out = append([][]byte{append([]byte(nil), reverse[len(reverse)-1]...)}, out...)
				}
				revMu.Unlock()
			case "prev-link":
				out = append([][]byte{append([]byte(nil), prevPick[k]...)}, out...)
			case "garbage-raw":
				g := make([]byte, 1+hookRng.Intn(200))
				hookRng.Read(g)
				out = append([][]byte{g}, out...)
			}
		}
		for _, id := range replayAfter[k] {
			if c := copies[id]; c != nil {
				out = append(out, append([]byte(nil), c...))
			}
		}
		if old != nil && int(tapeAt.Load()) == k {
			// the tape: frames of this link recorded earlier (the recent past and the plan's frames), oldest first
			pool := append([][]byte(nil), histRec...)
			for id := 1; id < k; id++ {
				if c := copies[id]; c != nil {
					pool = append(pool, c)
				}
			}
			var tape [][]byte
			for i, c := range pool {
				if tapeRng.Intn(len(pool)-i) < old.tape-len(tape) {
					tape = append(tape, append([]byte(nil), c...))
				}
			}
			out = append(tape, out...)
		}
		return out
	}
	hook := func(p *linkworld.Proxy, m linkworld.Msg) [][]byte {
		out := inner(p, m)
		if wt != nil && m.Dir == dir && m.Idx > 3 {
			if out == nil {
				wt.wire([][]byte{m.Data})
			} else {
				wt.wire(out)
			}
		}
		return out
	}
	res := linkworld.Connect(a, b, hook, 300*time.Millisecond)
	if sc != nil && (res.LinkA == nil || res.LinkB == nil) && a.Peer.GetLink(b.ID.IP) == nil && b.Peer.GetLink(a.ID.IP) == nil {
		// handshake messages carry a millisecond time sequence: a set-up that follows the previous one too closely is
		// refused on correct code as well - once more, later
		res.Proxy.Close()
		time.Sleep(120 * time.Millisecond)
		res = linkworld.Connect(a, b, hook, 300*time.Millisecond)
	}
	desc = map[string]any{"plan": plan, "dir": dir, "frames": n, "sizes": sizes, "garbage_len": garbageLen, "scale": scale}
	if sc != nil {
		desc["link_no"] = pr.links
		desc["dialler"] = a.Name
		desc["sender"] = map[string]string{"A": a.Name, "B": b.Name}[dir]
		desc["closed_by"] = []string{"dialler", "listener", "connection broke"}[sc.closeBy]
		if len(prevDesc) > 0 {
			desc["prev_link_records"] = prevDesc
		}
	}
	if res.LinkA == nil || res.LinkB == nil {
		r.c.Broken("link set-up failed: %v %v", res.ErrA, res.ErrB)
		return nil, desc
	}
	if sc != nil {
		// whatever the routers' earlier links delivered has arrived long ago (their workers had ended before this set-up began)
		for _, d := range []*linkworld.Drain{da, db} {
			d.Hold.Store(false)
			d.Take()
			d.TakeMismatches()
		}
	}
	from, to, link, drain := a, b, res.LinkA, db
	if dir == "B" {
		from, to, link, drain = b, a, res.LinkB, da
	}
	peerLink := res.LinkB
	if dir == "B" {
		peerLink = res.LinkA
	}
	if old != nil {
		// the link is old: both ends have sealed almost 2^32 link frames (or a multiple) for each other. Nobody can wait
		// for 4 billion frames, so the out counters of the two real link sessions are moved (state's exported test
		// helper); the receiving ends follow with the first frames they are sent, as they would have on the way there.
		desc["old"] = old.describe()
		sa, errA := linkSession(link)
		sb, errB := linkSession(peerLink)
		if errA != nil || errB != nil {
			r.c.Broken("old link: the link session of a real link cannot be reached: %v %v", errA, errB)
			for _, l := range []peering.Link{res.LinkA, res.LinkB} {
				l.Close(nil)
			}
			res.Proxy.Close()
			return nil, desc
		}
		(&state.EncryptionSessionTestHelper{EncryptionSession: sa}).ReglSetOut(uint32(0) - old.off - 1)
		if old.revOff > 0 {
			(&state.EncryptionSessionTestHelper{EncryptionSession: sb}).ReglSetOut(uint32(0) - old.revOff - 1)
		}
	}
	events = append(events, map[string]any{"ev": "link"})
	var revHanded [][]byte // frames handed to the link's opposite direction
	var revEvents []any    // old links: what the opposite (undisturbed) direction delivered, a trace segment of its own
	for _, f := range append([]fault{{Op: "successor"}}, plan...) {
		if f.Op != "reflect" && !(f.Op == "successor" && (sc != nil || old != nil)) {
			continue
		}
		// the receiver has traffic of its own (always when the routers may meet again: the attacker records both directions): n+4 frames in the opposite direction, recorded on the wire; their
		// sequence numbers are ahead of anything this direction will have seen when one of them is reflected
		otherDir := "B"
		if dir == "B" {
			otherDir = "A"
		}
		for i := 0; i < n+4; i++ {
			pl := make([]byte, 30+i)
			r.rng.Read(pl)
			rf, err := to.Builder.NewFrameV1(to.ID.IP, from.ID.IP, frame.NetworkTraffic, nil, pl, nil)
			if err != nil {
				panic(err)
			}
			if raw, err := rf.FrameDataWithMargins(0, 0); err == nil {
				revHanded = append(revHanded, append([]byte(nil), raw...))
			}
			_ = peerLink.Send(rf)
		}
		deadline := time.Now().Add(300 * time.Millisecond)
		for res.Proxy.NSent(otherDir) < 3+n+4 && time.Now().Before(deadline) {
			time.Sleep(100 * time.Microsecond)
		}
		if res.Proxy.NSent(otherDir) < 3+n+4 {
			r.c.Broken("%s: the opposite direction carried only %d link frames", f.Op, res.Proxy.NSent(otherDir)-3)
		}
		if old != nil {
			// nothing disturbs that direction: each of its frames arrives, once and unchanged - also when its sequence
			// numbers wrap on the way (revOff < n+4)
			back := da
			if dir == "B" {
				back = db
			}
			back.WaitN(len(revHanded), 1500*time.Millisecond)
			revEvents = append(revEvents, map[string]any{"ev": "link"})
			for _, g := range back.Take() {
				id := 0
				for i, s := range revHanded {
					if bytes.Equal(g, s) {
						id = i + 1
					}
				}
				revEvents = append(revEvents, map[string]any{"ev": "delivered", "id": id, "identical": id != 0, "note": "opposite direction of the link"})
			}
			revEvents = append(revEvents, map[string]any{"ev": "end", "sent": len(revHanded), "touched": []int{}, "breaks": false, "unsync": false,
				"closed": link.IsClosing() || peerLink.IsClosing(), "stalled": false, "resumed": false, "clear": false, "note": "opposite direction of the link"})
		}
		break
	}
	dirty := len(plan) == 0 || r.rng.Intn(3) == 0
	strangers := len(plan) == 0 || r.rng.Intn(4) == 0
	if strangers {
		drain.Hold.Store(true) // and the receiver's frame handler takes its time
	}
	var sent [][]byte
	var payloads [][]byte
	bigMode := false
	smallMode := false
	noProgress := 0
	realSent := 0
	filler := false
	send := func(i int) {
		size := sizes[i%len(sizes)]
		if bigMode {
			size = 10000
		}
		if smallMode {
			size = 24 + i%40
		}
		mt := msgTypes[(i+len(plan))%len(msgTypes)]
		if scale > 1 {
			mt = frame.NetworkTraffic // one sequence space for all frames of a scaled run
			if filler {
				size = 1
			}
		}
		payload := make([]byte, size)
		r.rng.Read(payload)
		var apx []byte
		if (i%3 == 2 || bigMode) && !smallMode {
			apx = make([]byte, sizes[(i+1)%len(sizes)])
			if bigMode {
				apx = make([]byte, 10000)
			}
			r.rng.Read(apx)
		}
		if strangers && !filler && i < 3 {
			// history on the RECEIVER: strangers at its listener whose first frame is well-formed up to the header but
			// names a switch block or a message longer than the frame itself
			for k := 0; k < 4; k++ {
				brokenHandshake(to, r.rng)
			}
		}
		if dirty && !filler {
			// history on the RECEIVER: frame constructions that are refused (oversized message), on enough goroutines
			// that every scheduler slot has seen one - the link reader parses its next frame into whatever the pool holds
			var wg sync.WaitGroup
			for g := 0; g < 48; g++ {
				wg.Add(1)
				go func() {
					defer wg.Done()
					if rf, err := to.Builder.NewFrameV1(netip.MustParseAddr("fd00:1111::1"), netip.MustParseAddr("fd00:2222::2"), frame.SessionData, nil, make([]byte, 10001), nil); err == nil {
						rf.ReturnToPool()
					}
				}()
			}
			wg.Wait()
		}
		f, err := from.Builder.NewFrameV1(from.ID.IP, to.ID.IP, mt, nil, payload, apx)
		if err != nil {
			panic(err)
		}
		raw, _ := f.FrameDataWithMargins(0, 0)
		if !filler {
			sent = append(sent, append([]byte(nil), raw...))
			payloads = append(payloads, payload)
		}
		realSent++
		if mt.IsPriority() {
			_ = link.SendPriority(f)
		} else {
			_ = link.Send(f)
		}
		r.c.Eval(1)
		// the writer prefers the priority queue: wait until this frame crossed the proxy so that
		// link-frame indexes follow the order of sending
		deadline := time.Now().Add(150 * time.Millisecond)
		for res.Proxy.NSent(dir) < 3+realSent && time.Now().Before(deadline) && !link.IsClosing() {
			time.Sleep(100 * time.Microsecond)
		}
		if res.Proxy.NSent(dir) < 3+realSent {
			noProgress++ // the receiving end does not take bytes off the wire any more
		} else {
			noProgress = 0
		}
	}
	if old != nil {
		// the recent past: h0 frames that cross the wire untouched and put the receiver where the sender is
		for i := 0; i < h0; i++ {
			send(i)
		}
		drain.WaitN(h0, 400*time.Millisecond)
	}
	for i := 0; i < n; i++ {
		send(i)
		if scale > 1 {
			filler = true
			for k := 1; k < scale; k++ {
				send(i)
			}
			filler = false
		}
	}
	if held != nil { // a swap at the last frame: release it with one more frame
		send(n)
	}
	if old != nil && old.tape > 0 {
		// one more frame; in front of it the attacker plays its tape
		tapeAt.Store(int32(len(sent) - h0 + 1))
		send(len(sent))
	}
	breaks := false
	touched := []int{}
	lastFault := 0
	for _, f := range plan {
		if breaksFraming[f.Op] {
			breaks = true
		}
		if f.Op != "dup" && f.Op != "garbage-framed" && f.Op != "garbage-raw" && f.Op != "swap" && f.Op != "reflect" && f.Op != "prev-link" {
			touched = append(touched, h0+f.At)
		}
		if h0+f.At > lastFault {
			lastFault = h0 + f.At
		}
	}
	time.Sleep(30 * time.Millisecond)
	unsync, late := wt.result()
	// a frame sealed before the sender's wrap that reaches the receiver behind a frame sealed after it belongs to a key the
	// receiver has left: reordering across the wrap is outside the claim (C15), such a frame counts as touched
	touched = append(touched, late...)
	closed := peerLink.IsClosing()
	resumed := false
	check := func() {
		for _, g := range drainPeek(drain) {
			for i := lastFault; i < len(sent); i++ {
				if bytes.Equal(g, sent[i]) {
					resumed = true
				}
			}
		}
	}
	if breaks {
		// keep sending until deliveries resume or the link closes (bounded)
		bigMode = true // ~20 kB per frame: 100 misread garbage frames need a few MB of traffic
		for k := 0; k < 600 && !closed && !resumed && noProgress < 4 && !link.IsClosing(); k++ {
			send(len(sent))
			if k%10 == 9 {
				time.Sleep(5 * time.Millisecond)
				check()
				closed = peerLink.IsClosing()
			}
		}
		time.Sleep(50 * time.Millisecond)
		check()
		closed = peerLink.IsClosing() || link.IsClosing()
	}
	if unsync && !breaks {
		// a well-framed unit that nobody authenticated carried a clear sequence number <= 255 while the receiver was within
		// 256 of the wrap: In() takes it for the sender's wrap and moves to the next key before it looks at the MAC (known,
		// DESIGN 5 "ForgedTrigger"). What the sender seals until its own wrap is lost, then the two agree again - or the
		// reader has counted 100 bad frames and closed the link. Judged like a framing break: closed, or deliveries resume.
		smallMode = true
		for k := 0; k < 400 && !closed && !resumed && noProgress < 4 && !link.IsClosing(); k++ {
			send(len(sent))
			if k%10 == 9 {
				time.Sleep(2 * time.Millisecond)
				check()
				closed = peerLink.IsClosing()
			}
		}
		time.Sleep(50 * time.Millisecond)
		check()
		closed = peerLink.IsClosing() || link.IsClosing()
	}
	stalled := false
	if !breaks && !unsync && !closed {
		// every untouched frame must arrive: give the reader a moment, then look
		drain.WaitN(len(sent)-len(touched), 400*time.Millisecond)
	}
	got := drain.Take()
	for _, mm := range drain.TakeMismatches() {
		// what the handler sees IS the delivered frame: stale accessors make it another frame
		events = append(events, map[string]any{"ev": "delivered", "id": 0, "identical": false, "note": mm})
	}
	for _, g := range got {
		id := 0
		for i, s := range sent {
			if bytes.Equal(g, s) {
				id = i + 1
			}
		}
		dv := map[string]any{"ev": "delivered", "id": id, "identical": id != 0}
		if id == 0 {
			for _, h := range pr.handed {
				if bytes.Equal(g, h.data) {
					// names the delivery; the verdict is that it is no frame of THIS link
					dv["prev"] = true
					dv["note"] = fmt.Sprintf("byte-identical to a frame that was handed to link #%d between the same two routers, not to this link (#%d)", h.link, pr.links)
				}
			}
		}
		events = append(events, dv)
	}
	if (breaks || unsync) && !closed && !resumed {
		stalled = true
	}
	// clear text on the wire after the handshake?
	clear := false
	wire := res.Proxy.Raw(dir)
	chunks := map[[16]byte]struct{}{}
	for _, p := range payloads {
		for o := 0; o+16 <= len(p); o += 16 {
			chunks[[16]byte(p[o:o+16])] = struct{}{}
		}
	}
	for o := 0; o+16 <= len(wire); o++ {
		if _, hit := chunks[[16]byte(wire[o:o+16])]; hit {
			clear = true
			break
		}
	}
	if touched == nil {
		touched = []int{}
	}
	events = append(events, map[string]any{"ev": "end", "sent": len(sent), "touched": touched, "breaks": breaks, "unsync": unsync, "closed": closed,
		"stalled": stalled, "resumed": resumed, "clear": clear})
	events = append(events, revEvents...)
	desc["sent"] = len(sent)
	if old != nil {
		desc["unsync"] = unsync
		if unsync {
			r.nUnsync++
			nGot := 0
			for _, e := range events {
				if m, ok := e.(map[string]any); ok && m["ev"] == "delivered" && m["note"] == nil {
					nGot++
				}
			}
			r.lostUnsync += len(sent) - nGot
		}
	}
	if sc != nil {
		// the link goes down in one of three ways; the attacker keeps what the two ends sealed
		switch sc.closeBy {
		case 0:
			res.LinkA.Close(nil)
		case 1:
			res.LinkB.Close(nil)
		default:
			res.Proxy.Close()
		}
		for _, d := range []string{"A", "B"} {
			sealer := a
			if d == "B" {
				sealer = b
			}
			kept := 0
			for i := 3; i < res.Proxy.NSent(d) && kept < 64; i++ {
				if rec := res.Proxy.Sent(d, i+1, 0); rec != nil {
					pr.recs[sealer.Name] = append(pr.recs[sealer.Name], prevRec{pr.links, append([]byte(nil), rec...)})
					kept++
				}
			}
		}
		for _, s := range append(sent, revHanded...) {
			pr.handed = append(pr.handed, prevRec{pr.links, s})
		}
	}
	for _, n := range []*world.Node{a, b} {
		for _, l := range n.Peer.GetLinks() {
			l.Close(nil)
		}
	}
	res.Proxy.Close()
	if sc != nil {
		// the next link of the pair starts from routers at rest: no link registered, reader and writer workers ended
		deadline := time.Now().Add(3 * time.Second)
		atRest := func() bool {
			return a.Peer.GetLink(b.ID.IP) == nil && b.Peer.GetLink(a.ID.IP) == nil &&
				a.Peer.VerifWorkerCnt() <= workers[0] && b.Peer.VerifWorkerCnt() <= workers[1]
		}
		for !atRest() && time.Now().Before(deadline) {
			time.Sleep(200 * time.Microsecond)
		}
		if !atRest() {
			r.c.Broken("link #%d of the pair did not come to rest after it was closed (links %d/%d, workers %d/%d, before the link %v)", pr.links,
				len(a.Peer.GetLinks()), len(b.Peer.GetLinks()), a.Peer.VerifWorkerCnt(), b.Peer.VerifWorkerCnt(), workers)
		}
	}
	return events, desc
}

// brokenHandshake: somebody connects to n's listener and answers the peering request with a frame whose header is
// fine and whose inner lengths point beyond its end; the set-up fails.
func brokenHandshake(n *world.Node, rng *rand.Rand) {
	ca, cb := net.Pipe()
	url, _ := m.ParsePeeringURL("tcp://127.0.0.1:47369")
	done := make(chan struct{})
	go func() {
		defer close(done)
		if l, _ := n.Peer.VerifSetupLink(cb, url, false); l != nil {
			l.Close(nil)
		}
	}()
	go func() { // whatever the router says is read and ignored
		buf := make([]byte, 4096)
		for {
			_ = ca.SetReadDeadline(time.Now().Add(time.Second))
			if _, err := ca.Read(buf); err != nil {
				return
			}
		}
	}()
	raw := make([]byte, 48+3+20+rng.Intn(400))
	rng.Read(raw[5:])
	raw[0], raw[1], raw[2], raw[3], raw[4] = 1, 1, 0, 0, uint8(frame.RouterPing)
	if rng.Intn(2) == 0 {
		raw[48] = 0                   // no switch block,
		raw[49], raw[50] = 0xff, 0xf0 // a message of 65520 bytes
	} else {
		raw[48] = 0xff // a switch block of 255 bytes
	}
	out := append([]byte{byte((len(raw) + 2) >> 8), byte(len(raw) + 2)}, raw...)
	_ = ca.SetWriteDeadline(time.Now().Add(time.Second))
	_, _ = ca.Write(out)
	select {
	case <-done:
	case <-time.After(2 * time.Second):
	}
	_ = ca.Close()
	<-done
}

func drainPeek(d *linkworld.Drain) [][]byte {
	fr := d.Take()
	d.Put(fr)
	return fr
}

func main() { vf.Main("C05", "model_checking", run) }

func run(c *vf.Ctx) {
	c.Rule("M: TLC exhaustive: 4 frames, every placement of <= 2 faults out of {flip header / body / MAC / length, truncate, duplicate, swap, drop, well-framed garbage, raw garbage}, reader with replay window and close threshold. R: every distinct fault plan of the model graph (quick: seeded sample of 120; thorough: all) applied by a proxy to the real link frames of a real link, both directions, frames of all 6 message types with sizes 1..10000 (+ appendices), well-framed garbage of lengths 4..100; after framing-breaking faults up to 600 more frames of ~20 kB (12 MB) are sent. Successor links: the model's plans that contain prev-link (a link frame recorded on an earlier link between the same two routers, sealed by either end, alone or with a second fault) on chains of 2-3 real links between one pair of router stacks that is never restarted (quick: every single plan in both directions + a seeded sample, 28 chains; thorough: all), with who dials, how the earlier links ended and which record comes back varied. Old links: the model's plans on real links whose link sequence numbers are next to the 2^32 wrap where both ends change keys (out counters of the two real link sessions moved after the handshake, 2-4 untouched frames of recent past take the receiver there): the wrap behind the plan's frames / inside them / inside the recent past / the receiver entering the last 256 numbers during the plan; the opposite direction young, old or wrapping, judged as well; well-framed garbage with a chosen clear sequence number (<= 255 as after a wrap, the next genuine one, one of the last 256, random); a tape of 0-3 recorded frames of the link played back at the end; undisturbed crossings, every position of one made-up frame, seeded samples of single and two-fault plans, window-scaled plans (quick: ~80 links; thorough: all single plans, 600 two-fault plans, all scaled plans). T: deliveries, closing state and wire capture judged by TLC. distinct = distinct (plan, direction, garbage length)")
	c.Assume("ChaCha20-Poly1305 unforgeable", "'keeps arriving or closed' is judged after at most 600 further frames of ~20 kB (12 MB) and 50 ms",
		"old links: a link that has carried almost 2^32 frames is emulated by moving the out counters of its real link sessions (state.EncryptionSessionTestHelper) and letting the receivers follow; an unauthenticated unit with a clear sequence number <= 255 that reaches a receiver within 256 of the wrap makes the receiver change keys early (known, KeyRollover ForgedTrigger): frames up to the sender's wrap are lost - judged as 'closed or deliveries resume' within 400 further frames, reordering across the wrap counts as touching the late frame (C15)")

	mc, err := c.TLC("LinkLayer", "LinkLayer_MC.cfg", vf.TLCOpts{Workers: 8, Coverage: true, Timeout: 10 * time.Minute})
	if err != nil {
		c.Fatal("M: %v", err)
	}
	if mc.Violated != "" {
		c.Broken("M: %s violated in the model", mc.Violated)
	}
	c.AddModel(mc.Distinct, mc.Generated)
	d, err := c.TLC("LinkLayer", "LinkLayer_Dump.cfg", vf.TLCOpts{Workers: 1, Timeout: 10 * time.Minute})
	if err != nil {
		c.Fatal("dump: %v", err)
	}
	plans := enumPlans(d)
	keys := make([]string, 0, len(plans))
	for k, pl := range plans {
		ok := true
		for _, f := range pl {
			if f.At == 0 { // faults on garbage units have no frame index
				ok = false
			}
		}
		if ok {
			keys = append(keys, k)
		}
	}
	sort.Strings(keys)
	allKeys := append([]string(nil), keys...)
	if p := os.Getenv("VERIF_C05_PLANS"); p != "" {
		// maintenance aid: the fault plans of the model graph, one per line (to compare before / after a change of the model)
		_ = os.WriteFile(p, []byte(strings.Join(allKeys, "\n")+"\n"), 0o644)
		c.Fatal("VERIF_C05_PLANS is set: the fault plans were written to %s, nothing was checked", p)
	}
	c.Stage("M", map[string]any{"distinct": mc.Distinct, "fault_plans": len(keys)})
	c.Logf("M: %d states, %d fault plans", mc.Distinct, len(keys))
	rng := rand.New(rand.NewSource(c.Seed))
	rng.Shuffle(len(keys), func(i, j int) { keys[i], keys[j] = keys[j], keys[i] })
	if lim := c.Pick(120, 100000); len(keys) > lim {
		// keep every single-fault plan, sample the rest
		var single, multi []string
		for _, k := range keys {
			if len(plans[k]) == 1 {
				single = append(single, k)
			} else {
				multi = append(multi, k)
			}
		}
		keys = append(single, multi[:max(0, lim-len(single))]...)
	}
	r := &runner{c: c, rng: rng}
	sizeSets := [][]int{{1, 45, 600, 1500}, {10000, 1, 9000, 5000}, {2, 599, 1599, 5099}}
	var events []any
	var descs []map[string]any
	var starts []int
	scaleOf := 1
	nFrames := 4
	var chainOf *succ // the link is one in the life of a pair of routers (successor links); nil: a fresh pair per link
	// maintenance aid: VERIF_C05_ONLY=successor runs the successor-links pass alone; such a run is never a verdict (exit 2)
	onlySucc := os.Getenv("VERIF_C05_ONLY") == "successor"
	onlyOld := os.Getenv("VERIF_C05_ONLY") == "old" // the same for the old-links pass
	if onlySucc || onlyOld {
		keys = nil
		defer c.Broken("VERIF_C05_ONLY=%s: only that pass was run", os.Getenv("VERIF_C05_ONLY"))
	}
	runOne := func(pl []fault, dir string, glen int, sizes []int) bool {
		if (onlySucc && chainOf == nil) || (onlyOld && r.old == nil) {
			return false
		}
		t0 := time.Now()
		ev, desc := r.runOn(chainOf, pl, dir, nFrames, sizes, glen, scaleOf)
		if ev == nil {
			return false
		}
		if d := time.Since(t0); d > 2*time.Second || os.Getenv("VERIF_C05_DEBUG") != "" {
			last := ev[len(ev)-1]
			for _, e := range ev { // an old link has a second segment (its opposite direction): the end of the first is the link's
				if m, ok := e.(map[string]any); ok && m["ev"] == "end" {
					last = e
					break
				}
			}
			c.Logf("link %v dir=%s glen=%d took %v: %v %v %v", pl, dir, glen, d.Round(time.Millisecond), last, desc["prev_link_records"], desc["old"])
		}
		starts = append(starts, len(events))
		descs = append(descs, desc)
		events = append(events, ev...)
		if chainOf != nil {
			c.Distinct(fmt.Sprintf("%v|%s|%d|link %v dialled by %v|%v", pl, dir, glen, desc["link_no"], desc["dialler"], desc["prev_link_records"]))
		} else if r.old != nil {
			c.Distinct(fmt.Sprintf("%v|%s|%d|old %v", pl, dir, glen, desc["old"]))
		} else {
			c.Distinct(fmt.Sprintf("%v|%s|%d", pl, dir, glen))
		}
		return true
	}
	runOne(nil, "A", 28, sizeSets[0])
	runOne(nil, "B", 28, sizeSets[1])
	for i, k := range keys {
		dir := "A"
		if i%2 == 1 {
			dir = "B"
		}
		runOne(plans[k], dir, []int{28, 100, 12, 27, 4, 8, 11}[i%7], sizeSets[i%3])
		if i < 2 {
			c.Sample(descs[len(descs)-1])
		}
	}
	// undisturbed links carrying every frame length around the reader's buffer sizes (600, 1600, 5100, 9600 bytes on
	// the wire): payload lengths T-140..T-20 cover the exact fit for every message type (header, MAC or signature,
	// link frame header and MAC add 44..139 bytes); every frame must arrive
	for ti, T := range []int{600, 1600, 5100, 9600} {
		var exact []int
		for p := T - 140; p <= T-20; p++ {
			exact = append(exact, p)
		}
		nFrames = len(exact)
		runOne(nil, []string{"A", "B"}[ti%2], 28, exact)
		nFrames = 4
	}
	// well-framed garbage of every short length, on its own
	for _, gl := range []int{4, 5, 8, 11, 12, 13, 27, 28, 29, 64} {
		runOne([]fault{{"garbage-framed", 2, 0}}, "A", gl, sizeSets[0])
	}
	// window-scaled pass: the plans made of losses, copies and reorderings only, with every model frame standing
	// for 32 link frames: the model's window of 2 becomes the real window of 64 exactly
	scaleOf = 32
	nScaled := 0
	for i, k := range allKeys {
		only := true
		for _, f := range plans[k] {
			if f.Op != "drop" && f.Op != "dup" && f.Op != "swap" && f.Op != "replay-late" {
				only = false
			}
		}
		if !only {
			continue
		}
		nScaled++
		runOne(plans[k], []string{"A", "B"}[i%2], 28, []int{40, 41, 42, 43})
	}
	scaleOf = 1
	c.Extra("window_scaled_links", nScaled)
	// successor links: the SAME two routers (never restarted) have one or two links that carry traffic in both directions
	// and go down, then the link under attack: the model's plans that contain prev-link - a link frame recorded on an
	// earlier link, sealed by either end, in front of a frame of the new link, alone or with a second fault. Who dials,
	// how the earlier links ended, whether they were disturbed themselves and which record comes back vary.
	dp, err := c.TLC("LinkLayer", "LinkLayer_DumpPrev.cfg", vf.TLCOpts{Workers: 1, Timeout: 10 * time.Minute})
	if err != nil {
		c.Fatal("dump (successor links): %v", err)
	}
	var prevSingle, prevMulti []string
	pplans := enumPlans(dp)
	for k, pl := range pplans {
		has, ok := false, true
		for _, f := range pl {
			has = has || f.Op == "prev-link"
			ok = ok && f.At != 0
		}
		if has && ok && len(pl) == 1 {
			prevSingle = append(prevSingle, k)
		} else if has && ok {
			prevMulti = append(prevMulti, k)
		}
	}
	sort.Strings(prevSingle)
	sort.Strings(prevMulti)
	rng.Shuffle(len(prevMulti), func(i, j int) { prevMulti[i], prevMulti[j] = prevMulti[j], prevMulti[i] })
	if len(prevSingle) == 0 || len(prevMulti) == 0 {
		c.Broken("successor links: the model graph has no prev-link plans (%d single, %d with a second fault)", len(prevSingle), len(prevMulti))
	}
	var calm []string // plans an earlier link of a pair may have suffered itself: one loss, copy or reordering
	for _, k := range allKeys {
		if pl := plans[k]; len(pl) == 1 && (pl[0].Op == "drop" || pl[0].Op == "dup" || pl[0].Op == "swap") {
			calm = append(calm, k)
		}
	}
	type chain struct {
		plan                       string
		dir                        string
		firstB, swap, other, fixed bool
	}
	var chains []chain
	// every single prev-link plan, both directions, with all four (who dials now / whose old frames come back) settings
	// (quick: two of the four per plan and direction, all four over the four plans)
	for i := 0; i < len(prevSingle)*2*4; i++ {
		pi, di, combo := i%len(prevSingle), (i/len(prevSingle))%2, (i/(2*len(prevSingle))+i)%4
		if !c.Thorough() && i >= len(prevSingle)*2*2 {
			break
		}
		chains = append(chains, chain{plan: prevSingle[pi], dir: []string{"A", "B"}[di], swap: combo == 1 || combo == 3, other: combo == 1 || combo == 2, fixed: true})
	}
	for i := 0; i < len(prevMulti) && len(chains) < c.Pick(28, 1<<30); i++ {
		chains = append(chains, chain{plan: prevMulti[i], dir: []string{"A", "B"}[rng.Intn(2)], firstB: rng.Intn(3) == 0, swap: rng.Intn(3) == 0, other: rng.Intn(3) == 0})
	}
	nChainLinks, nChains := 0, 0
	tChains := time.Now()
	for ci, ch := range chains {
		if onlyOld {
			nChains = len(chains)
			break
		}
		pr := newPair()
		nBefore := 1
		if !ch.fixed && rng.Intn(3) == 0 {
			nBefore = 2
		}
		dialB := ch.firstB
		ok := true
		for k := 0; k < nBefore && ok; k++ {
			if k > 0 && rng.Intn(3) == 0 {
				dialB = !dialB
			}
			var pl []fault
			if !ch.fixed && len(calm) > 0 && rng.Intn(3) == 0 {
				pl = plans[calm[rng.Intn(len(calm))]]
			}
			chainOf = &succ{p: pr, swapped: dialB, closeBy: rng.Intn(3)}
			nFrames = 4 + rng.Intn(4)
			ok = runOne(pl, []string{"A", "B"}[rng.Intn(2)], 28, [][]int{{40, 300, 41, 1200}, {1, 700, 45, 2000}, {90, 33, 5000, 64}}[rng.Intn(3)])
			nFrames = 4
			if ok {
				nChainLinks++
				// the routers connect again a moment later (handshake messages carry a millisecond time sequence)
				time.Sleep(time.Duration(4+rng.Intn(12)) * time.Millisecond)
			}
		}
		if ok {
			if ch.swap {
				dialB = !dialB
			}
			chainOf = &succ{p: pr, swapped: dialB, otherEnd: ch.other, oldest: nBefore > 1 && rng.Intn(2) == 0, closeBy: rng.Intn(3)}
			if runOne(pplans[ch.plan], ch.dir, []int{28, 100, 12, 27, 4, 8, 11}[ci%7], sizeSets[ci%3]) {
				nChainLinks++
				nChains++
				if ci < 2 {
					c.Sample(descs[len(descs)-1])
				}
			}
		}
		chainOf = nil
		pr.stop()
	}
	if nChains < len(chains) {
		c.Broken("successor links: only %d of %d chains of links could be run to their end", nChains, len(chains))
	}
	c.Extra("successor_chains", nChains)
	c.Extra("successor_chain_links", nChainLinks)
	c.Logf("R: %d chains of successor links (%d links; the model has %d prev-link plans + %d with a second fault) in %v", nChains, nChainLinks, len(prevSingle), len(prevMulti), time.Since(tChains).Round(time.Millisecond))
	// old links (old.go): the same fault plans on links whose sequence numbers are next to the 2^32 wrap
	tOld := time.Now()
	nOld := 0
	oldRun := func(pl []fault, dir, class, gseq string, glen, n, scale int, sizes []int) {
		r.old = pickAge(rng, class, gseq, n, scale)
		nFrames, scaleOf = n, scale
		if runOne(pl, dir, glen, sizes) {
			nOld++
			if nOld <= 2 {
				c.Sample(descs[len(descs)-1])
			}
		}
		r.old, nFrames, scaleOf = nil, 4, 1
	}
	AB := func(i int) string { return []string{"A", "B"}[i%2] }
	classes := []string{"zone", "cross", "zone", "after", "cross", "edge"}
	gseqs := []string{"low", "next", "low", "zone", "low", "rand"}
	glens := []int{28, 100, 29, 64, 1200, 40, 27}
	// (a) nothing on the wire is touched: traffic crosses the wrap (and plays the tape), both directions
	for i := 0; i < c.Pick(4, 16); i++ {
		oldRun(nil, AB(i), []string{"cross", "after", "cross", "zone"}[i%4], "low", 28, 5+rng.Intn(8), 1, sizeSets[i%3])
	}
	// (b) one made-up frame (well-framed garbage / a frame of the opposite direction) with each kind of clear sequence
	// number, at every position, on links of every class
	i := 0
	for _, op := range []string{"garbage-framed", "reflect"} {
		for at := 1; at <= 4; at++ {
			for gi, gs := range []string{"low", "next", "zone", "rand"} {
				if op == "reflect" && gi > 0 {
					continue // the sequence number of a reflected frame is the opposite direction's
				}
				if !c.Thorough() && gi > 0 && (at+gi)%4 != 0 {
					continue
				}
				for ci, cl := range []string{"zone", "cross", "edge", "after"} {
					if !c.Thorough() && ci != (i+at)%4 && !(gi == 0 && ci == 0) {
						continue
					}
					oldRun([]fault{{op, at, 0}}, AB(i), cl, gs, glens[i%len(glens)], 4, 1, sizeSets[i%3])
					i++
				}
			}
		}
	}
	// (c) the model's fault plans: every single-fault plan (quick: a seeded sample), a seeded sample of the two-fault
	// plans, and of those two-fault plans that put a made-up frame next to a copy or a reordering
	var oSingle, oMulti, oMix []string
	for _, k := range allKeys {
		pl := plans[k]
		made, again := false, false
		for _, f := range pl {
			made = made || f.Op == "garbage-framed" || f.Op == "reflect"
			again = again || f.Op == "dup" || f.Op == "replay-late" || f.Op == "swap"
		}
		switch {
		case len(pl) == 1:
			oSingle = append(oSingle, k)
		case made && again:
			oMix = append(oMix, k)
		default:
			oMulti = append(oMulti, k)
		}
	}
	for _, ks := range [][]string{oSingle, oMulti, oMix} {
		rng.Shuffle(len(ks), func(i, j int) { ks[i], ks[j] = ks[j], ks[i] })
	}
	for li, ks := range [][]string{oSingle, oMulti, oMix} {
		lim := []int{c.Pick(14, 1000), c.Pick(10, 300), c.Pick(10, 300)}[li]
		for j := 0; j < len(ks) && j < lim; j++ {
			oldRun(plans[ks[j]], AB(i), classes[rng.Intn(len(classes))], gseqs[rng.Intn(len(gseqs))], glens[i%len(glens)], 4, 1, sizeSets[i%3])
			i++
		}
	}
	// (d) window-scaled: losses, copies and reorderings with 32 sequence numbers per model frame
	nOldScaled := 0
	for _, k := range allKeys {
		only := true
		for _, f := range plans[k] {
			only = only && (f.Op == "drop" || f.Op == "dup" || f.Op == "swap" || f.Op == "replay-late")
		}
		if !only || (!c.Thorough() && rng.Intn(40) != 0) || nOldScaled >= c.Pick(6, 1000) {
			continue
		}
		nOldScaled++
		oldRun(plans[k], AB(i), []string{"zone", "cross", "cross", "edge"}[rng.Intn(4)], "low", 28, 4, 32, []int{40, 41, 42, 43})
		i++
	}
	c.Extra("old_links", nOld)
	c.Extra("old_links_receiver_changed_keys_early", r.nUnsync)
	c.Extra("old_links_frames_lost_after_early_key_change", r.lostUnsync)
	c.Logf("R: %d old links (sequence numbers next to the 2^32 wrap) in %v; in %d of them an unauthenticated unit with a small clear sequence number made the receiver change keys before the sender (%d genuine frames lost; judged as closed-or-resumed)",
		nOld, time.Since(tOld).Round(time.Millisecond), r.nUnsync, r.lostUnsync)
	if nOld == 0 {
		c.Broken("old links: no link with sequence numbers next to the wrap could be run")
	}
	c.Stage("R", map[string]any{"links": len(descs), "events": len(events)})
	c.Logf("R: %d links, %d events", len(descs), len(events))
	base := 0
	for len(events) > 0 {
		rejectAt, inv, tres, err := c.TraceCheck("LinkLayer_Trace", "LinkLayer_Trace.cfg", events, vf.TLCOpts{Timeout: 20 * time.Minute})
		if err != nil {
			c.Fatal("T: %v", err)
		}
		c.AddModel(tres.Distinct, tres.Generated)
		if rejectAt <= 0 && inv == "" {
			c.AddTraces(len(descs))
			break
		}
		idx := base + rejectAt - 1
		ri := sort.Search(len(starts), func(i int) bool { return starts[i] > idx }) - 1
		ev := events[rejectAt-1].(map[string]any)
		kind := "delivery"
		what := ""
		switch {
		case ev["ev"] == "delivered" && ev["id"] == 0 && ev["prev"] == true:
			kind, what = "previous-link-frame-delivered", "a link frame recorded on an EARLIER link between the same two routers was put on the wire of this link and its frame was delivered to the remote frame handler, although it was never handed to this link (injected data accepted; a second copy of that frame)"
		case ev["ev"] == "delivered" && ev["id"] == 0:
			kind, what = "altered-frame-delivered", "a frame arrived at the remote frame handler that is not byte-identical to any frame handed to the link"
		case ev["ev"] == "delivered":
			kind, what = "second-copy-delivered", "a frame was delivered a second time"
		case ev["clear"] == true:
			kind, what = "clear-text", "payload bytes appeared in clear on the wire after the handshake"
		case ev["stalled"] == true:
			kind, what = "stalled", "after the fault the reader neither delivered later frames nor closed the link"
		case ev["ev"] == "end":
			kind, what = "frame-lost", "the framing was intact but an untouched frame never arrived"
		}
		if descs[ri]["old"] != nil {
			what += " - on an OLD link: its link sequence numbers had been moved next to the 2^32 wrap (where sender and receiver change keys) before the frames of the plan were sent"
		}
		c.Violation(vf.Key(kind, planSig(descs[ri])), fmt.Sprintf("link %v: %s (%v)", descs[ri], what, ev), map[string]any{"link": descs[ri], "event": ev}, nil)
		// skip to the next link
		nx := len(events)
		for j := rejectAt; j < len(events); j++ {
			if m, ok := events[j].(map[string]any); ok && m["ev"] == "link" {
				nx = j
				break
			}
		}
		base += nx
		events = events[nx:]
		if c.NViolations() > 6 {
			break
		}
	}
	c.Logf("T done")
	_ = peering.FrameOffset
}

// enumPlans returns the distinct fault plans along shortest paths of a dumped LinkLayer graph.
func enumPlans(d *vf.TLCResult) map[string][]fault {
	d.Inits = []string{d.Edges[0].From}
	g := vf.BuildGraph(d)
	seen := map[string]bool{d.Inits[0]: true}
	queue := []string{d.Inits[0]}
	plans := map[string][]fault{}
	planOf := map[string][]fault{d.Inits[0]: nil}
	for len(queue) > 0 {
		s := queue[0]
		queue = queue[1:]
		for _, ei := range g.Out[s] {
			t := g.Edges[ei].To
			var a act
			_ = json.Unmarshal(g.Edges[ei].Act, &a)
			pl := planOf[s]
			if a.Name == "fault" {
				// two operators may lead to the same model state (well-framed garbage / a reflected frame): both are plans
				pl = append(append([]fault(nil), pl...), fault{a.Op, a.At, a.After})
				plans[fmt.Sprint(pl)] = pl
			}
			if seen[t] {
				continue
			}
			seen[t] = true
			planOf[t] = pl
			queue = append(queue, t)
		}
	}
	return plans
}

func planSig(d map[string]any) string {
	pl, _ := d["plan"].([]fault)
	ops := []string{}
	for _, f := range pl {
		ops = append(ops, f.Op)
	}
	sort.Strings(ops)
	if d["old"] != nil {
		return "old-link/" + strings.Join(ops, "+")
	}
	if len(pl) == 1 && pl[0].Op == "garbage-framed" {
		return fmt.Sprintf("garbage-framed-len-%v", d["garbage_len"])
	}
	return strings.Join(ops, "+")
}
