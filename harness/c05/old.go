// Old links. Every link of the other passes is young: it is attacked right after its handshake, when the link
// sequence numbers of both directions are a handful. A real link lives for days; its counters climb towards 2^32, where
// the sender skips 0, moves to the next key and starts again at 1, and where the receiver - once it has seen a number
// within 256 of the wrap - takes a clear sequence number <= 255 for the sender's wrap. This pass runs the model's fault
// plans on links with such a past:
//   - after the real handshake the out counters of the two real link sessions are moved next to the wrap (state's
//     exported EncryptionSessionTestHelper, as TestKeyRollover does); a few frames of "recent past" cross the wire
//     untouched and take the receiving end there, as the traffic of the past would have;
//   - where the wrap falls varies: behind everything the plan sends (the receiver sits in the last 256 numbers all
//     the time), inside the plan's frames (traffic really crosses the wrap while it is attacked), inside the recent past
//     (both ends have just changed keys), or the receiver enters the last 256 numbers during the plan;
//   - the opposite direction carries traffic of its own, young or old, also across its own wrap, and is judged too;
//   - well-framed garbage carries a clear sequence number of its maker's choice: small (as after a wrap), the number of
//     the next genuine frame, one of the last 256, or random;
//   - the attacker has a tape: frames of this link it recorded earlier (the recent past, the plan's frames) are played
//     back, oldest first, in front of one more frame.
//
// The oracle is the one of every other link (LinkLayer_Trace): what arrives is byte-identical to a frame handed to this
// link, no frame arrives twice, and later frames keep arriving or the link is closed.
package main

import (
	"crypto/sha256"
	"encoding/binary"
	"fmt"
	"math/rand"
	"reflect"
	"sync"
	"unsafe"

	"github.com/mycoria/mycoria/peering"
	"github.com/mycoria/mycoria/state"
)

const (
	wrapZone = 0xFFFF_FF00 // a receiver that has seen this much ...
	wrapLow  = 0x0000_00FF // ... takes a clear sequence number up to this for the sender's wrap (state/session_encryption.go)
)

// age is the past of a link.
type age struct {
	class  string // where the wrap falls (see pickAge)
	hist   int    // frames of recent past: they cross the wire untouched before the plan's frames, the attacker records them
	off    uint32 // the first of them is sealed with sequence number 2^32-off
	revOff uint32 // the same for the first frame of the opposite direction (0: that direction is young)
	gseq   string // clear sequence number of well-framed garbage: low | next | zone | rand
	tape   int    // recorded frames played back in front of one more frame at the end
}

func (a *age) describe() map[string]any {
	return map[string]any{"wrap": a.class, "recent_past_frames": a.hist, "first_seq": fmt.Sprintf("%#x", uint32(0)-a.off),
		"opposite_first_seq": map[bool]string{true: "young", false: fmt.Sprintf("%#x", uint32(0)-a.revOff)}[a.revOff == 0],
		"garbage_seq": a.gseq, "tape": a.tape}
}

// pickAge draws the past of a link that will carry n*scale plan frames.
func pickAge(rng *rand.Rand, class, gseq string, n, scale int) *age {
	a := &age{class: class, gseq: gseq, hist: 2 + rng.Intn(3), tape: rng.Intn(4)}
	span := n * scale
	switch class {
	case "zone": // the wrap is behind everything the plan sends
		lo := a.hist + span + 12
		a.off = uint32(lo + rng.Intn(max(1, 250-lo)))
	case "cross": // the last frame sealed before the wrap is the last of the recent past or one of the plan's
		a.off = uint32(a.hist + rng.Intn(span))
	case "after": // the wrap lies in the recent past
		a.off = uint32(1 + rng.Intn(a.hist-1))
	case "edge": // the receiver enters the last 256 numbers while the plan runs
		a.off = uint32(256 + a.hist + rng.Intn(max(1, span)))
	default:
		panic(class)
	}
	switch rng.Intn(3) {
	case 0: // young
	case 1: // the opposite direction wraps in its n+4 frames
		a.revOff = uint32(1 + rng.Intn(n+3))
	default:
		a.revOff = uint32(n + 8 + rng.Intn(200))
	}
	return a
}

// forgeSeq writes the clear sequence number into a made-up link frame g that goes in front of the genuine frame next.
func (a *age) forgeSeq(g, next []byte, rng *rand.Rand) {
	if len(g) < 8 {
		return
	}
	switch a.gseq {
	case "low":
		binary.BigEndian.PutUint32(g[4:8], uint32(rng.Intn(wrapLow+1)))
	case "next":
		copy(g[4:8], next[4:8])
	case "zone":
		binary.BigEndian.PutUint32(g[4:8], wrapZone+uint32(rng.Intn(256)))
	}
	if rng.Intn(2) == 0 {
		g[2] = 1 // version
	}
}

// linkSession returns the encryption session of a real link. peering has no accessor for it (a hook like
// LinkBase.VerifConn is missing), so the unexported field is read through reflection; nothing is written through this
// pointer except the out counter via state's own exported test helper.
func linkSession(l peering.Link) (*state.EncryptionSession, error) {
	lb, ok := l.(*peering.LinkBase)
	if !ok || lb == nil {
		return nil, fmt.Errorf("link is a %T, not a *peering.LinkBase", l)
	}
	f := reflect.ValueOf(lb).Elem().FieldByName("encSession")
	if !f.IsValid() || f.Type() != reflect.TypeOf((*state.EncryptionSession)(nil)) {
		return nil, fmt.Errorf("peering.LinkBase has no field encSession of type *state.EncryptionSession")
	}
	s := *(**state.EncryptionSession)(unsafe.Pointer(f.UnsafeAddr()))
	if s == nil {
		return nil, fmt.Errorf("the link has no encryption session")
	}
	return s, nil
}

// wrapTrack follows what is written towards the receiver of an old link. It does not judge anything; it tells the
// driver (a) whether a unit that is no genuine frame of this direction carried a clear sequence number <= 255 while the
// receiver was in the last 256 numbers before the wrap and had not seen the sender's wrap yet, and (b) which genuine
// frames sealed before the wrap were written behind a genuine frame sealed after it.
type wrapTrack struct {
	mu      sync.Mutex
	ids     map[[32]byte]int // genuine link frames of the direction as sealed -> index in sent (0: a filler frame)
	hi      uint32           // highest sequence number of a genuine frame written to the receiver before the wrap
	wrapped bool             // a genuine frame sealed after the wrap was written to the receiver
	unsync  bool
	late    []int
	seen    map[int]bool // genuine frames that were written to the receiver at least once
}

func newWrapTrack() *wrapTrack { return &wrapTrack{ids: map[[32]byte]int{}, seen: map[int]bool{}} }

func (t *wrapTrack) genuine(d []byte, id int) {
	if t == nil {
		return
	}
	t.mu.Lock()
	t.ids[sha256.Sum256(d)] = id
	t.mu.Unlock()
}

func (t *wrapTrack) wire(units [][]byte) {
	if t == nil {
		return
	}
	t.mu.Lock()
	defer t.mu.Unlock()
	for _, o := range units {
		if len(o) < peering.FrameOffset+peering.FrameOverhead {
			continue // refused for its size before anybody looks at a sequence number
		}
		s := binary.BigEndian.Uint32(o[4:8])
		if id, ok := t.ids[sha256.Sum256(o)]; ok {
			switch {
			case !t.wrapped && s <= wrapLow && t.hi >= wrapZone:
				t.wrapped = true
			case !t.wrapped && s > t.hi:
				t.hi = s
			case t.wrapped && s >= wrapZone && id > 0 && !t.seen[id]:
				t.late = append(t.late, id) // its first appearance is behind the wrap (a later copy of a frame that came in time is just a copy)
			}
			t.seen[id] = true
		} else if s <= wrapLow && !t.wrapped && t.hi >= wrapZone {
			t.unsync = true
		}
	}
}

func (t *wrapTrack) result() (unsync bool, late []int) {
	if t == nil {
		return false, nil
	}
	t.mu.Lock()
	defer t.mu.Unlock()
	return t.unsync, append([]int(nil), t.late...)
}
