// C01 - self-certifying addresses. Stage M: TLC on Identity enumerates entry
// point x genuine identity with/without easing x one corruption kind per
// field (product of all fields), the checks in code order against the
// declarative Acceptable, and the generator against prefix sets. Stage R:
// every combination (thorough) or all single-field corruptions plus a seeded
// sample of multi-field ones (quick) is built concretely - real Ed25519 keys,
// the liar always signs with the private key of the key it presents, so the
// address check is the only line of defence - and presented through the real
// entry point: AddressFromStorage / mycoria.New, a real link set-up by a
// router stack running with the forged identity, a first-contact ping
// relayed by an honest peer, an announcement hop record inside a genuine
// forwarder record. Stage T: outcome, session, stored record and the key the
// victim believes in afterwards are judged by TLC (Identity_Trace). The
// generator's results are checked with an independent digest implementation.
// Stage H (history.go): histories against ONE long-lived victim - several genuine routers make contact through
// pings, hop records and link set-ups, sessions are used, idle away, are removed by ticks of the real session
// cleaner and made again for the same and for other addresses; frames whose address, key material and signing key
// belong to different routers must be refused, each router's own frame accepted (same trace, FrameOK).
package main

import (
	"context"
	"crypto/ed25519"
	"crypto/sha256"
	"encoding/binary"
	"encoding/hex"
	"encoding/json"
	"fmt"
	"math/rand"
	"net/netip"
	"sort"
	"strings"
	"time"

	"github.com/fxamacker/cbor/v2"
	"github.com/zeebo/blake3"

	"github.com/mycoria/crop"
	"github.com/mycoria/mycoria"
	"github.com/mycoria/mycoria/config"
	"github.com/mycoria/mycoria/frame"
	"github.com/mycoria/mycoria/m"
	"github.com/mycoria/mycoria/router"

	"verifharness/internal/linkworld"
	"verifharness/internal/mesh"
	"verifharness/internal/vf"
	"verifharness/internal/world"
)

type act struct {
	Name       string   `json:"name"`
	Entry      string   `json:"entry"`
	Eased      bool     `json:"eased"`
	IP         string   `json:"ip"`
	Hash       string   `json:"hash"`
	Type       string   `json:"type"`
	Key        string   `json:"key"`
	Easing     string   `json:"easing"`
	Outcome    string   `json:"outcome"`
	Reason     string   `json:"reason"`
	Acceptable bool     `json:"acceptable"`
	Binding    string   `json:"binding"`
	Cand       string   `json:"cand"`
	Accept     []string `json:"accept"`
	Ignore     []string `json:"ignore"`
	Returned   bool     `json:"returned"`
}

// ---------- independent digest (written from the format, not calling m)

func digestIP(hash string, keyType string, key []byte, easing uint64) (netip.Addr, bool) {
	buf := []byte{1, byte(len(keyType)), byte(len(key) >> 8), byte(len(key))}
	buf = append(buf, keyType...)
	buf = append(buf, key...)
	if easing > 0 {
		var e [8]byte
		binary.BigEndian.PutUint64(e[:], easing)
		buf = append(buf, e[:]...)
	}
	switch hash {
	case "BLAKE3":
		sum := blake3.Sum256(buf)
		return netip.AddrFrom16([16]byte(sum[:16])), true
	case "SHA2_256":
		sum := sha256.Sum256(buf)
		return netip.AddrFrom16([16]byte(sum[:16])), true
	}
	return netip.Addr{}, false
}

// ---------- genuine identities

var (
	plainID, easedID *m.Address
	otherKeys        []*m.Address
)

// deepID: a genuine router nobody has heard of (the innermost record of three)
var deepID *m.Address

func genuine(eased bool) *m.Address {
	if eased {
		for easedID == nil {
			a, _, err := m.GenerateRoutableAddress(context.Background(), []netip.Prefix{world.EuropePrefix}, nil, 3000)
			if err != nil {
				panic(err)
			}
			if a.Easing > 0 {
				easedID = a
			}
		}
		return easedID
	}
	if plainID == nil {
		plainID = world.NewIdentity(world.EuropePrefix)
	}
	return plainID
}

// outsider returns a self-consistent identity (address = digest of its key material, computed with the
// independent implementation) whose address is NOT in fd00::/8: only the prefix check can refuse it.
func outsider(eased bool, rng *rand.Rand) *m.Address {
	// one in three is not an IPv6 address at all: the IPv4 address 253.x.y.z made of the first four bytes of a
	// digest that begins with fd (an address type that a stored form or a CBOR-encoded hop record can carry); one in
	// three is the digest itself with an IPv6 zone attached
	flavour := rng.Intn(3)
	for {
		seed := make([]byte, ed25519.SeedSize)
		rng.Read(seed)
		priv := ed25519.NewKeyFromSeed(seed)
		pub := priv.Public().(ed25519.PublicKey)
		easing := uint64(0)
		if eased {
			easing = 1 + uint64(rng.Intn(500))
		}
		ip, _ := digestIP("BLAKE3", "Ed25519", pub, easing)
		b := ip.As16()
		switch flavour {
		case 1:
			if b[0] != 0xfd {
				continue
			}
			ip = netip.AddrFrom4([4]byte{b[0], b[1], b[2], b[3]})
		case 2:
			if b[0] != 0xfd || b[1]&0x80 != 0 || b[1]&0x70 == 0 {
				continue
			}
			ip = ip.WithZone("eth0")
		default:
			if b[0] == 0xfd {
				continue
			}
		}
		return &m.Address{PublicAddress: m.PublicAddress{IP: ip, Hash: crop.BLAKE3, Type: crop.KeyPairTypeEd25519, PublicKey: pub, Easing: easing}, PrivateKey: priv}
	}
}

// forged is a concrete presentation.
type forged struct {
	pub  m.PublicAddress
	priv ed25519.PrivateKey // the liar signs with the private key belonging to the key it presents (or G's)
	desc map[string]any
}

// rederive grinds fresh keys until the digest of exactly the material that is presented (odd type names and
// key sizes included) lies in fd00::/8; the address is that digest.
func rederive(a act, rng *rand.Rand) forged {
	for iter := 0; ; iter++ {
		if iter == 2000000 {
			panic(fmt.Sprintf("rederive does not terminate for %+v", a))
		}
		seed := make([]byte, ed25519.SeedSize)
		rng.Read(seed)
		priv := ed25519.NewKeyFromSeed(seed)
		pub := append(ed25519.PublicKey(nil), priv.Public().(ed25519.PublicKey)...)
		f := forged{priv: priv, desc: map[string]any{"rederived": true}}
		f.pub = m.PublicAddress{Hash: crop.BLAKE3, Type: crop.KeyPairTypeEd25519, PublicKey: pub}
		if a.Hash == "othervalid" {
			f.pub.Hash = crop.SHA2_256
		}
		switch a.Type {
		case "unknown":
			f.pub.Type = crop.KeyPairType([]string{"RSA", "ed25519", "Ed448", "Ed25519 "}[rng.Intn(4)])
		case "empty":
			f.pub.Type = ""
		}
		switch a.Key {
		case "short":
			f.pub.PublicKey = pub[:[]int{31, 16, 8}[rng.Intn(3)]]
		case "long":
			f.pub.PublicKey = append(pub, make([]byte, []int{1, 8, 32}[rng.Intn(3)])...)
		case "empty":
			f.pub.PublicKey = nil
		}
		if a.Eased || a.Key == "empty" {
			// (with an empty key the key cannot be varied: the easing is what is ground)
			f.pub.Easing = 1 + uint64(rng.Intn(1000000))
		}
		ip, ok := digestIP(string(f.pub.Hash), string(f.pub.Type), f.pub.PublicKey, f.pub.Easing)
		// a routable, geo-marked address (fd00::/9 with a continent marker): a peer with a privacy address cannot
		// be given a peer route, which would hide what the identity check decided
		if b := ip.As16(); !ok || b[0] != 0xfd || b[1]&0x80 != 0 || b[1]&0x70 == 0 {
			continue
		}
		f.pub.IP = ip
		f.desc["ip"], f.desc["hash"], f.desc["type"], f.desc["keylen"], f.desc["easing"] = ip.String(), trunc(string(f.pub.Hash)), trunc(string(f.pub.Type)), len(f.pub.PublicKey), f.pub.Easing
		return f
	}
}

func forge(a act, rng *rand.Rand, knownIP netip.Addr) forged {
	if forgeOverride != nil {
		return *forgeOverride
	}
	if a.IP == "rederived" {
		return rederive(a, rng)
	}
	g := genuine(a.Eased)
	if a.IP == "outside" {
		g = outsider(a.Eased, rng)
	}
	f := forged{pub: g.PublicAddress, priv: g.PrivateKey, desc: map[string]any{}}
	f.pub.PublicKey = append(ed25519.PublicKey(nil), g.PublicKey...)
	switch a.IP {
	case "bitflip":
		b := g.IP.As16()
		bit := 8 + rng.Intn(120)
		b[bit/8] ^= 1 << (7 - bit%8)
		f.pub.IP = netip.AddrFrom16(b)
		f.desc["ip_bit"] = bit
	case "outside":
		// g is already a self-consistent identity whose digest lies outside fd00::/8
	case "known":
		f.pub.IP = knownIP
	}
	switch a.Hash {
	case "othervalid":
		f.pub.Hash = []crop.Hash{crop.SHA2_256, crop.SHA3_256, crop.BLAKE2b_256, crop.SHA2_512, crop.BLAKE2s_256}[rng.Intn(5)]
	case "unknown":
		f.pub.Hash = crop.Hash([]string{"MD5", "blake3", "BLAKE3 ", "SHA1", "BLAKE4", "\x00", "BLAKE3\x00"}[rng.Intn(7)])
	case "empty":
		f.pub.Hash = ""
	case "long":
		f.pub.Hash = crop.Hash(strings.Repeat("BLAKE3", 50+rng.Intn(50)))
	}
	switch a.Type {
	case "unknown":
		f.pub.Type = crop.KeyPairType([]string{"RSA", "ed25519", "Ed25519 ", "Ed448", strings.Repeat("E", 300), "Ed25519\x00"}[rng.Intn(6)])
	case "empty":
		f.pub.Type = ""
	}
	switch a.Key {
	case "bitflip":
		bit := rng.Intn(256)
		f.pub.PublicKey[bit/8] ^= 1 << (bit % 8)
		f.desc["key_bit"] = bit
	case "other":
		o := otherKeys[rng.Intn(len(otherKeys))]
		f.pub.PublicKey = append(ed25519.PublicKey(nil), o.PublicKey...)
		f.priv = o.PrivateKey
	case "short":
		f.pub.PublicKey = f.pub.PublicKey[:[]int{31, 16, 1}[rng.Intn(3)]]
	case "long":
		f.pub.PublicKey = append(f.pub.PublicKey, make([]byte, []int{1, 32, 1000}[rng.Intn(3)])...)
	case "empty":
		f.pub.PublicKey = nil
	}
	if a.Easing == "changed" {
		f.pub.Easing = g.Easing + 1 + uint64(rng.Intn(3))
		if rng.Intn(4) == 0 {
			f.pub.Easing = ^uint64(0) - uint64(rng.Intn(2))
		}
		if g.Easing > 0 && rng.Intn(3) == 0 {
			f.pub.Easing = 0
		}
	}
	f.desc["ip"], f.desc["hash"], f.desc["type"], f.desc["keylen"], f.desc["easing"] = f.pub.IP.String(), trunc(string(f.pub.Hash)), trunc(string(f.pub.Type)), len(f.pub.PublicKey), f.pub.Easing
	return f
}

func trunc(s string) string {
	if len(s) > 24 {
		return fmt.Sprintf("%q...(%d)", s[:24], len(s))
	}
	return fmt.Sprintf("%q", s)
}

// ---------- observation

type obs struct {
	Ev       string `json:"ev"`
	Entry    string `json:"entry"`
	Eased    bool   `json:"eased"`
	IP       string `json:"ip"`
	Hash     string `json:"hash"`
	Type     string `json:"type"`
	Key      string `json:"key"`
	Easing   string `json:"easing"`
	Outcome  string `json:"outcome"`  // ok | error | panic
	Session  bool   `json:"session"`  // a session for the presented address exists afterwards
	Stored   bool   `json:"stored"`   // a stored record for it exists afterwards
	BoundKey string `json:"boundkey"` // presented | previous | other | none
	Met      bool   `json:"met"`      // the victim learned the presenter's TRUE identity earlier (a completed handshake)
	Detail   string `json:"detail"`
}

func keyOf(v *world.Node, ip netip.Addr, f forged, prevKey ed25519.PublicKey) (session, stored bool, bound string) {
	bound = "none"
	var k ed25519.PublicKey
	if s := v.St.GetSession(ip); s != nil {
		session = true
		k = s.Address().PublicKey
	}
	if r, err := v.Store.GetRouter(ip); err == nil && r != nil {
		stored = true
		if k == nil && r.Address != nil {
			k = r.Address.PublicKey
		}
	}
	switch {
	case k == nil:
	case prevKey != nil && k.Equal(prevKey):
		bound = "previous"
	case k.Equal(f.pub.PublicKey):
		bound = "presented"
	default:
		bound = "other"
	}
	return
}

// entry: configuration / stored form
func presentConfig(c *vf.Ctx, a act, f forged, full bool) obs {
	o := mkObs(a)
	st := m.AddressStorage{IP: f.pub.IP.String(), Hash: f.pub.Hash, Type: f.pub.Type, PublicKey: hex.EncodeToString(f.pub.PublicKey), PrivateKey: hex.EncodeToString(f.priv), Easing: f.pub.Easing}
	var addr *m.Address
	var err error
	p, pv, _ := vf.NoPanic(func() { addr, err = m.AddressFromStorage(st) })
	switch {
	case p:
		o.Outcome, o.Detail = "panic", fmt.Sprint(pv)
	case err != nil:
		o.Outcome, o.Detail = "error", err.Error()
		if a.IP == "known" {
			o.BoundKey = "previous" // loading an identity creates no binding; nothing can be replaced
		}
	default:
		o.Outcome = "ok"
		o.Session, o.Stored, o.BoundKey = true, true, "presented"
		if addr.IP != f.pub.IP || !addr.PublicKey.Equal(f.pub.PublicKey) {
			o.BoundKey = "other"
		}
	}
	if full {
		// the same through the router constructor
		cs := config.Store{}
		cs.Router.Address = st
		cs.System.DisableTun = true
		cs.Router.Listen = []string{"tcp:47369"}
		cfg, perr := cs.Parse()
		if perr == nil {
			var nerr error
			p2, pv2, _ := vf.NoPanic(func() { _, nerr = mycoria.New("verif", cfg) })
			got := "ok"
			if p2 {
				got = "panic"
				o.Detail = fmt.Sprint(pv2)
			} else if nerr != nil {
				got = "error"
			}
			if got != o.Outcome {
				o.Detail = fmt.Sprintf("mycoria.New says %s (%v) but AddressFromStorage says %s", got, nerr, o.Outcome)
				if got == "panic" || got == "ok" {
					o.Outcome = got
				}
			}
		}
	}
	return o
}

func mkObs(a act) obs {
	return obs{Ev: "present", Entry: a.Entry, Eased: a.Eased, IP: a.IP, Hash: a.Hash, Type: a.Type, Key: a.Key, Easing: a.Easing, BoundKey: "none"}
}

// a victim V with an honest peer R (and an origin O behind R).
type scene struct {
	ms      *mesh.Mesh
	v, r, o *world.Node
}

func newScene(rng *rand.Rand) *scene { return newSceneMode(rng, "") }

// newSceneMode: the victim (and, so that announcements still reach it, the relay) may run in lite mode, or the victim
// as a stub - rarely used options under which the router takes other paths through the announcement handler.
func newSceneMode(rng *rand.Rand, mode string) *scene {
	lab := func() m.SwitchLabel { return m.SwitchLabel(1 + rng.Intn(16000)) }
	opts := mesh.Opts{}
	if mode != "" {
		opts.Cfg = func(i int) config.Store {
			var cs config.Store
			switch {
			case mode == "lite" && (i == 1 || i == 2):
				cs.Router.Lite = true
			case mode == "stub" && i == 1:
				cs.Router.Stub = true
			}
			return cs
		}
	}
	ms, err := mesh.New(3, []mesh.Edge{{A: 1, B: 2, LA: lab(), LB: lab()}, {A: 2, B: 3, LA: lab(), LB: lab()}}, opts)
	if err != nil {
		panic(err)
	}
	return &scene{ms: ms, v: ms.Node(1), r: ms.Node(2), o: ms.Node(3)}
}

// liar builds a router stack that runs with the forged identity.
func liar(s *scene, f forged) (n *world.Node, err error) {
	id := &m.Address{PublicAddress: f.pub, PrivateKey: f.priv}
	id.KeyPair = crop.MakeEd25519KeyPair(f.priv, f.pub.PublicKey)
	if p, pv, _ := vf.NoPanic(func() { n = s.ms.W.NewNode("liar", world.NodeOpts{ID: id}) }); p {
		return nil, fmt.Errorf("liar stack: %v", pv)
	}
	return n, nil
}

func handlerOutcome(res []world.Handled, err error) (string, string) {
	if err != nil {
		return "error", err.Error()
	}
	out, detail := "ok", ""
	for _, h := range res {
		if h.Panic {
			return "panic", fmt.Sprint(h.Err)
		}
		if e := h.HandlerErr(); e != "" {
			out, detail = "error", e
		}
	}
	return out, detail
}

// entry: peering request of a real link set-up
func presentPeering(c *vf.Ctx, a act, rng *rand.Rand, met bool) (obs, bool, forged) {
	s := newScene(rng)
	f := forge(a, rng, s.r.ID.IP)
	o := mkObs(a)
	o.Met = met
	var prev ed25519.PublicKey
	if a.IP == "known" {
		prev = s.r.ID.PublicKey
	}
	if met {
		// the holder of the key was here before, with its true identity; the link has been closed since
		g := genuine(a.Eased)
		prev = g.PublicKey
		gn := s.ms.W.NewNode("before", world.NodeOpts{ID: g})
		before := linkworld.Connect(gn, s.v, nil, 150*time.Millisecond)
		if before.LinkA == nil || before.LinkB == nil || s.v.St.GetSession(g.IP) == nil {
			c.Broken("C01 peering: the earlier genuine handshake failed: %v %v", before.ErrA, before.ErrB)
			return o, false, f
		}
		for _, n := range []*world.Node{gn, s.v} {
			for _, l := range n.Peer.GetLinks() {
				if l.Peer() == g.IP || l.Peer() == s.v.ID.IP {
					l.Close(nil)
				}
			}
		}
		before.Proxy.Close()
		for i := 0; i < 200 && s.v.Peer.GetLink(g.IP) != nil; i++ {
			time.Sleep(time.Millisecond)
		}
		time.Sleep(10 * time.Millisecond) // the time stamps of the new stack must lie after those of the old one
	}
	ln, err := liar(s, f)
	if err != nil {
		return o, false, f
	}
	var res *linkworld.Result
	if p, pv, _ := vf.NoPanic(func() { res = linkworld.Connect(ln, s.v, nil, 150*time.Millisecond) }); p {
		o.Outcome, o.Detail = "panic", fmt.Sprint(pv)
		return o, true, f
	}
	defer res.Proxy.Close()
	// did the liar's own stack get as far as sending its request?
	if res.Proxy.NSent("A") == 0 {
		return o, false, f
	}
	linked := res.LinkB != nil && res.ErrB == nil
	if a.IP == "known" {
		// the victim's link to the real owner of that address must still be the one from before
		linked = res.LinkB != nil && res.ErrB == nil
	}
	o.Outcome = "error"
	if linked {
		o.Outcome = "ok"
	}
	if res.ErrB != nil {
		o.Detail = res.ErrB.Error()
	}
	if len(s.ms.W.Panics) > 0 {
		o.Outcome, o.Detail = "panic", strings.Join(s.ms.W.Panics, "; ")
	}
	o.Session, o.Stored, o.BoundKey = keyOf(s.v, f.pub.IP, f, prev)
	for _, n := range []*world.Node{ln, s.v} {
		for _, l := range n.Peer.GetLinks() {
			l.Close(nil)
		}
	}
	return o, true, f
}

// entry: first-contact ping relayed by the honest peer R
func presentPing(c *vf.Ctx, a act, rng *rand.Rand) (obs, bool, forged) {
	s := newScene(rng)
	f := forge(a, rng, s.r.ID.IP)
	o := mkObs(a)
	ln, err := liar(s, f)
	if err != nil {
		return o, false, f
	}
	var prev ed25519.PublicKey
	if a.IP == "known" {
		prev = s.r.ID.PublicKey
	}
	var data []byte
	if p, _, _ := vf.NoPanic(func() {
		if err := ln.St.AddRouter(&s.v.ID.PublicAddress); err != nil {
			panic(err)
		}
		hdr := router.PingHeader{PingID: rng.Uint64() | 1, PingType: "pong", AddrHash: f.pub.Hash, KeyType: f.pub.Type, PublicKey: f.pub.PublicKey}
		hd, err := cbor.Marshal(&hdr)
		if err != nil {
			panic(err)
		}
		if len(hd) > 255 {
			panic("header too long for the ping format")
		}
		bd, _ := cbor.Marshal(map[string]string{"msg": "ping"})
		msg := append(append([]byte{1, byte(len(hd))}, hd...), bd...)
		fr, err := ln.Builder.NewFrameV1(f.pub.IP, s.v.ID.IP, frame.RouterPing, nil, msg, nil)
		if err != nil {
			panic(err)
		}
		sess := ln.St.GetSession(s.v.ID.IP)
		if err := fr.Seal(sess); err != nil {
			panic(err)
		}
		raw, _ := fr.FrameDataWithMargins(0, 0)
		data = append([]byte(nil), raw...)
		fr.ReturnToPool()
	}); p || data == nil {
		return o, false, f
	}
	res, derr := s.ms.W.DeliverRaw(s.r, s.v, data)
	o.Outcome, o.Detail = handlerOutcome(res, derr)
	o.Session, o.Stored, o.BoundKey = keyOf(s.v, f.pub.IP, f, prev)
	return o, true, f
}

// layout of a serialised announcement frame (as in C08)
func apxFrom(data []byte) (msgTo, apx int) {
	mi := 49 + int(data[48])
	ml := int(data[mi])<<8 | int(data[mi+1])
	return mi + 2 + ml, mi + 2 + ml + 64
}

func signingContext(data []byte) []byte {
	msgTo, _ := apxFrom(data)
	ctx := make([]byte, 16+8+64)
	copy(ctx[:16], data[16:32])
	copy(ctx[16:24], data[8:16])
	copy(ctx[24:], data[msgTo:msgTo+64])
	return ctx
}

// entry: a hop record inside an announcement forwarded by the (authenticated) peer R
func presentHop(c *vf.Ctx, a act, rng *rand.Rand) (obs, bool, forged) {
	mode := []string{"", "", "lite", "lite", "stub"}[rng.Intn(5)]
	s := newSceneMode(rng, mode)
	f := forge(a, rng, s.o.ID.IP) // "known": the origin's address, which the victim learns from the same announcement... use a router the victim already knows
	if a.IP == "known" {
		f = forge(a, rng, s.r.ID.IP)
	}
	o := mkObs(a)
	var prev ed25519.PublicKey
	if a.IP == "known" {
		prev = s.r.ID.PublicKey
	}
	// the origin announces; R receives it; R's forward to V is captured
	time.Sleep(2 * time.Millisecond)
	s.ms.W.Inflight = nil
	_ = s.o.Rt.AnnouncePing.Send(s.r.ID.IP)
	var toV []byte
	for guard := 0; guard < 20 && s.ms.W.NInflight() > 0; guard++ {
		fl := s.ms.W.Take(0)
		if fl.To == s.v {
			if an, err := s.ms.Decode(fl.Data); err == nil && an.IsAnn && toV == nil {
				toV = fl.Data
			}
			continue
		}
		_, _ = s.ms.W.Deliver(fl)
	}
	if toV == nil {
		c.Broken("hop scene: no forwarded announcement captured")
		return o, false, f
	}
	_, apx := apxFrom(toV)
	ctx := signingContext(toV)
	deeper := rng.Intn(2) == 0
	var data []byte
	if p, _, _ := vf.NoPanic(func() {
		inner := router.AnnouncePingAttachment{Router: f.pub, Delay: uint16(1 + rng.Intn(100)), ForwardLabel: m.SwitchLabel(1 + rng.Intn(1000)), ReturnLabel: m.SwitchLabel(1 + rng.Intn(1000))}
		if deeper {
			// the presented identity is not the innermost record: it wraps the genuine record of one more router the
			// victim has never heard of (origin -> G -> presented -> R -> victim); what is stored for the presented
			// address must not depend on what is parsed after it
			if deepID == nil {
				deepID = world.NewIdentity(world.EuropePrefix)
			}
			g := deepID
			gr := router.AnnouncePingAttachment{Router: g.PublicAddress, Delay: uint16(1 + rng.Intn(100)), ForwardLabel: m.SwitchLabel(1 + rng.Intn(1000)), ReturnLabel: m.SwitchLabel(1 + rng.Intn(1000))}
			gb, err := cbor.Marshal(gr)
			if err != nil {
				panic(err)
			}
			gsig, err := g.SignWithContext(gb, ctx)
			if err != nil {
				panic(err)
			}
			inner.NextAttachment = append(gb, gsig...)
		}
		ib, err := cbor.Marshal(inner)
		if err != nil {
			panic(err)
		}
		isig, err := f.priv.Sign(nil, ib, &ed25519.Options{Context: string(ctx)})
		if err != nil {
			panic(err)
		}
		innerRaw := append(ib, isig...)
		outer := router.AnnouncePingAttachment{Router: s.r.ID.PublicAddress, Delay: 5, ForwardLabel: s.r.LinkTo(s.o).SwitchLabel(), ReturnLabel: s.r.LinkTo(s.v).SwitchLabel(), NextAttachment: innerRaw}
		ob, err := cbor.Marshal(outer)
		if err != nil {
			panic(err)
		}
		osig, err := s.r.ID.SignWithContext(ob, ctx)
		if err != nil {
			panic(err)
		}
		data = append(append(append([]byte(nil), toV[:apx]...), ob...), osig...)
	}); p || data == nil {
		return o, false, f
	}
	res, derr := s.ms.W.DeliverRaw(s.r, s.v, data)
	o.Outcome, o.Detail = handlerOutcome(res, derr)
	o.Session, o.Stored, o.BoundKey = keyOf(s.v, f.pub.IP, f, prev)
	if deeper {
		o.Detail = "[3 records, presented in the middle] " + o.Detail
	}
	if mode != "" {
		o.Detail = "[victim in " + mode + " mode] " + o.Detail
	}
	return o, true, f
}

func main() { vf.Main("C01", "model_checking", run) }

func run(c *vf.Ctx) {
	c.Rule("M: TLC enumerates entry point (config, peering, ping, hop) x genuine identity with/without easing x address kind (4) x hash name kind (5) x key type kind (3) x key kind (6) x easing kind (2) = 5760 presentations with the code-order checks against the declarative Acceptable, plus 5 x 16 x 16 generator cases. R: every single-field corruption through every entry plus a seeded sample of multi-field ones (quick) or all 5760 (thorough), concrete values drawn per class (bit positions, names, sizes); thorough also flips each of the 120 address bits and 256 key bits. Generator: real GenerateRoutableAddress over prefix/ignore sets, results checked with an independent BLAKE3 digest and reloaded from their stored form. H: histories against one long-lived victim (2-4 genuine routers with their own stacks plus the victim's peer and the router behind it; pings, hop records, link set-ups, pings of the victim, idle periods of 20 s - 3 h each followed by a tick of the real session cleaner; a sweep over all members at the end): a frame / record for address X is accepted only when signed with the key X is the digest of, X's own frame is accepted, a bit-flipped address gets no session. T: TLC judges every observation. distinct = distinct (entry, classes, concrete values)")
	c.Assume("collision resistance of the digest", "'loaded from configuration or storage' is read as the identity's stored form (AddressFromStorage / mycoria.New)", "a presentation the liar's own router stack cannot produce (its code refuses the forged identity before anything is sent) is counted as unpresentable, not judged")

	res, err := c.TLC("Identity", "Identity_MC.cfg", vf.TLCOpts{Workers: 1})
	if err != nil {
		c.Fatal("M: %v", err)
	}
	if res.Violated != "" {
		c.Broken("M: model violates %s", res.Violated)
		return
	}
	c.AddModel(res.Distinct, res.Generated)
	var presents, gens []act
	for _, e := range res.Edges {
		var a act
		if json.Unmarshal(e.Act, &a) != nil {
			continue
		}
		switch a.Name {
		case "present":
			presents = append(presents, a)
		case "generate":
			gens = append(gens, a)
		}
	}
	if len(presents) < 5000 || len(gens) < 1000 {
		c.Fatal("M: only %d presentations / %d generator cases", len(presents), len(gens))
	}
	c.Logf("M: %d presentations, %d generator cases", len(presents), len(gens))
	rng := rand.New(rand.NewSource(c.Seed))
	for i := 0; i < 3; i++ {
		otherKeys = append(otherKeys, world.NewIdentity(world.EuropePrefix))
	}
	world.InstallLogCapture()

	nCorrupt := func(a act) int {
		n := 0
		if a.IP != "digest" && a.IP != "rederived" { // a re-derived address is consistent with whatever else is presented
			n++
		}
		if a.Hash != "orig" {
			n++
		}
		if a.Type != "ed25519" {
			n++
		}
		if a.Key != "orig" {
			n++
		}
		if a.Easing != "orig" {
			n++
		}
		return n
	}
	sort.Slice(presents, func(i, j int) bool { return fmt.Sprint(presents[i]) < fmt.Sprint(presents[j]) })
	var todo []act
	var multi []act
	for _, a := range presents {
		if nCorrupt(a) <= 1 {
			todo = append(todo, a)
		} else {
			multi = append(multi, a)
		}
	}
	rng.Shuffle(len(multi), func(i, j int) { multi[i], multi[j] = multi[j], multi[i] })
	if !c.Thorough() {
		multi = multi[:240]
	}
	todo = append(todo, multi...)

	var trace []any
	var all []obs
	var descs []map[string]any
	unpresentable := map[string]int{}
	record := func(o obs, ok bool, f forged, a act) {
		c.Eval(1)
		if !ok {
			unpresentable[a.Entry]++
			return
		}
		c.Distinct(fmt.Sprintf("%s/%v/%s/%s/%s/%s/%s/%v", a.Entry, a.Eased, a.IP, a.Hash, a.Type, a.Key, a.Easing, f.desc))
		all = append(all, o)
		trace = append(trace, o)
		descs = append(descs, f.desc)
	}
	for i, a := range todo {
		switch a.Entry {
		case "config":
			// ("known": the address of some router that is none of the liar's keys)
			f := forge(a, rng, mesh.Identities(1)[0].IP)
			record(presentConfig(c, a, f, i%7 == 0 || nCorrupt(a) == 0), true, f, a)
		case "peering":
			o, ok, f := presentPeering(c, a, rng, false)
			record(o, ok, f, a)
		case "ping":
			o, ok, f := presentPing(c, a, rng)
			record(o, ok, f, a)
		case "hop":
			o, ok, f := presentHop(c, a, rng)
			record(o, ok, f, a)
		}
	}
	// peering requests signed by the real key of an address the victim has met before, with every other part of the
	// tuple changed
	nmet := 0
	metWhy := map[string]int{}
	for _, a := range presents {
		if a.Entry != "peering" || a.IP != "digest" || a.Key != "orig" {
			continue
		}
		if nCorrupt(a) > 1 && !c.Thorough() && rng.Intn(3) != 0 {
			continue
		}
		o, ok, f := presentPeering(c, a, rng, true)
		f.desc["met"] = true
		record(o, ok, f, a)
		nmet++
		why := o.Outcome + ": " + o.Detail
		if len(why) > 70 {
			why = why[:70]
		}
		metWhy[why]++
	}
	c.Extra("peering_requests_from_a_router_met_before", map[string]any{"requests": nmet, "answers": metWhy})
	c.Logf("R: %d peering requests from a router met before: %v", nmet, metWhy)
	// every bit of the address and of the key (thorough), a sample (quick), through the cheap entries
	bits := c.Pick(24, 376)
	for b := 0; b < bits; b++ {
		for _, entry := range []string{"config", "ping"} {
			a := act{Name: "present", Entry: entry, IP: "digest", Hash: "orig", Type: "ed25519", Key: "orig", Easing: "orig"}
			bit := b
			if !c.Thorough() {
				bit = rng.Intn(376)
			}
			g := genuine(false)
			f := forged{pub: g.PublicAddress, priv: g.PrivateKey, desc: map[string]any{}}
			f.pub.PublicKey = append(ed25519.PublicKey(nil), g.PublicKey...)
			if bit < 120 {
				a.IP = "bitflip"
				x := g.IP.As16()
				x[(8+bit)/8] ^= 1 << (7 - (8+bit)%8)
				f.pub.IP = netip.AddrFrom16(x)
				f.desc["ip_bit"] = 8 + bit
			} else {
				a.Key = "bitflip"
				f.pub.PublicKey[(bit-120)/8] ^= 1 << ((bit - 120) % 8)
				f.desc["key_bit"] = bit - 120
			}
			if entry == "config" {
				record(presentConfig(c, a, f, false), true, f, a)
			} else {
				forgeOverride = &f
				o, ok, f2 := presentPing(c, a, rng)
				forgeOverride = nil
				record(o, ok, f2, a)
			}
		}
	}
	c.Logf("R: %d presentations observed, unpresentable %v", len(all), unpresentable)
	c.Extra("unpresentable", unpresentable)
	byEntry := map[string]int{}
	okBy := map[string]int{}
	for _, o := range all {
		byEntry[o.Entry]++
		if o.Outcome == "ok" {
			okBy[o.Entry]++
		}
	}
	c.Extra("observed_by_entry", byEntry)
	c.Extra("accepted_by_entry", okBy)
	for _, e := range []string{"config", "peering", "ping", "hop"} {
		if okBy[e] == 0 {
			c.Broken("entry %s never accepted a genuine identity: the driver does not exercise it", e)
		}
		if byEntry[e] < 20 {
			c.Broken("entry %s: only %d presentations could be made", e, byEntry[e])
		}
	}
	if len(all) > 0 {
		c.Sample(map[string]any{"observation": all[0], "values": descs[0]})
	}

	// ---- generator
	cont := map[string]netip.Prefix{"eu": netip.MustParsePrefix("fd10::/12"), "na": netip.MustParsePrefix("fd40::/12"), "roaming": m.RoamingPrefix, "privacy": m.PrivacyAddressPrefix}
	sort.Slice(gens, func(i, j int) bool { return fmt.Sprint(gens[i]) < fmt.Sprint(gens[j]) })
	nGen := 0
	for gi, gc := range gens {
		// the model ranges over candidates; the real generator draws them itself: one call per (accept, ignore) pair
		if gc.Cand != "eu" || len(gc.Accept) == 0 {
			continue
		}
		if !c.Thorough() && gi%3 != 0 {
			continue
		}
		var acc, ign []netip.Prefix
		for _, n := range gc.Accept {
			acc = append(acc, cont[n])
		}
		for _, n := range gc.Ignore {
			ign = append(ign, cont[n])
		}
		possible := false
		for _, n := range gc.Accept {
			hit := false
			for _, i := range gc.Ignore {
				if i == n {
					hit = true
				}
			}
			if !hit {
				possible = true
			}
		}
		maxEasing := uint64([]int{0, 0, 5, 300}[gi%4])
		limit := 20 * time.Second
		if !possible {
			maxEasing = 0
			limit = 150 * time.Millisecond
		}
		ctx, cancel := context.WithTimeout(context.Background(), limit)
		var addr *m.Address
		var gerr error
		p, pv, _ := vf.NoPanic(func() { addr, _, gerr = m.GenerateRoutableAddress(ctx, acc, ign, maxEasing) })
		cancel()
		c.Eval(1)
		nGen++
		ev := map[string]any{"ev": "generated", "accept": gc.Accept, "ignore": gc.Ignore, "possible": possible, "returned": addr != nil && gerr == nil, "panic": p,
			"inaccept": false, "inignored": false, "internal": false, "digestok": false, "reloadsame": false, "verifies": false}
		if p {
			ev["detail"] = fmt.Sprint(pv)
		}
		if addr != nil && gerr == nil {
			for _, pf := range acc {
				if pf.Contains(addr.IP) {
					ev["inaccept"] = true
				}
			}
			for _, pf := range ign {
				if pf.Contains(addr.IP) {
					ev["inignored"] = true
				}
			}
			ev["internal"] = m.InternalPrefix.Contains(addr.IP)
			want, ok := digestIP(string(addr.Hash), string(addr.Type), addr.PublicKey, addr.Easing)
			ev["digestok"] = ok && want == addr.IP && addr.IP.As16()[0] == 0xfd
			ev["verifies"] = addr.VerifyAddress() == nil
			// stored form -> JSON -> reload
			js, _ := json.Marshal(addr.Store())
			var back m.AddressStorage
			_ = json.Unmarshal(js, &back)
			re, rerr := m.AddressFromStorage(back)
			ev["reloadsame"] = rerr == nil && re.IP == addr.IP && re.Hash == addr.Hash && re.Type == addr.Type && re.PublicKey.Equal(addr.PublicKey) && re.PrivateKey.Equal(addr.PrivateKey) && re.Easing == addr.Easing
			c.Distinct(fmt.Sprintf("gen/%v/%v/%d/%s", gc.Accept, gc.Ignore, maxEasing, addr.IP))
		}
		trace = append(trace, ev)
	}
	if nGen < 20 {
		c.Broken("only %d generator calls", nGen)
	}
	c.Logf("generator: %d calls", nGen)

	// ---- H: histories of identities against one long-lived victim each (history.go)
	hevs, hsubs := historyStage(c, rng)
	for _, e := range hevs {
		trace = append(trace, e)
	}

	// ---- T
	rejectAt, inv, tres, err := c.TraceCheck("Identity_Trace", "Identity_Trace.cfg", trace, vf.TLCOpts{Timeout: 20 * time.Minute})
	if err != nil {
		c.Fatal("T: %v", err)
	}
	c.AddModel(tres.Distinct, tres.Generated)
	if rejectAt <= 0 && inv == "" {
		c.AddTraces(len(trace))
		return
	}
	// TLC rejected the trace: name every observation its predicate refuses (same predicate, mirrored), at most 8
	n := 0
	for i, e := range trace {
		why := ""
		switch v := e.(type) {
		case obs:
			why = explain(v)
			if why != "" {
				n++
				c.Violation(vf.Key(why, v.Entry, v.Eased, v.IP, v.Hash, v.Type, v.Key, v.Easing), fmt.Sprintf("identity presented through %s (address %s, hash %s, type %s, key %s, easing %s, genuine identity eased=%v; values %v): %s: outcome=%s session=%v stored=%v bound key=%s %s",
					v.Entry, v.IP, v.Hash, v.Type, v.Key, v.Easing, v.Eased, descs[i], why, v.Outcome, v.Session, v.Stored, v.BoundKey, v.Detail), map[string]any{"observation": v, "values": descs[i]}, nil)
			}
		case hev:
			if w := explainHist(v); w != "" {
				n++
				sub := hsubs[v.Inst]
				c.Violation(vf.Key("history", w, v.Via, v.Addr, v.Hdr == v.Claimed, v.Signer == v.Claimed), w+": "+describeHist(v, hevs), map[string]any{"event": v, "sub_seed": sub, "instance": v.Inst}, func() bool {
					// the same history once more, on a new victim (which struct the cleaner hands out next may differ)
					// (which struct, which map slot the real code uses next is not the driver's to decide: up to three goes)
					for try := 0; try < 3; try++ {
						es, _ := runHistory(c, v.Inst, sub, !c.Thorough())
						for _, e := range es {
							if explainHist(e) == w {
								return true
							}
						}
					}
					return false
				})
			}
		case map[string]any:
			if w := explainGen(v); w != "" {
				n++
				c.Violation(vf.Key("generator", w), fmt.Sprintf("generator with accept %v ignore %v: %s (%v)", v["accept"], v["ignore"], w, v), v, nil)
			}
		}
		if n >= 8 {
			break
		}
	}
	if n == 0 {
		c.Broken("T: trace rejected at %d (%s) but no observation explains it", rejectAt, inv)
	}
}

var forgeOverride *forged

func acceptable(o obs) bool {
	eas := o.Easing
	if o.Entry == "ping" {
		eas = "orig"
		if o.Eased {
			eas = "changed"
		}
	}
	if o.IP == "rederived" {
		return (o.Hash == "orig" || o.Hash == "othervalid") && o.Type == "ed25519" && (o.Key == "orig" || o.Key == "other") && eas == "orig"
	}
	return o.IP == "digest" && o.Hash == "orig" && o.Type == "ed25519" && o.Key == "orig" && eas == "orig"
}

func explain(o obs) string {
	acc := acceptable(o)
	switch {
	case o.Outcome == "panic":
		return "crash"
	case acc && o.Outcome != "ok":
		return "genuine-identity-rejected"
	case !acc && o.Outcome == "ok":
		return "forged-identity-accepted"
	case o.Met && (!o.Session || o.BoundKey != "previous"):
		return "met-router-key-replaced"
	case o.Met:
		return ""
	case acc && (!o.Session || !o.Stored || o.BoundKey != "presented"):
		return "accepted-but-not-bound"
	case !acc && o.IP == "known" && o.BoundKey != "previous":
		return "known-router-key-replaced"
	case !acc && o.IP != "known" && (o.Session || o.Stored):
		return "binding-without-proof"
	}
	return ""
}

func explainGen(v map[string]any) string {
	b := func(k string) bool { x, _ := v[k].(bool); return x }
	switch {
	case b("panic"):
		return "panic"
	case b("returned") && !b("inaccept"):
		return "outside-requested-prefixes"
	case b("returned") && b("inignored"):
		return "inside-ignored-prefix"
	case b("returned") && b("internal"):
		return "inside-internal-range"
	case b("returned") && !b("digestok"):
		return "address-is-not-the-digest"
	case b("returned") && !b("verifies"):
		return "does-not-verify"
	case b("returned") && !b("reloadsame"):
		return "does-not-reload"
	case b("possible") && !b("returned"):
		return "no-identity-although-possible"
	}
	return ""
}
