// C01, stage H: histories of identities against ONE long-lived victim.
//
// Every other stage of this driver presents one identity to a victim that was built a moment ago and is thrown away
// afterwards. Here the victim lives through a whole history: several routers (genuine identities, each with its own
// router stack, plus the victim's peer and a router behind it) make contact through first-contact pings, hop records
// and real link set-ups, their sessions are used for signed frames in both directions, idle away and are removed by
// ticks of the real session cleaner (State.VerifIdleAndClean), and are created again - for the same and for other
// addresses - from a ping header, a hop record, a peering request or the stored record. In between and at the end,
// frames and hop records are presented whose source address, header key material and signing key belong to
// different members of the cast.
//
// The oracle is the clause of the property itself, judged by behaviour and never by reading fields: whatever the
// history, a frame / record / request for address X is accepted only under the key X is the digest of (so a frame
// that claims X and is signed by another router's key is refused, whichever key material its header carries), the
// frame X signs itself is accepted, and an address that is the digest of nothing presented (one flipped bit) gets
// neither a session nor a stored record. TLC judges every event (Identity_Trace, FrameOK / HistOK).
package main

import (
	"crypto/ed25519"
	"fmt"
	"math/rand"
	"net/netip"
	"os"
	"strings"
	"time"

	"github.com/fxamacker/cbor/v2"

	"github.com/mycoria/mycoria/frame"
	"github.com/mycoria/mycoria/m"
	"github.com/mycoria/mycoria/router"

	"verifharness/internal/linkworld"
	"verifharness/internal/vf"
	"verifharness/internal/world"
)

// hev is one event of a history.
type hev struct {
	Ev      string `json:"ev"`      // frame | hist
	Inst    int    `json:"inst"`    // instance (one victim)
	Step    int    `json:"step"`    // position in the history
	Mode    string `json:"mode"`    // the victim's mode
	Op      string `json:"op"`      // hist: idle | vping ; frame: contact | sweep
	Via     string `json:"via"`     // frame: ping | hop | peering
	Claimed string `json:"claimed"` // whose address the frame / record / request claims
	Addr    string `json:"addr"`    // own: that member's address; bitflip: one bit of it flipped
	Hdr     string `json:"hdr"`     // whose key material is presented along with it
	Signer  string `json:"signer"`  // whose private key signs
	Outcome string `json:"outcome"` // ok (authenticated, handled) | error (refused) | panic
	Session bool   `json:"session"` // a session for the claimed address exists afterwards
	Stored  bool   `json:"stored"`  // a stored record for it exists afterwards
	Idle    int    `json:"idle"`    // hist/idle: seconds every session was idle for
	Removed int    `json:"removed"` // hist/idle: sessions the cleaner removed
	Cleaned int    `json:"cleaned"` // cleaner ticks that removed a session of the claimed address before this event
	Detail  string `json:"detail"`
}

type member struct {
	name string
	id   *m.Address
	n    *world.Node
	// linked: took part in a real link set-up already (one per member)
	linked bool
	// touched: since the last tick of the cleaner that removed sessions, the victim was made to look for a session of
	// this member's address (a frame, record or request claiming it, or a ping of the victim to it)
	touched bool
	// cleaned: ticks of the cleaner that removed sessions after such a look-up (the driver's bookkeeping for the
	// description and the statistics only; the verdict does not depend on it)
	cleaned int
}

var histPool []*m.Address

// histIdentity returns the i-th pooled genuine identity of the history stage (never one of the mesh's own).
func histIdentity(i int) *m.Address {
	for len(histPool) <= i {
		histPool = append(histPool, world.NewIdentity(world.EuropePrefix))
	}
	return histPool[i]
}

type history struct {
	c      *vf.Ctx
	inst   int
	mode   string
	rng    *rand.Rand
	s      *scene
	cast   []*member
	evs    []hev
	step   int
	lastTo []byte // the last captured announcement of the origin as forwarded to the victim
	broken string
}

func (h *history) fail(format string, a ...any) {
	if h.broken == "" {
		h.broken = fmt.Sprintf(format, a...)
	}
}

// authRefused: the frame did not pass authentication (no session could be derived from its header, or it did not
// unseal). Any other handler error comes after the frame was authenticated as its source's.
func authRefused(detail string) bool {
	return strings.Contains(detail, "session from ping:") || strings.Contains(detail, "unseal:")
}

func (h *history) other(x *member) *member {
	for {
		y := h.cast[h.rng.Intn(len(h.cast))]
		if y != x {
			return y
		}
	}
}

func flipBit(ip netip.Addr, rng *rand.Rand) netip.Addr {
	b := ip.As16()
	bit := 16 + rng.Intn(112) // stays inside the same /12
	b[bit/8] ^= 1 << (7 - bit%8)
	return netip.AddrFrom16(b)
}

func (h *history) observe(e *hev, ip netip.Addr) {
	// (GetSession makes a session from the stored record when there is one: asking would itself be a step of the
	// history. With a record the next use yields a session; without one, asking cannot create anything.)
	if r, err := h.s.v.Store.GetRouter(ip); err == nil && r != nil {
		e.Stored, e.Session = true, true
		return
	}
	e.Session = h.s.v.St.GetSession(ip) != nil
}

// pingFrom: a ping with source address src whose header carries hdr's key material, sealed by signer's router stack
// (signer's private key, signer's sequence times), arriving at the victim over its link from R.
func (h *history) pingFrom(op string, claimed *member, addr string, hdr, signer *member) {
	e := hev{Ev: "frame", Op: op, Via: "ping", Claimed: claimed.name, Addr: addr, Hdr: hdr.name, Signer: signer.name, Cleaned: claimed.cleaned}
	src := claimed.id.IP
	if addr == "bitflip" {
		src = flipBit(src, h.rng)
		e.Cleaned = 0
	} else {
		claimed.touched = true
	}
	s := h.s
	var data []byte
	p, pv, _ := vf.NoPanic(func() {
		ph := router.PingHeader{PingID: h.rng.Uint64() | 1, PingType: "pong", AddrHash: hdr.id.Hash, KeyType: hdr.id.Type, PublicKey: hdr.id.PublicKey}
		hd, err := cbor.Marshal(&ph)
		if err != nil {
			panic(err)
		}
		bd, _ := cbor.Marshal(map[string]string{"msg": "ping"})
		msg := append(append([]byte{1, byte(len(hd))}, hd...), bd...)
		fr, err := signer.n.Builder.NewFrameV1(src, s.v.ID.IP, frame.RouterPing, nil, msg, nil)
		if err != nil {
			panic(err)
		}
		sess := signer.n.St.GetSession(s.v.ID.IP)
		if sess == nil {
			panic("the signer's stack has no session for the victim")
		}
		if err := fr.Seal(sess); err != nil {
			panic(err)
		}
		raw, _ := fr.FrameDataWithMargins(0, 0)
		data = append([]byte(nil), raw...)
		fr.ReturnToPool()
	})
	if p || data == nil {
		h.fail("history: the ping of %s could not be built: %v", signer.name, pv)
		return
	}
	np := len(s.ms.W.Panics)
	res, derr := s.ms.W.DeliverRaw(s.r, s.v, data)
	if derr != nil && len(s.ms.W.Panics) == np {
		h.fail("history: the ping did not reach the victim's router: %v", derr)
		return
	}
	if derr == nil && len(res) == 0 {
		h.fail("history: the victim's switch did not hand the ping to its router")
		return
	}
	e.Outcome, e.Detail = handlerOutcome(res, derr)
	if len(s.ms.W.Panics) > np {
		e.Outcome, e.Detail = "panic", strings.Join(s.ms.W.Panics[np:], "; ")
	}
	if e.Outcome == "error" && !authRefused(e.Detail) {
		// authenticated as its source's and handed to the ping handler, which then failed for a reason of its own
		e.Outcome, e.Detail = "ok", "[authenticated; handler: "+e.Detail+"]"
	}
	h.observe(&e, src)
	h.add(e)
}

// hopRecord: the origin announces, R forwards to the victim; the captured frame's records are replaced by R's
// genuine record wrapping a record that claims claimed's address with hdr's key material, signed by signer's key.
func (h *history) hopRecord(op string, claimed, hdr, signer *member) {
	e := hev{Ev: "frame", Op: op, Via: "hop", Claimed: claimed.name, Addr: "own", Hdr: hdr.name, Signer: signer.name, Cleaned: claimed.cleaned}
	s := h.s
	claimed.touched = true
	for _, x := range h.cast {
		if x.n == s.r || x.n == s.o {
			x.touched = true // the frame is the origin's, the outer record R's
		}
	}
	s.ms.W.Inflight = nil
	_ = s.o.Rt.AnnouncePing.Send(s.r.ID.IP)
	var toV []byte
	for guard := 0; guard < 20 && s.ms.W.NInflight() > 0; guard++ {
		fl := s.ms.W.Take(0)
		if fl.To == s.v {
			if an, err := s.ms.Decode(fl.Data); err == nil && an.IsAnn && toV == nil {
				toV = fl.Data
			}
			continue
		}
		_, _ = s.ms.W.Deliver(fl)
	}
	s.ms.W.Inflight = nil
	if toV == nil {
		toV = h.lastTo // R saw nothing new in it: the previous one once more (hop pings may repeat)
	}
	if toV == nil {
		h.fail("history: no forwarded announcement captured")
		return
	}
	h.lastTo = toV
	_, apx := apxFrom(toV)
	ctx := signingContext(toV)
	var data []byte
	p, pv, _ := vf.NoPanic(func() {
		rec := hdr.id.PublicAddress
		rec.IP = claimed.id.IP
		inner := router.AnnouncePingAttachment{Router: rec, Delay: uint16(1 + h.rng.Intn(100)), ForwardLabel: m.SwitchLabel(1 + h.rng.Intn(1000)), ReturnLabel: m.SwitchLabel(1 + h.rng.Intn(1000))}
		ib, err := cbor.Marshal(inner)
		if err != nil {
			panic(err)
		}
		isig, err := signer.id.PrivateKey.Sign(nil, ib, &ed25519.Options{Context: string(ctx)})
		if err != nil {
			panic(err)
		}
		outer := router.AnnouncePingAttachment{Router: s.r.ID.PublicAddress, Delay: 5, ForwardLabel: s.r.LinkTo(s.o).SwitchLabel(), ReturnLabel: s.r.LinkTo(s.v).SwitchLabel(), NextAttachment: append(ib, isig...)}
		ob, err := cbor.Marshal(outer)
		if err != nil {
			panic(err)
		}
		osig, err := s.r.ID.SignWithContext(ob, ctx)
		if err != nil {
			panic(err)
		}
		data = append(append(append([]byte(nil), toV[:apx]...), ob...), osig...)
	})
	if p || data == nil {
		h.fail("history: the hop record could not be built: %v", pv)
		return
	}
	np := len(s.ms.W.Panics)
	res, derr := s.ms.W.DeliverRaw(s.r, s.v, data)
	if derr != nil && len(s.ms.W.Panics) == np {
		h.fail("history: the announcement did not reach the victim's router: %v", derr)
		return
	}
	e.Outcome, e.Detail = handlerOutcome(res, derr)
	if derr == nil && len(res) == 0 {
		e.Outcome, e.Detail = "error", "not handed to the router"
	}
	if len(s.ms.W.Panics) > np {
		e.Outcome, e.Detail = "panic", strings.Join(s.ms.W.Panics[np:], "; ")
	}
	h.observe(&e, claimed.id.IP)
	h.add(e)
}

// peering: x's router stack sets up a real link with the victim (its peering request presents its identity and is
// signed with its key) and the link is closed again.
func (h *history) peering(op string, x *member) {
	e := hev{Ev: "frame", Op: op, Via: "peering", Claimed: x.name, Addr: "own", Hdr: x.name, Signer: x.name, Cleaned: x.cleaned}
	s := h.s
	x.linked, x.touched = true, true
	var res *linkworld.Result
	if p, pv, _ := vf.NoPanic(func() { res = linkworld.Connect(x.n, s.v, nil, 150*time.Millisecond) }); p {
		e.Outcome, e.Detail = "panic", fmt.Sprint(pv)
		h.add(e)
		return
	}
	defer res.Proxy.Close()
	if res.Proxy.NSent("A") == 0 {
		h.fail("history: %s's stack did not send its peering request: %v", x.name, res.ErrA)
		return
	}
	switch {
	case res.LinkB != nil && res.ErrB == nil:
		e.Outcome = "ok"
	case res.ErrB != nil && !res.TimedOut:
		e.Outcome, e.Detail = "error", res.ErrB.Error()
	default:
		h.fail("history: the link set-up of %s timed out without an answer of the victim (%v / %v)", x.name, res.ErrA, res.ErrB)
		return
	}
	for _, l := range x.n.Peer.GetLinks() {
		if l.Peer() == s.v.ID.IP {
			l.Close(nil)
		}
	}
	for _, l := range s.v.Peer.GetLinks() {
		if l.Peer() == x.id.IP {
			l.Close(nil)
		}
	}
	res.Proxy.Close()
	for i := 0; i < 300 && (s.v.Peer.GetLink(x.id.IP) != nil || x.n.Peer.GetLink(s.v.ID.IP) != nil); i++ {
		time.Sleep(time.Millisecond)
	}
	if s.v.Peer.GetLink(x.id.IP) != nil {
		h.fail("history: the link of %s does not go away", x.name)
		return
	}
	h.observe(&e, x.id.IP)
	h.add(e)
}

// idle lets every session of the victim be idle for d and runs one tick of the real session cleaner.
func (h *history) idle(d time.Duration) {
	e := hev{Ev: "hist", Op: "idle", Idle: int(d / time.Second), Outcome: "ok"}
	v := h.s.v
	if p, pv, _ := vf.NoPanic(func() { e.Removed = v.St.VerifIdleAndClean(d) }); p {
		e.Outcome, e.Detail = "panic", fmt.Sprint(pv)
	}
	if e.Removed > 0 && d > time.Minute {
		for _, x := range h.cast {
			if x.touched {
				x.cleaned++
				x.touched = false
			}
		}
	}
	h.add(e)
}

// vping: the victim itself pings x (a session for x is made from the stored record if there is none; the ping is
// sealed with it).
func (h *history) vping(x *member) {
	e := hev{Ev: "hist", Op: "vping", Claimed: x.name, Outcome: "ok", Cleaned: x.cleaned}
	v := h.s.v
	x.touched = true
	var err error
	if p, pv, _ := vf.NoPanic(func() { _, _, err = v.Rt.PingPong.Send(x.id.IP, false, 0) }); p {
		e.Outcome, e.Detail = "panic", fmt.Sprint(pv)
	} else if err != nil {
		e.Outcome, e.Detail = "error", err.Error()
	}
	h.s.ms.W.Inflight = nil
	h.add(e)
}

func (h *history) add(e hev) {
	e.Inst, e.Step, e.Mode = h.inst, h.step, h.mode
	h.step++
	if len(e.Detail) > 300 {
		e.Detail = e.Detail[:300]
	}
	h.evs = append(h.evs, e)
}

// contact: one presentation drawn from the classes genuine / another key signs, the claimed address's own key
// material is shown / another key signs and shows its own material / one bit of the address flipped.
func (h *history) contact(op string, x *member, via string, kind int) {
	y := h.other(x)
	switch via {
	case "hop":
		switch kind {
		case 1:
			h.hopRecord(op, x, x, y)
		case 2:
			h.hopRecord(op, x, y, y)
		default:
			h.hopRecord(op, x, x, x)
		}
	case "peering":
		h.peering(op, x)
	default:
		switch kind {
		case 1:
			h.pingFrom(op, x, "own", x, y)
		case 2:
			h.pingFrom(op, x, "own", y, y)
		case 3:
			h.pingFrom(op, x, "bitflip", x, x)
		default:
			h.pingFrom(op, x, "own", x, x)
		}
	}
}

// runHistory builds one victim and takes it through one history; sub seeds everything.
func runHistory(c *vf.Ctx, inst int, sub int64, quick bool) (evs []hev, broken string) {
	rng := rand.New(rand.NewSource(sub))
	mode := []string{"", "", "", "lite", "stub"}[rng.Intn(5)]
	h := &history{c: c, inst: inst, mode: mode, rng: rng}
	if p, pv, _ := vf.NoPanic(func() { h.s = newSceneMode(rng, mode) }); p {
		return nil, fmt.Sprintf("history: scene: %v", pv)
	}
	s := h.s
	poolSize := 6
	if !quick {
		poolSize = 12
	}
	k := 2 + rng.Intn(3)
	for _, i := range rng.Perm(poolSize)[:k] {
		id := histIdentity(i)
		x := &member{name: string(rune('A' + len(h.cast))), id: id}
		if p, pv, _ := vf.NoPanic(func() {
			x.n = s.ms.W.NewNode("h"+x.name, world.NodeOpts{ID: id})
			if err := x.n.St.AddRouter(&s.v.ID.PublicAddress); err != nil {
				panic(err)
			}
		}); p {
			return nil, fmt.Sprintf("history: stack of %s: %v", x.name, pv)
		}
		h.cast = append(h.cast, x)
	}
	fresh := len(h.cast)
	// the victim's peer and the router behind it are part of the cast: their sessions live on the victim as well
	for _, on := range []struct {
		name string
		n    *world.Node
	}{{"R", s.r}, {"O", s.o}} {
		if on.n.St.GetSession(s.v.ID.IP) == nil {
			if err := on.n.St.AddRouter(&s.v.ID.PublicAddress); err != nil {
				return nil, fmt.Sprintf("history: %s does not take the victim's identity: %v", on.name, err)
			}
		}
		h.cast = append(h.cast, &member{name: on.name, id: on.n.ID, n: on.n, linked: true})
	}

	steps := 8 + rng.Intn(9)
	killed := false
	for i := 0; i < steps && h.broken == ""; i++ {
		time.Sleep(2 * time.Millisecond) // sequence times have millisecond precision
		x := h.cast[rng.Intn(len(h.cast))]
		roll := rng.Intn(100)
		if i == steps/2 && !killed {
			roll = 50 // every history has a tick of the cleaner that removes sessions
		}
		switch {
		case roll < 45:
			kind := 0
			if rng.Intn(10) < 4 {
				kind = 1 + rng.Intn(3)
			}
			h.contact("contact", x, "ping", kind)
		case roll < 65:
			kind := 0
			if rng.Intn(10) < 3 {
				kind = 1 + rng.Intn(2)
			}
			h.contact("contact", h.cast[rng.Intn(fresh)], "hop", kind)
		case roll < 85:
			d := []time.Duration{20 * time.Second, 61 * time.Second, 90 * time.Second, 5 * time.Minute, 61 * time.Minute, 3 * time.Hour}[rng.Intn(6)]
			if roll == 50 && d < time.Minute {
				d = 2 * time.Minute
			}
			h.idle(d)
			killed = killed || d > time.Minute
		case roll < 95:
			h.vping(x)
		default:
			y := h.cast[rng.Intn(fresh)]
			if y.linked || mode != "" {
				h.contact("contact", y, "ping", 0)
			} else {
				h.contact("contact", y, "peering", 0)
			}
		}
	}
	// the sweep: for every member, in some order, the frame it signs itself and a frame another member signs in
	// its name
	for _, i := range rng.Perm(len(h.cast)) {
		if h.broken != "" {
			break
		}
		x := h.cast[i]
		kinds := []int{0, 1 + rng.Intn(2)}
		if rng.Intn(2) == 0 {
			kinds[0], kinds[1] = kinds[1], kinds[0]
		}
		for _, kd := range kinds {
			time.Sleep(2 * time.Millisecond)
			h.contact("sweep", x, "ping", kd)
		}
	}
	// stacks of this instance are garbage from here on; close what real link set-ups may have left
	for _, x := range h.cast[:fresh] {
		for _, l := range x.n.Peer.GetLinks() {
			l.Close(nil)
		}
	}
	return h.evs, h.broken
}

// explainHist mirrors FrameOK / HistOK of Identity_Trace to NAME what TLC refused.
func explainHist(e hev) string {
	if e.Outcome == "panic" {
		return "crash"
	}
	if e.Ev != "frame" {
		return ""
	}
	own := e.Addr == "own" && e.Signer == e.Claimed
	switch {
	case e.Outcome == "ok" && !own:
		return "accepted-under-a-key-the-address-is-not-the-digest-of"
	case own && e.Hdr == e.Claimed && e.Via != "hop" && e.Outcome != "ok":
		return "genuine-router-refused"
	case e.Addr != "own" && (e.Session || e.Stored):
		return "binding-without-proof"
	}
	return ""
}

func describeHist(e hev, evs []hev) string {
	// the history of that victim up to the event
	var hist []string
	for _, p := range evs {
		if p.Inst != e.Inst || p.Step >= e.Step {
			continue
		}
		switch {
		case p.Ev == "hist" && p.Op == "idle":
			hist = append(hist, fmt.Sprintf("idle %ds+cleaner(-%d)", p.Idle, p.Removed))
		case p.Ev == "hist":
			hist = append(hist, "victim pings "+p.Claimed)
		default:
			who := p.Claimed
			if p.Addr != "own" {
				who += "^bit"
			}
			if p.Signer != p.Claimed || p.Hdr != p.Claimed {
				who += fmt.Sprintf("(material of %s, signed by %s)", p.Hdr, p.Signer)
			}
			hist = append(hist, fmt.Sprintf("%s:%s=%s", p.Via, who, p.Outcome))
		}
	}
	mode := e.Mode
	if mode == "" {
		mode = "full"
	}
	what := fmt.Sprintf("%s claiming the address of router %s (%s), carrying the key material of %s and signed with the key of %s", map[string]string{"ping": "a ping", "hop": "a hop record", "peering": "a peering request"}[e.Via], e.Claimed, e.Addr, e.Hdr, e.Signer)
	return fmt.Sprintf("long-lived victim (%s mode), history [%s]; then %s: outcome=%s session=%v stored=%v (cleaner ticks that had removed %s's session before: %d) %s",
		mode, strings.Join(hist, ", "), what, e.Outcome, e.Session, e.Stored, e.Claimed, e.Cleaned, e.Detail)
}

// historyStage runs the instances and returns their events for the trace.
func historyStage(c *vf.Ctx, rng *rand.Rand) (evs []hev, subs map[int]int64) {
	n := c.Pick(32, 300)
	subs = map[int]int64{}
	stat := map[string]int{}
	start := time.Now()
	for inst := 0; inst < n; inst++ {
		sub := rng.Int63()
		subs[inst] = sub
		es, broken := runHistory(c, inst, sub, !c.Thorough())
		if broken != "" {
			c.Broken("%s (instance %d, sub-seed %d)", broken, inst, sub)
			stat["abandoned"]++
			continue
		}
		c.Eval(1)
		for _, e := range es {
			switch {
			case e.Ev == "hist" && e.Op == "idle":
				stat["cleaner_ticks"]++
				stat["sessions_removed"] += e.Removed
			case e.Ev == "hist":
				stat["victim_pings"]++
			default:
				stat[e.Via+"_"+e.Outcome]++
				if e.Signer == e.Claimed && e.Addr == "own" && e.Outcome != "ok" {
					stat["genuine_"+e.Via+"_not_accepted"]++
					if os.Getenv("VERIF_C01_DEBUG") != "" {
						c.Logf("H debug: %s", describeHist(e, es))
					}
				}
				if e.Cleaned > 0 {
					stat["after_the_claimed_address_lost_its_session"]++
				}
				c.Distinct(fmt.Sprintf("hist/%s/%s/%s/%v/%v/%s/%d", e.Mode, e.Via, e.Addr, e.Hdr == e.Claimed, e.Signer == e.Claimed, e.Outcome, min(e.Cleaned, 2)))
			}
		}
		evs = append(evs, es...)
	}
	c.Extra("histories_against_one_long_lived_victim", map[string]any{"instances": n, "events": len(evs), "counts": stat})
	c.Logf("H: %d histories against one long-lived victim each, %d events in %.1fs: %v", n, len(evs), time.Since(start).Seconds(), stat)
	if stat["sessions_removed"] == 0 || stat["after_the_claimed_address_lost_its_session"] == 0 {
		c.Broken("H: no session was ever removed by the cleaner and made again: the stage does not exercise what it is for (%v)", stat)
	}
	if stat["ping_ok"] == 0 || stat["ping_error"] == 0 || stat["hop_ok"] == 0 {
		c.Broken("H: the histories lack accepted pings, refused pings or accepted hop records (%v)", stat)
	}
	return evs, subs
}
