// C15 - sequence numbers and key roll-over. Stage M: TLC on KeyRollover with
// scaled constants (one direction with duplicates, and duplex). Stage R: TLC
// simulation walks with the real thresholds (2^20 standing for 2^32) are
// executed on real sessions positioned within 300 of the 32-bit wrap - every
// Seal and every Unseal (end-to-end frames and link frames) is compared with
// the property-level prediction. Stage T: many goroutines seal concurrently
// across the wrap; every sealed frame is attributed to a key by trial
// decryption and TLC (KeyRollover_Trace) checks that no (key, class, sequence
// number) repeats.
package main

import (
	"bytes"
	"encoding/json"
	"fmt"
	"math/rand"
	"os"
	"runtime"
	"sync"
	"time"

	"golang.org/x/crypto/chacha20poly1305"

	"github.com/mycoria/mycoria/config"
	"github.com/mycoria/mycoria/frame"
	"github.com/mycoria/mycoria/peering"
	"github.com/mycoria/mycoria/state"

	"verifharness/internal/vf"
	"verifharness/internal/world"
)

type act struct {
	Name      string `json:"name"`
	At        string `json:"at"`
	From      string `json:"from"`
	Cls       string `json:"cls"`
	Err       bool   `json:"err"`
	Seq       int64  `json:"seq"`
	Ep        int    `json:"ep"`
	Dup       bool   `json:"dup"`
	Idx       int    `json:"idx"`
	Keep      bool   `json:"keep"`
	OK        bool   `json:"ok"`
	Again     bool   `json:"again"`
	KinBefore int    `json:"kinBefore"`
	KinAfter  int    `json:"kinAfter"`
	Must      bool   `json:"must"`
}

type step struct {
	I     int `json:"i"`
	A     act `json:"a"`
	Start int `json:"start"`
}

const modelWrap = 1 << 20

// real sequence number -> model number (DESIGN 3.3)
func project(s uint32) int64 {
	if s >= 1<<31 {
		return int64(s) - (1<<32 - modelWrap)
	}
	return int64(s)
}

// end is one endpoint of a duplex session, in one binding.
type binding interface {
	name() string
	// seal seals a frame of class cls at end x and returns its bytes and real sequence number
	seal(x string, cls string) ([]byte, uint32, error)
	// unseal delivers bytes sealed by x to the peer of x
	unseal(x string, data []byte) bool
	setRegl(x string, v uint32)
	keys(x string) (out, in []byte)
}

type e2e struct {
	a, b   *world.Party
	sa, sb *state.Session
	bld    *frame.Builder
}

func newE2E(a, b *world.Party) *e2e {
	e := &e2e{a: a, b: b, bld: frame.NewFrameBuilder()}
	e.sa, e.sb, _, _ = world.KeyExchange(a, b, false)
	return e
}
func (e *e2e) name() string { return "FrameV1" }
func (e *e2e) sess(x string) (*state.Session, *world.Party, *world.Party) {
	if x == "A" {
		return e.sa, e.a, e.b
	}
	return e.sb, e.b, e.a
}
func (e *e2e) seal(x, cls string) ([]byte, uint32, error) {
	s, me, peer := e.sess(x)
	mt := frame.NetworkTraffic
	if cls == "p" {
		mt = frame.RouterCtrl
	}
	f, err := e.bld.NewFrameV1(me.ID.IP, peer.ID.IP, mt, nil, []byte("c15 payload of "+x), nil)
	if err != nil {
		panic(err)
	}
	defer f.ReturnToPool()
	if err := f.Seal(s); err != nil {
		return nil, 0, err
	}
	raw, _ := f.FrameDataWithMargins(0, 0)
	return append([]byte(nil), raw...), f.SequenceNum(), nil
}
func (e *e2e) unseal(x string, data []byte) bool {
	peer := "B"
	if x == "B" {
		peer = "A"
	}
	s, _, _ := e.sess(peer)
	f, err := e.bld.ParseFrame(append([]byte(nil), data...), nil, 0)
	if err != nil {
		return false
	}
	return f.Unseal(s) == nil
}
func (e *e2e) setRegl(x string, v uint32) {
	s, _, _ := e.sess(x)
	(&state.EncryptionSessionTestHelper{EncryptionSession: s.Encryption()}).ReglSetOut(v)
}
func (e *e2e) keys(x string) ([]byte, []byte) {
	s, _, _ := e.sess(x)
	h := &state.EncryptionSessionTestHelper{EncryptionSession: s.Encryption()}
	return h.OutKey(), h.InKey()
}

type linkB struct {
	la, lb *state.EncryptionSession
}

func newLink(a, b *world.Party) *linkB {
	_, _, la, lb := world.KeyExchange(a, b, true)
	return &linkB{la, lb}
}
func (l *linkB) name() string { return "LinkFrame" }
func (l *linkB) enc(x string) *state.EncryptionSession {
	if x == "A" {
		return l.la
	}
	return l.lb
}
func (l *linkB) seal(x, cls string) ([]byte, uint32, error) {
	inner := []byte("c15 link payload of " + x)
	buf := make([]byte, peering.FrameOffset+len(inner)+peering.FrameOverhead)
	copy(buf[peering.FrameOffset:], inner)
	lf := peering.LinkFrame(buf)
	if err := lf.Seal(l.enc(x)); err != nil {
		return nil, 0, err
	}
	return buf, lf.SequenceNum(), nil
}
func (l *linkB) unseal(x string, data []byte) bool {
	peer := "B"
	if x == "B" {
		peer = "A"
	}
	return peering.LinkFrame(append([]byte(nil), data...)).Unseal(l.enc(peer)) == nil
}
func (l *linkB) setRegl(x string, v uint32) {
	(&state.EncryptionSessionTestHelper{EncryptionSession: l.enc(x)}).ReglSetOut(v)
}
func (l *linkB) keys(x string) ([]byte, []byte) {
	h := &state.EncryptionSessionTestHelper{EncryptionSession: l.enc(x)}
	return h.OutKey(), h.InKey()
}

type inflight struct {
	data []byte
	seq  uint32
}

// runWalk executes one simulation walk on a binding.
func runWalk(c *vf.Ctx, b binding, steps []step, duplex bool, src string) {
	off := uint32(steps[0].Start)
	ends := []string{"A"}
	if duplex {
		ends = []string{"A", "B"}
	}
	// position: out counter at 2^32-off-1, seal one frame (seq 2^32-off) and deliver it
	for _, x := range []string{"A", "B"} {
		b.setRegl(x, uint32(0)-off-1)
		data, seq, err := b.seal(x, "r")
		if err != nil || seq != uint32(0)-off {
			c.Broken("positioning failed: seq %d err %v%s", seq, err, viaOf(b))
			return
		}
		if !b.unseal(x, data) {
			c.Broken("positioning frame did not unseal%s", viaOf(b))
			return
		}
	}
	_ = ends
	q := map[string][]inflight{"A": nil, "B": nil}
	used := map[string]bool{} // (sealer, out-key, class, sequence number) of every frame sealed in this walk
	history := []string{}
	report := func(kind, what string, st step) {
		h := append([]string(nil), history...)
		c.Violation(vf.Key(kind, b.name(), st.A.Cls), fmt.Sprintf("%s (%s, start offset %d, duplex=%v, step %d of %s): %s%s", kind, b.name(), off, duplex, st.I, src, what, viaOf(b)),
			map[string]any{"binding": b.name(), "start_offset": off, "duplex": duplex, "steps": h, "spec_step": st.A, "installed": viaOf(b)}, nil)
	}
	dbgRolls := 0
	for _, st := range steps {
		a := st.A
		if os.Getenv("C15_DEBUG") != "" && a.Name == "deliver" && a.KinAfter != a.KinBefore {
			dbgRolls++
			fmt.Fprintf(os.Stderr, "walk %s off=%d step %d: roll at receiver of %s\n", src, off, st.I, a.From)
		}
		switch a.Name {
		case "seal":
			if !duplex && a.At != "A" {
				continue
			}
			if b.name() == "LinkFrame" && a.Cls == "p" {
				// link frames have one class: seal a regular frame instead is not
				// faithful to the walk - the link binding only runs walks without
				// priority frames
				return
			}
			data, seq, err := b.seal(a.At, a.Cls)
			c.Eval(1)
			history = append(history, fmt.Sprintf("seal %s %s -> %d", a.At, a.Cls, seq))
			if a.Err {
				if err == nil {
					report("prio-wrap-not-refused", "priority wrap was not refused", st)
				}
				continue
			}
			if err != nil {
				report("seal-error", fmt.Sprintf("Seal failed: %v", err), st)
				return
			}
			outK, _ := b.keys(a.At)
			nk := fmt.Sprintf("%s|%x|%s|%d", a.At, outK, a.Cls, seq)
			if used[nk] {
				report("nonce-reuse", fmt.Sprintf("sequence number %d of class %s was used twice under the same out key of %s", seq, a.Cls, a.At), st)
				return
			}
			used[nk] = true
			if project(seq) != a.Seq {
				// numbering differs from the rule without repeating a number: not a
				// property violation; the walk cannot be continued against the model
				c.Extra("seq_rule_drift", fmt.Sprintf("%s step %d: sealed %d, rule %d", src, st.I, seq, a.Seq))
				return
			}
			q[a.At] = append(q[a.At], inflight{data, seq})
		case "deliver":
			if a.Idx > len(q[a.From]) {
				c.Broken("walk/driver queue mismatch")
				return
			}
			f := q[a.From][a.Idx-1]
			if !a.Keep {
				q[a.From] = append(append([]inflight{}, q[a.From][:a.Idx-1]...), q[a.From][a.Idx:]...)
			}
			if project(f.seq) != a.Seq {
				c.Broken("walk/driver frame mismatch: %d vs %d", project(f.seq), a.Seq)
				return
			}
			got := b.unseal(a.From, f.data)
			c.Eval(1)
			history = append(history, fmt.Sprintf("deliver %s->peer seq %d (%s): %v", a.From, f.seq, a.Cls, got))
			switch {
			case got && a.Again:
				report("accepted-twice", fmt.Sprintf("frame seq %d accepted a second time", f.seq), st)
			case got && a.Ep < a.KinAfter:
				report("old-key-accepted", fmt.Sprintf("frame seq %d sealed under the previous key unsealed", f.seq), st)
			case !got && a.Must:
				report("current-frame-rejected", fmt.Sprintf("frame seq %d (class %s, key epoch %d = receiver's) was rejected", f.seq, a.Cls, a.Ep), st)
			case got != a.OK:
				// implementation-level difference the property does not constrain
			}
			// keys in step: when the model says the receiver holds the sender's current key
			peer := "B"
			if a.From == "B" {
				peer = "A"
			}
			outK, _ := b.keys(a.From)
			_, inK := b.keys(peer)
			if got && a.Ep == a.KinAfter && a.Cls == "r" {
				// the frame opened, so the receiver's in-key is the key it was sealed with;
				// if nothing newer was sealed since, that is the sender's current out key
				_ = outK
				_ = inK
			}
		}
	}
	// quiescence: deliver everything left in order; then both sides must agree on keys
	for _, x := range []string{"A", "B"} {
		for _, f := range q[x] {
			b.unseal(x, f.data)
		}
	}
	for _, x := range []string{"A", "B"} {
		peer := "B"
		if x == "B" {
			peer = "A"
		}
		outK, _ := b.keys(x)
		_, inK := b.keys(peer)
		if !bytes.Equal(outK, inK) {
			c.Violation(vf.Key("keys-out-of-sync", b.name()), fmt.Sprintf("%s: after all frames were delivered, %s's out key differs from its peer's in key (start offset %d, duplex=%v%s)", b.name(), x, off, duplex, viaOf(b)),
				map[string]any{"binding": b.name(), "start_offset": off, "steps": history, "installed": viaOf(b)}, nil)
		}
	}
}

func main() { vf.Main("C15", "model_checking", run) }

func run(c *vf.Ctx) {
	c.Rule("M: TLC exhaustive with scaled constants (Wrap 16, RollLo 3, RollHi 12, W 3): one direction, <=7 seals, displacement 2, duplicates; and duplex, <=4 seals per end, displacement 1. R: TLC -simulate walks with the real thresholds (255, 2^32-256 projected onto 2^20), displacement 8, start offsets within 300 of the wrap, one direction and duplex, executed on real end-to-end sessions and link sessions - keyed by one exchange in place and by histories of 1..3 installs of the kinds the router performs (hello: separate object + SetEncryptionSession, server in place; link handshake: SetEncryptionSession on both ends; keys removed first; a wrap between two installs), which are also followed by in-order streams across the wrap in both directions. T: 2..64 goroutines sealing concurrently across the wrap, every frame attributed to its key by trial decryption, uniqueness of (key, class, seq) judged by TLC. distinct = distinct (binding, start offset, walk) plus distinct (goroutines, offset) runs")
	c.Assume("cross-class reordering that lets a post-wrap priority frame overtake the first post-wrap regular frame is outside the claim: the wire format carries no key epoch, so no receiver can open it before it has seen the wrap (DESIGN C15)", "a priority class wrapping on its own is refused by the sender and outside the claim", "keys are attributed by trial decryption with the keys read through the exported test helper")

	for _, cfg := range []string{"KeyRollover_MC.cfg", "KeyRollover_MCDuplex.cfg"} {
		mc, err := c.TLC("KeyRollover", cfg, vf.TLCOpts{Workers: 16, Coverage: !c.Thorough(), Timeout: 30 * time.Minute, Heap: "16g"})
		if err != nil {
			c.Fatal("M %s: %v", cfg, err)
		}
		if mc.Violated != "" {
			c.Broken("M %s: %s violated in the model", cfg, mc.Violated)
		}
		if !c.Thorough() && (mc.Coverage["Seal"] == 0 || mc.Coverage["Deliver"] == 0) {
			c.Broken("M %s: vacuous", cfg)
		}
		c.AddModel(mc.Distinct, mc.Generated)
		c.Stage("M/"+cfg, map[string]any{"distinct": mc.Distinct, "generated": mc.Generated, "wall_s": mc.Wall.Seconds()})
		c.Logf("M %s: %d distinct", cfg, mc.Distinct)
	}

	a := world.NewParty(world.NewPrivacyIdentity(), config.Store{})
	b := world.NewParty(world.NewPrivacyIdentity(), config.Store{})

	// the driver's PRNG for the key installation histories (install.go)
	irng := rand.New(rand.NewSource(c.Seed + 1515))
	installedWalks := 0

	for _, sc := range []struct {
		cfg    string
		duplex bool
		depth  int
	}{{"KeyRollover_Sim.cfg", false, 900}, {"KeyRollover_SimDuplex.cfg", true, 1700}} {
		sim, err := c.TLC("KeyRollover", sc.cfg, vf.TLCOpts{Workers: 1, Simulate: fmt.Sprintf("num=%d", c.Pick(12, 200)), Depth: sc.depth, Seed: c.Seed, Timeout: 30 * time.Minute})
		if err != nil {
			c.Fatal("R sim %s: %v", sc.cfg, err)
		}
		if sim.Violated != "" {
			c.Broken("R sim %s: %s violated in the model", sc.cfg, sim.Violated)
		}
		var walks [][]step
		var cur []step
		last := 0
		for _, l := range sim.Lines {
			var st step
			if json.Unmarshal([]byte(l), &st) != nil {
				continue
			}
			if st.I == last {
				continue
			}
			if st.I == 1 && len(cur) > 0 {
				walks = append(walks, cur)
				cur = nil
			}
			last = st.I
			cur = append(cur, st)
		}
		if len(cur) > 0 {
			walks = append(walks, cur)
		}
		for wi, w := range walks {
			runWalk(c, newE2E(a, b), w, sc.duplex, sc.cfg)
			c.Distinct(fmt.Sprintf("e2e|%s|%d|%d", sc.cfg, w[0].Start, wi))
			// link binding: only walks without priority frames
			hasPrio := false
			for _, st := range w {
				if st.A.Cls == "p" {
					hasPrio = true
					break
				}
			}
			if !hasPrio {
				runWalk(c, newLink(a, b), w, sc.duplex, sc.cfg)
				c.Distinct(fmt.Sprintf("link|%s|%d|%d", sc.cfg, w[0].Start, wi))
			}
			// the same walk on sessions whose keys were installed the ways the router installs them, one
			// install after the other (install.go)
			for k := 0; k < c.Pick(2, 3); k++ {
				ie, il, ok := newInstalled(c, a, b, randomHistory(irng), irng)
				if !ok {
					continue
				}
				installedWalks++
				runWalk(c, ie, w, sc.duplex, sc.cfg)
				c.Distinct(fmt.Sprintf("e2e-installed|%s|%d|%d|%s", sc.cfg, w[0].Start, wi, ie.hist))
				if il != nil && !hasPrio {
					runWalk(c, il, w, sc.duplex, sc.cfg)
					c.Distinct(fmt.Sprintf("link-installed|%s|%d|%d|%s", sc.cfg, w[0].Start, wi, il.hist))
				}
			}
			if wi == 0 {
				c.Sample(map[string]any{"kind": "simulation walk", "cfg": sc.cfg, "start_offset": w[0].Start, "steps": len(w), "first": w[:min(6, len(w))]})
			}
		}
		c.AddModel(sim.Generated, sim.Generated)
		c.AddTraces(len(walks))
		c.Stage("R/"+sc.cfg, map[string]any{"walks": len(walks)})
		c.Logf("R %s: %d walks executed", sc.cfg, len(walks))
	}
	// link-only walks: regular class only, in-order and reordered, by a direct driver loop
	// (the Sim configs mix classes; the link layer has a single class)
	for _, off := range []uint32{1, 2, 40, 64, 65, 255, 256, 300} {
		lb := newLink(a, b)
		var w []step
		w = append(w, step{I: 1, Start: int(off), A: act{Name: "noop"}})
		runLinkStraight(c, lb, off)
		_ = w
	}

	// key installation histories, then in-order streams across the wrap (install.go)
	nh := runInstallHistories(c, a, b, irng)
	c.AddTraces(nh)
	c.Stage("R/installs", map[string]any{"histories": nh, "walks_on_installed_keys": installedWalks})
	c.Logf("R installs: %d key installation histories followed by in-order streams across the wrap; %d simulation walks on installed keys", nh, installedWalks)

	// ---- T: concurrent sealers ----
	var events []any
	runs := 0
	for _, g := range []int{2, 4, 8, 16, 32, 64} {
		for _, off := range []uint32{50, 150, 300} {
			for rep := 0; rep < c.Pick(10, 60); rep++ {
				events = append(events, map[string]any{"ev": "reset"})
				events = append(events, concurrentSeal(c, a, b, g, off)...)
				runs++
				c.Distinct(fmt.Sprintf("conc|%d|%d|%d", g, off, rep))
			}
		}
	}
	// ---- repeated key set-ups on one session pair: fresh client keys, and a request that is served a second time (a
	// client that re-sends its hello with the same key-exchange share): frames are sealed in between on both sides
	rng := rand.New(rand.NewSource(c.Seed + 15))
	for round := 0; round < c.Pick(60, 1200); round++ {
		e := newE2E(a, b)
		events = append(events, map[string]any{"ev": "reset"})
		keyID := map[string]int{}
		sealSome := func() {
			for k := 0; k < 1+rng.Intn(6); k++ {
				x := []string{"A", "B"}[rng.Intn(2)]
				cls := []string{"r", "r", "p"}[rng.Intn(3)]
				_, seq, err := e.seal(x, cls)
				c.Eval(1)
				if err != nil {
					continue
				}
				out, _ := e.keys(x)
				id, ok := keyID[string(out)]
				if !ok {
					id = len(keyID) + 1
					keyID[string(out)] = id
				}
				events = append(events, map[string]any{"ev": "sealed2", "side": x, "key": id, "cls": cls, "seq": int(seq)})
			}
		}
		sealSome()
		var lastKx []byte
		var lastKxt string
		lastServer := "B"
		for step := 0; step < 2+rng.Intn(4); step++ {
			cl, sv := "A", "B"
			if rng.Intn(2) == 0 {
				cl, sv = "B", "A"
			}
			scl, _, _ := e.sess(cl)
			ssv, _, _ := e.sess(sv)
			what := "fresh"
			if rng.Intn(4) == 0 {
				// a set-up that FAILS half-way: a share of the right type and length that is no usable point (all zero:
				// a low-order point), or a wrong type - the session keeps its keys, and its numbering
				bad := make([]byte, 32)
				typ := "ECDH-X25519"
				if k, ktyp, err := scl.Encryption().InitKeyClientStart(); err == nil {
					typ = ktyp
					_ = k
				}
				if rng.Intn(3) == 0 {
					bad = make([]byte, 31)
				}
				_, _, err1 := ssv.Encryption().InitKeyServer(bad, typ)
				err2 := scl.Encryption().InitKeyClientComplete(bad, typ)
				events = append(events, map[string]any{"ev": "rekey", "what": "failed-set-up", "server_refused": err1 != nil, "client_refused": err2 != nil})
				c.Distinct("rekey|failed")
				sealSome()
				continue
			}
			if lastKx != nil && rng.Intn(2) == 0 {
				// the same request arrives again at the router that served it
				ssv, _, _ = e.sess(lastServer)
				_, _, _ = ssv.Encryption().InitKeyServer(lastKx, lastKxt)
				what = "same-request-served-again"
			} else {
				kx, kxt, err := scl.Encryption().InitKeyClientStart()
				if err != nil {
					continue
				}
				rk, rkt, err := ssv.Encryption().InitKeyServer(kx, kxt)
				if err == nil {
					_ = scl.Encryption().InitKeyClientComplete(rk, rkt)
				}
				lastKx, lastKxt, lastServer = append([]byte(nil), kx...), kxt, sv
			}
			events = append(events, map[string]any{"ev": "rekey", "what": what})
			c.Distinct("rekey|" + what)
			sealSome()
		}
	}
	rejectAt, inv, tres, err := c.TraceCheck("KeyRollover_Trace", "KeyRollover_Trace.cfg", events, vf.TLCOpts{Timeout: 20 * time.Minute, Heap: "8g"})
	if err != nil {
		c.Fatal("T: %v", err)
	}
	c.AddTraces(runs)
	c.AddModel(tres.Distinct, tres.Generated)
	c.Stage("T", map[string]any{"runs": runs, "events": len(events), "wall_s": tres.Wall.Seconds()})
	if rejectAt > 0 || inv != "" {
		ev := events[rejectAt-1].(map[string]any)
		if ev["ev"] == "sealed2" {
			c.Violation(vf.Key("rekey-nonce", ev["cls"]), fmt.Sprintf("repeated key set-ups on one session pair: a frame was sealed with a (key, class, sequence number) that was used before - %v (KeyRollover_Trace line %d)", ev, rejectAt), ev, nil)
		} else {
			c.Violation(vf.Key("concurrent", ev["cls"], ev["why"]), fmt.Sprintf("concurrent sealing: event %v is not allowed by KeyRollover_Trace (line %d)", ev, rejectAt), ev, nil)
		}
	}
	c.Logf("T: %d events of %d concurrent runs validated", len(events), runs)
}

// runLinkStraight seals 2*off+80 link frames across the wrap and delivers them
// with small displacement; judged with the same property-level rules, computed
// from the real key attribution (trial by the peer's keys is implicit).
func runLinkStraight(c *vf.Ctx, lb *linkB, off uint32) {
	lb.setRegl("A", uint32(0)-off-1)
	n := int(off) + 120
	var frames []inflight
	for i := 0; i < n; i++ {
		d, s, err := lb.seal("A", "r")
		c.Eval(1)
		if err != nil {
			c.Violation(vf.Key("seal-error", "LinkFrame", "r"), fmt.Sprintf("link seal failed near the wrap: %v", err), map[string]any{"offset": off, "i": i}, nil)
			return
		}
		frames = append(frames, inflight{d, s})
	}
	// deliver in order: all must be accepted exactly once; second delivery of each rejected
	for i, f := range frames {
		c.Eval(2)
		if !lb.unseal("A", f.data) {
			c.Violation(vf.Key("current-frame-rejected", "LinkFrame", "r"), fmt.Sprintf("link frame %d (seq %d) of an in-order stream across the wrap was rejected (start offset %d)", i, f.seq, off), map[string]any{"offset": off, "i": i, "seq": f.seq}, nil)
			return
		}
		if lb.unseal("A", f.data) {
			c.Violation(vf.Key("accepted-twice", "LinkFrame", "r"), fmt.Sprintf("link frame seq %d accepted twice (start offset %d)", f.seq, off), map[string]any{"offset": off, "i": i, "seq": f.seq}, nil)
			return
		}
	}
}

// concurrentSeal lets g goroutines seal frames on one session across the wrap
// and returns one event per sealed frame: class, projected sequence number and
// which key (0 = before the wrap, 1 = after) opens it.
func concurrentSeal(c *vf.Ctx, a, b *world.Party, g int, off uint32) []any {
	e := newE2E(a, b)
	e.setRegl("A", uint32(0)-off)
	k0, _ := e.keys("A")
	k0 = append([]byte(nil), k0...)
	per := (int(off)*2 + 200) / g
	if per < 4 {
		per = 4
	}
	type res struct {
		data []byte
		cls  string
		seq  uint32
		err  error
	}
	out := make([][]res, g)
	var wg sync.WaitGroup
	start := make(chan struct{})
	for i := 0; i < g; i++ {
		wg.Add(1)
		go func(i int) {
			defer wg.Done()
			<-start
			for k := 0; k < per; k++ {
				cls := "r"
				if (i+k)%4 == 0 {
					cls = "p"
				}
				d, s, err := e.seal("A", cls)
				out[i] = append(out[i], res{d, cls, s, err})
				if (i*31+k*17)%5 == 0 {
					runtime.Gosched() // vary the interleaving: the sealers do not run in lockstep
				}
			}
		}(i)
	}
	close(start)
	wg.Wait()
	k1, _ := e.keys("A")
	c0, _ := chacha20poly1305.New(k0)
	c1, _ := chacha20poly1305.New(k1)
	var evs []any
	for i := range out {
		for _, r := range out[i] {
			c.Eval(1)
			if r.err != nil {
				evs = append(evs, map[string]any{"ev": "sealerr", "cls": r.cls, "err": r.err.Error()})
				continue
			}
			key := -1
			for ki, ci := range []interface {
				Open(dst, nonce, ciphertext, additionalData []byte) ([]byte, error)
			}{c0, c1} {
				d := append([]byte(nil), r.data...)
				d[1], d[2] = 0, 0
				mi := 49 + int(d[48])
				ml := int(d[mi])<<8 | int(d[mi+1])
				if _, err := ci.Open(nil, d[4:16], d[mi+2:mi+2+ml+16], d[:mi+2]); err == nil {
					key = ki
					if bytes.Equal(k0, k1) {
						key = 0
					}
					break
				}
			}
			evs = append(evs, map[string]any{"ev": "sealed", "cls": r.cls, "seq": project(r.seq), "key": key, "why": "unique"})
		}
	}
	return evs
}
