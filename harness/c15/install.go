// Key installation histories. The wrap scenarios of stage R used to run on
// sessions whose keys were always put there by one key exchange done in place
// on session.Encryption() at both ends. The router installs keys in other ways,
// and one after another on the same session:
//
//	in-place  InitKeyClientStart / InitKeyServer / InitKeyClientComplete on the
//	          session's own encryption object (the hello server's half)
//	hello     router/tun.go asks session.Encryption().IsSetUp() (which creates
//	          an empty object), router/ping_hello.go runs the client half on a
//	          separate NewEncryptionSession() and installs it with
//	          Session.SetEncryptionSession; the server re-keys in place
//	link      peering/init.go: both ends run the exchange on a separate object,
//	          finalize() derives the link session from it and installs it with
//	          Session.SetEncryptionSession
//	lost      router/ping_error.go: State.SetEncryptionSession(ip, nil) after a
//	          "no encryption keys" error, before the next set-up
//
// A history is 1..3 such installs (roles, "was IsSetUp asked before", "were the
// keys dropped before" drawn from the driver's PRNG), optionally with a wrap of
// the regular sequence between two installs, so a later install lands on keys
// that already rolled. The sessions that result feed the SAME oracles as
// before: runWalk (the TLC simulation walks) and the in-order stream across the
// wrap (the rule of runLinkStraight, for any binding).
package main

import (
	"bytes"
	"fmt"
	"math/rand"
	"strings"

	"github.com/mycoria/mycoria/frame"
	"github.com/mycoria/mycoria/state"

	"verifharness/internal/vf"
	"verifharness/internal/world"
)

var installKinds = []string{"in-place", "hello", "link"}

type install struct {
	How       string `json:"how"`
	Client    string `json:"client"`     // which end is the client of the exchange
	Lost      string `json:"lost"`       // "", "client", "server", "both": ends whose keys were removed first
	AskClient bool   `json:"ask_client"` // Encryption().IsSetUp() asked at the client before the set-up (always by tun.go before a hello)
	AskServer bool   `json:"ask_server"`
	WrapAfter string `json:"wrap_after"` // "", "A", "B": the regular sequence of that end wraps (in-order stream) before the next install
	WrapOff   uint32 `json:"wrap_off"`
}

func (in install) String() string {
	s := in.How + " client=" + in.Client
	if in.Lost != "" {
		s += " keys-removed-first=" + in.Lost
	}
	if in.AskClient {
		s += " client-asked-IsSetUp"
	}
	if in.AskServer {
		s += " server-asked-IsSetUp"
	}
	if in.WrapAfter != "" {
		s += fmt.Sprintf(" then-wrap-of-%s(offset %d)", in.WrapAfter, in.WrapOff)
	}
	return s
}

func describe(h []install) string {
	p := make([]string, len(h))
	for i, in := range h {
		p[i] = in.String()
	}
	return "[" + strings.Join(p, "; ") + "]"
}

// randomInstall draws one install; how == "" draws the kind too.
func randomInstall(rng *rand.Rand, how string) install {
	if how == "" {
		how = installKinds[rng.Intn(len(installKinds))]
	}
	in := install{How: how, Client: []string{"A", "B"}[rng.Intn(2)]}
	in.Lost = []string{"", "", "", "client", "server", "both"}[rng.Intn(6)]
	in.AskClient = rng.Intn(2) == 0
	in.AskServer = rng.Intn(2) == 0
	if how == "hello" {
		in.AskClient = true // router/tun.go: a hello is only ever started after this question
	}
	return in
}

// randomHistory draws a history of 1..3 installs; kinds, when given, fixes the
// kind of the first and (with two entries) of the last install. Between two
// installs the regular sequence of one end sometimes wraps.
func randomHistory(rng *rand.Rand, kinds ...string) []install {
	n := 1 + rng.Intn(3)
	if n < len(kinds) {
		n = len(kinds)
	}
	var h []install
	for i := 0; i < n; i++ {
		how := ""
		switch {
		case i == 0 && len(kinds) > 0:
			how = kinds[0]
		case i == n-1 && len(kinds) > 1:
			how = kinds[1]
		}
		in := randomInstall(rng, how)
		if i < n-1 && rng.Intn(3) == 0 {
			in.WrapAfter = []string{"A", "B"}[rng.Intn(2)]
			in.WrapOff = uint32(1 + rng.Intn(300))
		}
		h = append(h, in)
	}
	return h
}

// doInstall performs one install on the session pair of e with the calls the
// repository makes. The link sessions are returned for how == "link".
func doInstall(e *e2e, in install) (la, lb *state.EncryptionSession, err error) {
	sv := "B"
	if in.Client == "B" {
		sv = "A"
	}
	scl, pcl, psv := e.sess(in.Client)
	ssv, _, _ := e.sess(sv)
	if in.Lost == "client" || in.Lost == "both" {
		if err := pcl.St.SetEncryptionSession(psv.ID.IP, nil); err != nil {
			return nil, nil, fmt.Errorf("remove keys at the client: %w", err)
		}
	}
	if in.Lost == "server" || in.Lost == "both" {
		if err := psv.St.SetEncryptionSession(pcl.ID.IP, nil); err != nil {
			return nil, nil, fmt.Errorf("remove keys at the server: %w", err)
		}
	}
	if in.AskClient {
		scl.Encryption().IsSetUp()
	}
	if in.AskServer {
		ssv.Encryption().IsSetUp()
	}
	switch in.How {
	case "in-place":
		kx, kxt, err := scl.Encryption().InitKeyClientStart()
		if err != nil {
			return nil, nil, err
		}
		rk, rkt, err := ssv.Encryption().InitKeyServer(kx, kxt)
		if err != nil {
			return nil, nil, err
		}
		if err := scl.Encryption().InitKeyClientComplete(rk, rkt); err != nil {
			return nil, nil, err
		}
		scl.Encryption().InitCleanup()
		ssv.Encryption().InitCleanup()
	case "hello":
		// client: router/ping_hello.go sendHello / handlePingHelloResponse; server: handlePingHelloRequest
		enc := state.NewEncryptionSession()
		kx, kxt, err := enc.InitKeyClientStart()
		if err != nil {
			return nil, nil, err
		}
		rk, rkt, err := ssv.Encryption().InitKeyServer(kx, kxt)
		if err != nil {
			return nil, nil, err
		}
		if err := enc.InitKeyClientComplete(rk, rkt); err != nil {
			return nil, nil, err
		}
		enc.InitCleanup()
		scl.SetEncryptionSession(enc)
	case "link":
		// peering/init.go: newPeeringRequestState, handleRequest/handleResponse, finalize - on both ends
		kc, ks := state.NewEncryptionSession(), state.NewEncryptionSession()
		kx, kxt, err := kc.InitKeyClientStart()
		if err != nil {
			return nil, nil, err
		}
		rk, rkt, err := ks.InitKeyServer(kx, kxt)
		if err != nil {
			return nil, nil, err
		}
		if err := kc.InitKeyClientComplete(rk, rkt); err != nil {
			return nil, nil, err
		}
		lc, err := kc.DeriveSessionFromKX(true, "link layer crypt")
		if err != nil {
			return nil, nil, err
		}
		scl.SetEncryptionSession(kc)
		kc.InitCleanup()
		ls, err := ks.DeriveSessionFromKX(false, "link layer crypt")
		if err != nil {
			return nil, nil, err
		}
		ssv.SetEncryptionSession(ks)
		ks.InitCleanup()
		la, lb = lc, ls
		if in.Client == "B" {
			la, lb = ls, lc
		}
	default:
		return nil, nil, fmt.Errorf("unknown install %q", in.How)
	}
	return la, lb, nil
}

// installed is an e2e binding whose keys came from a history of installs.
type installed struct {
	*e2e
	hist string
}

func (i *installed) via() string { return i.hist }

type installedLink struct {
	*linkB
	hist string
}

func (i *installedLink) via() string { return i.hist }

// viaOf returns how the keys of a binding were installed ("" = one exchange in place).
func viaOf(b binding) string {
	if d, ok := b.(interface{ via() string }); ok {
		return "; keys installed by " + d.via()
	}
	return ""
}

// newInstalled runs a history on the session pair of a and b. ok is false when
// the check cannot go on (already reported: Broken for a set-up that failed, or
// a violation found at a wrap between two installs).
func newInstalled(c *vf.Ctx, a, b *world.Party, h []install, rng *rand.Rand) (e *installed, l *installedLink, ok bool) {
	base := &e2e{a: a, b: b, bld: frame.NewFrameBuilder()}
	base.sa, base.sb = a.SessionWith(b), b.SessionWith(a)
	e = &installed{e2e: base}
	for i, in := range h {
		e.hist = describe(h[:i+1])
		la, lb, err := doInstall(base, in)
		if err != nil {
			c.Broken("key installation %s failed: %v", e.hist, err)
			return nil, nil, false
		}
		l = nil
		if la != nil {
			l = &installedLink{linkB: &linkB{la, lb}, hist: e.hist}
		}
		if in.WrapAfter != "" {
			if !runStraight(c, e, in.WrapAfter, in.WrapOff, rng) {
				return nil, nil, false
			}
		}
	}
	return e, l, true
}

// runStraight seals off+120 frames at end x across the wrap of its regular
// sequence and delivers them in order: every frame must be accepted exactly
// once ("frames sealed just before and after the wrap unseal at the receiver in
// order"), and afterwards the receiver's in key is the sender's out key ("move
// to the same next key"). End-to-end streams carry priority frames in between
// ("restart the priority sequence"). Returns false when the stream was stopped.
func runStraight(c *vf.Ctx, b binding, x string, off uint32, rng *rand.Rand) bool {
	peer := "B"
	if x == "B" {
		peer = "A"
	}
	// position the sender below the wrap and the receiver's window with one frame, as runWalk does
	b.setRegl(x, uint32(0)-off-1)
	data, seq, err := b.seal(x, "r")
	if err != nil || seq != uint32(0)-off {
		c.Broken("in-order stream (%s%s): positioning failed: seq %d err %v", b.name(), viaOf(b), seq, err)
		return false
	}
	if !b.unseal(x, data) {
		c.Broken("in-order stream (%s%s): positioning frame of %s did not unseal", b.name(), viaOf(b), x)
		return false
	}
	prio := b.name() == "FrameV1"
	n := int(off) + 120
	type sent struct {
		inflight
		cls string
	}
	var frames []sent
	for i := 0; i < n; i++ {
		cls := "r"
		if prio && rng.Intn(5) == 0 {
			cls = "p"
		}
		d, s, err := b.seal(x, cls)
		c.Eval(1)
		if err != nil {
			c.Violation(vf.Key("seal-error", b.name(), cls, "installed"), fmt.Sprintf("seal-error (%s): Seal of frame %d (class %s) of a stream of %s across the wrap failed: %v (start offset %d%s)", b.name(), i, cls, x, err, off, viaOf(b)),
				map[string]any{"binding": b.name(), "offset": off, "i": i, "end": x, "installed": viaOf(b)}, nil)
			return false
		}
		frames = append(frames, sent{inflight{d, s}, cls})
	}
	for i, f := range frames {
		c.Eval(2)
		if !b.unseal(x, f.data) {
			c.Violation(vf.Key("current-frame-rejected", b.name(), f.cls, "installed"), fmt.Sprintf("current-frame-rejected (%s): frame %d (class %s, seq %d) of an in-order stream of %s across the wrap of its regular sequence was rejected by the receiver (start offset %d%s)", b.name(), i, f.cls, f.seq, x, off, viaOf(b)),
				map[string]any{"binding": b.name(), "offset": off, "i": i, "seq": f.seq, "cls": f.cls, "end": x, "installed": viaOf(b)}, nil)
			return false
		}
		if b.unseal(x, f.data) {
			c.Violation(vf.Key("accepted-twice", b.name(), f.cls, "installed"), fmt.Sprintf("accepted-twice (%s): frame seq %d (class %s) of %s accepted twice (start offset %d%s)", b.name(), f.seq, f.cls, x, off, viaOf(b)),
				map[string]any{"binding": b.name(), "offset": off, "i": i, "seq": f.seq, "end": x, "installed": viaOf(b)}, nil)
			return false
		}
	}
	outK, _ := b.keys(x)
	_, inK := b.keys(peer)
	if !bytes.Equal(outK, inK) {
		c.Violation(vf.Key("keys-out-of-sync", b.name(), "installed"), fmt.Sprintf("%s: after an in-order stream of %s across the wrap was delivered, %s's out key differs from its peer's in key (start offset %d%s)", b.name(), x, x, off, viaOf(b)),
			map[string]any{"binding": b.name(), "offset": off, "end": x, "installed": viaOf(b)}, nil)
		return false
	}
	return true
}

// runInstallHistories: every kind of install alone and every ordered pair of
// kinds (the rest of each history is drawn), then an in-order stream across the
// wrap in both directions - on the end-to-end sessions and, after a link
// install, on the derived link sessions.
func runInstallHistories(c *vf.Ctx, a, b *world.Party, rng *rand.Rand) int {
	n := 0
	for rep := 0; rep < c.Pick(10, 100); rep++ {
		var plans [][]string
		for _, k := range installKinds {
			plans = append(plans, []string{k})
			for _, k2 := range installKinds {
				plans = append(plans, []string{k, k2})
			}
		}
		plans = append(plans, nil, nil)
		for _, p := range plans {
			var h []install
			if len(p) == 1 {
				h = []install{randomInstall(rng, p[0])}
			} else {
				h = randomHistory(rng, p...)
			}
			e, l, ok := newInstalled(c, a, b, h, rng)
			if !ok {
				continue
			}
			n++
			c.Distinct("inst|" + e.hist)
			ends := []string{"A", "B"}
			if rng.Intn(2) == 0 {
				ends = []string{"B", "A"}
			}
			for _, x := range ends {
				if !runStraight(c, e, x, uint32(1+rng.Intn(300)), rng) {
					break
				}
			}
			if l != nil {
				for _, x := range ends {
					if !runStraight(c, l, x, uint32(1+rng.Intn(300)), rng) {
						break
					}
				}
			}
			if n == 1 {
				c.Sample(map[string]any{"kind": "key installation history, then in-order streams across the wrap", "history": h})
			}
		}
	}
	return n
}
