// Class link-mid/signed-fields of C13: a PARTICIPANT of the link handshake - a router with a valid identity of its
// own that signs every message correctly - puts malformed values into the fields of its request, response or ack:
// huge text and byte strings (up to what the 2-byte framing carries), control characters, wrong CBOR types, negative
// and huge numbers, nested containers. The victim runs the real link set-up (peering.VerifSetupLink) as listener or
// as dialler. Every message is built from a generic CBOR map so that any field can carry any value, and the frame
// is assembled and signed by hand (the frame builder refuses what it considers oversized - an attacker's does not).
package main

import (
	"crypto/ed25519"
	"encoding/binary"
	"fmt"
	"io"
	"math/rand"
	"net"
	"net/netip"
	"runtime/debug"
	"sort"
	"strings"
	"time"

	"github.com/fxamacker/cbor/v2"

	"github.com/mycoria/mycoria/frame"
	"github.com/mycoria/mycoria/m"
	"github.com/mycoria/mycoria/state"

	"verifharness/internal/mesh"
	"verifharness/internal/world"
)

var signedStamp int64

// rawSigned assembles a signed RouterPing frame by hand. at: the time stamp (zero: a counter of its own, for
// scripted routers without a session).
func rawSigned(id *m.Address, src, dst netip.Addr, msg []byte, at time.Time) []byte {
	if signedStamp < time.Now().UnixMilli() {
		signedStamp = time.Now().UnixMilli()
	}
	signedStamp++
	if !at.IsZero() {
		signedStamp = at.UnixMilli()
	}
	raw := make([]byte, 48, 48+3+len(msg)+64)
	raw[0] = 1
	raw[4] = uint8(frame.RouterPing)
	raw[5], raw[6], raw[7] = byte(signedStamp), byte(signedStamp>>8), byte(signedStamp>>16)
	binary.BigEndian.PutUint64(raw[8:16], uint64(signedStamp))
	s, d := src.As16(), dst.As16()
	copy(raw[16:32], s[:])
	copy(raw[32:48], d[:])
	raw = append(raw, 0, byte(len(msg)>>8), byte(len(msg)))
	raw = append(raw, msg...)
	raw = append(raw, ed25519.Sign(id.PrivateKey, raw)...)
	raw[1] = 1
	return raw
}

func readFramed(conn net.Conn) ([]byte, error) {
	_ = conn.SetReadDeadline(time.Now().Add(2 * time.Second))
	var lb [2]byte
	if _, err := io.ReadFull(conn, lb[:]); err != nil {
		return nil, err
	}
	n := int(lb[0])<<8 | int(lb[1])
	if n < 3 {
		return nil, fmt.Errorf("length %d", n)
	}
	buf := make([]byte, n-2)
	_, err := io.ReadFull(conn, buf)
	return buf, err
}

func writeFramed(conn net.Conn, raw []byte) error {
	out := append([]byte{byte((len(raw) + 2) >> 8), byte(len(raw) + 2)}, raw...)
	_ = conn.SetWriteDeadline(time.Now().Add(2 * time.Second))
	_, err := conn.Write(out)
	return err
}

// weird returns a malformed field value and its description.
func weird(rng *rand.Rand) (any, string) {
	sizes := []int{0, 1, 8, 15, 16, 17, 24, 31, 32, 33, 64, 255, 256, 300, 5000, 9990, 10001, 16000, 17000, 30000, 45000, 60000}
	n := sizes[rng.Intn(len(sizes))]
	switch rng.Intn(12) {
	case 0:
		return strings.Repeat("\x00", n), fmt.Sprintf("text of %d NUL", n)
	case 1:
		return strings.Repeat("a", n), fmt.Sprintf("text of %d 'a'", n)
	case 2:
		return strings.Repeat("%s%n\"\\\n", n/7+1), fmt.Sprintf("text of %d format/escape characters", (n/7+1)*7)
	case 3:
		return strings.Repeat("‮\U0001F600", n/7+1), fmt.Sprintf("text of %d bytes of multi-byte runes", (n/7+1)*7)
	case 4:
		return randBytes(rng, n), fmt.Sprintf("%d random bytes", n)
	case 5:
		return make([]byte, n), fmt.Sprintf("%d zero bytes", n)
	case 6:
		return -1 - rng.Intn(1<<30), "negative integer"
	case 7:
		return uint64(1)<<63 + uint64(rng.Int63()), "integer beyond int64"
	case 8:
		return nil, "null"
	case 9:
		return []any{1, "x", []any{[]any{}}}, "array"
	case 10:
		return map[any]any{"a": map[any]any{"b": 1}, 7: []byte{1}}, "map"
	default:
		return rng.Intn(2) == 0, "boolean"
	}
}

// signedFields: every field of the three messages.
var signedFields = func() (out [][2]any) {
	for t, fs := range map[int][]string{1: {"v", "u", "lm", "a", "c", "lv", "tmtu", "zz"}, 2: {"c", "ua", "kx", "kxt", "err", "zz"}, 3: {"ack", "kx", "kxt", "err", "zz"}} {
		for _, f := range fs {
			out = append(out, [2]any{t, f})
		}
	}
	sort.Slice(out, func(i, j int) bool { return fmt.Sprint(out[i]) < fmt.Sprint(out[j]) })
	return
}()

// amplifiers: values that grow when a program quotes, escapes or repeats them.
var amplifiers = []struct {
	v    any
	desc string
}{
	{strings.Repeat("\x00", 17000), "text of 17000 NUL"},
	{strings.Repeat("\x00", 60000), "text of 60000 NUL"},
	{strings.Repeat("\"", 33000), "text of 33000 quotes"},
	{strings.Repeat("a", 64000), "text of 64000 'a'"},
	{strings.Repeat("\xff", 20000), "text of 20000 invalid UTF-8 bytes"},
	{make([]byte, 64000), "64000 zero bytes"},
	{strings.Repeat("%v", 5000), "text of 5000 format verbs"},
	{"", "empty text"},
	// sizes around the limits the handshake itself names (challenge: at least 16, normally 32 bytes; X25519 keys: 32)
	{make([]byte, 15), "15 zero bytes"},
	{make([]byte, 16), "16 zero bytes"},
	{[]byte("twenty bytes of text"), "20 bytes"},
	{make([]byte, 31), "31 zero bytes"},
	{make([]byte, 33), "33 zero bytes"},
}

// linkSigned runs one handshake of a scripted, correctly signing participant with one malformed field; the first
// len(signedFields)*len(amplifiers) instances sweep every field with every amplifier, the rest is drawn at random.
// linkPaused (class link-mid/paused-handshake): the participant's messages are all well-formed - but it pauses before
// its second or its third message, for minutes or hours, and the victim's session cleaner has its tick (guarded hook)
// before the handshake goes on.
func linkPaused(rng *rand.Rand, inst int) (outcome, detail, input string) {
	pausedBefore = 2 + inst%2
	pausedFor = []time.Duration{90 * time.Second, 3 * time.Minute, 2 * time.Hour}[(inst/2)%3]
	defer func() { pausedBefore = 0 }()
	return linkSigned(rng, -1)
}

var (
	pausedBefore int
	pausedFor    time.Duration
)

func linkSigned(rng *rand.Rand, inst int) (outcome, detail, input string) {
	w := world.NewWorld()
	ids := mesh.Identities(2)
	v := w.NewNode("V", world.NodeOpts{ID: ids[0]})
	me := ids[1]
	outgoing := rng.Intn(2) == 0
	ca, cb := net.Pipe()
	defer ca.Close()
	url, _ := m.ParsePeeringURL("tcp://127.0.0.1:47369")
	done := make(chan error, 1)
	go func() {
		defer func() {
			if r := recover(); r != nil {
				done <- fmt.Errorf("panic: %v\n%s", r, debug.Stack())
			}
		}()
		l, err := v.Peer.VerifSetupLink(cb, url, outgoing)
		if l != nil {
			l.Close(nil)
		}
		done <- err
	}()
	tf := signedFields[rng.Intn(len(signedFields))]
	val, vdesc := weird(rng)
	if inst >= 0 && inst < len(signedFields)*len(amplifiers) {
		tf = signedFields[inst/len(amplifiers)]
		am := amplifiers[inst%len(amplifiers)]
		val, vdesc = am.v, am.desc
	}
	target, field := tf[0].(int), tf[1].(string)
	input = fmt.Sprintf("victim dials=%v, message %d field %q = %s", outgoing, target, field, vdesc)
	if inst < 0 {
		target = 0
		input = fmt.Sprintf("victim dials=%v, well-formed messages, a pause of %v before message %d", outgoing, pausedFor, pausedBefore)
	}
	send := func(k int, msg map[string]any, dst netip.Addr) error {
		if k == pausedBefore {
			removed := v.St.VerifIdleAndClean(pausedFor)
			input += fmt.Sprintf(" (the session cleaner removed %d session(s))", removed)
		}
		if k == target {
			msg[field] = val
		}
		data, err := cbor.Marshal(msg)
		if err != nil {
			return err
		}
		if len(data) > 65000 {
			data = data[:65000]
		}
		return writeFramed(ca, rawSigned(me, me.IP, dst, data, time.Time{}))
	}
	finish := func() (string, string, string) {
		_ = ca.Close()
		select {
		case err := <-done:
			switch {
			case err != nil && strings.HasPrefix(err.Error(), "panic:"):
				return "panic", err.Error(), input
			case err == nil:
				return "handled", "", input
			}
			return "dropped", err.Error(), input
		case <-time.After(5 * time.Second):
			return "stalled", "the link set-up did not end 5 s after the connection was closed", input
		}
	}
	// the victim's request
	raw, err := readFramed(ca)
	if err != nil {
		return finish()
	}
	bld := frame.NewFrameBuilder()
	fr, err := bld.ParseFrame(raw, nil, 0)
	if err != nil {
		return finish()
	}
	var vreq struct {
		Challenge []byte `cbor:"c,omitempty"`
	}
	_ = cbor.Unmarshal(fr.MessageData(), &vreq)
	ch := make([]byte, 32)
	rng.Read(ch)
	if send(1, map[string]any{"v": "verif", "u": "", "a": me.PublicAddress, "c": ch, "lv": 1, "tmtu": 1400}, m.RouterAddress) != nil {
		return finish()
	}
	// the victim's response to my request (or its error)
	if _, err := readFramed(ca); err != nil {
		return finish()
	}
	resp := map[string]any{"c": vreq.Challenge}
	ack := map[string]any{"ack": true}
	kx, kxt, err := state.NewEncryptionSession().InitKeyClientStart()
	if err != nil {
		return finish()
	}
	if !outgoing { // I am the dialling side = client: my response carries the key exchange
		resp["kx"], resp["kxt"] = kx, kxt
	} else { // the victim is the client: my ack answers its key exchange
		ack["kx"], ack["kxt"] = kx, kxt
	}
	if send(2, resp, v.ID.IP) != nil {
		return finish()
	}
	if _, err := readFramed(ca); err != nil {
		return finish()
	}
	_ = send(3, ack, v.ID.IP)
	time.Sleep(2 * time.Millisecond)
	return finish()
}
