// Stage "churn" of C13: frames are routed WHILE the router's links come and go. Every other stage hands the long-lived
// router one input at a time and nothing else happens to the router meanwhile. A running router is different: its link
// registry changes (a peer's handshake completes -> Peering.AddLink; a peer disconnects, sends garbage or is closed by
// the keep-alive -> Link.Close -> Peering.RemoveLink; announcements write and link closes remove learned routes) at
// the very moment its NumCPU switch and router workers route frames (ping replies, transit frames) through the same
// registry and routing table. Both sides are driven by nothing but input from the network, so a worker that does not
// come back because of their overlap is within "no input from the network can ... stall a router worker".
//
// One victim router with a few permanent peers lives through the whole stage. On all CPUs, goroutines feed it a stream
// of correctly sealed frames of its permanent peers through the REAL switch handler and router worker
// (world.DeliverRawOn, the world's time limits for every call):
//
//	transit-peer      frames for a directly connected router: a permanent peer, the sender itself (would loop: the
//	                  router answers with an "unreachable" error ping, which is routed too) or - mostly - a peer
//	                  whose link is being added and removed at that moment
//	transit-learned   frames for a router that is known through the announcements of such a peer (the route is written
//	                  when the link comes up and removed with the link)
//	transit-unknown   frames for an address the router has no route for (nearest route; not routable at all)
//	switch-label      frames that are source routed by label over a coming and going link (switch worker)
//	ping-relayed      pings of remote routers for the victim, relayed by a permanent peer: the reply is routed
//	ping-peer         pings of a permanent peer itself
//
// while other goroutines change the registry of the same router:
//
//	link-up           a link to one of some hundred peers is registered (Peering.AddLink, as the set-up worker does
//	                  after the handshake; then the routes the peer announces are written)
//	link-down         a link is closed (Link.Close -> Peering.RemoveLink)
//	link-handshake    a REAL link set-up between the victim and another router stack (handshake, label, AddLink,
//	                  reader and writer), dialled by either side, and its close by either side
//
// Node.OnRoutingTable (the registry asks the instance for the routing table between taking its own lock and touching
// the table) is used as a scheduling point: a seeded share of the calls yields the processor there.
//
// The oracle is the one of every other class (FrameLifecycle_Trace, InputOK): each input is handled or dropped; a
// panic, or a call that does not come back within the world's limit, is none of the outcomes.
package main

import (
	"context"
	"fmt"
	"math/rand"
	"net"
	"net/netip"
	"regexp"
	"runtime"
	"sort"
	"strings"
	"sync"
	"sync/atomic"
	"time"

	"github.com/mycoria/mycoria/config"
	"github.com/mycoria/mycoria/frame"
	"github.com/mycoria/mycoria/m"
	"github.com/mycoria/mycoria/peering"
	"github.com/mycoria/mycoria/router"
	"github.com/mycoria/mycoria/state"

	"verifharness/internal/linkworld"
	"verifharness/internal/mesh"
	"verifharness/internal/vf"
	"verifharness/internal/world"
)

// churnLimit is the time limit of a registry operation (the world's limit for a router worker).
const churnLimit = 30 * time.Second

// churnLink is a link of the victim to a peer that exists as an address only: what the registry and the switch need
// of a link, with a writer that behaves like the real one (take the frame with the link margins, release it).
type churnLink struct {
	owner   *world.Node
	peer    netip.Addr
	label   m.SwitchLabel
	lite    bool
	started time.Time
	closing atomic.Bool
	sent    *atomic.Int64
}

var _ peering.Link = &churnLink{}

func (l *churnLink) String() string                   { return fmt.Sprintf("churn link %s->%s", l.owner.Name, l.peer) }
func (l *churnLink) Peer() netip.Addr                 { return l.peer }
func (l *churnLink) SwitchLabel() m.SwitchLabel       { return l.label }
func (l *churnLink) GeoMark() string                  { return "" }
func (l *churnLink) PeeringURL() *m.PeeringURL        { return nil }
func (l *churnLink) Outgoing() bool                   { return l.label%2 == 0 }
func (l *churnLink) Lite() bool                       { return l.lite }
func (l *churnLink) LocalAddr() net.Addr              { return &net.UnixAddr{Name: l.owner.Name} }
func (l *churnLink) RemoteAddr() net.Addr             { return &net.UnixAddr{Name: l.peer.String()} }
func (l *churnLink) Started() time.Time               { return l.started }
func (l *churnLink) Uptime() time.Duration            { return time.Since(l.started) }
func (l *churnLink) Latency() uint16                  { return 5 }
func (l *churnLink) AddMeasuredLatency(time.Duration) {}
func (l *churnLink) BytesIn() uint64                  { return 0 }
func (l *churnLink) BytesOut() uint64                 { return 0 }
func (l *churnLink) IsClosing() bool                  { return l.closing.Load() }
func (l *churnLink) FlowControlIndicator() frame.FlowControlFlag {
	return frame.FlowControlFlagIncreaseFlow
}
func (l *churnLink) SendPriority(f frame.Frame) error { return l.Send(f) }

// Send does what the real link does with a frame: it takes it; the writer serialises it with the link margins and
// releases it.
func (l *churnLink) Send(f frame.Frame) error {
	_, _ = f.FrameDataWithMargins(peering.FrameOffset, peering.FrameOverhead)
	f.ReturnToPool()
	l.sent.Add(1)
	return nil
}

// Close is the real link's Close: the flag is won once, then the link is taken out of the registry.
func (l *churnLink) Close(log func()) {
	if l.closing.CompareAndSwap(false, true) {
		if log != nil {
			log()
		}
		l.owner.Peer.RemoveLink(l)
	}
}

// churnPeer is one of the peers whose link to the victim comes and goes.
type churnPeer struct {
	addr   netip.Addr
	label  m.SwitchLabel
	lite   bool
	behind []netip.Addr // routers the peer announces: routes through it are written when its link comes up
}

// heartbeat says what a goroutine that changes the registry is doing right now, so that an operation that does not
// come back can be named by somebody else.
type heartbeat struct {
	mu       sync.Mutex
	active   bool
	kind     string
	note     string
	since    time.Time
	reported bool
	ended    bool
}

func (h *heartbeat) begin(kind, note string) {
	h.mu.Lock()
	h.active, h.kind, h.note, h.since = true, kind, note, time.Now()
	h.mu.Unlock()
}

func (h *heartbeat) end() {
	h.mu.Lock()
	h.active = false
	h.mu.Unlock()
}

// churnOut is what one goroutine of the stage has seen.
type churnOut struct {
	obs     []obs
	counts  map[string]int // kind/outcome
	reasons map[string]int // kind: why an input was dropped (shortened)
	cap     int
	n       int
	unbuilt int // frames the generator could not build (no input: nothing was given to the router)
}

var hexRun = regexp.MustCompile(`[0-9a-f:]{12,}`)

func (o *churnOut) add(kind, outcome, detail, input string) {
	o.n++
	o.counts[kind+"/"+outcome]++
	ok := outcome == "handled" || outcome == "dropped"
	if outcome == "dropped" {
		if o.reasons == nil {
			o.reasons = map[string]int{}
		}
		r := hexRun.ReplaceAllString(firstLine(detail), "<addr>")
		if len(r) > 90 {
			r = r[:90]
		}
		if len(o.reasons) < 200 {
			o.reasons[kind+": "+r]++
		}
	}
	// every input that was not handled or dropped is kept; of the others the first ones of every (kind, outcome)
	if !ok || o.counts[kind+"/"+outcome] <= o.cap {
		o.obs = append(o.obs, obs{Stage: "churn", Kind: kind, Outcome: outcome, DoubleRelease: strings.Contains(detail, "double return"), Alive: true, Detail: firstLine(detail), Input: input})
	}
}

type churnStageT struct {
	c       *vf.Ctx
	w       *world.World
	v       *world.Node
	stable  []*world.Node
	realPs  []*world.Node
	remotes []*world.Party
	sets    [][]*churnPeer
	allP    []*churnPeer
	learned []netip.Addr
	sent    atomic.Int64

	ready    sync.WaitGroup // the routing goroutines have made their stock of frames
	begin    chan struct{}
	stop     atomic.Bool
	deadline time.Time
	progress atomic.Int64
	sealMu   []sync.Mutex // per permanent peer: frames of one sender are sealed one after the other
}

func routableAddr(rng *rand.Rand) netip.Addr {
	var b [16]byte
	rng.Read(b[:])
	b[0], b[1] = 0xfd, b[1]&0x7f
	if b[1] == 0 {
		b[1] = 0x10
	}
	return netip.AddrFrom16(b)
}

// sealAt builds a frame with the builder and seals it with the sender's session for the victim (or, when it has one,
// its session for the destination).
func (st *churnStageT) sealAt(b *frame.Builder, sessOf func(netip.Addr) frameSession, src, dst netip.Addr, mt frame.MessageType, labels, msg []byte) ([]byte, error) {
	f, err := b.NewFrameV1(src, dst, mt, labels, msg, nil)
	if err != nil {
		return nil, err
	}
	defer f.ReturnToPool()
	sess := sessOf(st.v.ID.IP)
	if dst != st.v.ID.IP {
		if x := sessOf(dst); x != nil {
			sess = x
		}
	}
	if sess == nil {
		return nil, fmt.Errorf("no session")
	}
	if err := f.Seal(sess); err != nil {
		return nil, err
	}
	raw, _ := f.FrameDataWithMargins(0, 0)
	return append([]byte(nil), raw...), nil
}

// frameSession is what Frame.Seal needs.
type frameSession = *state.Session

func (st *churnStageT) sealPeer(i int, src, dst netip.Addr, mt frame.MessageType, labels, msg []byte) ([]byte, error) {
	p := st.stable[i]
	st.sealMu[i].Lock()
	defer st.sealMu[i].Unlock()
	sessOf := func(a netip.Addr) frameSession { return p.St.GetSession(a) }
	b, err := st.sealAt(p.Builder, sessOf, src, dst, mt, labels, msg)
	if err != nil && mt != frame.RouterPing {
		b, err = st.sealAt(p.Builder, sessOf, src, dst, frame.RouterPing, labels, msg)
	}
	return b, err
}

func pongRequest(rng *rand.Rand, id *m.Address) []byte {
	h := router.PingHeader{PingID: rng.Uint64() | 1, PingType: "pong", AddrHash: id.Hash, KeyType: id.Type, PublicKey: id.PublicKey}
	return pingMsg(h, map[string]string{"msg": "ping"})
}

// classify turns what the world returns for one delivery into the outcome of the input.
func classifyDelivery(h *world.Handled, err error) (outcome, detail string) {
	outcome = "handled"
	if err != nil {
		outcome, detail = "dropped", err.Error()
		if strings.Contains(detail, "panic") {
			outcome = "panic"
		}
		if strings.Contains(detail, "stalled") || strings.Contains(detail, "did not take") {
			outcome = "stalled"
		}
	}
	if h != nil {
		if h.Panic {
			outcome, detail = "panic", fmt.Sprint(h.Err)
		} else if h.Err != nil && (strings.Contains(h.Err.Error(), "stalled") || strings.Contains(h.Err.Error(), "did not take")) {
			outcome, detail = "stalled", h.Err.Error()
		} else if e := h.HandlerErr(); e != "" && outcome == "handled" {
			outcome, detail = "dropped", e
		}
	}
	return
}

var churnFrameKinds = []string{"transit-peer", "transit-learned", "transit-unknown", "switch-label", "ping-relayed", "ping-peer"}

// worker: one goroutine that feeds frames of the permanent peers to the victim, one after the other, each through the
// real switch handler and router worker.
func (st *churnStageT) worker(g int, rng *rand.Rand, out *churnOut) {
	v := st.v
	builder := frame.NewFrameBuilder()
	builder.SetFrameMargins(peering.FrameOffset, peering.FrameOverhead)
	remote := st.remotes[g%len(st.remotes)]
	remoteSess := func(a netip.Addr) frameSession {
		if a != v.ID.IP {
			return nil
		}
		return remote.St.GetSession(a)
	}
	// transit frames are not looked into by the victim (they are sealed for their destination): a stock of them is made
	// once and sent again and again, each time for a destination chosen afresh among those of its kind
	type stock struct {
		data []byte
		note string
		via  int
	}
	stocks := map[string][]stock{}
	mts := []frame.MessageType{frame.RouterPing, frame.RouterPing, frame.RouterCtrl, frame.NetworkTraffic, frame.SessionData}
	mk := func(kind string, dst netip.Addr, dwhat string, labels []byte) {
		via := rng.Intn(len(st.stable))
		src := st.stable[via].ID.IP
		swhat := "the peer"
		if rng.Intn(3) == 0 {
			src, swhat = remote.ID.IP, "a remote router"
		}
		mt := mts[rng.Intn(len(mts))]
		msg := pongRequest(rng, st.stable[via].ID)
		if mt == frame.NetworkTraffic {
			msg = ipv6Ports(src, dst, 6, uint16(rng.Intn(65536)), 80, rng.Intn(40))
		}
		data, err := st.sealPeer(via, src, dst, mt, labels, msg)
		if err != nil {
			return
		}
		if rng.Intn(10) == 0 {
			data[1] = []byte{1, 2, 3, 255}[rng.Intn(4)] // TTL
		}
		stocks[kind] = append(stocks[kind], stock{data, fmt.Sprintf("frame of %s (type %d) relayed by permanent peer %d for %s", swhat, data[4], via+1, dwhat), via})
	}
	for k := 0; k < 40; k++ {
		pr := st.allP[rng.Intn(len(st.allP))]
		switch rng.Intn(8) {
		case 0:
			o := rng.Intn(len(st.stable))
			mk("transit-peer", st.stable[o].ID.IP, fmt.Sprintf("permanent peer %d (the sender itself: would loop, when it is)", o+1), nil)
		case 1:
			if len(st.realPs) > 0 {
				o := rng.Intn(len(st.realPs))
				mk("transit-peer", st.realPs[o].ID.IP, fmt.Sprintf("router %s, which sets up and closes real links with the victim", st.realPs[o].Name), nil)
				break
			}
			fallthrough
		default:
			mk("transit-peer", pr.addr, "a peer whose link comes and goes", nil)
		}
		if len(st.learned) > 0 {
			mk("transit-learned", st.learned[rng.Intn(len(st.learned))], "a router announced by a peer whose link comes and goes", nil)
		}
		switch rng.Intn(6) {
		case 0:
			var b [16]byte
			rng.Read(b[:])
			b[0], b[1] = 0xfd, b[1]|0x80
			mk("transit-unknown", netip.AddrFrom16(b), "a privacy address (never routable)", nil)
		case 1:
			a := pr.addr.As16()
			rng.Read(a[10+rng.Intn(5):])
			mk("transit-unknown", netip.AddrFrom16(a), "an unknown address next to a peer whose link comes and goes", nil)
		default:
			mk("transit-unknown", routableAddr(rng), "an unknown routable address", nil)
		}
		// source routed over the coming and going link: the block as it arrives at the victim
		sp := m.SwitchPath{Hops: []m.SwitchHop{{Router: v.ID.IP, ForwardLabel: pr.label}, {Router: pr.addr, ReturnLabel: m.SwitchLabel(1 + rng.Intn(100))}}}
		if rng.Intn(3) == 0 {
			sp = m.SwitchPath{Hops: []m.SwitchHop{{Router: v.ID.IP, ForwardLabel: pr.label}, {Router: pr.addr, ForwardLabel: 77, ReturnLabel: 66}, {Router: routableAddr(rng), ReturnLabel: 88}}}
		}
		if sp.BuildBlocks() == nil {
			mk("switch-label", sp.Hops[len(sp.Hops)-1].Router, fmt.Sprintf("a router behind label %d (a link that comes and goes)", pr.label), sp.ForwardBlock)
		}
	}
	// the stage begins when every routing goroutine has its stock
	st.ready.Done()
	<-st.begin

	for !st.stop.Load() && time.Now().Before(st.deadline) {
		kind := churnFrameKinds[[]int{0, 0, 0, 0, 1, 1, 1, 2, 2, 3, 3, 4, 4, 4, 5}[rng.Intn(15)]]
		var data []byte
		var note string
		via := rng.Intn(len(st.stable))
		switch kind {
		case "ping-relayed":
			d, err := st.sealAt(builder, remoteSess, remote.ID.IP, v.ID.IP, frame.RouterPing, nil, pongRequest(rng, remote.ID))
			if err != nil {
				out.unbuilt++
				continue
			}
			data, note = d, fmt.Sprintf("ping of remote router %s for the victim, relayed by permanent peer %d: the reply has to be routed", remote.ID.IP, via+1)
		case "ping-peer":
			d, err := st.sealPeer(via, st.stable[via].ID.IP, v.ID.IP, frame.RouterPing, nil, pongRequest(rng, st.stable[via].ID))
			if err != nil {
				out.unbuilt++
				continue
			}
			data, note = d, fmt.Sprintf("ping of permanent peer %d for the victim", via+1)
		default:
			ss := stocks[kind]
			if len(ss) == 0 {
				out.unbuilt++
				continue
			}
			s := ss[rng.Intn(len(ss))]
			data, note, via = s.data, s.note, s.via
		}
		h, err := st.w.DeliverRawOn(v.LinkTo(st.stable[via]), v, data)
		outcome, detail := classifyDelivery(h, err)
		out.add(kind, outcome, detail, note+fmt.Sprintf(", while links are registered and closed [goroutine %d, input %d]", g+1, out.n+1))
		st.progress.Add(1)
		if outcome == "stalled" {
			st.stop.Store(true)
			return
		}
		if rng.Intn(64) == 0 {
			runtime.Gosched()
		}
	}
}

// churner: one goroutine that registers and closes links of the victim to its share of the coming and going peers.
func (st *churnStageT) churner(ci int, rng *rand.Rand, hb *heartbeat, out *churnOut) {
	v := st.v
	peers := st.sets[ci]
	up := map[int]*churnLink{}
	burst := 0
	for !st.stop.Load() && time.Now().Before(st.deadline) {
		j := rng.Intn(len(peers))
		pr := peers[j]
		if l := up[j]; l == nil {
			l = &churnLink{owner: v, peer: pr.addr, label: pr.label, lite: pr.lite, started: time.Now(), sent: &st.sent}
			note := fmt.Sprintf("Peering.AddLink of a link to peer %s, label %d (%d of this goroutine's links are up), while frames are routed", pr.addr, pr.label, len(up))
			hb.begin("link-up", note)
			err := v.Peer.AddLink(l)
			if err == nil {
				up[j] = l
				// what the announcements of the new peer make the router write: routes to the routers behind it
				for _, d := range pr.behind {
					if rng.Intn(4) == 0 {
						continue
					}
					hops := []m.SwitchHop{{Router: v.ID.IP, ForwardLabel: pr.label}, {Router: pr.addr, ForwardLabel: 77, ReturnLabel: 66}, {Router: d, ReturnLabel: 88}}
					_, _ = v.Rt.Table().AddRoute(m.RoutingTableEntry{DstIP: d, NextHop: pr.addr, Source: m.RouteSourceGossip, Expires: time.Now().Add(time.Hour), Path: m.SwitchPath{Hops: hops}})
				}
			}
			hb.end()
			if err != nil {
				out.add("link-up", "dropped", err.Error(), note)
			} else {
				out.add("link-up", "handled", "", note)
			}
		} else {
			note := fmt.Sprintf("Link.Close -> Peering.RemoveLink of the link to peer %s, label %d (%d of this goroutine's links are up), while frames are routed", pr.addr, pr.label, len(up))
			hb.begin("link-down", note)
			l.Close(nil)
			hb.end()
			delete(up, j)
			out.add("link-down", "handled", "", note)
		}
		st.progress.Add(1)
		// rhythm: bursts of changes without a pause, single changes with a short one
		if burst > 0 {
			burst--
			continue
		}
		switch k := rng.Intn(16); {
		case k == 0:
			burst = 2 + rng.Intn(12)
		case k < 6:
			runtime.Gosched()
		default:
			time.Sleep(time.Duration(rng.Intn(150)) * time.Microsecond)
		}
	}
	hb.mu.Lock()
	hb.ended = true
	hb.mu.Unlock()
}

// handshaker: real link set-ups between the victim and other router stacks, and their close, one after the other.
func (st *churnStageT) handshaker(rng *rand.Rand, hb *heartbeat, out *churnOut) {
	v := st.v
	defer func() {
		hb.mu.Lock()
		hb.ended = true
		hb.mu.Unlock()
	}()
	for round := 0; !st.stop.Load() && time.Now().Before(st.deadline); round++ {
		r := st.realPs[rng.Intn(len(st.realPs))]
		victimDials := rng.Intn(2) == 0
		closer := []string{"the victim", "the peer", "the peer's connection breaks"}[rng.Intn(3)]
		note := fmt.Sprintf("real link set-up no. %d between the victim and router %s (victim dials: %v; closed by: %s), while frames are routed", round+1, r.Name, victimDials, closer)
		hb.begin("link-handshake", note)
		var pd *linkworld.Pending
		var doneV, doneR chan linkworld.SetupRet
		if victimDials {
			pd = linkworld.Start(v, r)
			doneV, doneR = pd.DoneA, pd.DoneB
		} else {
			pd = linkworld.Start(r, v)
			doneV, doneR = pd.DoneB, pd.DoneA
		}
		outcome, detail := "handled", ""
		var lv, lr peering.Link
		limit := time.After(churnLimit)
		for k := 0; k < 2 && outcome != "stalled"; k++ {
			select {
			case x := <-doneV:
				doneV = nil
				lv = x.Link
				if x.Err != nil {
					if strings.HasPrefix(x.Err.Error(), "panic:") {
						outcome, detail = "panic", x.Err.Error()
					} else if outcome == "handled" {
						outcome, detail = "dropped", "victim: "+x.Err.Error()
					}
				}
			case x := <-doneR:
				doneR = nil
				lr = x.Link
				if x.Err != nil && outcome == "handled" {
					outcome, detail = "dropped", "peer: "+x.Err.Error()
				}
			case <-limit:
				if outcome != "panic" {
					who := "the peer's"
					if doneV != nil {
						who = "the victim's"
					}
					outcome, detail = "stalled", fmt.Sprintf("%s link set-up has not come back for %s", who, churnLimit)
				}
			}
		}
		if outcome == "stalled" {
			hb.end()
			out.add("link-handshake", outcome, detail, note)
			st.stop.Store(true)
			return
		}
		if lv != nil && lr != nil {
			// the link is up for a moment: frames for the peer are written to the real connection
			time.Sleep(time.Duration(rng.Intn(2500)) * time.Microsecond)
		}
		switch {
		case lv != nil && closer == "the victim":
			lv.Close(nil)
		case lr != nil && closer == "the peer":
			lr.Close(nil)
		default:
			pd.Proxy.Close()
		}
		_ = pd.ConnA.Close()
		_ = pd.ConnB.Close()
		pd.Proxy.Close()
		// the victim's reader notices and closes the victim's end
		if lv != nil {
			for t0 := time.Now(); !lv.IsClosing() && time.Since(t0) < 5*time.Second; {
				time.Sleep(100 * time.Microsecond)
			}
			lv.Close(nil)
		}
		if lr != nil {
			lr.Close(nil)
		}
		hb.end()
		out.add("link-handshake", outcome, detail, note)
		st.progress.Add(1)
	}
}

// blockedSummary lists the goroutines that wait for a lock inside the code under test: "<n>x [<what they wait in>]
// innermost function of the repository <- its caller <- ...".
func blockedSummary() string {
	buf := make([]byte, 8<<20)
	buf = buf[:runtime.Stack(buf, true)]
	chains := map[string]int{}
	for _, blk := range strings.Split(string(buf), "\n\n") {
		lines := strings.Split(blk, "\n")
		if len(lines) < 3 || !strings.HasPrefix(lines[0], "goroutine ") {
			continue
		}
		state := lines[0]
		if i := strings.IndexByte(state, '['); i >= 0 {
			state = strings.TrimSuffix(strings.TrimSuffix(state[i+1:], ":"), "]")
		}
		if i := strings.IndexByte(state, ','); i >= 0 {
			state = state[:i]
		}
		if !strings.HasPrefix(state, "sync.") && !strings.HasPrefix(state, "semacquire") {
			continue
		}
		var fns []string
		for _, ln := range lines[1:] {
			if strings.HasPrefix(ln, "\t") || strings.HasPrefix(ln, "created by") {
				continue
			}
			if !strings.HasPrefix(ln, "github.com/mycoria/mycoria/") {
				continue
			}
			fn := strings.TrimPrefix(ln, "github.com/mycoria/mycoria/")
			if p := strings.LastIndex(fn, "("); p > 0 {
				fn = fn[:p]
			}
			fns = append(fns, fn)
			if len(fns) == 4 {
				break
			}
		}
		if len(fns) == 0 {
			continue
		}
		chains["["+state+"] "+strings.Join(fns, " <- ")]++
	}
	type chain struct {
		what string
		n    int
	}
	var cs []chain
	for k, n := range chains {
		cs = append(cs, chain{k, n})
	}
	sort.Slice(cs, func(i, j int) bool { return cs[i].n > cs[j].n || cs[i].n == cs[j].n && cs[i].what < cs[j].what })
	if len(cs) > 8 {
		cs = cs[:8]
	}
	var out []string
	for _, x := range cs {
		out = append(out, fmt.Sprintf("%dx %s", x.n, x.what))
	}
	return strings.Join(out, "; ")
}

// churnStage returns the number of classes it could not exercise because the router had stalled before.
func churnStage(c *vf.Ctx, rng *rand.Rand, record func(obs), kinds []string) (skipped int) {
	known := map[string]bool{"link-up": true, "link-down": true, "link-handshake": true}
	for _, k := range churnFrameKinds {
		known[k] = true
	}
	for _, k := range kinds {
		if !known[k] {
			c.Broken("class churn/%s of the specification has no generator", k)
		}
	}
	if len(kinds) == 0 {
		return 0
	}
	start := time.Now()
	st := &churnStageT{c: c, w: world.NewWorld()}
	nStable, nReal := 2+rng.Intn(2), 2+rng.Intn(2)
	ids := mesh.Identities(1 + nStable + nReal)
	// the victim is not the lowest address every time
	vi := rng.Intn(len(ids))
	ids[0], ids[vi] = ids[vi], ids[0]
	st.v = st.w.NewNode("V", world.NodeOpts{ID: ids[0]})
	for i := 0; i < nStable; i++ {
		p := st.w.NewNode(fmt.Sprintf("P%d", i+1), world.NodeOpts{ID: ids[1+i]})
		if _, _, err := st.w.Connect(st.v, p, m.SwitchLabel(21+i), m.SwitchLabel(12+i), 5); err != nil {
			c.Broken("stage churn: set-up: %v", err)
			return 0
		}
		st.stable = append(st.stable, p)
	}
	st.sealMu = make([]sync.Mutex, nStable)
	var drains []*linkworld.Drain
	for i := 0; i < nReal; i++ {
		r := st.w.NewNode(fmt.Sprintf("R%d", i+1), world.NodeOpts{ID: ids[1+nStable+i]})
		st.realPs = append(st.realPs, r)
		drains = append(drains, linkworld.StartDrain(r))
	}
	defer func() {
		for _, d := range drains {
			d.Stop()
		}
	}()
	nWorkers := runtime.NumCPU()
	if nWorkers < 4 {
		nWorkers = 4
	}
	if nWorkers > 32 {
		nWorkers = 32
	}
	// remote routers whose pings the permanent peers relay: one per routing goroutine (its frames stay in order)
	ctx, cancel := context.WithTimeout(context.Background(), 60*time.Second)
	mined := mineIdentities(ctx, nWorkers+nWorkers/2+4, 4)
	cancel()
	pubV := st.v.ID.PublicAddress
	privacy := 0
	for _, id := range mined {
		if !m.RoutingAddressPrefix.Contains(id.IP) {
			if privacy >= 2 { // a reply for a privacy address is never routable: a few of them only
				continue
			}
			privacy++
		}
		if len(st.remotes) >= nWorkers {
			break
		}
		p := world.NewParty(id, config.Store{})
		pv, pr := pubV, id.PublicAddress
		if err := p.St.AddRouter(&pv); err != nil {
			c.Broken("stage churn: set-up: remote router: %v", err)
			return 0
		}
		if rng.Intn(3) > 0 { // known to the victim before (otherwise first contact through the ping header)
			_ = st.v.St.AddRouter(&pr)
		}
		st.remotes = append(st.remotes, p)
	}
	if len(st.remotes) < 2 {
		c.Broken("stage churn: set-up: only %d remote identities were mined", len(st.remotes))
		return 0
	}
	// the coming and going peers: some hundred, so that the registry and the table have something to go through
	nChurners := 3 + rng.Intn(2)
	label := 200 + rng.Intn(100)
	for ci := 0; ci < nChurners; ci++ {
		var set []*churnPeer
		for j, n := 0, c.Pick(40, 120)+rng.Intn(c.Pick(60, 200)); j < n; j++ {
			label += 1 + rng.Intn(40)
			pr := &churnPeer{addr: routableAddr(rng), label: m.SwitchLabel(label), lite: rng.Intn(8) == 0}
			for k := rng.Intn(4); k > 0; k-- {
				d := routableAddr(rng)
				if rng.Intn(2) == 0 { // in the neighbourhood of the peer
					a := pr.addr.As16()
					rng.Read(a[4+rng.Intn(8):])
					d = netip.AddrFrom16(a)
				}
				pr.behind = append(pr.behind, d)
				st.learned = append(st.learned, d)
			}
			set = append(set, pr)
			st.allP = append(st.allP, pr)
		}
		st.sets = append(st.sets, set)
	}
	// the scheduling point between the registry's lock and the routing table
	var hookN atomic.Uint64
	mix := rng.Uint64()
	yieldOneIn := uint64(2 + rng.Intn(6))
	hook := func() {
		x := hookN.Add(1)*0x9e3779b97f4a7c15 ^ mix
		x ^= x >> 29
		x *= 0xbf58476d1ce4e5b9
		x ^= x >> 32
		if x%yieldOneIn == 0 {
			runtime.Gosched()
		}
	}
	st.v.OnRoutingTable.Store(&hook)
	defer st.v.OnRoutingTable.Store(nil)

	dur := time.Duration(c.Pick(4000, 40000)+rng.Intn(c.Pick(1000, 10000))) * time.Millisecond
	st.begin = make(chan struct{})
	var outsW, outsR []*churnOut
	var hbs []*heartbeat
	var wgW sync.WaitGroup
	for g := 0; g < nWorkers; g++ {
		o := &churnOut{counts: map[string]int{}, cap: c.Pick(40, 400)}
		outsW = append(outsW, o)
		r := rand.New(rand.NewSource(rng.Int63()))
		wgW.Add(1)
		st.ready.Add(1)
		go func(g int) { defer wgW.Done(); st.worker(g, r, o) }(g)
	}
	st.ready.Wait()
	st.deadline = time.Now().Add(dur)
	close(st.begin)
	for ci := 0; ci <= nChurners; ci++ {
		o := &churnOut{counts: map[string]int{}, cap: c.Pick(600, 6000)}
		outsR = append(outsR, o)
		hb := &heartbeat{}
		hbs = append(hbs, hb)
		r := rand.New(rand.NewSource(rng.Int63()))
		if ci < nChurners {
			go st.churner(ci, r, hb, o)
		} else {
			go st.handshaker(r, hb, o)
		}
	}
	workersDone := make(chan struct{})
	go func() { wgW.Wait(); close(workersDone) }()

	// the monitor: takes what the victim sends to its permanent peers out of the world, names registry operations that
	// do not come back, and ends the stage. The routing goroutines always come back (every call of theirs is bounded by
	// the world); a registry goroutine is waited for until it has ended or its operation is beyond the limit.
	var stuck []obs
	summary := ""
	lastProgress, lastChange := int64(-1), time.Now()
	hardEnd := st.deadline.Add(3*churnLimit + 20*time.Second) // switch handler 30 s, router worker 10 s + 30 s
	wDone := false
	for {
		select {
		case <-workersDone:
			wDone = true
			workersDone = nil
		case <-time.After(10 * time.Millisecond):
		}
		st.w.Lock()
		st.w.Inflight = nil
		st.w.Unlock()
		if p := st.progress.Load(); p != lastProgress {
			lastProgress, lastChange = p, time.Now()
		} else if summary == "" && time.Since(lastChange) > 3*time.Second {
			// nothing has come back for a while: no verdict by itself (the calls have their limits), but the picture of
			// who waits for whom is taken now, and no new input is started
			summary = blockedSummary()
			c.Logf("churn: no call has come back for 3 s; goroutines that wait for a lock inside the router: %s", summary)
			st.stop.Store(true)
		}
		out := 0
		for _, hb := range hbs {
			hb.mu.Lock()
			if hb.active && !hb.reported && time.Since(hb.since) > churnLimit {
				hb.reported = true
				stuck = append(stuck, obs{Stage: "churn", Kind: hb.kind, Outcome: "stalled", Alive: true, Input: hb.note,
					Detail: fmt.Sprintf("the call has not come back for %s", churnLimit)})
				st.stop.Store(true)
			}
			if !hb.ended && !hb.reported {
				out++
			}
			hb.mu.Unlock()
		}
		if wDone && out == 0 {
			break
		}
		if time.Now().After(hardEnd) {
			c.Broken("stage churn: goroutines of the stage have not ended %s after the end of the stage although no call of theirs is beyond its limit (routing goroutines back: %v, registry goroutines out: %d)", time.Since(st.deadline).Round(time.Second), wDone, out)
			return 0
		}
	}
	// merge, in the order of the goroutines (a registry goroutine that is stuck has written nothing since its
	// operation began)
	counts, reasons := map[string]int{}, map[string]int{}
	total, recorded, unbuilt := len(stuck), 0, 0
	merged := append([]obs{}, stuck...)
	for _, o := range append(append([]*churnOut{}, outsW...), outsR...) {
		total += o.n
		unbuilt += o.unbuilt
		for k, n := range o.counts {
			counts[k] += n
		}
		for k, n := range o.reasons {
			reasons[k] += n
		}
		merged = append(merged, o.obs...)
	}
	anyStalled := false
	for i := range merged {
		if merged[i].Outcome != "stalled" {
			continue
		}
		anyStalled = true
		if summary == "" {
			summary = blockedSummary()
		}
		if summary != "" {
			d := merged[i].Detail
			if len(d) > 120 {
				d = d[:120] + "..."
			}
			merged[i].Detail = d + "; goroutines that wait for a lock inside the router: " + summary
		}
	}
	// the router after the stage: it still answers a well-formed ping of a permanent peer (asked only when nothing
	// stalled: a stalled router is not touched again)
	if !anyStalled {
		via := rng.Intn(len(st.stable))
		st.w.Lock()
		st.w.Inflight = nil
		st.w.Unlock()
		data, err := st.sealPeer(via, st.stable[via].ID.IP, st.v.ID.IP, frame.RouterPing, nil, pongRequest(rng, st.stable[via].ID))
		if err != nil {
			c.Broken("stage churn: probe: %v", err)
		} else {
			h, err := st.w.DeliverRawOn(st.v.LinkTo(st.stable[via]), st.v, data)
			outcome, detail := classifyDelivery(h, err)
			answered := false
			st.w.Lock()
			for _, fl := range st.w.Inflight {
				if fl.From == st.v && fl.To == st.stable[via] {
					answered = true
				}
			}
			st.w.Inflight = nil
			st.w.Unlock()
			merged = append(merged, obs{Stage: "churn", Kind: "ping-peer", Outcome: outcome, Alive: answered || outcome != "handled", Detail: firstLine(detail),
				Input: fmt.Sprintf("ping of permanent peer %d for the victim after the links have stopped coming and going (answered: %v)", via+1, answered)})
			total++
		}
	}
	for _, o := range merged {
		record(o)
		recorded++
		if o.Outcome == "panic" || o.Outcome == "stalled" {
			c.Logf("churn/%s (%s): %s: %s", o.Kind, o.Input, o.Outcome, o.Detail)
		}
	}
	if total > recorded {
		c.Eval(total - recorded)
	}
	// close what is left (only when the router is not wedged)
	if !anyStalled {
		for _, r := range st.realPs {
			for _, l := range r.Peer.GetLinks() {
				l.Close(nil)
			}
		}
	}
	frames, regops, shakes := 0, 0, 0
	for k, n := range counts {
		switch {
		case strings.HasPrefix(k, "link-handshake/"):
			if strings.HasSuffix(k, "/handled") {
				shakes += n
			}
		case strings.HasPrefix(k, "link-"):
			regops += n
		default:
			frames += n
		}
	}
	c.Stage("R-churn", map[string]any{"routing_goroutines": nWorkers, "registry_goroutines": nChurners, "coming_and_going_peers": len(st.allP), "announced_routers": len(st.learned),
		"permanent_peers": nStable, "real_link_peers": nReal, "frames": frames, "registry_operations": regops, "real_link_setups_completed": shakes,
		"frames_sent_over_coming_and_going_links": st.sent.Load(), "yield_at_the_scheduling_point_one_in": yieldOneIn, "counts": counts, "dropped_because": reasons, "frames_not_built": unbuilt, "recorded": recorded, "stalled": anyStalled,
		"churn_s": dur.Seconds(), "wall_s": time.Since(start).Seconds()})
	c.Logf("churn: %d frames through the switch handler and router worker on %d goroutines while %d links were registered / closed (%d peers, %d real link set-ups), %d frames left over coming and going links, %.1fs: %v",
		frames, nWorkers, regops, len(st.allP), shakes, st.sent.Load(), time.Since(start).Seconds(), counts)
	if anyStalled {
		seen := map[string]bool{}
		for _, o := range merged {
			seen[o.Kind] = true
		}
		for _, k := range kinds {
			if !seen[k] {
				skipped++
			}
		}
		return skipped
	}
	// vacuity
	if unbuilt > frames/10 {
		c.Broken("stage churn: %d frames could not be built (%d were)", unbuilt, frames)
	}
	if frames < 2000 || regops < 300 {
		c.Broken("stage churn: only %d frames were routed and %d links registered / closed in %s (the stage is about their overlap)", frames, regops, dur)
	}
	if st.sent.Load() == 0 {
		c.Broken("stage churn: no frame left the router over a link that comes and goes")
	}
	if shakes == 0 {
		c.Broken("stage churn: no real link set-up completed (%v)", counts)
	}
	for _, k := range kinds {
		n := 0
		for ck, cn := range counts {
			if strings.HasPrefix(ck, k+"/") {
				n += cn
			}
		}
		if n == 0 {
			c.Broken("class churn/%s: no input", k)
		}
	}
	return 0
}
