// C13 - no input from the network can panic or stall a router worker, and a
// frame buffer is released at most once. Stage M: TLC on FrameLifecycle - the
// ownership machine of a frame buffer over every exit path of the pipeline
// (ReleaseAtMostOnce, NeverPanics, Settled; the "error after consume" shape is
// the negative control) and the product of pipeline stage x malformation kind
// (50 input classes). Stage R: every class TLC enumerates is expanded with
// seeded structured generation and fed to REAL code: the frame parser, the
// real link set-up and link reader (before, during, after the handshake), and
// one long-lived router stack through the real switch handler and router
// worker with frames sealed by the real keys of an authenticated peer, in
// sequences; plus two routers running handshakes with each other at the same
// time; plus frames routed on all CPUs while the links of the router come and
// go (churn.go). Stage T: outcome of every input (handled / dropped / panic /
// stalled), double releases and the router's liveness afterwards are judged
// by TLC (FrameLifecycle_Trace).
package main

import (
	"encoding/json"
	"fmt"
	"math/rand"
	"net"
	"net/netip"
	"os"
	"runtime/debug"
	"sort"
	"strings"
	"sync"
	"time"

	"github.com/fxamacker/cbor/v2"

	"github.com/mycoria/mycoria/config"
	"github.com/mycoria/mycoria/frame"
	"github.com/mycoria/mycoria/m"
	"github.com/mycoria/mycoria/mgr"
	"github.com/mycoria/mycoria/peering"
	"github.com/mycoria/mycoria/router"

	"verifharness/internal/linkworld"
	"verifharness/internal/mesh"
	"verifharness/internal/vf"
	"verifharness/internal/world"
)

type act struct {
	Name  string `json:"name"`
	Stage string `json:"stage"`
	Kind  string `json:"kind"`
}

type obs struct {
	Ev            string `json:"ev"`
	Stage         string `json:"stage"`
	Kind          string `json:"kind"`
	Outcome       string `json:"outcome"`
	DoubleRelease bool   `json:"doublerelease"`
	Alive         bool   `json:"alive"`
	Detail        string `json:"detail"`
	Input         string `json:"input"`
}

// ---------- the long-lived router

type scene struct {
	ms            *mesh.Mesh
	v, p, q, x, u *world.Node
	rng           *rand.Rand
	annFrame      []byte     // a genuine announcement of P as it reaches V
	priv          netip.Addr // a known router with a privacy address (no keys, never routable)
}

func newScene(rng *rand.Rand) *scene {
	edges := []mesh.Edge{{A: 1, B: 2, LA: 21, LB: 12}, {A: 1, B: 3, LA: 31, LB: 13}, {A: 1, B: 4, LA: 41, LB: 14}}
	ms, err := mesh.New(4, edges, mesh.Opts{Extra: 2, WithTun: func(i int) bool { return i == 1 },
		Cfg: func(i int) config.Store {
			return config.Store{ServiceConfigs: []config.ServiceConfig{{Name: "web", URL: "tcp://:80", Public: true}}}
		}})
	if err != nil {
		panic(err)
	}
	s := &scene{ms: ms, v: ms.Node(1), p: ms.Node(2), q: ms.Node(3), x: ms.Node(5), u: ms.Node(6), rng: rng}
	pubV := s.v.ID.PublicAddress
	for _, n := range []*world.Node{s.x, s.u} {
		_ = n.St.AddRouter(&pubV)
	}
	px := s.x.ID.PublicAddress
	_ = s.v.St.AddRouter(&px)
	pu := s.u.ID.PublicAddress
	_ = s.v.St.AddRouter(&pu) // known to the victim, but no keys with it and no route to it
	pp := world.NewPrivacyIdentity().PublicAddress
	_ = s.v.St.AddRouter(&pp)
	s.priv = pp.IP
	// end-to-end keys between V and P, Q, X
	for _, n := range []*world.Node{s.p, s.q, s.x} {
		pn := n.ID.PublicAddress
		_ = s.v.St.AddRouter(&pn)
		sv, sn := s.v.St.GetSession(n.ID.IP), n.St.GetSession(s.v.ID.IP)
		kx, kxt, _ := sn.Encryption().InitKeyClientStart()
		rk, rkt, _ := sv.Encryption().InitKeyServer(kx, kxt)
		_ = sn.Encryption().InitKeyClientComplete(rk, rkt)
		sv.SetTunMTU(1400)
	}
	s.routeToX()
	// a genuine announcement of P
	time.Sleep(2 * time.Millisecond)
	s.ms.W.Inflight = nil
	_ = s.p.Rt.AnnouncePing.Send(s.v.ID.IP)
	for _, fl := range s.ms.W.Inflight {
		if fl.To == s.v {
			s.annFrame = append([]byte(nil), fl.Data...)
		}
	}
	s.ms.W.Inflight = nil
	if s.annFrame == nil {
		panic("no announcement captured")
	}
	return s
}

// freshAnn lets P announce itself again and returns the frame as it would reach V.
func (s *scene) freshAnn() []byte {
	s.ms.W.Inflight = nil
	_ = s.p.Rt.AnnouncePing.Send(s.v.ID.IP)
	var out []byte
	for _, fl := range s.ms.W.Inflight {
		if fl.To == s.v {
			out = append([]byte(nil), fl.Data...)
		}
	}
	s.ms.W.Inflight = nil
	if out == nil {
		return s.annFrame
	}
	return out
}

// routeToX (re-)installs V's route to X through Q.
func (s *scene) routeToX() {
	hops := []m.SwitchHop{{Router: s.v.ID.IP, ForwardLabel: s.v.LinkTo(s.q).SwitchLabel()}, {Router: s.q.ID.IP, ForwardLabel: 77, ReturnLabel: 66}, {Router: s.x.ID.IP, ReturnLabel: 88}}
	if _, err := s.v.RoutingTable().AddRoute(m.RoutingTableEntry{DstIP: s.x.ID.IP, NextHop: s.q.ID.IP, Source: m.RouteSourceGossip, Expires: time.Now().Add(time.Hour), Path: m.SwitchPath{Hops: hops}}); err != nil {
		panic(err)
	}
}

// seal builds a frame from P (claiming src) with the given message and seals it with P's real keys.
func (s *scene) seal(src, dst netip.Addr, mt frame.MessageType, labels, msg, apx []byte) ([]byte, error) {
	f, err := s.p.Builder.NewFrameV1(src, dst, mt, labels, msg, apx)
	if err != nil {
		return nil, err
	}
	defer f.ReturnToPool()
	sess := s.p.St.GetSession(s.v.ID.IP)
	if dst != s.v.ID.IP {
		if x := s.p.St.GetSession(dst); x != nil {
			sess = x
		}
	}
	if err := f.Seal(sess); err != nil {
		return nil, err
	}
	raw, _ := f.FrameDataWithMargins(0, 0)
	return append([]byte(nil), raw...), nil
}

func pingMsg(hdr any, body any) []byte {
	hd, _ := cbor.Marshal(hdr)
	var bd []byte
	if b, ok := body.([]byte); ok {
		bd = b
	} else {
		bd, _ = cbor.Marshal(body)
	}
	if len(hd) > 255 {
		hd = hd[:255]
	}
	return append(append([]byte{1, byte(len(hd))}, hd...), bd...)
}

func (s *scene) hdr(pingType string, code uint8, follow bool) router.PingHeader {
	return router.PingHeader{PingID: s.rng.Uint64() | 1, PingType: pingType, PingCode: code, FollowUp: follow, AddrHash: s.p.ID.Hash, KeyType: s.p.ID.Type, PublicKey: s.p.ID.PublicKey}
}

var pingTypes = []string{"hello", "pong", "error", "disconnect", "announce", "", "unknown", strings.Repeat("x", 300)}

func randBytes(rng *rand.Rand, n int) []byte {
	b := make([]byte, n)
	rng.Read(b)
	return b
}

// deepCBOR returns n nested arrays / maps.
func deepCBOR(n int, asMap bool) []byte {
	var b []byte
	for i := 0; i < n; i++ {
		if asMap {
			b = append(b, 0xa1, 0x61, 'k')
		} else {
			b = append(b, 0x81)
		}
	}
	return append(b, 0x01)
}

func wrongTypeBodies(rng *rand.Rand) [][]byte {
	mk := func(v any) []byte { b, _ := cbor.Marshal(v); return b }
	return [][]byte{mk(1), mk(-1), mk("text"), mk([]int{1, 2, 3}), mk(map[int]int{1: 2}), mk(true), mk(nil), mk(3.14), mk([]byte{1, 2}),
		mk(map[string]any{"k": []any{1, "x", map[string]int{"a": 1}}, "x": "y", "m": 5, "d": []string{"a"}}),
		mk(map[string]any{"k": 1, "x": 2, "m": "big", "g": 1, "d": 1, "i": 1}),
		{0xf6}, {0xff}, {0x5f, 0x41, 0x00, 0xff}, {0x9f, 0x01, 0xff}, {0xbf, 0x61, 0x61, 0x01, 0xff}, {0xc0, 0x74}, {0xd8, 0x18, 0x41, 0x00}}
}

func hugeLenBodies() [][]byte {
	return [][]byte{{0x5b, 0xff, 0xff, 0xff, 0xff, 0xff, 0xff, 0xff, 0xff}, {0x7b, 0x7f, 0xff, 0xff, 0xff, 0xff, 0xff, 0xff, 0xff}, {0x9b, 0x00, 0x00, 0x00, 0x01, 0x00, 0x00, 0x00, 0x00},
		{0xbb, 0x00, 0x00, 0x00, 0x00, 0xff, 0xff, 0xff, 0xff}, {0x5a, 0xff, 0xff, 0xff, 0xff, 0x00}, {0xa1, 0x61, 0x6b, 0x5a, 0x7f, 0xff, 0xff, 0xff}, {0x82, 0x9a, 0xff, 0xff, 0xff, 0xff}}
}

func ipv6(src, dst netip.Addr, proto uint8, payload int, version byte) []byte {
	p := make([]byte, 40+payload)
	p[0] = version << 4
	p[4], p[5] = byte(payload>>8), byte(payload)
	p[6], p[7] = proto, 64
	a, b := src.As16(), dst.As16()
	copy(p[8:24], a[:])
	copy(p[24:40], b[:])
	if payload >= 4 {
		p[40], p[41], p[42], p[43] = 0x9c, 0x40, 0, 80
	}
	return p
}

// gen returns n raw frames (as P would put them on its link to V) of the class.
func (s *scene) gen(kind string, n int) (out [][]byte, notes []string) {
	rng := s.rng
	add := func(b []byte, err error, note string) {
		if err == nil && b != nil {
			out = append(out, b)
			notes = append(notes, note)
		}
	}
	P, V := s.p.ID.IP, s.v.ID.IP
	goodPong := func() []byte { return pingMsg(s.hdr("pong", 0, false), map[string]string{"msg": "ping"}) }
	for i := 0; i < n; i++ {
		switch kind {
		case "msgtype":
			mt := frame.MessageType(i % 256)
			b, err := s.seal(P, V, mt, nil, goodPong(), nil)
			if err != nil { // the builder or the sealer refuses the type: put it into a valid frame afterwards
				b, err = s.seal(P, V, frame.RouterPing, nil, goodPong(), nil)
				if err == nil {
					b[4] = byte(mt)
				}
			}
			add(b, err, fmt.Sprintf("message type %d", mt))
		case "header":
			b, err := s.seal(P, V, []frame.MessageType{frame.RouterPing, frame.NetworkTraffic, frame.RouterCtrl}[i%3], nil, goodPong(), nil)
			if err == nil {
				off := i % 16
				b[off] = byte(rng.Intn(256))
				if i%5 == 0 {
					b[0] = byte(rng.Intn(256))
				}
			}
			add(b, err, fmt.Sprintf("header byte %d", i%16))
		case "switchblock":
			var labels []byte
			switch i % 4 {
			case 0:
				labels = randBytes(rng, 1+rng.Intn(40))
			case 1:
				labels = randBytes(rng, 200+rng.Intn(55))
			case 2:
				labels = []byte{0}
			default:
				labels = []byte{0xff, 0xff, 0xff, 0xff, 0xff, 0xff, 0xff, 0xff, 0xff, 0x7f}
			}
			dst := []netip.Addr{V, s.x.ID.IP, s.u.ID.IP}[i%3]
			b, err := s.seal(P, dst, frame.RouterPing, labels, goodPong(), nil)
			if err != nil {
				b, err = s.seal(P, dst, frame.RouterPing, nil, goodPong(), nil)
			}
			if err == nil && i%3 == 0 {
				b[48] = byte(rng.Intn(256)) // block length disagrees with the frame
			}
			add(b, err, fmt.Sprintf("switch block %x", labels))
		case "pinghdr-version":
			msg := goodPong()
			msg[0] = byte(rng.Intn(256))
			b, err := s.seal(P, V, frame.RouterPing, nil, msg, nil)
			add(b, err, "ping version byte")
		case "pinghdr-length":
			msg := goodPong()
			switch i % 4 {
			case 0:
				msg[1] = 255
			case 1:
				msg[1] = byte(len(msg))
			case 2:
				msg = msg[:2+rng.Intn(3)]
			default:
				msg[1] = byte(rng.Intn(256))
			}
			b, err := s.seal(P, V, frame.RouterPing, nil, msg, nil)
			add(b, err, "ping header length")
		case "pinghdr-cbor":
			var hd []byte
			switch i % 4 {
			case 0:
				hd = randBytes(rng, 1+rng.Intn(200))
			case 1:
				hd = deepCBOR(100+rng.Intn(100), i%8 < 4)
			case 2:
				hd = wrongTypeBodies(rng)[rng.Intn(18)]
			default:
				hd = hugeLenBodies()[rng.Intn(7)]
			}
			if len(hd) > 255 {
				hd = hd[:255]
			}
			msg := append(append([]byte{1, byte(len(hd))}, hd...), 0xa0)
			b, err := s.seal(P, V, frame.RouterPing, nil, msg, nil)
			add(b, err, "ping header cbor")
		case "pinghdr-type":
			h := s.hdr(pingTypes[i%len(pingTypes)], uint8(rng.Intn(6)), i%2 == 0)
			mt := []frame.MessageType{frame.RouterPing, frame.RouterCtrl, frame.RouterHopPing}[i%3]
			b, err := s.seal(P, V, mt, nil, pingMsg(h, map[string]string{"msg": "x"}), nil)
			add(b, err, "ping type "+trunc(h.PingType))
		case "pinghdr-code":
			h := s.hdr([]string{"error", "pong", "hello", "disconnect", "announce"}[i%5], uint8(i%256), rng.Intn(2) == 0)
			b, err := s.seal(P, V, []frame.MessageType{frame.RouterPing, frame.RouterCtrl}[i%2], nil, pingMsg(h, wrongTypeBodies(rng)[rng.Intn(18)]), nil)
			add(b, err, fmt.Sprintf("ping code %d", h.PingCode))
		case "pinghdr-identity":
			// first contact from a router V does not know: identity fields of every shape
			h := router.PingHeader{PingID: rng.Uint64() | 1, PingType: "pong", AddrHash: s.u.ID.Hash, KeyType: s.u.ID.Type, PublicKey: s.u.ID.PublicKey}
			switch i % 8 {
			case 0:
				h.AddrHash = "MD5"
			case 1:
				h.AddrHash = ""
			case 2:
				h.KeyType = "RSA"
			case 3:
				h.PublicKey = h.PublicKey[:rng.Intn(32)]
			case 4:
				h.PublicKey = append(append([]byte{}, h.PublicKey...), randBytes(rng, 1+rng.Intn(100))...)
			case 5:
				h.PublicKey = nil
			case 6:
				h.AddrHash = "SHA2_256"
			}
			f, err := s.u.Builder.NewFrameV1(s.u.ID.IP, V, frame.RouterPing, nil, pingMsg(h, map[string]string{"msg": "ping"}), nil)
			if err == nil {
				if err = f.Seal(s.u.St.GetSession(V)); err == nil {
					raw, _ := f.FrameDataWithMargins(0, 0)
					add(append([]byte(nil), raw...), nil, "first-contact identity")
				}
				f.ReturnToPool()
			}
		case "body-random", "body-truncated", "body-wrongtype", "body-deep", "body-hugelen", "body-crossfed":
			pt := []string{"hello", "pong", "error", "disconnect", "announce"}[i%5]
			h := s.hdr(pt, uint8([]int{0, 0, i / 5 % 6, 0, 0}[i%5]), (i/5)%2 == 1)
			var body []byte
			switch kind {
			case "body-random":
				body = randBytes(rng, rng.Intn(300))
			case "body-truncated":
				full, _ := cbor.Marshal(map[string]any{"k": randBytes(rng, 32), "x": "x25519", "m": 1300, "d": []string{"fd00::1"}, "g": true})
				body = full[:rng.Intn(len(full))]
			case "body-wrongtype":
				body = wrongTypeBodies(rng)[rng.Intn(18)]
			case "body-deep":
				body = deepCBOR(50+rng.Intn(5000), rng.Intn(2) == 0)
			case "body-hugelen":
				body = hugeLenBodies()[rng.Intn(7)]
			case "body-crossfed":
				// a valid body of another ping type
				bodies := []any{&router.HelloPingRequest{KeyExchange: randBytes(rng, 32), KeyExchangeType: "x25519", MTU: 1300}, &router.DisconnectPingMsg{GoingDown: true},
					&router.DisconnectPingMsg{Disconnected: []netip.Addr{s.x.ID.IP, {}, s.v.ID.IP}}, map[string]string{"msg": "pong"}, "text", &router.HelloPingResponse{KeyExchange: randBytes(rng, 31), KeyExchangeType: "", MTU: -5}}
				body, _ = cbor.Marshal(bodies[rng.Intn(len(bodies))])
			}
			mt := frame.RouterPing
			if pt == "error" && h.PingCode >= 3 {
				mt = frame.RouterCtrl
			}
			b, err := s.seal(P, V, mt, nil, pingMsg(h, body), nil)
			add(b, err, kind+" "+pt)
		case "raw-oversized":
			// a signed ping assembled by hand (the peer's builder refuses messages beyond 10000 bytes, an attacker's does
			// not): every ping type, request and follow-up, with one body field carrying a malformed / huge value
			pt := pingTypes[i%5]
			h := s.hdr(pt, uint8(rng.Intn(8)), i%2 == 1)
			keys := []string{"msg", "kx", "kxt", "mtu", "err", "off", "d", "zz"}
			body := map[string]any{"msg": "ping", "kx": randBytes(rng, 32), "kxt": "ECDH-X25519", "mtu": 1400}
			k := keys[rng.Intn(len(keys))]
			val, vdesc := weird(rng)
			if i%3 == 0 {
				am := amplifiers[rng.Intn(len(amplifiers))]
				val, vdesc = am.v, am.desc
			}
			body[k] = val
			bd, err := cbor.Marshal(body)
			if err == nil {
				msg := pingMsg(h, bd)
				if len(msg) > 65000 {
					msg = msg[:65000]
				}
				add(rawSigned(s.p.ID, P, V, msg, s.p.St.GetSession(V).Signing().Seq().Next()), nil, fmt.Sprintf("%s ping (follow-up %v), field %q = %s", pt, i%2 == 1, k, vdesc))
			}
		case "hopchain-truncated", "hopchain-deep", "hopchain-random", "hopchain-oversized":
			base := s.freshAnn() // signed afresh by its origin: an old one is refused by the time-stamp order before its chain is looked at
			mi := 49 + int(base[48])
			ml := int(base[mi])<<8 | int(base[mi+1])
			apxFrom := mi + 2 + ml + 64
			apx := base[apxFrom:]
			var na []byte
			switch kind {
			case "hopchain-truncated":
				if len(apx) > 0 {
					na = apx[:rng.Intn(len(apx))]
				} else {
					na = randBytes(rng, 10)
				}
			case "hopchain-random":
				na = randBytes(rng, 1+rng.Intn(600))
			case "hopchain-oversized":
				na = randBytes(rng, 9000+rng.Intn(3000))
			case "hopchain-deep":
				// records nested 100 deep, each a well-formed attachment with a garbage signature
				var inner []byte
				for d := 0; d < 100+rng.Intn(50); d++ {
					at := router.AnnouncePingAttachment{Router: s.q.ID.PublicAddress, Delay: 1, ForwardLabel: 1, ReturnLabel: 2, NextAttachment: inner}
					rb, _ := cbor.Marshal(at)
					inner = append(rb, randBytes(rng, 64)...)
					if len(inner) > 9000 {
						break
					}
				}
				na = inner
			}
			// the announcement is sealed again by its origin on the time sequence of its other frames for the victim (the
			// long-lived router has seen thousands of signed frames of P: an announcement stamped by another sequence
			// of P would be refused as delayed before its chain is looked at); the chain is not authenticated by it
			var dst [16]byte
			copy(dst[:], base[32:48])
			b, err := s.seal(P, netip.AddrFrom16(dst), frame.MessageType(base[4]), nil, base[mi+2:mi+2+ml], nil)
			if err == nil {
				b = append(b, na...)
			}
			_ = apxFrom
			add(b, err, kind)
		case "traffic-nokeys":
			// traffic that claims a router the victim knows but shares no end-to-end keys with and has no route to:
			// the frame cannot be unsealed AND the "no encryption keys" error cannot be sent back
			src := s.u.ID.IP
			if i%2 == 0 {
				src = s.priv // a privacy address is never routable: the error ping back to it cannot be sent
			}
			b, err := s.seal(src, V, frame.NetworkTraffic, nil, ipv6(src, V, 6, rng.Intn(60), 6), nil)
			add(b, err, kind)
		case "traffic-short", "traffic-version", "traffic-mismatch", "traffic-proto":
			var inner []byte
			switch kind {
			case "traffic-short":
				inner = randBytes(rng, rng.Intn(44))
				if len(inner) == 0 {
					inner = []byte{0x60}
				}
			case "traffic-version":
				inner = ipv6(P, V, 6, 20, byte(rng.Intn(16)))
			case "traffic-mismatch":
				srcs := []netip.Addr{s.q.ID.IP, s.x.ID.IP, V, {}, netip.MustParseAddr("::1"), netip.MustParseAddr("fd00::b909")}
				dsts := []netip.Addr{s.q.ID.IP, s.x.ID.IP, P, netip.MustParseAddr("ff02::1"), netip.MustParseAddr("fd00::b909"), V}
				a, b := srcs[rng.Intn(len(srcs))], dsts[rng.Intn(len(dsts))]
				if !a.IsValid() {
					a = netip.IPv6Unspecified()
				}
				inner = ipv6(a, b, 6, 20, 6)
			case "traffic-proto":
				inner = ipv6(P, V, uint8(i%256), rng.Intn(60), 6)
			}
			b, err := s.seal(P, V, frame.NetworkTraffic, nil, inner, nil)
			add(b, err, kind)
		case "forward-unknown", "forward-ttl", "forward-noroute":
			dst := s.x.ID.IP
			if kind == "forward-unknown" {
				dst = netip.AddrFrom16([16]byte(append([]byte{0xfd, 0x1c}, randBytes(rng, 14)...)))
			}
			if kind == "forward-noroute" {
				dst = s.u.ID.IP
			}
			mt := []frame.MessageType{frame.RouterPing, frame.NetworkTraffic, frame.RouterCtrl, frame.SessionData}[i%4]
			b, err := s.seal(P, dst, mt, nil, goodPong(), nil)
			if err != nil {
				b, err = s.seal(P, dst, frame.RouterPing, nil, goodPong(), nil)
			}
			if err == nil {
				b[1] = []byte{0, 1, 2, 255}[i%4] // TTL
			}
			add(b, err, fmt.Sprintf("%s ttl %d", kind, []int{0, 1, 2, 255}[i%4]))
		case "clone-sizes":
			// a disconnect ping of the remote router X (relayed by Q) removes V's route to X and is forwarded -
			// cloned - to V's other peers; its length sweeps the buffer-tier boundaries
			tier := []int{600, 1600, 5100, 9600}[i%4]
			want := tier - 30 + (i/4)%36 // tier-30 .. tier+5, on the wire incl. the 12+16 link margins the reader leaves
			body := func(pad int) []byte {
				b, _ := cbor.Marshal(map[string]any{"off": true, "pad": make([]byte, pad)})
				return b
			}
			h := router.PingHeader{PingID: rng.Uint64() | 1, PingType: "disconnect", AddrHash: s.x.ID.Hash, KeyType: s.x.ID.Type, PublicKey: s.x.ID.PublicKey}
			pad := want - 115 - len(pingMsg(h, body(0)))
			if pad < 0 {
				pad = 0
			}
			var raw []byte
			for try := 0; try < 6; try++ {
				f, err := s.x.Builder.NewFrameV1(s.x.ID.IP, V, frame.RouterPing, nil, pingMsg(h, body(pad)), nil)
				if err != nil {
					break
				}
				if err = f.Seal(s.x.St.GetSession(V)); err != nil {
					f.ReturnToPool()
					break
				}
				d, _ := f.FrameDataWithMargins(0, 0)
				raw = append([]byte(nil), d...)
				f.ReturnToPool()
				if len(raw) == want {
					break
				}
				pad += want - len(raw)
				if pad < 0 {
					pad = 0
				}
			}
			add(raw, nil, fmt.Sprintf("forwarded disconnect ping of %d bytes", len(raw)))
		case "appendix-stray":
			mt := []frame.MessageType{frame.RouterPing, frame.NetworkTraffic, frame.RouterCtrl, frame.RouterHopPing}[i%4]
			msg := goodPong()
			if mt == frame.NetworkTraffic {
				msg = ipv6(P, V, 6, 20, 6)
			}
			b, err := s.seal(P, V, mt, nil, msg, randBytes(rng, 1+rng.Intn(3000)))
			add(b, err, "stray appendix")
		}
	}
	return
}

func trunc(s string) string {
	if len(s) > 16 {
		return s[:16] + "..."
	}
	return s
}

// deliver feeds one raw frame from P's link into V and classifies what happened.
func (s *scene) deliver(from *world.Node, data []byte) (outcome, detail string, dbl bool) {
	s.v.Rt.VerifAge(11 * time.Second) // error pings are limited to one per code, peer and 10 s: every input meets an expired cool-down
	return s.deliverNow(from, data)
}

// deliverNow is deliver without letting time pass first (it takes none of the router's locks itself, so it is safe to
// call when a worker may be stuck inside the router). Frames the victim sends are left in W.Inflight.
func (s *scene) deliverNow(from *world.Node, data []byte) (outcome, detail string, dbl bool) {
	s.ms.W.Inflight = nil
	res, err := s.ms.W.DeliverRaw(from, s.v, data)
	drainTun(s.v)
	outcome = "handled"
	if err != nil {
		outcome, detail = "dropped", err.Error()
		if strings.Contains(detail, "panic") {
			outcome = "panic"
		}
		if strings.Contains(detail, "stalled") || strings.Contains(detail, "did not take") {
			outcome = "stalled"
		}
	}
	for _, h := range res {
		if h.Panic {
			outcome, detail = "panic", fmt.Sprint(h.Err)
		} else if h.Err != nil && (strings.Contains(h.Err.Error(), "stalled") || strings.Contains(h.Err.Error(), "did not take")) {
			outcome, detail = "stalled", h.Err.Error()
		} else if e := h.HandlerErr(); e != "" && outcome == "handled" {
			outcome, detail = "dropped", e
		}
	}
	if strings.Contains(detail, "double return") {
		dbl = true
	}
	return
}

func drainTun(v *world.Node) {
	if v.Tun == nil {
		return
	}
	for {
		select {
		case f := <-v.Tun.SendFrame:
			f.ReturnToPool()
		case <-v.Tun.SendRaw:
		default:
			return
		}
	}
}

// alive: V still answers a well-formed ping of its peer Q.
func (s *scene) alive() bool {
	h := router.PingHeader{PingID: s.rng.Uint64() | 1, PingType: "pong", AddrHash: s.q.ID.Hash, KeyType: s.q.ID.Type, PublicKey: s.q.ID.PublicKey}
	f, err := s.q.Builder.NewFrameV1(s.q.ID.IP, s.v.ID.IP, frame.RouterPing, nil, pingMsg(h, map[string]string{"msg": "ping"}), nil)
	if err != nil {
		return false
	}
	if err := f.Seal(s.q.St.GetSession(s.v.ID.IP)); err != nil {
		f.ReturnToPool()
		return false
	}
	raw, _ := f.FrameDataWithMargins(0, 0)
	data := append([]byte(nil), raw...)
	f.ReturnToPool()
	s.ms.W.Inflight = nil
	res, err := s.ms.W.DeliverRaw(s.q, s.v, data)
	if err != nil {
		return false
	}
	for _, h := range res {
		if h.Panic || h.HandlerErr() != "" {
			return false
		}
	}
	ok := s.ms.W.NInflight() > 0 // the pong
	s.ms.W.Inflight = nil
	return ok
}

// ---------- link stages

type panicWatch struct {
	mu    sync.Mutex
	alert *mgr.AlertMgr
}

func watch(n *world.Node) *mgr.AlertMgr {
	am := mgr.NewAlertMgr(n.Peer.Manager())
	n.Peer.Manager().SetWorkerErrorMgr(am)
	return am
}

func panicsOf(am *mgr.AlertMgr) string {
	for _, a := range am.Export().Alerts {
		if strings.HasPrefix(a.ID, "worker-panic") {
			return a.Message + " " + fmt.Sprint(a.AlertData)
		}
	}
	return ""
}

// linkPre: raw bytes as the first thing a listening router reads on a new connection.
func linkPre(rng *rand.Rand, kind string, genuine []byte) (outcome, detail, input string) {
	w := world.NewWorld()
	ids := mesh.Identities(2)
	v := w.NewNode("V", world.NodeOpts{ID: ids[0]})
	ca, cb := net.Pipe()
	url, _ := m.ParsePeeringURL("tcp://127.0.0.1:47369")
	done := make(chan error, 1)
	go func() {
		defer func() {
			if r := recover(); r != nil {
				done <- fmt.Errorf("panic: %v\n%s", r, debug.Stack())
			}
		}()
		_, err := v.Peer.VerifSetupLink(cb, url, false)
		done <- err
	}()
	// swallow what the router sends
	go func() {
		buf := make([]byte, 4096)
		for {
			if _, err := ca.Read(buf); err != nil {
				return
			}
		}
	}()
	var data []byte
	pref := func(n int, body int) []byte {
		return append([]byte{byte(n >> 8), byte(n)}, randBytes(rng, body)...)
	}
	switch kind {
	case "len0to3":
		n := rng.Intn(4)
		data = pref(n, rng.Intn(8))
	case "len4to11":
		n := 4 + rng.Intn(8)
		data = pref(n, n-2)
	case "len12to27":
		n := 12 + rng.Intn(16)
		data = pref(n, n-2)
	case "lenbeyond":
		n := 100 + rng.Intn(60000)
		data = pref(n, rng.Intn(50))
	case "lenmax":
		data = pref(65535, 65533)
	case "garbage":
		data = randBytes(rng, 1+rng.Intn(3000))
	case "mutated":
		data = append([]byte(nil), genuine...)
		for k := 0; k < 1+rng.Intn(4); k++ {
			data[rng.Intn(len(data))] ^= byte(1 << rng.Intn(8))
		}
	}
	input = fmt.Sprintf("%d bytes, prefix %x", len(data), data[:min(4, len(data))])
	_ = ca.SetWriteDeadline(time.Now().Add(300 * time.Millisecond))
	_, _ = ca.Write(data)
	time.Sleep(2 * time.Millisecond)
	_ = ca.Close()
	select {
	case err := <-done:
		if err != nil && strings.HasPrefix(err.Error(), "panic:") {
			return "panic", err.Error(), input
		}
		if err == nil {
			return "handled", "", input
		}
		return "dropped", err.Error(), input
	case <-time.After(5 * time.Second):
		return "stalled", "the link set-up did not end 5 s after the connection was closed", input
	}
}

// firstMessage returns the first handshake message a dialling router sends.
func firstMessage() []byte {
	w := world.NewWorld()
	ids := mesh.Identities(2)
	a, b := w.NewNode("A", world.NodeOpts{ID: ids[0]}), w.NewNode("B", world.NodeOpts{ID: ids[1]})
	res := linkworld.Connect(a, b, nil, 200*time.Millisecond)
	defer res.Proxy.Close()
	return res.Proxy.Sent("A", 1, time.Second)
}

// linkMid: the second / third handshake message mutated on the wire.
func linkMid(rng *rand.Rand, kind string) (outcome, detail, input string) {
	w := world.NewWorld()
	ids := mesh.Identities(2)
	a, b := w.NewNode("A", world.NodeOpts{ID: ids[0]}), w.NewNode("B", world.NodeOpts{ID: ids[1]})
	target := map[string]int{"mutated2": 2, "mutated3": 3, "lengths": 2 + rng.Intn(2), "garbage": 1 + rng.Intn(3)}[kind]
	dir := []string{"A", "B"}[rng.Intn(2)]
	hook := func(p *linkworld.Proxy, msg linkworld.Msg) [][]byte {
		if msg.Dir != dir || msg.Idx != target {
			return nil
		}
		d := append([]byte(nil), msg.Data...)
		switch kind {
		case "mutated2", "mutated3":
			for k := 0; k < 1+rng.Intn(6); k++ {
				d[2+rng.Intn(len(d)-2)] = byte(rng.Intn(256))
			}
		case "lengths":
			// inner length fields: switch block length, message length
			if len(d) > 60 {
				d[2+48] = byte(rng.Intn(256))
				d[2+49], d[2+50] = byte(rng.Intn(256)), byte(rng.Intn(256))
			}
		case "garbage":
			g := randBytes(rng, len(d))
			g[0], g[1] = d[0], d[1]
			d = g
		}
		input = fmt.Sprintf("handshake message %d of %s", target, dir)
		return [][]byte{d}
	}
	res := linkworld.Connect(a, b, hook, 150*time.Millisecond)
	defer res.Proxy.Close()
	for _, e := range []error{res.ErrA, res.ErrB} {
		if e != nil && strings.HasPrefix(e.Error(), "panic:") {
			return "panic", e.Error(), input
		}
	}
	for _, n := range []*world.Node{a, b} {
		for _, l := range n.Peer.GetLinks() {
			l.Close(nil)
		}
	}
	if res.ErrA != nil || res.ErrB != nil {
		return "dropped", fmt.Sprint(res.ErrA, res.ErrB), input
	}
	return "handled", "", input
}

// linkPost: raw bytes on an established link.
func linkPost(rng *rand.Rand, kind string, genuine []byte) (outcome, detail, input string) {
	w := world.NewWorld()
	ids := mesh.Identities(2)
	a, b := w.NewNode("A", world.NodeOpts{ID: ids[0]}), w.NewNode("B", world.NodeOpts{ID: ids[1]})
	am := watch(b)
	d := linkworld.StartDrain(b)
	defer d.Stop()
	res := linkworld.Connect(a, b, nil, 200*time.Millisecond)
	defer res.Proxy.Close()
	if res.LinkA == nil || res.LinkB == nil {
		return "dropped", "link set-up failed", "none"
	}
	pref := func(n int, body int) []byte {
		return append([]byte{byte(n >> 8), byte(n)}, randBytes(rng, body)...)
	}
	for k := 0; k < 12; k++ {
		var data []byte
		switch kind {
		case "len0to3":
			data = pref(rng.Intn(4), rng.Intn(6))
		case "len4to11":
			n := 4 + rng.Intn(8)
			data = pref(n, n-2)
		case "len12to27":
			n := 12 + rng.Intn(16)
			data = pref(n, n-2)
		case "lenbeyond":
			data = pref(30000+rng.Intn(30000), rng.Intn(200))
		case "garbage":
			data = randBytes(rng, 1+rng.Intn(5000))
		case "replayed-handshake":
			data = genuine
		}
		input = fmt.Sprintf("%s x12, last %d bytes", kind, len(data))
		if err := res.Proxy.Inject("A", data); err != nil {
			break
		}
	}
	time.Sleep(3 * time.Millisecond)
	// a genuine frame afterwards must still arrive, or the link is closed
	if p := panicsOf(am); p != "" {
		return "panic", p, input
	}
	for _, n := range []*world.Node{a, b} {
		for _, l := range n.Peer.GetLinks() {
			l.Close(nil)
		}
	}
	return "handled", "", input
}

// crossHandshake: two routers run handshakes with each other at the same time (they share one
// per-peer key exchange state).
func crossHandshake(rng *rand.Rand) (outcome, detail, input string) {
	ms, err := mesh.New(2, nil, mesh.Opts{})
	if err != nil {
		panic(err)
	}
	a, b := ms.Node(1), ms.Node(2)
	p1 := linkworld.Start(a, b)
	time.Sleep(time.Duration(rng.Intn(600)) * time.Microsecond)
	p2 := linkworld.Start(b, a)
	p3 := linkworld.Start(a, b)
	input = "A dials B twice while B dials A"
	outcome = "handled"
	for _, p := range []*linkworld.Pending{p1, p2, p3} {
		for _, ch := range []chan linkworld.SetupRet{p.DoneA, p.DoneB} {
			select {
			case r := <-ch:
				if r.Err != nil {
					if strings.HasPrefix(r.Err.Error(), "panic:") {
						outcome, detail = "panic", r.Err.Error()
					} else if outcome == "handled" {
						outcome, detail = "dropped", r.Err.Error()
					}
				}
			case <-time.After(3 * time.Second):
				if outcome != "panic" {
					outcome, detail = "stalled", "a link set-up did not end"
				}
			}
		}
	}
	for _, p := range []*linkworld.Pending{p1, p2, p3} {
		p.Proxy.Close()
		_ = p.ConnA.Close()
		_ = p.ConnB.Close()
	}
	return
}

func main() {
	vf.GuardFatal = true
	vf.Main("C13", "model_checking", run)
}

func run(c *vf.Ctx) {
	c.Rule("M: TLC exhaustive on FrameLifecycle: ownership of a frame buffer over every exit path of reader, switch, router worker, handlers and writers; 50 input classes (pipeline stage x malformation kind). R: every class expanded with seeded structured generation (quick 24 / thorough 1500 instances per class) and fed to the real parser, the real link set-up and reader (before / during / after the handshake), one long-lived router through the real switch handler and router worker with frames sealed by an authenticated peer's real keys, concurrent handshakes between the same routers, and floods of tens of thousands of well-formed frames of one authenticated peer that differ pairwise in the field the router keeps state for (made-up sources of frames that would loop, throw-away identities, ports), with a tick of the real cleaners and probes of other peers; and a stream of frames of permanent peers (transit for direct, announced and unknown routers, source routed by label, pings whose reply is routed) through the real switch handler and router worker on all CPUs WHILE other goroutines register and close links of the same router (some hundred coming and going peers with the routes they announce, real link set-ups and closes), every call under the world's time limit. T: outcome of every input, double releases and liveness judged by TLC. distinct = distinct (class, instance) inputs")
	c.Assume("inputs are generated inside each class, not enumerated; TLC guarantees that every class and every ownership path is exercised", "a recovered panic counts as a panic (the manager backs the worker off)")
	world.InstallLogCapture()

	res, err := c.TLC("FrameLifecycle", "FrameLifecycle_MC.cfg", vf.TLCOpts{Workers: 1})
	if err != nil {
		c.Fatal("M: %v", err)
	}
	if res.Violated != "" {
		c.Broken("M: %s violated", res.Violated)
	}
	c.AddModel(res.Distinct, res.Generated)
	neg, err := c.TLC("FrameLifecycle", "FrameLifecycle_Pinned.cfg", vf.TLCOpts{Workers: 1})
	if err != nil {
		c.Fatal("M(neg): %v", err)
	}
	if neg.Violated == "" {
		c.Broken("negative control: the error-after-consume shape is not refuted")
	}
	classes := map[string][]string{}
	for _, e := range res.Edges {
		var a act
		if json.Unmarshal(e.Act, &a) == nil && a.Name == "alloc" {
			classes[a.Stage] = append(classes[a.Stage], a.Kind)
		}
	}
	nClasses := 0
	for st := range classes {
		sort.Strings(classes[st])
		nClasses += len(classes[st])
	}
	if nClasses < 45 {
		c.Fatal("only %d classes from TLC", nClasses)
	}
	c.Logf("M: %d states, %d classes", res.Distinct, nClasses)

	rng := rand.New(rand.NewSource(c.Seed))
	per := c.Pick(2500, 40000)
	var trace []any
	var all []obs
	record := func(o obs) {
		o.Ev = "input"
		all = append(all, o)
		trace = append(trace, o)
		c.Eval(1)
		c.Distinct(fmt.Sprintf("%s/%s/%d", o.Stage, o.Kind, len(all)))
	}

	// debugging aid: VERIF_C13_ONLY=churn runs stage M, the churn stage and stage T only; it never ends with exit 0
	if os.Getenv("VERIF_C13_ONLY") == "churn" {
		churnStage(c, rng, record, classes["churn"])
		judge(c, trace, all)
		c.Broken("VERIF_C13_ONLY is set: only a part of the check has run")
		return
	}

	// ---- sealed + parse: one long-lived router
	s := newScene(rng)
	order := append([]string{}, classes["sealed"]...)
	rounds := 3
	for round := 0; round < rounds; round++ {
		rng.Shuffle(len(order), func(i, j int) { order[i], order[j] = order[j], order[i] })
		for _, kind := range order {
			frames, notes := s.gen(kind, (per+rounds-1)/rounds)
			if len(frames) == 0 {
				c.Broken("class sealed/%s: no instance could be built", kind)
			}
			for i, fr := range frames {
				from := s.p
				if kind == "clone-sizes" {
					from = s.q
					s.routeToX()
				}
				out, detail, dbl := s.deliver(from, fr)
				o := obs{Stage: "sealed", Kind: kind, Outcome: out, DoubleRelease: dbl, Alive: true, Detail: firstLine(detail), Input: notes[i]}
				if out != "handled" && out != "dropped" || i == len(frames)-1 {
					o.Alive = s.alive()
				}
				record(o)
				if out == "panic" || out == "stalled" {
					c.Logf("sealed/%s (%s): %s: %s", kind, notes[i], out, firstLines(detail, 12))
				}
			}
		}
	}
	c.Logf("sealed: %d frames through the long-lived router", len(all))
	// parse: raw bytes straight to the parser and the switch (as the link reader hands them over)
	valid, _ := s.seal(s.p.ID.IP, s.v.ID.IP, frame.RouterPing, []byte{5, 6}, pingMsg(s.hdr("pong", 0, false), map[string]string{"msg": "ping"}), randBytes(rng, 50))
	for _, kind := range classes["parse"] {
		for i := 0; i < per; i++ {
			var data []byte
			switch kind {
			case "random":
				data = randBytes(rng, 1+rng.Intn(400))
			case "tiers":
				data = randBytes(rng, []int{1, 47, 48, 67, 68, 599, 600, 601, 1600, 1601, 5100, 5101, 9600, 9601, 20000, 65535, 65675}[i%17])
			case "truncated":
				data = append([]byte(nil), valid[:rng.Intn(len(valid))]...)
			case "bit":
				data = append([]byte(nil), valid...)
				data[i%len(data)] ^= byte(1 << rng.Intn(8))
			case "lengths":
				data = append([]byte(nil), valid...)
				mi := 49 + int(data[48])
				switch i % 4 {
				case 0:
					data[48] = byte(rng.Intn(256))
				case 1:
					data[mi], data[mi+1] = byte(rng.Intn(256)), byte(rng.Intn(256))
				case 2:
					data[mi], data[mi+1] = 0, 0
				default:
					data[mi], data[mi+1] = 0xff, 0xff
				}
			}
			if len(data) == 0 {
				data = []byte{1}
			}
			out, detail, dbl := s.deliver(s.p, data)
			o := obs{Stage: "parse", Kind: kind, Outcome: out, DoubleRelease: dbl, Alive: true, Detail: firstLine(detail), Input: fmt.Sprintf("%d bytes", len(data))}
			if i == per-1 {
				o.Alive = s.alive()
			}
			record(o)
		}
	}

	// ---- link stages (fresh routers per instance; fewer instances: each is a real handshake)
	genuine := firstMessage()
	if genuine == nil {
		c.Fatal("no genuine handshake message captured")
	}
	lper := c.Pick(30, 600)
	for _, kind := range classes["link-pre"] {
		for i := 0; i < lper; i++ {
			out, detail, in := linkPre(rng, kind, genuine)
			record(obs{Stage: "link-pre", Kind: kind, Outcome: out, Alive: true, Detail: firstLine(detail), Input: in})
			if out == "panic" || out == "stalled" {
				c.Logf("link-pre/%s: %s: %s", kind, out, firstLines(detail, 12))
			}
		}
	}
	for _, kind := range classes["link-mid"] {
		n := lper
		if kind == "signed-fields" {
			n = len(signedFields)*len(amplifiers) + c.Pick(100, 4000)
		}
		for i := 0; i < n; i++ {
			var out, detail, in string
			if kind == "signed-fields" {
				out, detail, in = linkSigned(rng, i)
			} else if kind == "paused-handshake" {
				out, detail, in = linkPaused(rng, i)
			} else {
				out, detail, in = linkMid(rng, kind)
			}
			record(obs{Stage: "link-mid", Kind: kind, Outcome: out, Alive: true, Detail: firstLine(detail), Input: in})
			if out == "panic" || out == "stalled" {
				c.Logf("link-mid/%s: %s: %s", kind, out, firstLines(detail, 12))
			}
		}
	}
	for _, kind := range classes["link-post"] {
		n := lper
		if kind == "peer-stops-reading" {
			n = c.Pick(3, 40)
		}
		for i := 0; i < n; i++ {
			var out, detail, in string
			if kind == "peer-stops-reading" {
				out, detail, in = stalledPeer(rng)
			} else {
				out, detail, in = linkPost(rng, kind, genuine)
			}
			record(obs{Stage: "link-post", Kind: kind, Outcome: out, Alive: true, Detail: firstLine(detail), Input: in})
			if out == "panic" || out == "stalled" {
				c.Logf("link-post/%s: %s: %s", kind, out, firstLines(detail, 12))
			}
		}
	}
	for i := 0; i < c.Pick(150, 3000); i++ {
		out, detail, in := crossHandshake(rng)
		record(obs{Stage: "kx", Kind: "cross-handshake", Outcome: out, Alive: true, Detail: firstLine(detail), Input: in})
		if out == "panic" && i < 200 {
			c.Logf("kx/cross-handshake: panic: %s", firstLines(detail, 14))
		}
	}
	// ---- responses racing the retry of their request (PingPong.tla), on the long-lived router
	pingPongStage(c, s, rng, record)
	// ---- frames routed on all CPUs while the links of the router come and go (a router of its own)
	churnSkipped := churnStage(c, rng, record, classes["churn"])
	// ---- state one authenticated peer can make the long-lived router keep (last: a stalled worker ends the use of the router)
	floodSkipped := floodStage(c, s, rng, record, classes["flood"]) + churnSkipped
	c.Logf("R: %d inputs", len(all))
	byOutcome := map[string]int{}
	seenClass := map[string]bool{}
	for _, o := range all {
		byOutcome[o.Outcome]++
		seenClass[o.Stage+"/"+o.Kind] = true
	}
	delayed := map[string]int{}
	for _, o := range all {
		if strings.Contains(o.Detail, "delayed frame") || strings.Contains(o.Detail, "duplicate frame") {
			delayed[o.Stage+"/"+o.Kind]++
		}
	}
	c.Extra("refused_by_replay_protection", delayed)
	perClass := map[string]int{}
	for _, o := range all {
		perClass[o.Stage+"/"+o.Kind]++
	}
	for cl, n := range delayed {
		if strings.HasPrefix(cl, "sealed/") && 2*n > perClass[cl] {
			c.Broken("class %s: %d of %d inputs were refused by the replay protection and never reached the code the class is about", cl, n, perClass[cl])
		}
	}
	paused := map[string]int{}
	for _, o := range all {
		if o.Kind == "paused-handshake" {
			k := o.Outcome
			if strings.Contains(o.Input, "removed 0 session") || !strings.Contains(o.Input, "removed") {
				k += ", no session removed during the pause"
			} else {
				k += ", the router's session removed during the pause"
			}
			paused[k]++
		}
	}
	c.Extra("paused_handshakes", paused)
	c.Logf("R: paused handshakes: %v", paused)
	if perClass["link-mid/paused-handshake"] > 0 {
		hit := 0
		for k, n := range paused {
			if strings.Contains(k, "session removed during") {
				hit += n
			}
		}
		if hit == 0 {
			c.Broken("class link-mid/paused-handshake: the session cleaner never removed a session during the pause")
		}
	}
	c.Extra("outcomes", byOutcome)
	c.Extra("classes_exercised", len(seenClass))
	if len(seenClass) < nClasses-floodSkipped {
		c.Broken("only %d of %d classes were exercised", len(seenClass), nClasses-floodSkipped)
	}
	if byOutcome["handled"] == 0 || byOutcome["dropped"] == 0 {
		c.Broken("degenerate run: outcomes %v", byOutcome)
	}
	c.Sample(all[0])

	judge(c, trace, all)
}

// judge is stage T: TLC decides about the recorded inputs; what it rejects is named from the observations.
func judge(c *vf.Ctx, trace []any, all []obs) {
	rejectAt, inv, tres, err := c.TraceCheck("FrameLifecycle_Trace", "FrameLifecycle_Trace.cfg", trace, vf.TLCOpts{Timeout: 20 * time.Minute})
	if err != nil {
		c.Fatal("T: %v", err)
	}
	c.AddModel(tres.Distinct, tres.Generated)
	if rejectAt <= 0 && inv == "" {
		c.AddTraces(len(trace))
		return
	}
	n := 0
	for _, o := range all {
		why := ""
		switch {
		case o.DoubleRelease:
			why = "double-release"
		case o.Outcome == "panic":
			why = "panic"
		case o.Outcome == "stalled":
			why = "stalled"
		case !o.Alive:
			why = "router-dead-afterwards"
		}
		if why == "" {
			continue
		}
		n++
		c.Violation(vf.Key(why, o.Stage, o.Kind, panicSite(o.Detail)), fmt.Sprintf("input of class %s/%s (%s): %s: %s", o.Stage, o.Kind, o.Input, why, o.Detail), o, nil)
	}
	if n == 0 {
		c.Broken("T: trace rejected at %d but no observation explains it", rejectAt)
	}
}

func firstLine(s string) string {
	if i := strings.IndexByte(s, '\n'); i >= 0 {
		s = s[:i]
	}
	if len(s) > 300 {
		s = s[:300]
	}
	return s
}

func firstLines(s string, n int) string {
	l := strings.Split(s, "\n")
	if len(l) > n {
		l = l[:n]
	}
	return strings.Join(l, "\n")
}

// panicSite shortens a panic message to a stable key.
func panicSite(d string) string {
	d = firstLine(d)
	for _, k := range []string{"nil pointer", "index out of range", "slice bounds", "double return", "concurrent map", "makeslice"} {
		if strings.Contains(d, k) {
			return strings.ReplaceAll(k, " ", "-")
		}
	}
	return "other"
}

var _ = peering.FrameOffset
