// Class link-post/peer-stops-reading of C13: an authenticated peer keeps sending correctly sealed requests that need
// an answer over the link, but stops reading its connection (without closing it). The victim's link writer blocks
// on the connection, its send queue fills up - and the router worker that handles the next request must still come
// back (the reply is dropped): "no input can stall a router worker". The victim runs the real link (reader, writer,
// queues) and every arriving frame goes through the real switch handler and router worker.
package main

import (
	"fmt"
	"math/rand"
	"sync/atomic"
	"time"

	"verifharness/internal/linkworld"
	"verifharness/internal/mesh"
	"verifharness/internal/world"
)

func stalledPeer(rng *rand.Rand) (outcome, detail, input string) {
	w := world.NewWorld()
	ids := mesh.Identities(2)
	p, v := w.NewNode("P", world.NodeOpts{ID: ids[0]}), w.NewNode("V", world.NodeOpts{ID: ids[1]})
	release := make(chan struct{})
	defer close(release)
	hook := func(px *linkworld.Proxy, msg linkworld.Msg) [][]byte {
		if msg.Dir == "B" && msg.Idx > 3 {
			<-release // the peer has stopped reading: nothing the victim writes after the handshake is taken off the wire
		}
		return nil
	}
	res := linkworld.Connect(p, v, hook, 300*time.Millisecond)
	defer res.Proxy.Close()
	if res.LinkA == nil || res.LinkB == nil {
		return "dropped", fmt.Sprintf("link set-up failed: %v / %v", res.ErrA, res.ErrB), "none"
	}
	n := 150 + rng.Intn(250)
	input = fmt.Sprintf("%d pong requests from a peer that does not read", n)
	// the victim's pipeline: every frame the link reader delivers goes through the real switch handler and router worker
	var handled, started atomic.Int64
	var panicked atomic.Value
	stop := make(chan struct{})
	defer close(stop)
	go func() {
		for {
			select {
			case f := <-v.Sw.Input():
				started.Add(1)
				if _, err := w.Inject(v, f); err != nil && len(w.Panics) > 0 {
					panicked.Store(w.Panics[0])
				}
				handled.Add(1)
			case <-stop:
				return
			}
		}
	}()
	// the peer swallows nothing itself: it only sends
	go func() {
		for i := 0; i < n; i++ {
			_, _, _ = p.Rt.PingPong.Send(v.ID.IP, true, 0)
			if i%16 == 15 {
				time.Sleep(time.Millisecond)
			}
		}
	}()
	last, lastChange := int64(-1), time.Now()
	deadline := time.Now().Add(20 * time.Second)
	for time.Now().Before(deadline) {
		h, s := handled.Load(), started.Load()
		if h != last {
			last, lastChange = h, time.Now()
		}
		if s > h && time.Since(lastChange) > 3*time.Second {
			return "stalled", fmt.Sprintf("the router worker has not come back from request #%d for 3 s (%d handled before); the peer's connection is open but not read", s, h), input
		}
		if h >= int64(n) || (s == h && time.Since(lastChange) > 500*time.Millisecond && h > 0) {
			break
		}
		time.Sleep(5 * time.Millisecond)
	}
	if pv := panicked.Load(); pv != nil {
		return "panic", fmt.Sprint(pv), input
	}
	for _, nd := range []*world.Node{p, v} {
		for _, l := range nd.Peer.GetLinks() {
			go l.Close(nil)
		}
	}
	if handled.Load() == 0 {
		return "dropped", "no request reached the victim", input
	}
	return "handled", "", input
}
