// Stage "flood" of C13: state that ONE authenticated peer can make the long-lived router keep. Every class of the
// other stages uses a handful of identities and addresses, so the tables behind the handlers (the error-ping handler's
// per-router states, the sessions and routers of the state module, the hello handler's exchanges, the connection
// states) never hold more than some dozens of entries, and code that only runs when a table is big - a soft limit, an
// early clean-up, a resize, an eviction - is never reached. Here the peer sends tens of thousands of correctly sealed
// frames that differ pairwise in the field the router keeps state for:
//
//	loop-sources      frames with made-up source addresses whose route leads back to the link they arrived on: the
//	                  router answers each with an "unreachable" error ping (a state per source address, made before
//	                  anything about the source is verified)
//	identity-sources  pings (mostly error pings, every code) signed by throw-away identities and relayed by the peer:
//	                  first contact adds a router, a session and handler state per identity
//	traffic-ports     inner packets of the peer that differ in protocol and ports: a connection state per packet
//
// in two waves, with a tick of the router's real cleaners (after no time, after the cool-downs, after the clean-up
// age - seeded choice) in between, and after every class probes with well-formed frames of other peers that need the
// same tables. The oracle is the one of every other class: each input is handled or dropped, never a panic, never a
// worker that does not come back within the world's stall limit (FrameLifecycle_Trace, InputOK).
package main

import (
	"context"
	"crypto/ed25519"
	"fmt"
	"math/rand"
	"net/netip"
	"strings"
	"sync"
	"sync/atomic"
	"time"

	"github.com/mycoria/crop"
	"github.com/mycoria/mycoria/config"
	"github.com/mycoria/mycoria/frame"
	"github.com/mycoria/mycoria/m"
	"github.com/mycoria/mycoria/mgr"
	"github.com/mycoria/mycoria/router"
	"github.com/mycoria/mycoria/state"

	"verifharness/internal/vf"
	"verifharness/internal/world"
)

// mineIdentities makes n self-certifying identities anywhere in the mycoria range (1 key in 256 qualifies) on a few
// goroutines. It returns what it has when ctx ends.
func mineIdentities(ctx context.Context, n, workers int) []*m.Address {
	var (
		mu   sync.Mutex
		out  []*m.Address
		done atomic.Bool
		wg   sync.WaitGroup
	)
	for w := 0; w < workers; w++ {
		wg.Add(1)
		go func() {
			defer wg.Done()
			for !done.Load() && ctx.Err() == nil {
				pub, priv, err := ed25519.GenerateKey(nil)
				if err != nil {
					return
				}
				ip, err := m.DigestToAddress(m.AddressDigestAlg, crop.KeyPairTypeEd25519, pub, 0)
				if err != nil || !m.BaseNetPrefix.Contains(ip) || m.InternalPrefix.Contains(ip) {
					continue
				}
				id := &m.Address{PublicAddress: m.PublicAddress{IP: ip, Hash: m.AddressDigestAlg, Type: crop.KeyPairTypeEd25519, PublicKey: pub}, PrivateKey: priv}
				id.KeyPair = crop.MakeEd25519KeyPair(priv, pub)
				if id.VerifyAddress() != nil {
					continue
				}
				mu.Lock()
				if len(out) < n {
					out = append(out, id)
				}
				if len(out) >= n {
					done.Store(true)
				}
				mu.Unlock()
			}
		}()
	}
	wg.Wait()
	return out
}

// madeUp returns an address nobody owns; serial makes it different from every other one of the run.
func (s *scene) madeUp(rng *rand.Rand, serial uint32) (netip.Addr, string) {
	var b [16]byte
	rng.Read(b[:])
	what := ""
	switch k := rng.Intn(20); {
	case k < 11:
		b[0], b[1], what = 0xfd, b[1]&0x7f, "routable-looking"
	case k < 14:
		b[0], b[1], what = 0xfd, b[1]|0x80, "privacy-looking"
	case k < 17:
		p := s.p.ID.IP.As16()
		copy(b[:8+rng.Intn(4)], p[:])
		what = "next to the peer's own address"
	case k < 18:
		v := s.v.ID.IP.As16()
		copy(b[:8+rng.Intn(4)], v[:])
		what = "next to the victim's own address"
	case k < 19:
		b[0], b[1], b[2], b[3], what = 0x20, 0x01, 0x0d, 0xb8, "outside the mycoria range"
	default:
		what = "random 16 bytes"
	}
	b[12], b[13], b[14], b[15] = byte(serial>>24), byte(serial>>16), byte(serial>>8), byte(serial)
	return netip.AddrFrom16(b), what
}

func ipv6Ports(src, dst netip.Addr, proto uint8, sport, dport uint16, payload int) []byte {
	if payload < 4 {
		payload = 4
	}
	p := ipv6(src, dst, proto, payload, 6)
	p[40], p[41], p[42], p[43] = byte(sport>>8), byte(sport), byte(dport>>8), byte(dport)
	return p
}

type flooder struct {
	c       *vf.Ctx
	s       *scene
	rng     *rand.Rand
	record  func(obs)
	serial  uint32
	stalled bool // a worker did not come back: the router is not touched any more
	stats   map[string]int
	ids     []*world.Party
}

// feed delivers one input of the class and records it; fl.stalled says that the stage has to stop.
func (fl *flooder) feed(kind string, from *world.Node, data []byte, note string, probeAlive bool) (outcome, detail string) {
	out, detail, dbl := fl.s.deliverNow(from, data)
	o := obs{Stage: "flood", Kind: kind, Outcome: out, DoubleRelease: dbl, Alive: true, Detail: firstLine(detail), Input: note}
	if out == "stalled" {
		fl.stalled = true
	}
	if out != "handled" && out != "dropped" || probeAlive {
		o.Alive = fl.s.alive()
	}
	fl.record(o)
	fl.stats[kind+"/"+out]++
	if out == "panic" || out == "stalled" {
		fl.c.Logf("flood/%s (%s): %s: %s", kind, note, out, firstLines(detail, 12))
	}
	return out, detail
}

// sealAs seals a ping of a throw-away identity for the victim with that identity's own state.
func (fl *flooder) sealAs(p *world.Party, mt frame.MessageType, msg []byte) ([]byte, error) {
	f, err := fl.s.p.Builder.NewFrameV1(p.ID.IP, fl.s.v.ID.IP, mt, nil, msg, nil)
	if err != nil {
		return nil, err
	}
	defer f.ReturnToPool()
	sess := p.St.GetSession(fl.s.v.ID.IP)
	if sess == nil {
		return nil, fmt.Errorf("no session of the throw-away identity with the victim")
	}
	if err := f.Seal(sess); err != nil {
		return nil, err
	}
	raw, _ := f.FrameDataWithMargins(0, 0)
	return append([]byte(nil), raw...), nil
}

// loopSources: n frames of the peer with pairwise different made-up sources, most of them for a destination whose
// best next hop is the peer itself.
func (fl *flooder) loopSources(n int, wave int) {
	s, rng := fl.s, fl.rng
	P, Q := s.p.ID.IP, s.q.ID.IP
	answered, built := 0, 0
	for i := 0; i < n && !fl.stalled; i++ {
		fl.serial++
		src, what := s.madeUp(rng, fl.serial)
		dst, dwhat := P, "the peer itself"
		switch k := rng.Intn(20); {
		case k < 3:
			b := P.As16()
			rng.Read(b[12+rng.Intn(3):])
			dst, dwhat = netip.AddrFrom16(b), "an address next to the peer's"
		case k < 5:
			dst, dwhat = Q, "another peer (no loop)"
		}
		mt := []frame.MessageType{frame.RouterPing, frame.NetworkTraffic, frame.SessionData, frame.RouterCtrl, frame.SessionCtrl}[rng.Intn(5)]
		msg := pingMsg(s.hdr("pong", 0, false), map[string]string{"msg": "ping"})
		if mt == frame.NetworkTraffic {
			msg = ipv6Ports(src, dst, 6, uint16(rng.Intn(65536)), 80, rng.Intn(40))
		}
		data, err := s.seal(src, dst, mt, nil, msg, nil)
		if err != nil {
			data, err = s.seal(src, dst, frame.RouterPing, nil, msg, nil)
		}
		if err != nil {
			continue
		}
		if rng.Intn(8) == 0 {
			data[1] = []byte{0, 1, 2, 255}[rng.Intn(4)] // TTL
		}
		built++
		_, detail := fl.feed("loop-sources", s.p, data, fmt.Sprintf("wave %d, frame %d of %d of the peer: made-up source no. %d (%s, %s), type %d, for %s", wave, i+1, n, fl.serial, src, what, mt, dwhat), i == n-1)
		if fl.stalled {
			return
		}
		// the router answered (or tried to answer) the made-up source with an error ping
		if strings.Contains(detail, "unreachable") {
			answered++
		} else {
			for _, x := range s.ms.W.Inflight {
				if x.From == s.v && len(x.Data) >= 48 && netip.AddrFrom16([16]byte(x.Data[32:48])) == src {
					answered++
					break
				}
			}
		}
	}
	s.ms.W.Inflight = nil
	fl.stats["loop-sources: frames the router answered with an error ping for the made-up source"] += answered
	if built < n*9/10 {
		fl.c.Broken("class flood/loop-sources: only %d of %d frames could be built", built, n)
	}
	if !fl.stalled && wave == 1 && answered < n/2 {
		fl.c.Broken("class flood/loop-sources: only %d of %d frames made the router answer their made-up source (the class is about the state kept for these answers)", answered, n)
	}
}

var floodPingTypes = []string{"error", "error", "error", "error", "hello", "pong", "disconnect", "announce"}

// identityPing builds one ping of the throw-away identity: a well-formed body of its type most of the time.
func (fl *flooder) identityPing(p *world.Party, first bool) ([]byte, string, error) {
	s, rng := fl.s, fl.rng
	pt := floodPingTypes[rng.Intn(len(floodPingTypes))]
	if first && rng.Intn(4) != 0 {
		pt = "error"
	}
	h := router.PingHeader{PingID: rng.Uint64() | 1, PingType: pt, AddrHash: p.ID.Hash, KeyType: p.ID.Type, PublicKey: p.ID.PublicKey}
	var body any
	switch pt {
	case "error":
		h.PingCode = uint8(rng.Intn(7))
		switch h.PingCode {
		case 0:
			body = "generic " + strings.Repeat("x", rng.Intn(40))
		case 1:
			body = map[string]any{"u": []netip.Addr{s.x.ID.IP, s.u.ID.IP, s.q.ID.IP, p.ID.IP}[rng.Intn(4)]}
		case 2:
			body = nil
		default:
			body = map[string]any{"d": s.v.ID.IP, "t": uint8([]int{6, 17, 58}[rng.Intn(3)]), "p": uint16(rng.Intn(65536))}
		}
	case "hello":
		body = &router.HelloPingRequest{KeyExchange: randBytes(rng, 32), KeyExchangeType: "ECDH-X25519", MTU: 1300}
	case "pong":
		body = map[string]string{"msg": "ping"}
	case "disconnect":
		body = &router.DisconnectPingMsg{GoingDown: rng.Intn(2) == 0, Disconnected: []netip.Addr{s.x.ID.IP}}
	default:
		body = map[string]any{"x": 1}
	}
	if rng.Intn(10) == 0 {
		body = wrongTypeBodies(rng)[rng.Intn(18)]
	}
	if !first && rng.Intn(3) == 0 {
		h.AddrHash, h.KeyType, h.PublicKey = "", "", nil // the identity is known by now
	}
	data, err := fl.sealAs(p, frame.RouterPing, pingMsg(h, body))
	return data, fmt.Sprintf("%s ping (code %d)", pt, h.PingCode), err
}

// identitySources: pings of throw-away identities, relayed by the peer.
func (fl *flooder) identitySources(ids []*world.Party, wave int) {
	handled := 0
	for i, p := range ids {
		if fl.stalled {
			return
		}
		for k, n := 0, 1+fl.rng.Intn(3); k < n && !fl.stalled; k++ {
			data, what, err := fl.identityPing(p, k == 0)
			if err != nil {
				fl.c.Broken("class flood/identity-sources: %v", err)
				return
			}
			out, _ := fl.feed("identity-sources", fl.s.p, data, fmt.Sprintf("wave %d, throw-away identity %d of %d (%s), relayed by the peer: %s", wave, i+1, len(ids), p.ID.IP, what), i == len(ids)-1 && k == n-1)
			if out == "handled" {
				handled++
			}
		}
	}
	fl.s.ms.W.Inflight = nil
	if !fl.stalled && wave == 1 && len(ids) > 0 && handled < len(ids)/2 {
		fl.c.Broken("class flood/identity-sources: only %d pings of %d throw-away identities were handled (stats %v)", handled, len(ids), fl.stats)
	}
}

// trafficPorts: inner packets of the peer for the victim, pairwise different in protocol / ports.
func (fl *flooder) trafficPorts(n int, wave int) {
	s, rng := fl.s, fl.rng
	P, V := s.p.ID.IP, s.v.ID.IP
	for i := 0; i < n && !fl.stalled; i++ {
		fl.serial++
		// ports count for TCP and UDP only; port 80 is the victim's public service: allowed, handed to the tun device
		proto := uint8([]int{6, 6, 6, 6, 6, 6, 17, 17, 17, 17, 17, 17, 6, 17, 58, 1, 132}[rng.Intn(17)])
		sport, dport := uint16(fl.serial), uint16(80)
		switch k := rng.Intn(10); {
		case k < 3:
			dport = uint16(rng.Intn(65536))
		case k < 4:
			dport = 443
		}
		data, err := s.seal(P, V, frame.NetworkTraffic, nil, ipv6Ports(P, V, proto, sport, dport, rng.Intn(60)), nil)
		if err != nil {
			fl.c.Broken("class flood/traffic-ports: %v", err)
			return
		}
		fl.feed("traffic-ports", s.p, data, fmt.Sprintf("wave %d, packet %d of %d of the peer: protocol %d, ports %d -> %d", wave, i+1, n, proto, sport, dport), i == n-1)
	}
	if !fl.stalled {
		have := len(s.v.Rt.VerifConnStates())
		fl.stats[fmt.Sprintf("traffic-ports: connection states after wave %d", wave)] = have
		if wave == 1 && have < n/2 {
			fl.c.Broken("class flood/traffic-ports: the router holds %d connection states after %d packets (the class is about the state kept for them)", have, n)
		}
	}
}

// probes: well-formed frames of ANOTHER peer that need the tables the flood filled. They are inputs of the class like
// the others; what is asked of them is what is asked of every input.
func (fl *flooder) probes(kind string, wave int) {
	s, rng := fl.s, fl.rng
	if fl.stalled {
		return
	}
	Q, V := s.q.ID.IP, s.v.ID.IP
	sealQ := func(src, dst netip.Addr, mt frame.MessageType, msg []byte) []byte {
		f, err := s.q.Builder.NewFrameV1(src, dst, mt, nil, msg, nil)
		if err != nil {
			return nil
		}
		defer f.ReturnToPool()
		if err := f.Seal(s.q.St.GetSession(V)); err != nil {
			return nil
		}
		raw, _ := f.FrameDataWithMargins(0, 0)
		return append([]byte(nil), raw...)
	}
	hq := func(pt string, code uint8) router.PingHeader {
		return router.PingHeader{PingID: rng.Uint64() | 1, PingType: pt, PingCode: code, AddrHash: s.q.ID.Hash, KeyType: s.q.ID.Type, PublicKey: s.q.ID.PublicKey}
	}
	fl.serial++
	fresh, _ := s.madeUp(rng, fl.serial)
	type probe struct {
		data []byte
		note string
	}
	ps := []probe{
		{sealQ(Q, V, frame.RouterPing, pingMsg(hq("error", 1), map[string]any{"u": s.u.ID.IP})), "an unreachable error ping of another peer"},
		{sealQ(Q, V, frame.RouterPing, pingMsg(hq("error", uint8(rng.Intn(6))), map[string]any{"d": V, "t": 6, "p": 80})), "an error ping of another peer"},
		{sealQ(fresh, Q, frame.RouterPing, pingMsg(hq("pong", 0), map[string]string{"msg": "ping"})), "a frame of another peer that would loop back to it, fresh source"},
		{sealQ(s.u.ID.IP, V, frame.NetworkTraffic, ipv6Ports(s.u.ID.IP, V, 6, 4000, 80, 20)), "traffic of a known router without keys, through another peer"},
		{sealQ(Q, V, frame.NetworkTraffic, ipv6Ports(Q, V, 6, uint16(rng.Intn(65536)), uint16(rng.Intn(65536)), 20)), "traffic of another peer"},
	}
	rng.Shuffle(len(ps), func(i, j int) { ps[i], ps[j] = ps[j], ps[i] })
	for i, p := range ps {
		if p.data == nil || fl.stalled {
			continue
		}
		fl.feed(kind, s.q, p.data, fmt.Sprintf("wave %d, probe after the flood: %s", wave, p.note), i == len(ps)-1)
	}
}

// cleanersTick lets `age` pass for the router's tables and runs one tick of its real cleaners (ping handlers,
// connection states, sessions), bounded: a cleaner that does not come back is reported and the probes decide.
func (fl *flooder) cleanersTick(age time.Duration) {
	done := make(chan string, 1)
	go func() {
		v := fl.s.v
		before := len(v.Rt.VerifConnStates())
		if age > 0 {
			v.Rt.VerifAge(age)
		}
		_ = world.WorkerCtx(func(w *mgr.WorkerCtx) { v.Rt.VerifCleanPingHandlers(w) })
		v.Rt.VerifCleanConnStates()
		removed := 0
		if age > 0 {
			removed = v.St.VerifIdleAndClean(age)
		}
		done <- fmt.Sprintf("%d of %d connection states left, %d sessions removed", len(v.Rt.VerifConnStates()), before, removed)
	}()
	select {
	case r := <-done:
		fl.c.Logf("flood: cleaners' tick after %v: %s", age, r)
	case <-time.After(30 * time.Second):
		fl.c.Logf("flood: the router's cleaners did not come back within 30 s after %v (no verdict by itself; the probes decide)", age)
		fl.stats["cleaners stuck"]++
	}
}

// prepare puts the long-lived router back into the condition the scene started with, as far as the classes need it:
// tens of thousands of earlier inputs of the same peer (disconnect pings, "no encryption keys" error pings) may have
// made the victim drop its peer routes and its end-to-end keys with the peer. The peer route is added as
// Peering.AddLink adds it, the keys are exchanged as a hello exchange does it (a fresh encryption session each).
func (fl *flooder) prepare() error {
	s := fl.s
	for _, n := range []*world.Node{s.p, s.q} {
		if _, err := s.v.RoutingTable().AddRoute(m.RoutingTableEntry{DstIP: n.ID.IP, NextHop: n.ID.IP, Source: m.RouteSourcePeer}); err != nil {
			return fmt.Errorf("peer route: %w", err)
		}
		if rte, _ := s.v.RoutingTable().LookupNearestRoute(n.ID.IP); rte == nil || rte.NextHop != n.ID.IP {
			return fmt.Errorf("the victim's nearest route to its peer %s does not lead to it", n.Name)
		}
	}
	sv, sp := s.v.St.GetSession(s.p.ID.IP), s.p.St.GetSession(s.v.ID.IP)
	if sv == nil || sp == nil {
		return fmt.Errorf("no session between the victim and its peer")
	}
	ev, ep := state.NewEncryptionSession(), state.NewEncryptionSession()
	kx, kxt, err := ep.InitKeyClientStart()
	if err != nil {
		return err
	}
	rk, rkt, err := ev.InitKeyServer(kx, kxt)
	if err != nil {
		return err
	}
	if err := ep.InitKeyClientComplete(rk, rkt); err != nil {
		return err
	}
	sv.SetEncryptionSession(ev)
	sp.SetEncryptionSession(ep)
	sv.SetTunMTU(1400)
	return nil
}

// floodStage returns the number of classes it could not exercise because a router worker had stalled before.
func floodStage(c *vf.Ctx, s *scene, rng *rand.Rand, record func(obs), kinds []string) (skipped int) {
	fl := &flooder{c: c, s: s, rng: rng, record: record, stats: map[string]int{}, serial: uint32(rng.Intn(1 << 20))}
	known := map[string]bool{"loop-sources": true, "identity-sources": true, "traffic-ports": true}
	for _, k := range kinds {
		if !known[k] {
			c.Broken("class flood/%s of the specification has no generator", k)
		}
	}
	if err := fl.prepare(); err != nil {
		c.Broken("stage flood: set-up: %v", err)
		return len(kinds)
	}
	// throw-away identities are mined beside the first classes
	nIDs := c.Pick(260, 3000) + rng.Intn(c.Pick(80, 1000))
	mined := make(chan []*m.Address, 1)
	ctx, cancel := context.WithTimeout(context.Background(), time.Duration(c.Pick(60, 600))*time.Second)
	defer cancel()
	go func() { mined <- mineIdentities(ctx, nIDs, c.Pick(3, 6)) }()

	nLoop := c.Pick(13000, 68000) + rng.Intn(c.Pick(3000, 12000))
	nPorts := c.Pick(12500, 80000) + rng.Intn(c.Pick(2000, 8000))
	start := time.Now()
	seen := map[string]bool{}
	run := func(kind string, wave int, share int) {
		if fl.stalled {
			return
		}
		seen[kind] = true
		switch kind {
		case "loop-sources":
			fl.loopSources(nLoop/share, wave)
		case "traffic-ports":
			fl.trafficPorts(nPorts/share, wave)
		case "identity-sources":
			if fl.ids == nil {
				pubV := s.v.ID.PublicAddress
				for _, id := range <-mined {
					p := world.NewParty(id, config.Store{})
					pv := pubV
					if err := p.St.AddRouter(&pv); err != nil {
						c.Broken("class flood/identity-sources: throw-away identity: %v", err)
						return
					}
					fl.ids = append(fl.ids, p)
				}
				if len(fl.ids) < nIDs/2 {
					c.Broken("class flood/identity-sources: only %d of %d throw-away identities were mined in time", len(fl.ids), nIDs)
				}
			}
			ids := fl.ids
			if wave > 1 { // some known ones again, in another order
				ids = append([]*world.Party(nil), ids...)
				rng.Shuffle(len(ids), func(i, j int) { ids[i], ids[j] = ids[j], ids[i] })
				ids = ids[:len(ids)/share]
			}
			fl.identitySources(ids, wave)
		}
		fl.probes(kind, wave)
		c.Logf("flood/%s wave %d done at %.1fs", kind, wave, time.Since(start).Seconds())
	}
	order := append([]string{}, kinds...)
	rng.Shuffle(len(order), func(i, j int) { order[i], order[j] = order[j], order[i] })
	for _, kind := range order {
		run(kind, 1, 1)
	}
	if !fl.stalled {
		// the cleaners have their tick: at once (nothing is old enough: the tables stay as big as they are), after the
		// cool-downs, or after the clean-up age (the tables are emptied); then the tables grow again
		age := []time.Duration{0, 11 * time.Second, 11 * time.Minute}[rng.Intn(3)]
		fl.cleanersTick(age)
		rng.Shuffle(len(order), func(i, j int) { order[i], order[j] = order[j], order[i] })
		for _, kind := range order {
			run(kind, 2, c.Pick(12, 6))
		}
	}
	for _, k := range kinds {
		if !seen[k] {
			skipped++
		}
	}
	c.Stage("R-flood", map[string]any{"loop_sources": nLoop, "traffic_ports": nPorts, "identities": len(fl.ids), "stats": fl.stats, "stalled": fl.stalled, "wall_s": time.Since(start).Seconds()})
	c.Logf("flood: %v", fl.stats)
	return skipped
}
