// Stage "sched/pong-retry" of C13 (spec/PingPong.tla): responses of an authenticated peer that race the retry of
// their request. M: TLC proves NoPanic for the handler as it is and refutes it for the handler as it was first
// written (PingPong_Pinned). R: TLC's simulation walks are executed on the REAL PingPongHandler of the long-lived
// router: Send is one Go call whose critical sections (Get, Tx, Set) the model separates - whatever the model
// schedules between Get and Set (the peer answering, made-up pongs, losses, a router worker handling a response) is
// executed from inside the virtual link's send hook, i.e. exactly between getActive and setActive of the real Send.
// Every handled response is one input of class sched/pong-retry for stage T; the predicted outcome of every step
// (notified / no state / already processed) is compared too (implementation-level: drift).
package main

import (
	"fmt"
	"math/rand"
	"os"
	"path/filepath"
	"strings"
	"time"

	"github.com/fxamacker/cbor/v2"

	"github.com/mycoria/mycoria/frame"
	"github.com/mycoria/mycoria/router"

	"verifharness/internal/vf"
	"verifharness/internal/world"
)

type ppExec struct {
	s            *scene
	real         map[int]uint64          // model ping ID -> real ping ID
	notify       map[int]<-chan struct{} // model ping ID -> channel the last Send returned
	pings        map[int][]*world.Flight
	pongs        map[int][]ppPong
	made, newest int // creation counter of responses; creation index of the newest response V has seen
	cur          int
	drift        []string
	record       func(obs)
	steps        int
	where        string // where the response being handled falls relative to Send
	lastReal     string // outcome of the response handled last, until compared with the model's
}

// ppPong is one response in flight. Signed frames of one sender are accepted in the order they were made only, so a
// response that the model delivers after a younger one is made afresh at delivery (the network of the model has no
// order: to the handler it is the same as the peer having produced its responses in that order).
type ppPong struct {
	data []byte
	n    int
}

// pingIDOf reads the ping ID out of a request as the peer sees it on the wire (signed, not encrypted).
func (x *ppExec) pingIDOf(data []byte) uint64 {
	f, err := x.s.p.Builder.ParseFrame(append([]byte(nil), data...), nil, 0)
	if err != nil {
		panic(err)
	}
	defer f.ReturnToPool()
	msg := f.MessageData()
	if len(msg) < 3 || len(msg) < 2+int(msg[1]) {
		panic("request without ping header")
	}
	var h router.PingHeader
	if err := cbor.Unmarshal(msg[2:2+int(msg[1])], &h); err != nil {
		panic(err)
	}
	return h.PingID
}

func isClosed(ch <-chan struct{}) bool {
	if ch == nil {
		return false
	}
	select {
	case <-ch:
		return true
	default:
		return false
	}
}

// sweep moves frames the last step put in flight into the executor's own queues.
func (x *ppExec) sweep(pongFor int) {
	w := x.s.ms.W
	for w.NInflight() > 0 {
		fl := w.Take(0)
		switch {
		case fl.From == x.s.v && fl.To == x.s.p:
			x.pings[x.cur] = append(x.pings[x.cur], fl)
			x.real[x.cur] = x.pingIDOf(fl.Data)
		case fl.From == x.s.p && fl.To == x.s.v && pongFor != 0:
			x.made++
			x.pongs[pongFor] = append(x.pongs[pongFor], ppPong{fl.Data, x.made})
		}
	}
}

// forgedPong: a fresh, correctly sealed response of the peer for a ping ID it has seen.
func (x *ppExec) forgedPong(id int) []byte {
	h := router.PingHeader{PingID: x.real[id], PingType: "pong", FollowUp: true}
	data, err := x.s.seal(x.s.p.ID.IP, x.s.v.ID.IP, frame.RouterPing, nil, pingMsg(h, map[string]string{"msg": "pong"}), nil)
	if err != nil {
		panic(err)
	}
	return data
}

// step executes one action of the peer, the network or a router worker.
func (x *ppExec) step(a map[string]any) {
	name, _ := a["name"].(string)
	id := 0
	if v, ok := a["id"].(int); ok {
		id = v
	}
	w := x.s.ms.W
	switch name {
	case "peerpong":
		if len(x.pings[id]) == 0 {
			x.drift = append(x.drift, fmt.Sprintf("peerpong(%d): no request in flight", id))
			return
		}
		fl := x.pings[id][0]
		x.pings[id] = x.pings[id][1:]
		if _, err := w.Deliver(fl); err != nil {
			x.drift = append(x.drift, fmt.Sprintf("peerpong(%d): the peer did not take the request: %v", id, err))
		}
		x.sweepPong(id)
	case "extra":
		x.made++
		x.pongs[id] = append(x.pongs[id], ppPong{x.forgedPong(id), x.made})
	case "loseping":
		if len(x.pings[id]) > 0 {
			x.pings[id] = x.pings[id][1:]
		}
	case "losepong":
		if len(x.pongs[id]) > 0 {
			x.pongs[id] = x.pongs[id][1:]
		}
	case "pong": // Handle: one response through the real router worker
		if len(x.pongs[id]) == 0 {
			x.drift = append(x.drift, fmt.Sprintf("%s(%d): no response in flight", name, id))
			return
		}
		pg := x.pongs[id][0]
		x.pongs[id] = x.pongs[id][1:]
		if pg.n < x.newest {
			x.made++
			pg = ppPong{x.forgedPong(id), x.made}
		}
		x.newest = pg.n
		res, err := w.DeliverRaw(x.s.p, x.s.v, pg.data)
		x.steps++
		out, detail := "notified", ""
		if err != nil {
			out, detail = "dropped", err.Error()
		}
		for _, h := range res {
			switch {
			case h.Panic:
				out, detail = "panic", fmt.Sprint(h.Err)
			case h.HandlerErr() != "":
				detail = h.HandlerErr()
				switch {
				case strings.Contains(detail, "no state"):
					out = "no state"
				case strings.Contains(detail, "already processed"):
					out = "already processed"
				default:
					out = "dropped"
				}
			}
		}
		if strings.Contains(detail, "panic") {
			out = "panic"
		}
		x.lastReal = out
		if os.Getenv("VERIF_PP_DEBUG") != "" {
			fmt.Printf("   real: response ping %d (%s) -> %s [%s]\n", id, x.where, out, firstLine(detail))
		}
		o := obs{Stage: "sched", Kind: "pong-retry", Outcome: "handled", Alive: true, Detail: firstLine(detail), Input: fmt.Sprintf("response for ping %d handled %s", id, x.where)}
		switch out {
		case "panic":
			o.Outcome = "panic"
		case "no state", "already processed", "dropped":
			o.Outcome = "dropped"
		}
		if strings.Contains(detail, "double return") {
			o.DoubleRelease = true
		}
		x.record(o)
		x.compare(a)
		x.sweep(0)
	}
}

func (x *ppExec) sweepPong(id int) { x.sweep(id) }

// compare: the model's predicted outcome of the response just handled against the real one.
func (x *ppExec) compare(a map[string]any) {
	want, _ := a["outcome"].(string)
	if x.lastReal != "" && want != x.lastReal {
		x.drift = append(x.drift, fmt.Sprintf("response for ping %v: model %q, real handler %q", a["id"], want, x.lastReal))
	}
	x.lastReal = ""
}

func pingPongStage(c *vf.Ctx, s *scene, rng *rand.Rand, record func(obs)) {
	for _, mc := range []struct {
		cfg, want string
		thorough  bool
	}{{"PingPong_MC.cfg", "", false}, {"PingPong_Pinned.cfg", "NoPanic", false}, {"PingPong_MCL.cfg", "", true}, {"PingPong_Live.cfg", "", true}} {
		if mc.thorough && c.Tier != "thorough" {
			continue
		}
		res, err := c.TLC("PingPong", mc.cfg, vf.TLCOpts{Timeout: 30 * time.Minute})
		if err != nil {
			c.Fatal("M %s: %v", mc.cfg, err)
		}
		if res.Violated != mc.want {
			c.Broken("M %s: expected violated=%q, TLC says %q", mc.cfg, mc.want, res.Violated)
		}
		c.AddModel(res.Distinct, res.Generated)
		c.Stage("M/"+mc.cfg, map[string]any{"distinct": res.Distinct, "generated": res.Generated, "violated": res.Violated, "wall_s": res.Wall.Seconds()})
	}
	nWalks := c.Pick(150, 4000)
	base := filepath.Join(c.Work, "ppwalk")
	if _, err := c.TLC("PingPong", "PingPong_Sim.cfg", vf.TLCOpts{Workers: 1, Simulate: fmt.Sprintf("file=%s,num=%d", base, nWalks), Depth: 70, Seed: c.Seed, Timeout: 10 * time.Minute}); err != nil {
		c.Fatal("R pingpong: simulation: %v", err)
	}
	inWindow, handled, walks := 0, 0, 0
	var drift []string
	for wi := 0; wi < nWalks; wi++ {
		states, err := vf.SimWalk(fmt.Sprintf("%s_0_%d", base, wi), "act")
		if err != nil {
			break
		}
		walks++
		var acts []map[string]any
		for _, st := range states {
			if a, ok := st["act"].(map[string]any); ok {
				acts = append(acts, a)
			}
		}
		x := &ppExec{s: s, real: map[int]uint64{}, notify: map[int]<-chan struct{}{}, pings: map[int][]*world.Flight{}, pongs: map[int][]ppPong{}, record: record, where: "outside a Send"}
		s.ms.W.Inflight = nil
		for k := 0; k < len(acts); k++ {
			a := acts[k]
			name, _ := a["name"].(string)
			if os.Getenv("VERIF_PP_DEBUG") != "" && wi < 6 {
				fmt.Printf("walk %d step %d: %v\n", wi, k, a)
			}
			switch name {
			case "init":
			case "call":
				x.cur = a["id"].(int)
			case "get":
				// everything up to this call's Set happens inside the real Send
				var window []map[string]any
				j := k + 1
				for ; j < len(acts); j++ {
					n2, _ := acts[j]["name"].(string)
					if n2 == "set" {
						break
					}
					if n2 != "tx" {
						window = append(window, acts[j])
					}
				}
				fired := false
				s.ms.W.OnSend = func(fl *world.Flight) {
					if fired || fl.From != s.v {
						return
					}
					fired = true
					x.sweep(0)
					x.where = "between getActive and setActive of a retry"
					for _, wa := range window {
						x.step(wa)
						inWindow++
					}
					x.where = "outside a Send"
				}
				retryID := uint64(0)
				if r, _ := a["retry"].(bool); r {
					retryID = x.real[x.cur]
				}
				n, rid, err := s.v.Rt.PingPong.Send(s.p.ID.IP, true, retryID)
				s.ms.W.OnSend = nil
				if err != nil {
					c.Fatal("R pingpong: Send refused: %v", err)
				}
				if !fired {
					c.Fatal("R pingpong: Send did not hand a request to the link")
				}
				x.real[x.cur], x.notify[x.cur] = rid, n
				x.sweep(0)
				if j < len(acts) {
					if want, _ := acts[j]["closed"].(bool); want != isClosed(n) {
						x.drift = append(x.drift, fmt.Sprintf("after Send (ping %d): model says channel closed=%v, real %v", x.cur, want, isClosed(n)))
					}
				}
				k = j
			case "notified":
				if !isClosed(x.notify[a["id"].(int)]) {
					x.drift = append(x.drift, fmt.Sprintf("notified(%v): the real channel is still open", a["id"]))
				}
			case "timeout":
				if isClosed(x.notify[a["id"].(int)]) {
					x.drift = append(x.drift, fmt.Sprintf("timeout(%v): the real channel is already closed", a["id"]))
				}
			default:
				x.step(a)
			}
			c.Eval(1)
		}
		handled += x.steps
		c.Distinct(fmt.Sprintf("pingpong-walk/%d", wi))
		if len(x.drift) > 0 && len(drift) < 10 {
			drift = append(drift, fmt.Sprintf("walk %d: %s", wi, x.drift[0]))
		}
		if len(s.ms.W.Panics) > 0 && wi < nWalks-1 {
			// a panic was recorded as an input of the class; carry on with the next walk
			s.ms.W.Panics = nil
		}
	}
	if walks < nWalks/2 || handled == 0 || inWindow == 0 {
		c.Broken("R pingpong: degenerate run (%d walks, %d responses handled, %d steps inside a Send)", walks, handled, inWindow)
	}
	c.Stage("R-pingpong", map[string]any{"walks": walks, "responses_handled": handled, "steps_inside_send": inWindow, "impl_level_drift": len(drift)})
	if len(drift) > 0 {
		c.Extra("pingpong_drift", drift)
		c.Logf("R pingpong: drift (implementation level, no verdict): %v", drift)
	}
}
