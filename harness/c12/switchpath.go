// Stage "switched paths" of C12: whole switch paths travelled by real frames through RUNNING switches.
//
// Everything else in this driver rotates blocks by calling m.NextRotateSwitchBlock (or the switch's frame handler
// through the guarded hook) directly. A router, however, rotates in its switch WORKERS: Switch.Start() runs one worker
// per CPU, frames come in through Input(), the worker decides from the router's configuration and the frame what
// to do, and what the destination's upper layer gets is whatever the worker escalates. Here small meshes of complete
// router stacks are built whose routers run in the modes the configuration knows - normal, stub, lite, stub+lite
// (stub routers only at the ends of a path: they are dead ends) -, every router gets a started switch, and frames of
// all unicast message types travel random simple paths through them, there and back:
//
//	source: block = ForwardBlock, first label taken by the source itself, frame sent with the real ForwardByLabel
//	every further router: the serialised frame is parsed as the link reader does and put into Input() of the
//	    running switch; it either leaves the router on a link (one "rotate" event: block as it arrived, label of the
//	    link it arrived on, label of the link it left by, block it carries now) or is escalated to the router input
//	    (a "rotate" event with label 0, then "arrive": the block the upper layer holds, then "reverse": what the real
//	    TransformToReturnBlock makes of it, wanted: the path's return block)
//	the destination answers with the reversed block; the answer travels back the same way and ends at the switch
//	    of the source (in ITS mode), wanted after reversal: the path's forward block.
//
// All events are judged by TLC against SwitchLabel_Trace (the same Rot / Revs actions as the other stages plus the
// path-level Arrive); the Go side only names a rejected line.
package main

import (
	"bytes"
	"errors"
	"fmt"
	"math/rand"
	"strings"
	"sync"
	"time"

	"github.com/mycoria/mycoria/config"
	"github.com/mycoria/mycoria/frame"
	"github.com/mycoria/mycoria/m"
	"github.com/mycoria/mycoria/peering"
	"github.com/mycoria/mycoria/switchr"

	"verifharness/internal/mesh"
	"verifharness/internal/vf"
	"verifharness/internal/world"
)

var spModes = []string{"normal", "stub", "lite", "stub+lite"}

func spIsStub(mode string) bool { return strings.HasPrefix(mode, "stub") }

func spCfg(mode string) config.Store {
	var s config.Store
	s.Router.Stub = spIsStub(mode)
	s.Router.Lite = strings.HasSuffix(mode, "lite")
	return s
}

var spMsgTypes = []frame.MessageType{frame.RouterPing, frame.RouterCtrl, frame.NetworkTraffic, frame.SessionCtrl, frame.SessionData}

// spWorld is a mesh whose routers have running switches.
type spWorld struct {
	ms    *mesh.Mesh
	modes []string // per node (index = id-1)
	sw    []*switchr.Switch
	up    []chan frame.Frame
	sent  chan *world.Flight
	stat  map[string]int // frame operations carried out between rotations
	// a world that re-runs a scenario (replaySwitched) does not report: what travel would report is kept here
	replaying bool
	failure   string
}

// switch log records ("failed to handle frame: ...") of all running switches, in order
var spLog struct {
	sync.Mutex
	lines []string
}

func spInstallLogSink() {
	world.LogSink = func(module, line string) {
		if module != "switch" {
			return
		}
		spLog.Lock()
		if len(spLog.lines) < 1000 {
			spLog.lines = append(spLog.lines, line)
		}
		spLog.Unlock()
	}
}

func spTakeLog() []string {
	spLog.Lock()
	defer spLog.Unlock()
	l := spLog.lines
	spLog.lines = nil
	return l
}

func startSpWorld(n int, edges []mesh.Edge, modes []string) (*spWorld, error) {
	ms, err := mesh.New(n, edges, mesh.Opts{Cfg: func(i int) config.Store { return spCfg(modes[i-1]) }})
	if err != nil {
		return nil, err
	}
	w := &spWorld{ms: ms, modes: modes, sent: make(chan *world.Flight, 256), stat: map[string]int{}}
	ms.W.OnSend = func(fl *world.Flight) {
		select {
		case w.sent <- fl:
		default:
		}
	}
	for i, nd := range ms.Nodes {
		if nd.Cfg.Router.Stub != spIsStub(modes[i]) || nd.Cfg.Router.Lite != strings.HasSuffix(modes[i], "lite") {
			return nil, fmt.Errorf("node %d is not configured as %s", i+1, modes[i])
		}
		up := make(chan frame.Frame, 64)
		sw := switchr.New(nd, up) // the router stack is the instance: its configuration, identity and peering (links by label)
		if err := sw.Start(); err != nil {
			w.stop()
			return nil, fmt.Errorf("start switch of node %d: %w", i+1, err)
		}
		w.sw = append(w.sw, sw)
		w.up = append(w.up, up)
	}
	return w, nil
}

func (w *spWorld) stop() {
	for _, sw := range w.sw {
		sw.Manager().Cancel()
	}
	for _, sw := range w.sw {
		sw.Manager().WaitForWorkers(5 * time.Second)
	}
}

func (w *spWorld) flush() {
	for {
		select {
		case <-w.sent:
			continue
		default:
		}
		break
	}
	w.ms.W.Lock()
	w.ms.W.Inflight = nil
	w.ms.W.Unlock()
}

// spScenario is one path with everything needed to run it again on a fresh chain of routers.
type spScenario struct {
	Nodes   []int    `json:"nodes"` // node ids along the path (in the mesh it was found in)
	Modes   []string `json:"modes"` // mode of the router at every position
	F       []int    `json:"f"`
	R       []int    `json:"r"`
	MsgType int      `json:"msg_type"`
	Payload int      `json:"payload"`
	// what the routers do to the frame before they rotate its block (frameops.go); index = position in travelling
	// order (0 = the sender of the trip). nil: nothing, the frame is only rotated.
	OpsFwd [][]spOp `json:"ops_fwd,omitempty"`
	OpsRet [][]spOp `json:"ops_ret,omitempty"`
	// the far end answers by turning the frame it received into the answer (Reply) instead of building a new one
	Reply bool `json:"reply,omitempty"`
}

func (sc *spScenario) opsAt(dir string, j int) []spOp {
	o := sc.OpsFwd
	if dir == "ret" {
		o = sc.OpsRet
	}
	if j < len(o) {
		return o[j]
	}
	return nil
}

type spMeta struct {
	sc   *spScenario
	dir  string
	pos  int // position on the path (0 = source of the forward trip)
	note string
	ops  string // what the router did to the frame before this rotation
}

const spWait = 10 * time.Second

var errSpSetup = errors.New("set-up")

func blockOfFlight(b *frame.Builder, data []byte) ([]byte, []byte, error) {
	f, err := b.ParseFrame(append([]byte(nil), data...), nil, 0)
	if err != nil {
		return nil, nil, err
	}
	return append([]byte(nil), f.SwitchBlock()...), append([]byte(nil), f.MessageData()...), nil
}

// travel sends one frame along the path and its answer back. It returns the recorded events; err != nil means the
// scenario could not be carried out for a reason that is not the property's business (errSpSetup) - everything the
// real switches did up to then is still in the events.
func (w *spWorld) travel(c *vf.Ctx, sc *spScenario) (events []any, metas []spMeta, err error) {
	k := len(sc.Nodes) - 1
	nodes := make([]*world.Node, k+1)
	for i, id := range sc.Nodes {
		nodes[i] = w.ms.Node(id)
	}
	add := func(ev map[string]any, md spMeta) {
		md.sc = sc
		events = append(events, ev)
		metas = append(metas, md)
	}
	hops := make([]m.SwitchHop, k+1)
	for i := range hops {
		hops[i] = m.SwitchHop{Router: nodes[i].ID.IP, ForwardLabel: m.SwitchLabel(sc.F[i]), ReturnLabel: m.SwitchLabel(sc.R[i])}
	}
	sp := m.SwitchPath{Hops: hops}
	if e := sp.BuildBlocks(); e != nil {
		return nil, nil, fmt.Errorf("%w: BuildBlocks of a short path: %v", errSpSetup, e)
	}
	add(map[string]any{"ev": "build", "n": k + 1, "f": sc.F, "r": sc.R, "err": false, "fwd": toInts(sp.ForwardBlock), "ret": toInts(sp.ReturnBlock)}, spMeta{dir: "build"})
	payload := make([]byte, 0, 16+sc.Payload)
	payload = append(payload, []byte(fmt.Sprintf("c12-switched-%v-%v|", sc.F, sc.R))...)
	for len(payload) < cap(payload) {
		payload = append(payload, byte(len(payload)*7))
	}

	// trip: order = path positions in travelling order, want[j] = label the router at order[j] must take.
	// reuse != nil: the frame the sender turns into the one it sends (Reply). held: the frame the far end's upper layer
	// got, when the scenario wants it for the answer.
	trip := func(dir string, order []int, want []int, block []byte, other []byte, reuse frame.Frame) (handed []byte, held frame.Frame, e error) {
		w.flush()
		spTakeLog()
		src, dst := nodes[order[0]], nodes[order[len(order)-1]]
		var f frame.Frame
		if reuse != nil {
			if e := reuse.Reply(block, payload, nil); e != nil {
				reuse.ReturnToPool()
				return nil, nil, fmt.Errorf("%w: reply: %v", errSpSetup, e)
			}
			f = reuse
		} else {
			nf, e := src.Builder.NewFrameV1(src.ID.IP, dst.ID.IP, frame.MessageType(sc.MsgType), block, payload, nil)
			if e != nil {
				return nil, nil, fmt.Errorf("%w: new frame: %v", errSpSetup, e)
			}
			f = nf
		}
		// what the sender does to the frame before it sends it
		cr := newCarrier(src.Builder, f, len(order), w.stat)
		if e := cr.applyAll(sc.opsAt(dir, 0)); e != nil {
			return nil, nil, e
		}
		f = cr.f
		pre := spWire(f)
		// the sender takes its own label (it received the frame from nobody: label 0) and hands the frame to the link
		before := toInts(block)
		label, e := m.NextRotateSwitchBlock(f.SwitchBlock(), 0)
		c.Eval(1)
		if e != nil {
			cr.release()
			if w.replaying {
				w.failure = fmt.Sprintf("the sender cannot take its label: %v", e)
				return nil, nil, nil
			}
			c.Violation(vf.Key("switched-path", "sender-rotate-error"), fmt.Sprintf("path f=%v r=%v, %s trip: the sender cannot take its label from block %v of its frame: %v%s", sc.F, sc.R, dir, toInts(f.SwitchBlock()), e, joinNonEmpty("", "; ", cr.did())), sc, nil)
			return nil, nil, nil
		}
		senderEv := map[string]any{"ev": "rotate", "before": before, "recv": 0, "label": int(label), "after": toInts(f.SwitchBlock()), "want": want[0], "outside": 0, "where": joinNonEmpty("; ", "sender of the "+dir+" trip", cr.did())}
		senderMd := spMeta{dir: dir, pos: order[0], note: "sender", ops: cr.did()}
		if int(label) != want[0] {
			cr.release()
			add(senderEv, senderMd)
			return nil, nil, nil // judged by TLC (label order); the frame cannot go on
		}
		if e := w.sw[sc.Nodes[order[0]]-1].ForwardByLabel(f, label); e != nil {
			cr.release()
			add(senderEv, senderMd)
			return nil, nil, fmt.Errorf("%w: sender %d cannot send by its own label %d: %v", errSpSetup, sc.Nodes[order[0]], label, e)
		}
		// what the sender's rotation left is what is on the wire now
		select {
		case fl := <-w.sent:
			if fl.From == src {
				if wb := spWireBlock(fl.Data); wb != nil {
					senderEv["after"] = toInts(wb)
				}
				o1, w1 := cr.check()
				o2, w2 := spFrameOutside(pre, fl.Data, true)
				senderEv["outside"] = o1 + o2
				if o1+o2 > 0 {
					senderEv["outside_where"] = joinNonEmpty("; ", w1, w2)
				}
			}
			w.sent <- fl // the first round takes it from there
		case <-time.After(spWait):
			cr.release()
			add(senderEv, senderMd)
			return nil, nil, fmt.Errorf("%w: the frame sent by node %d never reached its link", errSpSetup, sc.Nodes[order[0]])
		}
		cr.release()
		add(senderEv, senderMd)
		if spMirror(senderEv) != "" {
			return nil, nil, nil // what went on the wire is not the rotated block: judged by TLC; no use going on with it
		}
		cur := src
		for j := 1; j < len(order); j++ {
			var fl *world.Flight
			select {
			case fl = <-w.sent:
			case <-time.After(spWait):
				return nil, nil, fmt.Errorf("%w: the frame sent by node %d never reached its link", errSpSetup, sc.Nodes[order[j-1]])
			}
			if fl.From != cur {
				return nil, nil, fmt.Errorf("%w: a frame of %s is in flight, expected one of %s", errSpSetup, fl.From.Name, cur.Name)
			}
			at := nodes[order[j]]
			if fl.To != at {
				return nil, nil, nil // left by another link than the path's: the rotate event recorded for it says so
			}
			recvLink := at.LinkTo(cur)
			if recvLink == nil {
				return nil, nil, fmt.Errorf("%w: no link %s -> %s", errSpSetup, at.Name, cur.Name)
			}
			arrived, _, e := blockOfFlight(at.Builder, fl.Data)
			if e != nil {
				return nil, nil, fmt.Errorf("%w: frame on the wire does not parse: %v", errSpSetup, e)
			}
			// link reader: pooled buffer by size, frame at the link-frame offset
			n := len(fl.Data)
			ps := at.Builder.GetPooledSlice(peering.FrameOffset + n + peering.FrameOverhead)
			if ps == nil {
				return nil, nil, fmt.Errorf("%w: no pooled slice", errSpSetup)
			}
			copy(ps[peering.FrameOffset:], fl.Data)
			g, e := at.Builder.ParseFrame(ps[peering.FrameOffset:peering.FrameOffset+n], ps[:cap(ps)], peering.FrameOffset)
			if e != nil {
				return nil, nil, fmt.Errorf("%w: parse: %v", errSpSetup, e)
			}
			g.SetRecvLink(recvLink)
			// what this router does to the frame before its switch gets it
			cr := newCarrier(at.Builder, g, len(order)-j, w.stat)
			if e := cr.applyAll(sc.opsAt(dir, j)); e != nil {
				return nil, nil, e
			}
			g = cr.f
			pre := spWire(g)
			did := cr.did()
			select {
			case w.sw[sc.Nodes[order[j]]-1].Input() <- g: // a RUNNING switch worker takes it
			case <-time.After(spWait):
				cr.release()
				return nil, nil, fmt.Errorf("%w: no switch worker of node %d took the frame", errSpSetup, sc.Nodes[order[j]])
			}
			c.Eval(1)
			where := joinNonEmpty("; ", fmt.Sprintf("running switch worker of a router in %s mode, %s trip", sc.Modes[order[j]], dir), did)
			// what became of it: forwarded, escalated, refused (the switch logs it) or nothing at all
			var out *world.Flight
			var h frame.Frame
			refused := ""
			deadline := time.After(spWait)
			tick := time.NewTicker(20 * time.Millisecond)
		wait:
			for {
				select {
				case out = <-w.sent:
					break wait
				case h = <-w.up[sc.Nodes[order[j]]-1]:
					break wait
				case <-tick.C:
					if refused = spRefusedLine(); refused != "" {
						break wait
					}
				case <-deadline:
					refused = spRefusedLine()
					break wait
				}
			}
			tick.Stop()
			switch {
			case out != nil:
				if out.From != at {
					cr.release()
					return nil, nil, fmt.Errorf("%w: a frame of %s is in flight, expected one of %s", errSpSetup, out.From.Name, at.Name)
				}
				outLink := at.LinkTo(out.To)
				after, msg, e := blockOfFlight(at.Builder, out.Data)
				if e != nil || outLink == nil {
					cr.release()
					return nil, nil, fmt.Errorf("%w: forwarded frame does not parse / unknown link: %v", errSpSetup, e)
				}
				if !bytes.Equal(msg, payload) {
					cr.release()
					return nil, nil, fmt.Errorf("%w: a foreign frame left node %d", errSpSetup, sc.Nodes[order[j]])
				}
				o1, w1 := cr.check()
				o2, w2 := spFrameOutside(pre, out.Data, true)
				ev := map[string]any{"ev": "rotate", "before": toInts(arrived), "recv": int(recvLink.SwitchLabel()), "label": int(outLink.SwitchLabel()), "after": toInts(after), "want": want[j], "outside": o1 + o2, "where": where}
				if o1+o2 > 0 {
					ev["outside_where"] = joinNonEmpty("; ", w1, w2)
				}
				add(ev, spMeta{dir: dir, pos: order[j], note: "forwarded to " + out.To.Name, ops: did})
				if j == len(order)-1 || spMirror(ev) != "" {
					// the last router of the path forwarded the frame (want = 0), or what left is not the rotated block:
					// judged by TLC; no use going on with it
					return nil, nil, nil
				}
				w.sent <- out // the next round takes it from there
				cur = at
			case h != nil:
				if !bytes.Equal(h.MessageData(), payload) {
					cr.release()
					return nil, nil, fmt.Errorf("%w: a foreign frame was escalated at node %d", errSpSetup, sc.Nodes[order[j]])
				}
				blk := append([]byte(nil), h.SwitchBlock()...) // what the upper layer reads
				post := spWire(h)
				carried := append([]byte(nil), spWireBlock(post)...) // what the frame carries (would go on the wire)
				o1, w1 := cr.check()
				o2, w2 := spFrameOutside(pre, post, false)
				last := j == len(order)-1
				if last && dir == "fwd" && sc.Reply {
					held = h
				} else {
					h.ReturnToPool()
				}
				// escalated = the switch says "the next label is 0, this router is the destination"
				ev := map[string]any{"ev": "rotate", "before": toInts(arrived), "recv": int(recvLink.SwitchLabel()), "label": 0, "after": toInts(carried), "want": want[j], "outside": o1 + o2, "where": where}
				if o1+o2 > 0 {
					ev["outside_where"] = joinNonEmpty("; ", w1, w2)
				}
				add(ev, spMeta{dir: dir, pos: order[j], note: "escalated", ops: did})
				if !last || spMirror(ev) != "" {
					if held != nil {
						held.ReturnToPool()
					}
					return nil, nil, nil // a relay kept the frame (want != 0) / the frame does not carry the rotated block: judged by TLC
				}
				add(map[string]any{"ev": "arrive", "n": k + 1, "f": sc.F, "r": sc.R, "dir": dir, "block": toInts(blk), "where": joinNonEmpty("; ", "upper layer of a router in "+sc.Modes[order[j]]+" mode", did)}, spMeta{dir: dir, pos: order[j], note: "arrive", ops: did})
				rev := append([]byte(nil), blk...)
				m.TransformToReturnBlock(rev)
				c.Eval(1)
				add(map[string]any{"ev": "reverse", "before": toInts(blk), "after": toInts(rev), "want": toInts(other), "where": "upper layer of a router in " + sc.Modes[order[j]] + " mode"}, spMeta{dir: dir, pos: order[j], note: "reverse", ops: did})
				return rev, held, nil
			case refused != "":
				cr.release()
				spTakeLog()
				if w.replaying {
					w.failure = "the running switch dropped the frame: " + refused
					return nil, nil, nil
				}
				// a valid path over existing links: the running switch could not rotate the block or found no link
				// for the label it took from it
				c.Violation(vf.Key("switched-path", "refused", sc.Modes[order[j]], dir), fmt.Sprintf("path f=%v r=%v (modes %v), %s trip: the running switch of the router at position %d (%s mode) dropped the frame that arrived with block %v on the link with label %d: %s%s", sc.F, sc.R, sc.Modes, dir, order[j], sc.Modes[order[j]], toInts(arrived), recvLink.SwitchLabel(), refused, joinNonEmpty("", "; ", did)), sc, func() bool { return replaySwitched(c, sc) != "" })
				return nil, nil, nil
			default:
				cr.release()
				return nil, nil, fmt.Errorf("%w: the frame handed to the switch of node %d was neither forwarded nor escalated within %v (no error logged)", errSpSetup, sc.Nodes[order[j]], spWait)
			}
		}
		return nil, nil, nil
	}

	fwdOrder := make([]int, k+1)
	retOrder := make([]int, k+1)
	retWant := make([]int, k+1)
	for i := 0; i <= k; i++ {
		fwdOrder[i] = i
		retOrder[i] = k - i
		retWant[i] = sc.R[k-i]
	}
	answer, held, err := trip("fwd", fwdOrder, sc.F, sp.ForwardBlock, sp.ReturnBlock, nil)
	if err != nil || answer == nil {
		if held != nil {
			held.ReturnToPool()
		}
		return events, metas, err
	}
	// the destination answers with what it holds (as a real destination would: it knows nothing else of the path)
	_, _, err = trip("ret", retOrder, retWant, answer, sp.ForwardBlock, held)
	return events, metas, err
}

// spRefusedLine returns the first "failed to handle frame" record the running switches logged since the log was
// taken last ("" = none); the log is left as it is.
func spRefusedLine() string {
	spLog.Lock()
	defer spLog.Unlock()
	for _, l := range spLog.lines {
		if strings.HasPrefix(l, "failed to handle frame") {
			return l
		}
	}
	return ""
}

// spMirror names what is wrong with a recorded event ("" = nothing): the trace predicate of SwitchLabel_Trace once
// more, with package m's functions as the protocol operators. Used only to describe a line TLC rejected and to decide
// whether a re-execution shows the same thing.
func spMirror(ev map[string]any) string {
	ints := func(k string) []int { v, _ := ev[k].([]int); return v }
	switch ev["ev"] {
	case "rotate":
		blk := toBytes(ints("before"))
		label, err := m.NextRotateSwitchBlock(blk, m.SwitchLabel(ev["recv"].(int)))
		if err != nil {
			return fmt.Sprintf("the block %v cannot be rotated: %v", ints("before"), err)
		}
		switch {
		case int(label) != ev["label"].(int) || ev["label"].(int) != ev["want"].(int):
			if ev["label"].(int) == 0 {
				return fmt.Sprintf("the router kept the frame for itself (label 0); the next label of block %v is %d, the path's label here is %d", ints("before"), label, ev["want"])
			}
			return fmt.Sprintf("the frame left by the link with label %d; the next label of block %v is %d, the path's label here is %d", ev["label"], ints("before"), label, ev["want"])
		case !bytes.Equal(blk, toBytes(ints("after"))):
			if ev["label"].(int) == 0 {
				return fmt.Sprintf("the frame arrived with block %v on the link with label %d and was handed to the router's upper layer carrying block %v; the protocol's rotation of this hop leaves %v (zero label consumed, label of the receiving link written)", ints("before"), ev["recv"], ints("after"), toInts(blk))
			}
			return fmt.Sprintf("the frame arrived with block %v on the link with label %d and left with block %v; the protocol's rotation of this hop leaves %v", ints("before"), ev["recv"], ints("after"), toInts(blk))
		}
		if o, _ := ev["outside"].(int); o > 0 {
			return fmt.Sprintf("the rotation of block %v changed memory that is not part of the block the frame carries: %v", ints("before"), ev["outside_where"])
		}
	case "reverse", "arrive":
		// named by the caller
	}
	return ""
}

// replaySwitched runs a scenario again on a fresh chain of routers with the same labels and modes and returns what is
// wrong ("" = nothing, or not reproducible).
func replaySwitched(c *vf.Ctx, sc *spScenario) string {
	k := len(sc.Nodes) - 1
	var edges []mesh.Edge
	cp := *sc
	cp.Nodes = make([]int, k+1)
	for i := 0; i <= k; i++ {
		cp.Nodes[i] = i + 1
		if i < k {
			edges = append(edges, mesh.Edge{A: i + 1, B: i + 2, LA: m.SwitchLabel(sc.F[i]), LB: m.SwitchLabel(sc.R[i+1])})
		}
	}
	w, err := startSpWorld(k+1, edges, sc.Modes)
	if err != nil {
		return ""
	}
	defer w.stop()
	w.replaying = true
	evs, _, err := w.travel(c, &cp)
	if err != nil {
		return ""
	}
	if s := spJudge(&cp, evs); s != "" {
		return s
	}
	return w.failure
}

// spJudge applies the mirror to all events of one scenario.
func spJudge(sc *spScenario, evs []any) string {
	for _, e := range evs {
		ev := e.(map[string]any)
		if s := spMirror(ev); s != "" {
			return s
		}
		if ev["ev"] == "arrive" {
			// Arrive of the trace specification: what the upper layer reads reverses to the path's other block
			blk := toBytes(ev["block"].([]int))
			m.TransformToReturnBlock(blk)
			hops := make([]m.SwitchHop, len(sc.F))
			for i := range hops {
				hops[i] = m.SwitchHop{ForwardLabel: m.SwitchLabel(sc.F[i]), ReturnLabel: m.SwitchLabel(sc.R[i])}
			}
			sp := m.SwitchPath{Hops: hops}
			if sp.BuildBlocks() == nil {
				wnt := sp.ReturnBlock
				if ev["dir"] == "ret" {
					wnt = sp.ForwardBlock
				}
				if !bytes.Equal(blk, wnt) {
					return fmt.Sprintf("the upper layer of the router at the far end reads block %v from the frame, which reverses to %v; the path's block is %v", ev["block"], toInts(blk), toInts(wnt))
				}
			}
		}
		if ev["ev"] == "reverse" {
			a, _ := ev["after"].([]int)
			wnt, _ := ev["want"].([]int)
			if !bytes.Equal(toBytes(a), toBytes(wnt)) {
				return fmt.Sprintf("the block handed to the upper layer %v reverses to %v, the path's block is %v", ev["before"], a, wnt)
			}
		}
	}
	return ""
}

// switchedPaths generates the meshes and paths, lets the frames travel and has the events validated by TLC.
func switchedPaths(c *vf.Ctx, rng *rand.Rand) {
	t0 := time.Now()
	var events []any
	var metas []spMeta
	lastBy := map[string]int{}  // mode of the router whose running switch did the LAST rotation of a trip
	relayBy := map[string]int{} // mode of the routers whose running switch relayed
	byHops := map[int]int{}
	deadEnd := map[string]int{} // last rotation done by a router that has a single link / only lite peers / neither
	nMesh := c.Pick(8, 200)
	perMesh := c.Pick(20, 40)
	nChain := c.Pick(2, 30)
	paths := 0
	// the frame operations have a PRNG of their own (derived from the seed): the meshes and paths drawn from rng are
	// the same with and without them
	orng := rand.New(rand.NewSource(c.Seed*7919 + 12))
	opStat := map[string]int{}   // operations carried out
	rotAfter := map[string]int{} // rotations of a frame that had been moved / given an appendix in place / ..., by outcome
	label := func() m.SwitchLabel {
		switch rng.Intn(4) {
		case 0:
			return m.SwitchLabel(1 + rng.Intn(127))
		case 1:
			return m.SwitchLabel(128 + rng.Intn(16256))
		case 2:
			return m.SwitchLabel(16384 + rng.Intn(49000))
		}
		return []m.SwitchLabel{1, 127, 128, 16383, 16384, 65000}[rng.Intn(6)]
	}
	// run one path of a started world; false = the stage cannot go on
	run := func(w *spWorld, adj map[int][]int, route []int, what string) bool {
		k := len(route) - 1
		sc := &spScenario{Nodes: route, Modes: make([]string, k+1), F: make([]int, k+1), R: make([]int, k+1), MsgType: int(spMsgTypes[rng.Intn(len(spMsgTypes))]), Payload: rng.Intn(1200)}
		for i, id := range route {
			sc.Modes[i] = w.modes[id-1]
			if i < k {
				sc.F[i] = int(w.ms.Node(id).LinkTo(w.ms.Node(route[i+1])).SwitchLabel())
			}
			if i > 0 {
				sc.R[i] = int(w.ms.Node(id).LinkTo(w.ms.Node(route[i-1])).SwitchLabel())
			}
		}
		// what the routers do to the frame between the rotations: nothing on every fourth path, else a drawn plan
		if paths%4 != 3 {
			sc.OpsFwd, sc.OpsRet = make([][]spOp, k+1), make([][]spOp, k+1)
			for i := 0; i <= k; i++ {
				sc.OpsFwd[i], sc.OpsRet[i] = spDrawOps(orng), spDrawOps(orng)
			}
			sc.Reply = orng.Intn(2) == 0
		}
		evs, mds, err := w.travel(c, sc)
		for kk, v := range w.stat {
			opStat[kk] += v
			delete(w.stat, kk)
		}
		events = append(events, evs...)
		metas = append(metas, mds...)
		if err != nil {
			c.Broken("switched paths: %s, path %v (modes %v): %v", what, route, sc.Modes, err)
			return false
		}
		paths++
		byHops[k+1]++
		for _, md := range mds {
			switch {
			case md.note == "reverse":
				lastBy[md.dir+"/"+sc.Modes[md.pos]]++
				// what the router would call itself without being configured so (peering.IsStub): one link, or lite peers only
				nb := adj[route[md.pos]]
				onlyLite := true
				for _, x := range nb {
					onlyLite = onlyLite && strings.HasSuffix(w.modes[x-1], "lite")
				}
				switch {
				case len(nb) == 1:
					deadEnd["single link"]++
				case onlyLite:
					deadEnd["lite peers only"]++
				default:
					deadEnd["several links"]++
				}
			case strings.HasPrefix(md.note, "forwarded"):
				relayBy[sc.Modes[md.pos]]++
			}
			if md.note == "sender" || md.note == "escalated" || strings.HasPrefix(md.note, "forwarded") {
				kind := strings.SplitN(md.note, " ", 2)[0]
				switch {
				case strings.Contains(md.ops, "the frame moved"):
					rotAfter["moved to a bigger buffer/"+kind]++
				case strings.Contains(md.ops, "in place"):
					rotAfter["appendix in place/"+kind]++
				case md.ops != "":
					rotAfter["other operations/"+kind]++
				default:
					rotAfter["none/"+kind]++
				}
			}
		}
		c.Distinct(fmt.Sprintf("switched|%d|%s|%s>%s|%d", k+1, classVec(sc.F, sc.R), sc.Modes[0], sc.Modes[k], sc.MsgType))
		if paths <= 2 {
			c.Sample(map[string]any{"kind": "switched path (running switch workers)", "f": sc.F, "r": sc.R, "modes": sc.Modes, "msg_type": sc.MsgType})
		}
		return true
	}
	adjOf := func(w *spWorld) map[int][]int {
		adj := map[int][]int{}
		for _, e := range w.ms.Edges {
			adj[e.A] = append(adj[e.A], e.B)
			adj[e.B] = append(adj[e.B], e.A)
		}
		return adj
	}

	// (a) meshes: routers with several links, random simple paths
	for mi := 0; mi < nMesh; mi++ {
		n := 4 + rng.Intn(6)
		modes := make([]string, n)
		copy(modes, spModes)
		for i := 4; i < n; i++ {
			modes[i] = []string{"normal", "normal", "lite", "lite", "stub", "stub+lite"}[rng.Intn(6)]
		}
		if mi%2 == 1 {
			// at least three routers that may relay
			modes[3] = []string{"normal", "lite"}[rng.Intn(2)]
			if n > 4 {
				modes[4] = "stub+lite"
			}
		}
		rng.Shuffle(n, func(i, j int) { modes[i], modes[j] = modes[j], modes[i] })
		var core, ends []int
		for i, md := range modes {
			if spIsStub(md) {
				ends = append(ends, i+1)
			} else {
				core = append(core, i+1)
			}
		}
		leaf := core[len(core)-1] // a router that relays by configuration but has one link only
		has := map[[2]int]bool{}
		var edges []mesh.Edge
		link := func(a, b int) {
			if a == b || has[[2]int{a, b}] || has[[2]int{b, a}] {
				return
			}
			has[[2]int{a, b}] = true
			edges = append(edges, mesh.Edge{A: a, B: b, LA: label(), LB: label()})
		}
		for i := 1; i < len(core); i++ {
			link(core[i], core[rng.Intn(i)]) // the routers that relay are connected
		}
		for _, e := range ends {
			link(e, core[rng.Intn(len(core)-1)])
			if rng.Intn(2) == 0 {
				link(e, core[rng.Intn(len(core)-1)])
			}
		}
		for x := rng.Intn(2 * n); x > 0; x-- {
			a, b := 1+rng.Intn(n), 1+rng.Intn(n)
			if a != leaf && b != leaf {
				link(a, b) // chords, also between two dead ends
			}
		}
		w, err := startSpWorld(n, edges, modes)
		if err != nil {
			c.Broken("switched paths: mesh %d: %v", mi, err)
			return
		}
		adj := adjOf(w)
		byMode := map[string][]int{}
		for i, md := range modes {
			byMode[md] = append(byMode[md], i+1)
		}
		for pi := 0; pi < perMesh; pi++ {
			// the far end cycles through the modes; the near end (= far end of the answer) is drawn
			var src, dst int
			switch {
			case pi == perMesh-1:
				dst = leaf
			case pi == perMesh-2:
				src = leaf
			}
			if dst == 0 {
				cand := byMode[spModes[pi%len(spModes)]]
				if len(cand) == 0 {
					continue
				}
				dst = cand[rng.Intn(len(cand))]
			}
			if src == 0 {
				src = 1 + rng.Intn(n)
			}
			if src == dst {
				src = 1 + src%n
				if src == dst {
					continue
				}
			}
			maxLen := 2 + rng.Intn(n-1)
			if pi%5 == 4 || src == leaf || dst == leaf {
				maxLen = n
			}
			route := spFindPath(rng, adj, modes, src, dst, maxLen)
			if route == nil {
				continue
			}
			if !run(w, adj, route, fmt.Sprintf("mesh %d", mi)) {
				w.stop()
				return
			}
		}
		w.stop()
	}

	// (b) chains: long paths (up to what the TTL of a frame allows), mostly wide labels, every mode at the ends
	for ci := 0; ci < nChain; ci++ {
		n := 10 + rng.Intn(c.Pick(8, 19))
		modes := make([]string, n)
		for i := range modes {
			modes[i] = []string{"normal", "lite"}[rng.Intn(2)]
		}
		modes[0], modes[n-1] = spModes[rng.Intn(4)], spModes[(ci+1)%4]
		var edges []mesh.Edge
		wide := func() m.SwitchLabel {
			if rng.Intn(4) == 0 {
				return label()
			}
			return m.SwitchLabel(16384 + rng.Intn(49000))
		}
		for i := 1; i < n; i++ {
			edges = append(edges, mesh.Edge{A: i, B: i + 1, LA: wide(), LB: wide()})
		}
		w, err := startSpWorld(n, edges, modes)
		if err != nil {
			c.Broken("switched paths: chain %d: %v", ci, err)
			return
		}
		adj := adjOf(w)
		for _, seg := range [][2]int{{1, n}, {1 + rng.Intn(n/2), n}, {1, n - rng.Intn(n/2)}} {
			var route []int
			for x := seg[0]; x <= seg[1]; x++ {
				route = append(route, x)
			}
			if len(route) < 2 {
				continue
			}
			if !run(w, adj, route, fmt.Sprintf("chain %d", ci)) {
				w.stop()
				return
			}
		}
		w.stop()
	}

	rejectAt, inv, tres, err := c.TraceCheck("SwitchLabel_Trace", "SwitchLabel_Trace.cfg", events, vf.TLCOpts{Timeout: 30 * time.Minute, Heap: "8g"})
	if err != nil {
		c.Fatal("T switched paths: %v", err)
	}
	c.AddTraces(paths)
	c.AddModel(tres.Distinct, tres.Generated)
	c.Stage("T-switched-paths", map[string]any{"meshes": nMesh, "chains": nChain, "paths": paths, "paths_by_hops": byHops, "events": len(events), "last_rotation_by_mode": lastBy, "last_rotation_by_links": deadEnd, "relays_by_mode": relayBy, "frame_operations": opStat, "rotations_after": rotAfter, "wall_s": time.Since(t0).Seconds()})
	if rejectAt > 0 || inv != "" {
		ev := events[rejectAt-1].(map[string]any)
		md := metas[rejectAt-1]
		sc := md.sc
		mode := "-"
		if md.dir != "build" {
			mode = sc.Modes[md.pos]
		}
		// name the line TLC rejected: the whole scenario through the mirror (the rejected line is its first failing event)
		var mine []any
		for i, x := range metas {
			if x.sc == sc {
				mine = append(mine, events[i])
			}
		}
		what := spMirror(ev)
		if what == "" {
			what = spJudge(sc, mine)
		}
		var repro func() bool
		if what != "" {
			repro = func() bool { return replaySwitched(c, sc) != "" }
		} else {
			what = fmt.Sprintf("recorded event %v is not explained by the protocol operators of SwitchLabel", ev)
		}
		last := ""
		if (md.dir == "fwd" && md.pos == len(sc.Nodes)-1) || (md.dir == "ret" && md.pos == 0) {
			last = ", the LAST hop of the trip"
		}
		c.Violation(vf.Key("switched-path", ev["ev"], mode, md.dir),
			fmt.Sprintf("path f=%v r=%v (router modes %v, message type %d) travelled through running switch workers, %s trip, router at position %d in %s mode%s: %s%s (trace line %d, %s event)", sc.F, sc.R, sc.Modes, sc.MsgType, md.dir, md.pos, mode, last, what, joinNonEmpty("", "; ", md.ops), rejectAt, ev["ev"]),
			map[string]any{"scenario": sc, "event": ev}, repro)
		c.Logf("T switched paths: %d paths through running switches, trace line %d of %d rejected", paths, rejectAt, len(events))
		return
	}
	// vacuity: every mode did the last rotation of a forward trip and of an answer, relays of both kinds were passed,
	// routers with one link and with several did a last rotation
	for _, md := range spModes {
		if lastBy["fwd/"+md] == 0 || lastBy["ret/"+md] == 0 {
			c.Broken("switched paths: no trip ended at a router in %s mode (%v)", md, lastBy)
		}
	}
	if relayBy["normal"] == 0 || relayBy["lite"] == 0 || deadEnd["single link"] == 0 || deadEnd["several links"] == 0 {
		c.Broken("switched paths: relays passed: %v, last rotations: %v", relayBy, deadEnd)
	}
	// the frames were not only rotated: blocks were rotated after the frame had moved to another buffer (by relays, by
	// last hops and by senders), after an appendix in place, and on frames nothing else was done to
	for _, kk := range []string{"moved to a bigger buffer/forwarded", "moved to a bigger buffer/escalated", "moved to a bigger buffer/sender", "appendix in place/forwarded", "none/forwarded", "none/escalated"} {
		if rotAfter[kk] == 0 {
			c.Broken("switched paths: no rotation of the kind %q (%v)", kk, rotAfter)
		}
	}
	c.Logf("T switched paths: %d paths (%d meshes, %d chains) through running switches, %d events validated; hops %v, last rotation by mode %v, by links %v; frame operations between rotations %v, rotations after %v; %.1fs", paths, nMesh, nChain, len(events), byHops, lastBy, deadEnd, opStat, rotAfter, time.Since(t0).Seconds())
}

// spFindPath draws a simple path src..dst of at most maxLen routers whose inner routers all relay (no stub mode).
func spFindPath(rng *rand.Rand, adj map[int][]int, modes []string, src, dst, maxLen int) []int {
	seen := map[int]bool{src: true}
	var rec func(at int, path []int) []int
	rec = func(at int, path []int) []int {
		if len(path) >= maxLen {
			return nil
		}
		nb := append([]int(nil), adj[at]...)
		rng.Shuffle(len(nb), func(i, j int) { nb[i], nb[j] = nb[j], nb[i] })
		// the shorter the budget, the sooner the far end is tried
		if len(path) == maxLen-1 || rng.Intn(3) == 0 {
			for _, x := range nb {
				if x == dst {
					return append(append([]int(nil), path...), dst)
				}
			}
		}
		for _, x := range nb {
			if x == dst && len(path) >= 1 {
				if rng.Intn(2) == 0 {
					return append(append([]int(nil), path...), dst)
				}
				continue
			}
			if seen[x] || x == dst || spIsStub(modes[x-1]) {
				continue
			}
			seen[x] = true
			if p := rec(x, append(path, x)); p != nil {
				return p
			}
			seen[x] = false
		}
		for _, x := range nb {
			if x == dst {
				return append(append([]int(nil), path...), dst)
			}
		}
		return nil
	}
	return rec(src, []int{src})
}
