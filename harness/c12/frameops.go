// Frame operations between the rotations of a path (stages "switched paths" and "switch workers" of C12).
//
// A switch block does not travel as a bare byte slice: it is carried by a frame, and between two rotations a router
// does other things to that frame - it attaches, replaces or removes an appendix (SetAppendixData; when the new
// appendix does not fit the pooled buffer the frame lives in, the frame MOVES to a bigger buffer and the old one goes
// back to the pool), it sets TTL / flow flags / receive rate / sequence fields, it clones the frame and goes on with
// the clone (or with the original), it serialises and parses it again, it re-uses a frame object that carried
// something else before (Reply / ReplyTo re-initialise a frame in place). None of this is a rotation: the block the
// frame carries NOW - the bytes that go on the wire - is what the next rotation has to read and write, and nothing
// else: not the buffer the frame has left (it belongs to the pool, i.e. to the next frame the link reader parses),
// not the clone that was set aside, not the message or the appendix.
//
// A plan of such operations (drawn per path position by the seeded PRNG, kept in the scenario so that a re-run does
// the same) is carried out on the real frame before it is handed to the switch. What the property needs is observed
// in two ways and both go into the "rotate" event that SwitchLabel_Trace judges:
//
//	before / label / after: the block on the wire when the frame arrived and when it left (as before)
//	outside: the number of bytes that changed although they are not part of the block the frame carries:
//	    - the rest of the serialised frame (everything but the block and the TTL / flow bytes the forwarder sets),
//	    - the buffers the frame has left: right after the frame code gave such a buffer back to the pool the driver takes
//	      a buffer of the same tier out of the pool again (as the link reader would for the next frame; mostly it is
//	      the very same buffer), fills it with a pattern or parses the frame's earlier image on it ("bystander") and
//	      owns it until the switch is done - whatever is written to it is written outside of the block,
//	    - the frame that was set aside when the router went on with its clone (or the clone, when it went on with the
//	      original).
package main

import (
	"fmt"
	"math/rand"
	"strings"
	"unsafe"

	"github.com/mycoria/mycoria/frame"
	"github.com/mycoria/mycoria/peering"
)

// spOp is one operation of a plan.
type spOp struct {
	Kind string `json:"kind"`          // appendix | header | clone | reparse | recycle
	Rel  string `json:"rel,omitempty"` // appendix: small | edge | tier | tier2 | shrink | remove
	X    int    `json:"x"`             // drawn parameter (sizes, values, which of two ways)
	Old  string `json:"old,omitempty"` // a buffer / frame that is left behind: pool (not looked at) | pattern | frame
}

// spDrawOps draws the operations done at one path position (mostly none or one).
func spDrawOps(rng *rand.Rand) []spOp {
	var ops []spOp
	n := []int{0, 0, 0, 1, 1, 1, 1, 2, 2, 3}[rng.Intn(10)]
	for i := 0; i < n; i++ {
		op := spOp{X: rng.Intn(1 << 20), Old: []string{"pool", "pattern", "frame", "frame", "frame"}[rng.Intn(5)]}
		switch x := rng.Intn(20); {
		case x < 10:
			op.Kind = "appendix"
			op.Rel = []string{"small", "small", "edge", "edge", "tier", "tier", "tier", "tier2", "shrink", "remove"}[rng.Intn(10)]
		case x < 13:
			op.Kind = "header"
		case x < 16:
			op.Kind = "clone"
		case x < 18:
			op.Kind = "reparse"
		default:
			op.Kind = "recycle"
		}
		ops = append(ops, op)
	}
	return ops
}

// spWire returns a copy of the frame as it would be serialised now.
func spWire(f frame.Frame) []byte {
	d, err := f.FrameDataWithMargins(0, 0)
	if err != nil {
		return nil
	}
	return append([]byte(nil), d...)
}

// spWireBlock returns the switch block inside a serialised frame (nil when it is not there).
func spWireBlock(d []byte) []byte {
	if len(d) < 49 || len(d) < 49+int(d[48]) {
		return nil
	}
	return d[49 : 49+int(d[48])]
}

// spBuffer returns the pooled buffer the frame lives in right now (the slice itself, not a copy) and the offset of
// the frame in it, found through the frame's own margin accessor.
func spBuffer(f frame.Frame) (buf []byte, off int) {
	if _, err := f.FrameDataWithMargins(0, 0); err != nil {
		return nil, 0
	}
	for off < 128 {
		if _, err := f.FrameDataWithMargins(off+1, 0); err != nil {
			break
		}
		off++
	}
	lo, hi := 0, 1<<17 // lo works, hi does not
	if _, err := f.FrameDataWithMargins(off, hi); err == nil {
		return nil, 0
	}
	for hi-lo > 1 {
		mid := (lo + hi) / 2
		if _, err := f.FrameDataWithMargins(off, mid); err == nil {
			lo = mid
		} else {
			hi = mid
		}
	}
	buf, _ = f.FrameDataWithMargins(off, lo)
	return buf, off
}

func sameBuffer(a, b []byte) bool {
	return len(a) > 0 && len(b) > 0 && unsafe.SliceData(a) == unsafe.SliceData(b)
}

// spWatch is memory that does not belong to the block the frame carries and that the driver owns until the switch
// is done with the frame.
type spWatch struct {
	what string
	buf  []byte
	want []byte
	fr   frame.Frame // != nil: the buffer belongs to this frame (released with it)
}

// spCarrier carries out a plan on one frame.
type spCarrier struct {
	b      *frame.Builder
	f      frame.Frame
	ttlMin int // hops the frame still has to be forwarded over, plus one
	watch  []spWatch
	desc   []string
	stat   map[string]int
}

func newCarrier(b *frame.Builder, f frame.Frame, ttlMin int, stat map[string]int) *spCarrier {
	if stat == nil {
		stat = map[string]int{}
	}
	return &spCarrier{b: b, f: f, ttlMin: ttlMin, stat: stat}
}

func (cr *spCarrier) note(format string, a ...any) { cr.desc = append(cr.desc, fmt.Sprintf(format, a...)) }

// did returns the operations as a clause for messages ("" when there were none).
func (cr *spCarrier) did() string {
	if len(cr.desc) == 0 {
		return ""
	}
	return "before this rotation the router had " + strings.Join(cr.desc, ", then ")
}

// leave is called when the frame code has given `old` back to the pool: the driver takes a buffer of that tier out
// of the pool as the next user of the pool would, puts something into it and watches it.
func (cr *spCarrier) leave(old, img []byte, how, what string) {
	if how == "pool" || how == "" || len(old) == 0 {
		return
	}
	q := cr.b.GetPooledSlice(len(old))
	if q == nil {
		return
	}
	q = q[:cap(q)]
	if sameBuffer(q, old) {
		cr.stat["left buffers owned again"]++
	} else {
		cr.stat["left buffers not got back from the pool"]++
	}
	w := spWatch{what: what, buf: q}
	off := peering.FrameOffset
	if how == "frame" && len(img) > 0 && off+len(img)+peering.FrameOverhead <= len(q) {
		// the next frame the link reader parses on this buffer: the same frame as it was before (a retransmission)
		copy(q[off:], img)
		if by, err := cr.b.ParseFrame(q[off:off+len(img)], q, off); err == nil {
			w.fr = by
			w.what += " (another frame lives in it now)"
		}
	}
	if w.fr == nil {
		for i := range q {
			q[i] = 0xA5
		}
	}
	w.want = append([]byte(nil), q...)
	cr.watch = append(cr.watch, w)
}

// apply carries out one operation. An error means the operation itself failed (not the property's business).
func (cr *spCarrier) apply(op spOp) error {
	f := cr.f
	switch op.Kind {
	case "appendix":
		buf, off := spBuffer(f)
		img := spWire(f)
		if buf == nil || img == nil {
			return fmt.Errorf("%w: the frame does not give its buffer away", errSpSetup)
		}
		apx := len(f.AppendixData())
		base := len(img) - apx
		room := len(buf) - off - base - peering.FrameOverhead // the biggest appendix that fits the buffer
		n := 0
		switch op.Rel {
		case "small":
			n = 1 + op.X%64
		case "edge":
			n = room + op.X%3 - 1
		case "tier":
			n = room + 1 + op.X%200
		case "tier2":
			n = room + 1 + op.X%200
			if nx := cr.b.GetPooledSlice(len(buf) + 1); nx != nil {
				n = len(nx) - off - base - peering.FrameOverhead + 1 + op.X%200
				cr.b.ReturnPooledSlice(nx)
			}
		case "shrink":
			n = max(1, apx/2)
		case "remove":
			n = 0
		}
		if op.Rel != "remove" {
			n = min(max(n, 1), 10000)
		}
		data := make([]byte, n)
		for i := range data {
			data[i] = byte(op.X+i*13) | 1
		}
		if err := f.SetAppendixData(data); err != nil {
			return fmt.Errorf("%w: SetAppendixData(%d bytes) on a frame of %d bytes in a buffer of %d: %v", errSpSetup, n, len(img), len(buf), err)
		}
		now, _ := spBuffer(f)
		switch {
		case now == nil:
			return fmt.Errorf("%w: the frame does not give its buffer away after SetAppendixData", errSpSetup)
		case !sameBuffer(now, buf):
			cr.stat["appendix: frame moved to a bigger buffer"]++
			cr.note("attached an appendix of %d bytes that does not fit the frame's pooled buffer (the frame moved from a buffer of %d bytes to one of %d bytes)", n, len(buf), len(now))
			cr.leave(buf, img, op.Old, fmt.Sprintf("the pooled buffer of %d bytes the frame left when its appendix grew", len(buf)))
		case n == 0:
			cr.stat["appendix: removed"]++
			cr.note("removed the appendix (%d bytes)", apx)
		default:
			cr.stat["appendix: frame stays in its buffer"]++
			cr.note("attached an appendix of %d bytes in place (buffer of %d bytes, room for %d)", n, len(buf), room)
		}
	case "header":
		ttl := cr.ttlMin + 1 + op.X%max(1, 250-cr.ttlMin)
		f.SetTTL(uint8(min(ttl, 255)))
		f.SetFlowFlag([]frame.FlowControlFlag{frame.FlowControlFlagDecreaseFlow, frame.FlowControlFlagHoldFlow, frame.FlowControlFlagIncreaseFlow}[op.X%3])
		f.SetRecvRate(uint8(op.X % 101))
		f.SetSequenceNum(uint32(op.X) * 2654435761)
		f.SetSequenceAck(uint32(op.X) * 40503)
		cr.stat["header fields set"]++
		cr.note("set TTL %d, a flow flag, receive rate and sequence numbers", f.TTL())
	case "clone":
		cl := f.Clone()
		if cl == nil {
			return fmt.Errorf("%w: Clone returned nil", errSpSetup)
		}
		if op.X%2 == 0 {
			// go on with the clone, the original goes back to the pool
			buf, _ := spBuffer(f)
			img := spWire(f)
			f.ReturnToPool()
			cr.f = cl
			cr.stat["clone: went on with the clone"]++
			cr.note("cloned the frame, released the original and went on with the clone")
			cr.leave(buf, img, op.Old, fmt.Sprintf("the pooled buffer of %d bytes of the original that was released after cloning", len(buf)))
		} else {
			// go on with the original, the clone is set aside (it is sent elsewhere later)
			buf, _ := spBuffer(cl)
			cr.stat["clone: went on with the original"]++
			cr.note("cloned the frame and set the clone aside")
			if buf != nil {
				cr.watch = append(cr.watch, spWatch{what: "the clone that was set aside", buf: buf, want: append([]byte(nil), buf...), fr: cl})
			} else {
				cl.ReturnToPool()
			}
		}
	case "reparse":
		img := spWire(f)
		old, _ := spBuffer(f)
		if img == nil {
			return fmt.Errorf("%w: the frame cannot be serialised", errSpSetup)
		}
		off := peering.FrameOffset
		ps := cr.b.GetPooledSlice(off + len(img) + peering.FrameOverhead)
		if ps == nil {
			return fmt.Errorf("%w: no pooled slice for %d bytes", errSpSetup, len(img))
		}
		copy(ps[off:], img)
		g, err := cr.b.ParseFrame(ps[off:off+len(img)], ps[:cap(ps)], off)
		if err != nil {
			return fmt.Errorf("%w: the serialised frame does not parse: %v", errSpSetup, err)
		}
		g.SetRecvLink(f.RecvLink())
		f.ReturnToPool()
		cr.f = g
		cr.stat["serialised and parsed again"]++
		cr.note("serialised the frame and parsed it again on a buffer of %d bytes", len(ps))
		cr.leave(old, img, op.Old, fmt.Sprintf("the pooled buffer of %d bytes the frame lived in before it was parsed again", len(old)))
	case "recycle":
		// a frame object that carried something else (another block length, a bigger message) is turned into the
		// carrier with Reply / ReplyTo, as the router does when it answers
		blk := append([]byte(nil), f.SwitchBlock()...)
		msg := append([]byte(nil), f.MessageData()...)
		apx := append([]byte(nil), f.AppendixData()...)
		src, dst := f.SrcIP(), f.DstIP()
		junk := make([]byte, (len(blk)+1+op.X%7)%200)
		for i := range junk {
			junk[i] = byte(0x81 + i%100)
		}
		if len(junk) > 0 {
			junk[len(junk)-1] = 0x01
		}
		other := make([]byte, 1+(len(msg)+op.X%900)%9000)
		for i := range other {
			other[i] = 0xEE
		}
		x, err := cr.b.NewFrameV1(dst, src, f.MessageType(), junk, other, nil)
		if err != nil {
			return fmt.Errorf("%w: new frame: %v", errSpSetup, err)
		}
		if op.X%2 == 0 {
			err = x.Reply(blk, msg, apx)
		} else {
			err = x.ReplyTo(src, dst, blk, msg, apx)
		}
		if err != nil {
			x.ReturnToPool()
			return fmt.Errorf("%w: Reply on a used frame: %v", errSpSetup, err)
		}
		x.SetTTL(f.TTL())
		x.SetRecvLink(f.RecvLink())
		old, _ := spBuffer(f)
		img := spWire(f)
		f.ReturnToPool()
		cr.f = x
		cr.stat["re-used frame object (Reply)"]++
		cr.note("put block, message and appendix into a frame object that had carried a block of %d bytes and a message of %d bytes before (Reply)", len(junk), len(other))
		cr.leave(old, img, op.Old, fmt.Sprintf("the pooled buffer of %d bytes of the frame that was replaced by a re-used one", len(old)))
	default:
		return fmt.Errorf("%w: unknown frame operation %q", errSpSetup, op.Kind)
	}
	return nil
}

// applyAll carries out a plan; on an error everything watched is released.
func (cr *spCarrier) applyAll(ops []spOp) error {
	for _, op := range ops {
		if err := cr.apply(op); err != nil {
			cr.release()
			return err
		}
	}
	return nil
}

// check counts the bytes that changed in the watched memory, names the first place and releases everything.
func (cr *spCarrier) check() (outside int, where string) {
	for _, w := range cr.watch {
		d := 0
		first := -1
		for i := range w.want {
			if i >= len(w.buf) || w.buf[i] != w.want[i] {
				d++
				if first < 0 {
					first = i
				}
			}
		}
		if d > 0 && where == "" {
			where = fmt.Sprintf("%d byte(s) of %s (first at offset %d: %d, was %d)", d, w.what, first, w.buf[first], w.want[first])
		}
		outside += d
	}
	cr.release()
	return outside, where
}

func (cr *spCarrier) release() {
	for _, w := range cr.watch {
		if w.fr != nil {
			w.fr.ReturnToPool()
		} else {
			cr.b.ReturnPooledSlice(w.buf)
		}
	}
	cr.watch = nil
}

// spFrameOutside compares the serialised frame as it was handed to the switch with the frame as it came out:
// everything but the block (and, for a frame that was forwarded, the TTL and flow-control bytes the forwarder sets)
// has to be the same.
func spFrameOutside(pre, post []byte, forwarded bool) (outside int, where string) {
	if pre == nil || post == nil {
		return 0, ""
	}
	if len(pre) != len(post) {
		return max(len(pre), len(post)) - min(len(pre), len(post)), fmt.Sprintf("the frame was %d bytes long when the switch got it and %d bytes when it came out", len(pre), len(post))
	}
	bl := spWireBlock(pre)
	first := -1
	for i := range pre {
		if i >= 49 && i < 49+len(bl) {
			continue
		}
		if forwarded && (i == 1 || i == 2) {
			continue
		}
		if pre[i] != post[i] {
			outside++
			if first < 0 {
				first = i
			}
		}
	}
	if outside > 0 {
		where = fmt.Sprintf("%d byte(s) of the frame outside its switch block (first at frame offset %d: %d, was %d)", outside, first, post[first], pre[first])
	}
	return outside, where
}

func joinNonEmpty(sep string, s ...string) string {
	var out []string
	for _, x := range s {
		if x != "" {
			out = append(out, x)
		}
	}
	return strings.Join(out, sep)
}
