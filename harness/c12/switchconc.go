// Stage "switch workers" of C12: a switch runs one handler per CPU - label-switched frames of different paths pass one
// router at the same moment. Frames with different switch blocks are handed to the REAL switch handler of one router
// by many goroutines at once; every frame that leaves the router is a "rotate" event for SwitchLabel_Trace (the block
// it arrived with, the label of the link it came in on, the label it left by, the block it carries now).
//
// A third of the frames is not fresh when the handler gets it: the router has attached an appendix (in place, or one
// that moves the frame to a bigger pooled buffer), set header fields, cloned the frame or parsed it again
// (frameops.go) - the handlers running at the same moment draw their buffers from the same pool. The event then also
// says how many bytes outside the frame's block changed ("outside"), and a frame the handler KEPT (escalated to the
// router) although the next label of its block is not 0 is an event with label 0.
package main

import (
	"fmt"
	"math/rand"
	"sync"

	"github.com/mycoria/mycoria/frame"
	"github.com/mycoria/mycoria/m"

	"verifharness/internal/mesh"
	"verifharness/internal/vf"
	"verifharness/internal/world"
)

func switchWorkers(c *vf.Ctx, rng *rand.Rand) (events []any) {
	edges := []mesh.Edge{{A: 1, B: 2, LA: 7, LB: 21}, {A: 2, B: 3, LA: 300, LB: 9}, {A: 2, B: 4, LA: 17000, LB: 11}}
	ms, err := mesh.New(4, edges, mesh.Opts{})
	if err != nil {
		c.Fatal("switch workers: %v", err)
	}
	R := ms.Node(2)
	type sent struct {
		before []int
		recv   int
		out    int
		cr     *spCarrier
		pre    []byte
		did    string
	}
	orng := rand.New(rand.NewSource(c.Seed*104729 + 5)) // frame operations: a PRNG of their own
	opStat := map[string]int{}
	kept := 0
	rounds := c.Pick(40, 600)
	per := 48
	for round := 0; round < rounds; round++ {
		ms.W.Lock()
		ms.W.Inflight = nil
		ms.W.Unlock()
		plan := map[string]sent{}
		var frames []frame.Frame
		for k := 0; k < per; k++ {
			in := []int{1, 3, 4}[rng.Intn(3)]
			out := []int{1, 3, 4}[rng.Intn(3)]
			if out == in {
				out = []int{3, 4, 1}[rng.Intn(3)]
				if out == in {
					continue
				}
			}
			inN, outN := ms.Node(in), ms.Node(out)
			// the block as it arrives at R: R's label for the next link first, then some more hops of either width
			hops := []m.SwitchHop{{ForwardLabel: R.LinkTo(outN).SwitchLabel()}}
			for x := 0; x < 1+rng.Intn(4); x++ {
				l := m.SwitchLabel(1 + rng.Intn(127))
				if rng.Intn(2) == 0 {
					l = m.SwitchLabel(128 + rng.Intn(40000))
				}
				hops = append(hops, m.SwitchHop{ForwardLabel: l, ReturnLabel: m.SwitchLabel(1 + rng.Intn(30000))})
			}
			hops = append(hops, m.SwitchHop{ReturnLabel: m.SwitchLabel(1 + rng.Intn(30000))})
			sp := m.SwitchPath{Hops: hops}
			if err := sp.BuildBlocks(); err != nil {
				continue
			}
			tag := fmt.Sprintf("c12-switch-workers-%d-%d", round, k)
			nf, err := inN.Builder.NewFrameV1(inN.ID.IP, ms.Node(out).ID.IP, frame.RouterPing, sp.ForwardBlock, []byte(tag), nil)
			if err != nil {
				continue
			}
			var f frame.Frame = nf
			f.SetRecvLink(R.LinkTo(inN))
			p := sent{before: toInts(sp.ForwardBlock), recv: int(R.LinkTo(inN).SwitchLabel()), out: int(R.LinkTo(outN).SwitchLabel())}
			if orng.Intn(3) == 0 {
				op := spOp{X: orng.Intn(1 << 20), Old: []string{"pool", "pattern", "frame"}[orng.Intn(3)]}
				switch orng.Intn(8) {
				case 0, 1:
					op.Kind, op.Rel = "appendix", "small"
				case 2:
					op.Kind, op.Rel = "appendix", "edge"
				case 3, 4:
					op.Kind, op.Rel = "appendix", "tier"
				case 5:
					op.Kind = "header"
				case 6:
					op.Kind = "clone"
				default:
					op.Kind = "reparse"
				}
				cr := newCarrier(inN.Builder, f, 3, opStat)
				if err := cr.apply(op); err != nil {
					cr.release()
					c.Broken("switch workers: %v", err)
					continue
				}
				f = cr.f
				p.cr, p.pre, p.did = cr, spWire(f), cr.did()
			}
			plan[tag] = p
			frames = append(frames, f)
		}
		var wg sync.WaitGroup
		start := make(chan struct{})
		for _, f := range frames {
			wg.Add(1)
			go func(f frame.Frame) {
				defer wg.Done()
				<-start
				_ = R.Sw.VerifHandleFrame(f)
			}(f)
		}
		close(start)
		wg.Wait()
		c.Eval(len(frames))
		ms.W.Lock()
		fl := append([]*world.Flight(nil), ms.W.Inflight...)
		ms.W.Inflight = nil
		ms.W.Unlock()
		got := 0
		for _, x := range fl {
			d := x.Data
			if len(d) < 52 {
				continue
			}
			sw := int(d[48])
			mi := 49 + sw
			if len(d) < mi+2 {
				continue
			}
			ml := int(d[mi])<<8 | int(d[mi+1])
			if len(d) < mi+2+ml {
				continue
			}
			p, ok := plan[string(d[mi+2:mi+2+ml])]
			if !ok {
				continue
			}
			got++
			ev := map[string]any{"ev": "rotate", "before": p.before, "recv": p.recv, "label": p.out, "after": toInts(d[49 : 49+sw]), "want": p.out, "where": joinNonEmpty("; ", "real switch handler, frames of several paths at once", p.did)}
			if p.cr != nil {
				o1, w1 := p.cr.check()
				o2, w2 := spFrameOutside(p.pre, d, true)
				ev["outside"] = o1 + o2
				if o1+o2 > 0 {
					ev["outside_where"] = joinNonEmpty("; ", w1, w2)
				}
			}
			events = append(events, ev)
		}
		// frames the handler kept for this router: it says their next label is 0
		for _, h := range R.TakeEscalated() {
			p, ok := plan[string(h.MessageData())]
			if ok {
				got++
				kept++
				events = append(events, map[string]any{"ev": "rotate", "before": p.before, "recv": p.recv, "label": 0, "after": toInts(spWireBlock(spWire(h))), "want": p.out, "where": joinNonEmpty("; ", "real switch handler, frames of several paths at once: the handler kept the frame for its own router", p.did)})
			}
			h.ReturnToPool()
		}
		for _, p := range plan {
			if p.cr != nil {
				p.cr.release()
			}
		}
		if got < len(frames)/2 {
			c.Broken("switch workers: only %d of %d frames left the router", got, len(frames))
		}
		c.Distinct(fmt.Sprintf("switch-workers|%d", round))
	}
	if opStat["appendix: frame moved to a bigger buffer"] == 0 || opStat["appendix: frame stays in its buffer"] == 0 {
		c.Broken("switch workers: frame operations before the handler: %v", opStat)
	}
	c.Stage("T-switch-workers", map[string]any{"rounds": rounds, "events": len(events), "frame_operations": opStat, "kept_by_the_handler": kept})
	return events
}
