// Stage "switch workers" of C12: a switch runs one handler per CPU - label-switched frames of different paths pass one
// router at the same moment. Frames with different switch blocks are handed to the REAL switch handler of one router
// by many goroutines at once; every frame that leaves the router is a "rotate" event for SwitchLabel_Trace (the block
// it arrived with, the label of the link it came in on, the label it left by, the block it carries now).
package main

import (
	"fmt"
	"math/rand"
	"sync"

	"github.com/mycoria/mycoria/frame"
	"github.com/mycoria/mycoria/m"

	"verifharness/internal/mesh"
	"verifharness/internal/vf"
	"verifharness/internal/world"
)

func switchWorkers(c *vf.Ctx, rng *rand.Rand) (events []any) {
	edges := []mesh.Edge{{A: 1, B: 2, LA: 7, LB: 21}, {A: 2, B: 3, LA: 300, LB: 9}, {A: 2, B: 4, LA: 17000, LB: 11}}
	ms, err := mesh.New(4, edges, mesh.Opts{})
	if err != nil {
		c.Fatal("switch workers: %v", err)
	}
	R := ms.Node(2)
	type sent struct {
		before []int
		recv   int
		out    int
	}
	rounds := c.Pick(40, 600)
	per := 48
	for round := 0; round < rounds; round++ {
		ms.W.Lock()
		ms.W.Inflight = nil
		ms.W.Unlock()
		plan := map[string]sent{}
		var frames []frame.Frame
		for k := 0; k < per; k++ {
			in := []int{1, 3, 4}[rng.Intn(3)]
			out := []int{1, 3, 4}[rng.Intn(3)]
			if out == in {
				out = []int{3, 4, 1}[rng.Intn(3)]
				if out == in {
					continue
				}
			}
			inN, outN := ms.Node(in), ms.Node(out)
			// the block as it arrives at R: R's label for the next link first, then some more hops of either width
			hops := []m.SwitchHop{{ForwardLabel: R.LinkTo(outN).SwitchLabel()}}
			for x := 0; x < 1+rng.Intn(4); x++ {
				l := m.SwitchLabel(1 + rng.Intn(127))
				if rng.Intn(2) == 0 {
					l = m.SwitchLabel(128 + rng.Intn(40000))
				}
				hops = append(hops, m.SwitchHop{ForwardLabel: l, ReturnLabel: m.SwitchLabel(1 + rng.Intn(30000))})
			}
			hops = append(hops, m.SwitchHop{ReturnLabel: m.SwitchLabel(1 + rng.Intn(30000))})
			sp := m.SwitchPath{Hops: hops}
			if err := sp.BuildBlocks(); err != nil {
				continue
			}
			tag := fmt.Sprintf("c12-switch-workers-%d-%d", round, k)
			f, err := inN.Builder.NewFrameV1(inN.ID.IP, ms.Node(out).ID.IP, frame.RouterPing, sp.ForwardBlock, []byte(tag), nil)
			if err != nil {
				continue
			}
			f.SetRecvLink(R.LinkTo(inN))
			plan[tag] = sent{toInts(sp.ForwardBlock), int(R.LinkTo(inN).SwitchLabel()), int(R.LinkTo(outN).SwitchLabel())}
			frames = append(frames, f)
		}
		var wg sync.WaitGroup
		start := make(chan struct{})
		for _, f := range frames {
			wg.Add(1)
			go func(f frame.Frame) {
				defer wg.Done()
				<-start
				_ = R.Sw.VerifHandleFrame(f)
			}(f)
		}
		close(start)
		wg.Wait()
		c.Eval(len(frames))
		ms.W.Lock()
		fl := append([]*world.Flight(nil), ms.W.Inflight...)
		ms.W.Inflight = nil
		ms.W.Unlock()
		got := 0
		for _, x := range fl {
			d := x.Data
			if len(d) < 52 {
				continue
			}
			sw := int(d[48])
			mi := 49 + sw
			if len(d) < mi+2 {
				continue
			}
			ml := int(d[mi])<<8 | int(d[mi+1])
			if len(d) < mi+2+ml {
				continue
			}
			p, ok := plan[string(d[mi+2:mi+2+ml])]
			if !ok {
				continue
			}
			got++
			events = append(events, map[string]any{"ev": "rotate", "before": p.before, "recv": p.recv, "label": p.out, "after": toInts(d[49 : 49+sw]), "want": p.out, "where": "real switch handler, frames of several paths at once"})
		}
		if got < len(frames)/2 {
			c.Broken("switch workers: only %d of %d frames left the router", got, len(frames))
		}
		c.Distinct(fmt.Sprintf("switch-workers|%d", round))
	}
	return events
}
