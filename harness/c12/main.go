// C12 - switch-label source routes. Stage M: TLC on SwitchLabel (all label
// class vectors, 2..5/6 hops) checks the traversal properties and that the
// size is sufficient and minimal. Stage R: every transition of the dumped
// graphs and TLC simulation walks (7..40 and 41..101 hops, random labels) are
// executed on the real BuildBlocks / NextRotateSwitchBlock /
// TransformToReturnBlock with guard bytes around the block. Stage T: paths
// drawn by the Go PRNG are run on the real code and the recorded calls are
// validated by SwitchLabel_Trace. Further histories feeding the same trace
// specification: routing table entries (tableRoutes), frames of several paths
// through one switch handler at once (switchconc.go), whole paths through
// running switch workers of routers in every mode (switchpath.go).
package main

import (
	"bytes"
	"encoding/json"
	"fmt"
	"math/rand"
	"net/netip"
	"os"
	"os/exec"
	"path/filepath"
	"strings"
	"time"

	"github.com/mycoria/mycoria/m"

	"verifharness/internal/vf"
)

type act struct {
	Name    string          `json:"name"`
	N       int             `json:"n"`
	F       []int           `json:"f"`
	R       []int           `json:"r"`
	Size    int             `json:"size"`
	Refused bool            `json:"refused"`
	Fwd     []int           `json:"fwd"`
	Ret     []int           `json:"ret"`
	Dir     string          `json:"dir"`
	Hop     int             `json:"hop"`
	Before  []int           `json:"before"`
	Recv    int             `json:"recv"`
	Label   int             `json:"label"`
	After   []int           `json:"after"`
	Want    json.RawMessage `json:"want"`
}

const guard = 8

// runner executes one path on the real code step by step.
type runner struct {
	c      *vf.Ctx
	src    string
	f, r   []int
	sp     *m.SwitchPath
	reuse  *m.SwitchPath // != nil: build on this value (it already holds blocks of an earlier path)
	buf    []byte        // guard | block | guard
	block  []byte
	events *[]any
	drift  *int
	bad    bool
}

func toInts(b []byte) []int {
	out := make([]int, len(b))
	for i, x := range b {
		out[i] = int(x)
	}
	return out
}

func classOf(l int) int {
	switch {
	case l == 0:
		return 0
	case l <= 127:
		return 1
	case l <= 16383:
		return 2
	default:
		return 3
	}
}

func classVec(f, r []int) string {
	s := ""
	for _, x := range f {
		s += fmt.Sprint(classOf(x))
	}
	s += "|"
	for _, x := range r {
		s += fmt.Sprint(classOf(x))
	}
	return s
}

func (rn *runner) violation(kind, what string, extra map[string]any) {
	rn.bad = true
	f, r := rn.f, rn.r
	rep := map[string]any{"f": f, "r": r, "source": rn.src}
	for k, v := range extra {
		rep[k] = v
	}
	key := vf.Key(kind, fmt.Sprintf("hops=%s", hopBucket(len(f))))
	rn.c.Violation(key, fmt.Sprintf("path f=%v r=%v: %s", f, r, what), rep, func() bool {
		return replayPath(f, r) != ""
	})
}

func hopBucket(n int) string {
	switch {
	case n <= 6:
		return "2-6"
	case n <= 40:
		return "7-40"
	default:
		return "41-101"
	}
}

// build runs BuildBlocks; refusedWant/sizeWant come from the spec.
func (rn *runner) build(f, r []int, refusedWant bool, sizeWant int, fwdWant, retWant []int) bool {
	rn.f, rn.r = f, r
	hops := make([]m.SwitchHop, len(f))
	for i := range f {
		hops[i] = m.SwitchHop{ForwardLabel: m.SwitchLabel(f[i]), ReturnLabel: m.SwitchLabel(r[i])}
	}
	rn.sp = &m.SwitchPath{Hops: hops}
	if rn.reuse != nil {
		// the SAME SwitchPath value gets other hops and is built again (a route that is re-learned, a copied entry):
		// its blocks are a function of the hops alone, whatever it held before
		rn.sp = rn.reuse
		rn.sp.Hops = hops
	}
	var err error
	panicked, pv, _ := vf.NoPanic(func() { err = rn.sp.BuildBlocks() })
	rn.c.Eval(1)
	if panicked {
		rn.violation("build-panic", fmt.Sprintf("BuildBlocks panicked: %v (spec: size %d, refused=%v)", pv, sizeWant, refusedWant), map[string]any{"panic": fmt.Sprint(pv)})
		return false
	}
	ev := map[string]any{"ev": "build", "n": len(f), "f": f, "r": r, "err": err != nil}
	if err == nil {
		ev["fwd"] = toInts(rn.sp.ForwardBlock)
		ev["ret"] = toInts(rn.sp.ReturnBlock)
	}
	if rn.events != nil {
		*rn.events = append(*rn.events, ev)
	}
	if refusedWant {
		if err == nil {
			rn.violation("oversize-accepted", fmt.Sprintf("labels need %d > 255 bytes but BuildBlocks returned no error (block of %d bytes)", sizeWant, len(rn.sp.ForwardBlock)), nil)
		}
		return false
	}
	if err != nil {
		rn.violation("valid-refused", fmt.Sprintf("valid path (size %d) refused: %v", sizeWant, err), nil)
		return false
	}
	if len(rn.sp.ForwardBlock) != sizeWant || len(rn.sp.ReturnBlock) != sizeWant {
		rn.violation("size", fmt.Sprintf("block size %d/%d, the sufficient and minimal size is %d", len(rn.sp.ForwardBlock), len(rn.sp.ReturnBlock), sizeWant), nil)
		return false
	}
	if fwdWant != nil && (!bytes.Equal(rn.sp.ForwardBlock, toBytes(fwdWant)) || !bytes.Equal(rn.sp.ReturnBlock, toBytes(retWant))) {
		*rn.drift++
	}
	rn.buf = make([]byte, guard+sizeWant+guard)
	for i := range rn.buf {
		rn.buf[i] = 0xA5
	}
	rn.block = rn.buf[guard : guard+sizeWant : guard+sizeWant]
	copy(rn.block, rn.sp.ForwardBlock)
	return true
}

func toBytes(x []int) []byte {
	out := make([]byte, len(x))
	for i, v := range x {
		out[i] = byte(v)
	}
	return out
}

func (rn *runner) guardsOK() bool {
	for i := 0; i < guard; i++ {
		if rn.buf[i] != 0xA5 || rn.buf[len(rn.buf)-1-i] != 0xA5 {
			return false
		}
	}
	return true
}

func (rn *runner) rotate(recv, want int, afterWant []int, dir string, hop int) bool {
	before := toInts(rn.block)
	var label m.SwitchLabel
	var err error
	panicked, pv, _ := vf.NoPanic(func() { label, err = m.NextRotateSwitchBlock(rn.block, m.SwitchLabel(recv)) })
	rn.c.Eval(1)
	if panicked {
		rn.violation("rotate-panic", fmt.Sprintf("%s hop %d: NextRotateSwitchBlock panicked: %v", dir, hop, pv), map[string]any{"block": before, "recv": recv})
		return false
	}
	if err != nil {
		rn.violation("rotate-error", fmt.Sprintf("%s hop %d: NextRotateSwitchBlock: %v", dir, hop, err), map[string]any{"block": before, "recv": recv})
		return false
	}
	if rn.events != nil {
		*rn.events = append(*rn.events, map[string]any{"ev": "rotate", "before": before, "recv": recv, "label": int(label), "after": toInts(rn.block), "want": want})
	}
	if !rn.guardsOK() {
		rn.violation("outside-block", fmt.Sprintf("%s hop %d: a byte outside the block was written", dir, hop), map[string]any{"block": before, "recv": recv})
		return false
	}
	if int(label) != want {
		rn.violation("label-order", fmt.Sprintf("%s hop %d: extracted label %d, path says %d", dir, hop, label, want), map[string]any{"block": before, "recv": recv})
		return false
	}
	if afterWant != nil && !bytes.Equal(rn.block, toBytes(afterWant)) {
		*rn.drift++
	}
	return true
}

func (rn *runner) reverse(dir string) bool {
	before := toInts(rn.block)
	panicked, pv, _ := vf.NoPanic(func() { m.TransformToReturnBlock(rn.block) })
	rn.c.Eval(1)
	if panicked {
		rn.violation("reverse-panic", fmt.Sprintf("TransformToReturnBlock panicked: %v", pv), map[string]any{"block": before})
		return false
	}
	want := rn.sp.ReturnBlock
	if dir == "ret" {
		want = rn.sp.ForwardBlock
	}
	if rn.events != nil {
		*rn.events = append(*rn.events, map[string]any{"ev": "reverse", "before": before, "after": toInts(rn.block), "want": toInts(want)})
	}
	if !rn.guardsOK() {
		rn.violation("outside-block", "reversal wrote outside the block", map[string]any{"block": before})
		return false
	}
	if !bytes.Equal(rn.block, want) {
		rn.violation("reverse-mismatch", fmt.Sprintf("%s: block at the far end reverses to %v, path's block is %v", dir, toInts(rn.block), toInts(want)), map[string]any{"block": before})
		return false
	}
	return true
}

// replayPath runs a whole path with property-level expectations only and
// returns a description of the first failure ("" = all fine). Used for
// reproduction and for stage T.
func replayPath(f, r []int) (fail string) {
	defer func() {
		if p := recover(); p != nil {
			fail = fmt.Sprintf("panic: %v", p)
		}
	}()
	n := len(f)
	hops := make([]m.SwitchHop, n)
	need := 0
	for i := range f {
		hops[i] = m.SwitchHop{ForwardLabel: m.SwitchLabel(f[i]), ReturnLabel: m.SwitchLabel(r[i])}
	}
	sp := &m.SwitchPath{Hops: hops}
	need = specSize(f, r)
	err := sp.BuildBlocks()
	if need > 255 {
		if err == nil {
			return "oversize accepted"
		}
		return ""
	}
	if err != nil {
		return "valid refused: " + err.Error()
	}
	if len(sp.ForwardBlock) != need {
		return fmt.Sprintf("size %d, want %d", len(sp.ForwardBlock), need)
	}
	buf := bytes.Repeat([]byte{0xA5}, guard+need+guard)
	block := buf[guard : guard+need : guard+need]
	copy(block, sp.ForwardBlock)
	ok := func() bool {
		for i := 0; i < guard; i++ {
			if buf[i] != 0xA5 || buf[len(buf)-1-i] != 0xA5 {
				return false
			}
		}
		return true
	}
	for i := 0; i < n; i++ {
		l, err := m.NextRotateSwitchBlock(block, m.SwitchLabel(r[i]))
		if err != nil || int(l) != f[i] || !ok() {
			return fmt.Sprintf("fwd hop %d: label %d err %v guards %v", i+1, l, err, ok())
		}
	}
	m.TransformToReturnBlock(block)
	if !bytes.Equal(block, sp.ReturnBlock) || !ok() {
		return "fwd reversal mismatch"
	}
	for i := n - 1; i >= 0; i-- {
		l, err := m.NextRotateSwitchBlock(block, m.SwitchLabel(f[i]))
		if err != nil || int(l) != r[i] || !ok() {
			return fmt.Sprintf("ret hop %d: label %d err %v guards %v", i+1, l, err, ok())
		}
	}
	m.TransformToReturnBlock(block)
	if !bytes.Equal(block, sp.ForwardBlock) || !ok() {
		return "ret reversal mismatch"
	}
	return ""
}

// specSize is only used to decide "cannot fit" in reproduction runs; stage T's
// verdict on sizes comes from SwitchLabel_Trace (ImplSize), stage R's from the
// act records TLC printed.
func specSize(f, r []int) int {
	n := len(f)
	enc := func(l int) int {
		switch {
		case l <= 127:
			return 1
		case l <= 16383:
			return 2
		default:
			return 3
		}
	}
	sim := make([]int, 2*n-1)
	for i := 0; i < n; i++ {
		sim[i] = enc(f[i])
		sim[n+i-1] = enc(r[i])
	}
	// note: index n-1 is written twice on purpose (f[n-1]=0 and r[0]=0 overlap)
	sim[n-1] = 1
	best := 0
	for w := 0; w <= n; w++ {
		s := 0
		for j := w; j < w+n-1 && j < len(sim); j++ {
			s += sim[j]
		}
		if s > best {
			best = s
		}
	}
	return best
}

func main() { vf.Main("C12", "model_checking", run) }

func run(c *vf.Ctx) {
	c.Rule("M: TLC exhaustive over all label-class vectors (low and high representatives of {1..127 | 128..16383 | 16384..65535}) for 2..5 hops (thorough: ..6, plus both representatives mixed to 4 hops), checking label order, bounds, exact reversal, size sufficient and minimal. R: every transition of the dumped graphs and TLC -simulate walks with random 16-bit labels for 7..40 and 41..101 hops executed on the real code inside guard bytes. T: Go-PRNG paths run on the real code, calls validated by SwitchLabel_Trace; whole paths travelled there and back by real frames through RUNNING switch workers of routers in normal / stub / lite / stub+lite mode (meshes with several links per router, long chains), every hop a rotate event, what the far end's upper layer holds an arrive and a reverse event. distinct = distinct (hop count, label size-class vector) of executed paths")
	c.Assume("labels are uint16 (encodable in <= 3 varint bytes), paths are well formed (first return label and last forward label are 0)")

	spInstallLogSink() // before the first router stack exists: what running switches log is kept (stage "switched paths")
	drift := 0
	// ---- M ----
	mcs := []string{"SwitchLabel_MC.cfg", "SwitchLabel_MCHi.cfg"}
	if c.Thorough() {
		mcs = []string{"SwitchLabel_MC6.cfg", "SwitchLabel_MCHi6.cfg", "SwitchLabel_MCMix.cfg"}
	}
	for _, cfg := range mcs {
		mc, err := c.TLC("SwitchLabel", cfg, vf.TLCOpts{Workers: 8, Coverage: !c.Thorough(), Timeout: 40 * time.Minute, Heap: "12g"})
		if err != nil {
			c.Fatal("M %s: %v", cfg, err)
		}
		if mc.Violated != "" {
			// The model is the protocol as coded: a violated traversal property here
			// is a design-level counterexample; it becomes a verdict only through R.
			c.Broken("M %s: invariant %s violated in the model:\n%s", cfg, mc.Violated, tailStates(mc))
		}
		if !c.Thorough() {
			for _, a := range []string{"Pick", "FwdStep", "Turn", "RetStep", "Back"} {
				if mc.Coverage[a] == 0 {
					c.Broken("M %s: vacuous, action %s never taken", cfg, a)
				}
			}
		}
		c.AddModel(mc.Distinct, mc.Generated)
		c.Stage("M/"+cfg, map[string]any{"distinct": mc.Distinct, "generated": mc.Generated, "wall_s": mc.Wall.Seconds()})
		c.Logf("M %s: %d distinct states", cfg, mc.Distinct)
	}

	// ---- R (a): graph replay ----
	dumps := []string{"SwitchLabel_Dump.cfg", "SwitchLabel_DumpHi.cfg"}
	if c.Thorough() {
		dumps = []string{"SwitchLabel_Dump5.cfg", "SwitchLabel_DumpHi5.cfg"}
	}
	pathsRun := 0
	for _, cfg := range dumps {
		d, err := c.TLC("SwitchLabel", cfg, vf.TLCOpts{Workers: 1, Timeout: 30 * time.Minute, Heap: "12g"})
		if err != nil {
			c.Fatal("R dump %s: %v", cfg, err)
		}
		if d.Violated != "" {
			c.Broken("R dump %s: %s violated", cfg, d.Violated)
		}
		if len(d.Edges) == 0 {
			c.Fatal("R dump %s: no edges", cfg)
		}
		d.Inits = []string{d.Edges[0].From}
		g := vf.BuildGraph(d)
		paths := g.CoverPaths(0)
		c.Logf("R %s: %d edges, %d paths", cfg, len(g.Edges), len(paths))
		for pi, p := range paths {
			rn := &runner{c: c, src: cfg, drift: &drift}
			alive := false
			for _, ei := range p {
				var a act
				if err := json.Unmarshal(g.Edges[ei].Act, &a); err != nil {
					c.Fatal("act: %v", err)
				}
				switch a.Name {
				case "build":
					alive = rn.build(a.F, a.R, a.Refused, a.Size, a.Fwd, a.Ret)
					c.Distinct(fmt.Sprintf("%d:%s", a.N, classVec(a.F, a.R)))
					pathsRun++
					if pi < 2 {
						c.Sample(map[string]any{"kind": "graph path", "cfg": cfg, "f": a.F, "r": a.R, "size": a.Size})
					}
				case "rotate":
					if alive {
						var want int
						_ = json.Unmarshal(a.Want, &want)
						alive = rn.rotate(a.Recv, want, a.After, a.Dir, a.Hop)
					}
				case "reverse":
					if alive {
						alive = rn.reverse(a.Dir)
					}
				}
			}
		}
	}
	c.Stage("R-graph", map[string]any{"paths": pathsRun, "drift": drift})

	// ---- R (b): simulation walks ----
	for _, sc := range []struct {
		cfg   string
		num   int
		depth int
	}{{"SwitchLabel_Sim.cfg", c.Pick(150, 3000), 100}, {"SwitchLabel_SimBig.cfg", c.Pick(30, 500), 230}, {"SwitchLabel_SimBig3.cfg", c.Pick(20, 200), 230}} {
		sim, err := c.TLC("SwitchLabel", sc.cfg, vf.TLCOpts{Workers: 1, Simulate: fmt.Sprintf("num=%d", sc.num), Depth: sc.depth, Seed: c.Seed, Timeout: 40 * time.Minute})
		if err != nil {
			c.Fatal("R sim %s: %v", sc.cfg, err)
		}
		if sim.Violated != "" {
			c.Broken("R sim %s: %s violated in the model:\n%s", sc.cfg, sim.Violated, tailStates(sim))
		}
		var rn *runner
		alive := false
		walks, refused := 0, 0
		for _, l := range sim.Lines {
			var a act
			if json.Unmarshal([]byte(l), &a) != nil {
				continue
			}
			switch a.Name {
			case "build":
				rn = &runner{c: c, src: sc.cfg, drift: &drift}
				alive = rn.build(a.F, a.R, a.Refused, a.Size, a.Fwd, a.Ret)
				walks++
				if a.Refused {
					refused++
				}
				c.Distinct(fmt.Sprintf("%d:%s", a.N, classVec(a.F, a.R)))
				if walks == 1 {
					c.Sample(map[string]any{"kind": "simulated path", "cfg": sc.cfg, "f": a.F, "r": a.R, "size": a.Size, "refused": a.Refused})
				}
			case "rotate":
				if alive {
					var want int
					_ = json.Unmarshal(a.Want, &want)
					alive = rn.rotate(a.Recv, want, a.After, a.Dir, a.Hop)
				}
			case "reverse":
				if alive {
					alive = rn.reverse(a.Dir)
				}
			}
		}
		if walks == 0 {
			c.Broken("R sim %s: no walks", sc.cfg)
		}
		c.AddModel(sim.Generated, sim.Generated)
		c.Stage("R-sim/"+sc.cfg, map[string]any{"walks": walks, "refused_by_spec": refused})
		c.Logf("R sim %s: %d walks (%d oversize)", sc.cfg, walks, refused)
	}

	// ---- T: Go-PRNG paths, calls validated by the trace spec ----
	rng := rand.New(rand.NewSource(c.Seed))
	var events []any
	nT := c.Pick(300, 4000)
	randLabel := func() int {
		switch rng.Intn(6) {
		case 0:
			return 1 + rng.Intn(127)
		case 1:
			return 128 + rng.Intn(16256)
		case 2:
			return 16384 + rng.Intn(49152)
		case 3:
			return []int{1, 127, 128, 16383, 16384, 65535}[rng.Intn(6)]
		default:
			return 1 + rng.Intn(65535)
		}
	}
	var prevSP *m.SwitchPath
	for k := 0; k < nT; k++ {
		n := 2 + rng.Intn(39)
		if k%3 != 0 && prevSP != nil {
			n = 2 + rng.Intn(max(1, len(prevSP.Hops)-1)) // mostly shorter than what the value held before
		}
		if k%7 == 0 {
			n = 41 + rng.Intn(61)
		}
		f := make([]int, n)
		r := make([]int, n)
		big := k%14 == 0
		for i := 0; i < n; i++ {
			if i < n-1 {
				f[i] = randLabel()
				if big {
					f[i] = 16384 + rng.Intn(49152)
				}
			}
			if i > 0 {
				r[i] = randLabel()
				if big {
					r[i] = 16384 + rng.Intn(49152)
				}
			}
		}
		rn := &runner{c: c, src: "go-prng", drift: &drift, events: &events}
		switch {
		case prevSP != nil && k%3 == 1:
			rn.reuse = prevSP // rebuilt in place
		case prevSP != nil && k%3 == 2:
			cp := *prevSP // a struct copy shares the old blocks' memory
			rn.reuse = &cp
		}
		var before *m.SwitchPath
		var beforeF, beforeR []byte
		if k%3 == 2 && prevSP != nil {
			before = prevSP
			beforeF, beforeR = append([]byte(nil), prevSP.ForwardBlock...), append([]byte(nil), prevSP.ReturnBlock...)
		}
		need := specSize(f, r)
		built := rn.build(f, r, need > 255, need, nil, nil)
		if before != nil && (!bytes.Equal(before.ForwardBlock, beforeF) || !bytes.Equal(before.ReturnBlock, beforeR)) {
			c.Violation(vf.Key("rebuild", "copy-overwrites-original"), fmt.Sprintf("building a copy of a path (new hops f=%v r=%v) changed the blocks of the path it was copied from: fwd %v -> %v", f, r, beforeF, before.ForwardBlock), map[string]any{"f": f, "r": r}, nil)
		}
		prevSP = nil
		if built {
			prevSP = rn.sp
		}
		if built {
			okk := true
			for i := 0; i < n && okk; i++ {
				okk = rn.rotate(r[i], f[i], nil, "fwd", i+1)
			}
			if okk {
				okk = rn.reverse("fwd")
			}
			for i := n - 1; i >= 0 && okk; i-- {
				okk = rn.rotate(f[i], r[i], nil, "ret", i+1)
			}
			if okk {
				rn.reverse("ret")
			}
		}
		c.Distinct(fmt.Sprintf("%d:%s", n, classVec(f, r)))
	}
	events = append(events, tableRoutes(c, rng)...)
	events = append(events, switchWorkers(c, rng)...)
	rejectAt, inv, tres, err := c.TraceCheck("SwitchLabel_Trace", "SwitchLabel_Trace.cfg", events, vf.TLCOpts{Timeout: 30 * time.Minute, Heap: "8g"})
	if err != nil {
		c.Fatal("T: %v", err)
	}
	c.AddTraces(nT)
	c.AddModel(tres.Distinct, tres.Generated)
	c.Stage("T", map[string]any{"paths": nT, "events": len(events), "wall_s": tres.Wall.Seconds()})
	if rejectAt > 0 || inv != "" {
		ev := events[rejectAt-1].(map[string]any)
		c.Violation(vf.Key("trace", ev["ev"]), fmt.Sprintf("recorded call %v is not explained by the protocol operators of SwitchLabel (trace line %d)", ev, rejectAt), ev, nil)
	}
	c.Logf("T: %d events validated", len(events))
	switchedPaths(c, rng)
	suite(c)
}

// tableRoutes: switch paths as the router keeps them - inside routing table entries. Routes are added, re-learnt with
// other labels (a link that came back with another label), with wider or narrower labels, over the same relays; after
// every AddRoute each entry of the table is written down as a "build" event: its blocks must be the blocks of ITS hops.
func tableRoutes(c *vf.Ctx, rng *rand.Rand) (events []any) {
	me := netip.MustParseAddr("fd10::100")
	addr := func(i int) netip.Addr { return netip.MustParseAddr(fmt.Sprintf("fd10::%x", i)) }
	label := func() m.SwitchLabel {
		switch rng.Intn(3) {
		case 0:
			return m.SwitchLabel(1 + rng.Intn(127))
		case 1:
			return m.SwitchLabel(128 + rng.Intn(16256))
		}
		return m.SwitchLabel(16384 + rng.Intn(40000))
	}
	for round := 0; round < c.Pick(40, 600); round++ {
		rt := m.NewRoutingTable(m.RoutingTableConfig{RoutablePrefixes: []m.RoutablePrefix{{BasePrefix: m.RoutingAddressPrefix, RoutingBits: m.ContinentPrefixBits, EntryTTL: time.Hour, EntriesPerPrefix: 50}}, RouterIP: me})
		for op := 0; op < 12; op++ {
			dst := 1 + rng.Intn(3)
			nrel := 1 + rng.Intn(3)
			hops := []m.SwitchHop{{Router: me, ForwardLabel: label()}}
			for k := 0; k < nrel; k++ {
				hops = append(hops, m.SwitchHop{Router: addr(10 + (dst+k)%4), ForwardLabel: label(), ReturnLabel: label()})
			}
			hops = append(hops, m.SwitchHop{Router: addr(dst), ReturnLabel: label()})
			e := m.RoutingTableEntry{DstIP: addr(dst), NextHop: hops[1].Router, Source: m.RouteSourceGossip, Expires: time.Now().Add(time.Hour), Path: m.SwitchPath{Hops: hops}}
			if rng.Intn(5) == 0 {
				e = m.RoutingTableEntry{DstIP: addr(dst), NextHop: addr(dst), Source: m.RouteSourcePeer, Path: m.SwitchPath{Hops: []m.SwitchHop{{Router: me, ForwardLabel: label()}, {Router: addr(dst), ReturnLabel: label()}}}}
			}
			_, _ = rt.AddRoute(e)
			c.Eval(1)
			for _, x := range rt.VerifEntries() {
				if len(x.Path.Hops) < 2 {
					continue
				}
				var f, r []int
				for _, h := range x.Path.Hops {
					f = append(f, int(h.ForwardLabel))
					r = append(r, int(h.ReturnLabel))
				}
				events = append(events, map[string]any{"ev": "build", "n": len(f), "f": f, "r": r, "err": false, "fwd": toInts(x.Path.ForwardBlock), "ret": toInts(x.Path.ReturnBlock), "where": "routing table entry"})
			}
		}
		c.Distinct(fmt.Sprintf("table-routes|%d", round))
	}
	return events
}

// suite is stage S: the traces are not made by this driver but recorded from the repository's OWN test suite. The
// tests of package m are run from the repository with the guarded hooks on (VERIF_SWITCH_TRACE): every call of
// BuildBlocks, NextRotateSwitchBlock and TransformToReturnBlock they make - thousands of random paths - is written
// down by the code itself and validated by TLC against the protocol operators of SwitchLabel (what the tests
// assert themselves is not looked at).
func suite(c *vf.Ctx) {
	trace := filepath.Join(c.Work, "switch-suite.ndjson")
	cmd := exec.Command("bash", "-c", fmt.Sprintf(". %s/bin/goenv.sh && cd %s && VERIF_SWITCH_TRACE=%s \"$GO\" test -tags verif -vet=off -count=1 ./m/", vf.VerifRoot, vf.RepoRoot, trace))
	out, err := cmd.CombinedOutput()
	if err != nil && !strings.Contains(string(out), "TestTable") {
		// the repository's tests fail on this tree (m.TestTable is flaky on the pinned tree): not this check's verdict,
		// the recorded calls are judged all the same
		c.Logf("S: go test ./m/ failed: %s", lastLine(string(out)))
	}
	data, rerr := os.ReadFile(trace)
	if rerr != nil {
		c.Broken("S: no trace was recorded from the repository's tests: %v (%s)", rerr, lastLine(string(out)))
		return
	}
	var evs []any
	kinds := map[string]int{}
	for _, ln := range strings.Split(string(data), "\n") {
		if strings.TrimSpace(ln) == "" {
			continue
		}
		var ev map[string]any
		if json.Unmarshal([]byte(ln), &ev) != nil {
			continue
		}
		// the hooks know the call, not the path it belongs to: the path-order clauses are trivially true here
		switch ev["ev"] {
		case "rotate":
			ev["want"] = ev["label"]
		case "reverse":
			ev["want"] = ev["after"]
		}
		kinds[fmt.Sprint(ev["ev"])]++
		evs = append(evs, ev)
		c.Eval(1)
	}
	if kinds["build"] < 100 || kinds["rotate"] < 100 || kinds["reverse"] < 10 {
		c.Broken("S: the repository's tests recorded too few calls: %v", kinds)
		return
	}
	if lim := c.Pick(6000, 200000); len(evs) > lim {
		evs = evs[:lim]
	}
	rejectAt, inv, tres, err := c.TraceCheck("SwitchLabel_Trace", "SwitchLabel_Trace.cfg", evs, vf.TLCOpts{Timeout: 30 * time.Minute, Heap: "8g"})
	if err != nil {
		c.Fatal("S: %v", err)
	}
	c.AddModel(tres.Distinct, tres.Generated)
	c.AddTraces(1)
	c.Stage("S", map[string]any{"events": len(evs), "calls": kinds, "package": "m", "wall_s": tres.Wall.Seconds()})
	if rejectAt > 0 || inv != "" {
		ev := evs[rejectAt-1].(map[string]any)
		c.Violation(vf.Key("suite", ev["ev"]), fmt.Sprintf("a call recorded from the repository's own tests (%v) is not explained by the protocol operators of SwitchLabel (trace line %d)", ev, rejectAt), ev, nil)
	}
	c.Logf("S: %d calls recorded from the repository's own tests validated (%v)", len(evs), kinds)
}

func lastLine(s string) string {
	l := strings.Split(strings.TrimSpace(s), "\n")
	return l[len(l)-1]
}

func tailStates(r *vf.TLCResult) string {
	s := ""
	n := len(r.ErrTrace)
	for i := max(0, n-2); i < n; i++ {
		s += r.ErrTrace[i] + "\n"
	}
	if len(s) > 3000 {
		s = s[:3000]
	}
	return s
}
