// Stage "modes" of C10: converged honest meshes whose routers do NOT all run with the default options. Every router of
// the other stages runs with an empty configuration; `router.lite: true` and `router.stub: true` are rarely used
// options that change who is told about whom (a full router does not relay announcements to a lite peer, a
// stub-configured router relays none), what a router says about itself (the Stub flag of its announcement: configured,
// or Peering.IsStub()) and how a lite router routes: it only ever hears its direct peers (and what lite peers relay), so
// everything else leaves it through the nearest table entry that is not a dead end (RoutingTable.LookupNearestRoute).
//
// What is claimed ("conv") of an ordered pair (a, b) of such a mesh, and nothing more:
//   - the tables, as the routers read them, lead from a to b and from b to a (as after churn: every lookup names
//     exactly the destination and a next hop with a live link that is not the router the frame came from), EXCEPT
//   - at a LITE router that holds no entry for the destination. That is not a lack of convergence, it is how a lite
//     router is meant to work: it forwards to the nearest router it knows that is not a dead end. Which routers are
//     dead ends is documented (router/ping_announce.go AnnouncePingMsg.Stub, peering.IsStub, config.Router.Stub):
//     configured `stub: true`, or only one peer, or only lite peers. The driver computes that from the topology and
//     the configuration (never from the Stub flags the routers told each other) and claims the pair only when EVERY
//     entry of the lite router's table whose destination is not a documented dead end leads on to b - whichever of
//     them is the nearest.
//
// A pair that is not claimed is asked all the same (conv = false): its frames obey the crossing rules (TTL, bound,
// content) and only b may answer, but neither delivery nor a reply is demanded - e.g. lite leaves behind a relay whose
// peers are all lite cannot reach each other (that relay is a dead end by the documented rule), a full router cut off
// from the gossip by a stub-configured router has no route.
//
// The request of a claimed pair that the origin refuses to send is the trace event "refused" with conv = true, which
// Forwarding_Trace rejects (the request is never handed to b).
package main

import (
	"fmt"
	"math/rand"
	"net/netip"
	"sort"
	"time"

	"github.com/mycoria/mycoria/config"
	"github.com/mycoria/mycoria/m"

	"verifharness/internal/mesh"
	"verifharness/internal/vf"
	"verifharness/internal/world"
)

// modeSpec describes one mesh of the stage; everything else follows from Sub (the seed of the mesh's own PRNG).
type modeSpec struct {
	Shape string   `json:"shape"`
	N     int      `json:"n"`
	Edges [][2]int `json:"edges"`
	Lite  []int    `json:"lite"`
	Stub  []int    `json:"stub"`
	Late  int      `json:"late_joiner"` // this router gets its links only after the others have converged (0 = none)
	Mixed bool     `json:"continents"`  // identities from several continents
	Twice bool     `json:"announced_twice"`
	Sub   int64    `json:"sub_seed"`
}

var modeShapes = []string{"lite-leaves-behind-relay", "lite-leaves-on-core", "stub-leaves", "relay-with-only-lite-peers", "lite-relay", "random-modes"}

// genModeSpec draws a mesh of the given shape.
func genModeSpec(rng *rand.Rand, shape string) modeSpec {
	s := modeSpec{Shape: shape}
	lite, stub := map[int]bool{}, map[int]bool{}
	add := func(a, b int) { s.Edges = append(s.Edges, [2]int{a, b}) }
	has := func(a, b int) bool {
		for _, e := range s.Edges {
			if (e[0] == a && e[1] == b) || (e[0] == b && e[1] == a) {
				return true
			}
		}
		return false
	}
	// core: k full routers 1..k (line, ring or star)
	core := func(k int) {
		s.N = k
		kind := rng.Intn(3)
		for i := 2; i <= k; i++ {
			switch {
			case kind == 2:
				add(1, i)
			default:
				add(i-1, i)
			}
		}
		if kind == 1 && k >= 3 {
			add(k, 1)
		}
	}
	node := func() int { s.N++; return s.N }
	switch shape {
	case "lite-leaves-behind-relay":
		// a relay with exactly ONE full peer and one or more lite leaves: the only way in and out for its leaves
		k := 1 + rng.Intn(3)
		core(k)
		for r := 0; r < 1+rng.Intn(2); r++ {
			p := node()
			add(p, 1+rng.Intn(k))
			for t := 0; t < 1+rng.Intn(3); t++ {
				l := node()
				lite[l] = true
				add(l, p)
				s.Late = l
			}
		}
		if rng.Intn(3) > 0 {
			s.Late = 0
		}
		if rng.Intn(3) == 0 {
			l := node()
			lite[l] = true
			add(l, 1+rng.Intn(k))
		}
	case "lite-leaves-on-core":
		k := 3 + rng.Intn(3)
		core(k)
		for t := 0; t < 1+rng.Intn(3); t++ {
			l := node()
			lite[l] = true
			a := 1 + rng.Intn(k)
			add(l, a)
			if rng.Intn(2) == 0 {
				if b := 1 + rng.Intn(k); b != a {
					add(l, b)
				}
			}
			s.Late = l
		}
		if rng.Intn(3) > 0 {
			s.Late = 0
		}
	case "stub-leaves":
		k := 2 + rng.Intn(3)
		core(k)
		for t := 0; t < 1+rng.Intn(2); t++ {
			x := node()
			stub[x] = true
			if rng.Intn(4) == 0 {
				lite[x] = true
			}
			a := 1 + rng.Intn(k)
			add(x, a)
			if rng.Intn(2) == 0 {
				if b := 1 + rng.Intn(k); b != a {
					add(x, b)
				}
			}
		}
		if rng.Intn(2) == 0 {
			l := node()
			lite[l] = true
			add(l, 1+rng.Intn(k))
		}
		if rng.Intn(3) == 0 {
			// a relay that is configured as a stub, with a lite leaf behind it
			p := node()
			stub[p] = true
			add(p, 1+rng.Intn(k))
			l := node()
			lite[l] = true
			add(l, p)
		}
	case "relay-with-only-lite-peers":
		r := node()
		var leaves []int
		for t := 0; t < 2+rng.Intn(2); t++ {
			l := node()
			lite[l] = true
			add(l, r)
			leaves = append(leaves, l)
		}
		if rng.Intn(2) == 0 {
			// one of the leaves has a second home in a small core
			c1 := node()
			add(leaves[rng.Intn(len(leaves))], c1)
			for t := 0; t < rng.Intn(3); t++ {
				c2 := node()
				add(c2, c1+rng.Intn(c2-c1))
			}
		}
	case "lite-relay":
		// a lite router that relays for lite routers behind it (lite routers do pass announcements on to lite peers)
		k := 1 + rng.Intn(3)
		core(k)
		p := node()
		lite[p] = true
		add(p, 1+rng.Intn(k))
		last := p
		for t := 0; t < 1+rng.Intn(3); t++ {
			l := node()
			lite[l] = true
			if rng.Intn(2) == 0 {
				add(l, p)
			} else {
				add(l, last) // a chain of lite routers
			}
			last = l
		}
	default: // random-modes
		n := 5 + rng.Intn(4)
		s.N = n
		for i := 2; i <= n; i++ {
			add(1+rng.Intn(i-1), i)
		}
		for t := 0; t < rng.Intn(3); t++ {
			a, b := 1+rng.Intn(n), 1+rng.Intn(n)
			if a != b && !has(a, b) {
				add(a, b)
			}
		}
		for i := 1; i <= n; i++ {
			switch r := rng.Intn(10); {
			case r < 3:
				lite[i] = true
			case r < 4:
				stub[i] = true
			case r < 5:
				lite[i], stub[i] = true, true
			}
		}
	}
	// node ids follow the order of the addresses (unless the mesh spans continents): the roles get PRNG ids
	perm := rng.Perm(s.N)
	for i := range s.Edges {
		s.Edges[i] = [2]int{perm[s.Edges[i][0]-1] + 1, perm[s.Edges[i][1]-1] + 1}
	}
	if s.Late != 0 {
		s.Late = perm[s.Late-1] + 1
	}
	for i := 1; i <= s.N; i++ {
		if lite[i] {
			s.Lite = append(s.Lite, perm[i-1]+1)
		}
		if stub[i] {
			s.Stub = append(s.Stub, perm[i-1]+1)
		}
	}
	sort.Ints(s.Lite)
	sort.Ints(s.Stub)
	if s.Lite == nil {
		s.Lite = []int{}
	}
	if s.Stub == nil {
		s.Stub = []int{}
	}
	s.Mixed = rng.Intn(2) == 0 && s.N >= 3
	s.Twice = rng.Intn(3) == 0
	s.Sub = rng.Int63()
	return s
}

// modeWorld is a built mesh of the stage with the documented-intent oracle.
type modeWorld struct {
	ms         *mesh.Mesh
	lite, stub map[int]bool
	budget     int // steps left for the walk of one claim (a walk that runs out claims nothing)
}

func (mw *modeWorld) peers(i int) []int {
	var out []int
	for _, e := range mw.ms.Edges {
		switch i {
		case e.A:
			out = append(out, e.B)
		case e.B:
			out = append(out, e.A)
		}
	}
	return out
}

// deadEnd: the documented rule for a router that announces itself as a stub - configured as one, or it has only one
// peer, or only lite peers.
func (mw *modeWorld) deadEnd(i int) bool {
	if mw.stub[i] {
		return true
	}
	ps := mw.peers(i)
	if len(ps) <= 1 {
		return true
	}
	for _, p := range ps {
		if !mw.lite[p] {
			return false
		}
	}
	return true
}

// walk: do the tables lead from cur to dst (see the head of the file)? usedFallback reports that a lite router without
// an entry for dst was passed.
func (mw *modeWorld) walk(cur, dst, prev *world.Node, seen map[*world.Node]bool, depth int, usedFallback *bool) bool {
	if cur == dst {
		return true
	}
	mw.budget--
	if depth > 30 || seen[cur] || mw.budget < 0 {
		return false
	}
	seen[cur] = true
	defer delete(seen, cur)
	step := func(nh netip.Addr) bool {
		l := cur.Peer.GetLink(nh)
		if l == nil || l.IsClosing() {
			return false
		}
		nx := mw.ms.W.NodeByIP(nh)
		if nx == nil || nx == prev {
			return false
		}
		return mw.walk(nx, dst, cur, seen, depth+1, usedFallback)
	}
	if e, isDst := cur.RoutingTable().LookupNearestRoute(dst.ID.IP); e != nil && isDst && e.DstIP == dst.ID.IP {
		return step(e.NextHop)
	}
	if !mw.lite[mw.ms.ID(cur.ID.IP)] {
		return false // a full router without a route to dst: not converged for this pair, nothing is claimed
	}
	cands := 0
	for _, x := range cur.RoutingTable().VerifEntries() {
		id := mw.ms.ID(x.DstIP)
		if id == 0 {
			return false
		}
		if mw.deadEnd(id) {
			continue
		}
		cands++
		if !step(x.NextHop) {
			return false
		}
	}
	if cands > 0 {
		*usedFallback = true
	}
	return cands > 0
}

func (mw *modeWorld) claim(a, b int) (conv, fallback bool) {
	A, B := mw.ms.Node(a), mw.ms.Node(b)
	var fb bool
	mw.budget = 20000
	if !mw.walk(A, B, nil, map[*world.Node]bool{}, 0, &fb) {
		return false, false
	}
	if !mw.walk(B, A, nil, map[*world.Node]bool{}, 0, &fb) {
		return false, false
	}
	return true, fb
}

func randLabel(rng *rand.Rand) m.SwitchLabel {
	if rng.Intn(2) == 0 {
		return m.SwitchLabel(1 + rng.Intn(127))
	}
	return m.SwitchLabel(128 + rng.Intn(16000))
}

// buildModeWorld assembles the routers, joins them and lets them announce until the mesh is quiet.
func buildModeWorld(s modeSpec, rng *rand.Rand) (*modeWorld, []string, error) {
	mw := &modeWorld{lite: map[int]bool{}, stub: map[int]bool{}}
	for _, i := range s.Lite {
		mw.lite[i] = true
	}
	for _, i := range s.Stub {
		mw.stub[i] = true
	}
	var first, late []mesh.Edge
	for _, e := range s.Edges {
		me := mesh.Edge{A: e[0], B: e[1], LA: randLabel(rng), LB: randLabel(rng)}
		if s.Late != 0 && (e[0] == s.Late || e[1] == s.Late) {
			late = append(late, me)
		} else {
			first = append(first, me)
		}
	}
	var ids []*m.Address
	var conts []string
	if s.Mixed {
		ids, conts = mixedIdentities(rng, s.N)
	}
	ms, err := mesh.New(s.N, first, mesh.Opts{IDs: ids, Cfg: func(i int) config.Store {
		var cs config.Store
		cs.Router.Lite = mw.lite[i]
		cs.Router.Stub = mw.stub[i]
		return cs
	}})
	if err != nil {
		return nil, nil, err
	}
	mw.ms = ms
	for i := 1; i <= s.N; i++ {
		nd := ms.Node(i)
		if nd.Cfg.Router.Lite != mw.lite[i] || nd.Cfg.Router.Stub != mw.stub[i] {
			return nil, nil, fmt.Errorf("router %d does not run with the configured mode", i)
		}
	}
	announceAll := func() {
		time.Sleep(2 * time.Millisecond)
		for _, i := range rng.Perm(s.N) {
			ms.Announce(i+1, true)
		}
		ms.W.RunUntilQuiet(func(k int) int { return rng.Intn(k) }, 200000)
	}
	announceAll()
	if len(late) > 0 {
		// the late joiner: the others have announced themselves as what they were without it
		for _, e := range late {
			for ms.Node(e.A).Peer.GetLinkByLabel(e.LA) != nil {
				e.LA++
			}
			for ms.Node(e.B).Peer.GetLinkByLabel(e.LB) != nil {
				e.LB++
			}
			if _, _, err := ms.W.Connect(ms.Node(e.A), ms.Node(e.B), e.LA, e.LB, 5); err != nil {
				return nil, nil, fmt.Errorf("late joiner: connect %d-%d: %w", e.A, e.B, err)
			}
			ms.Edges = append(ms.Edges, e)
		}
		announceAll()
	}
	if s.Twice {
		announceAll()
	}
	// the virtual links must tell a router that its peer is lite, as the real link does after the handshake
	for _, e := range ms.Edges {
		la, lb := ms.Node(e.A).LinkTo(ms.Node(e.B)), ms.Node(e.B).LinkTo(ms.Node(e.A))
		if la == nil || lb == nil || la.Lite() != mw.lite[e.B] || lb.Lite() != mw.lite[e.A] {
			return nil, nil, fmt.Errorf("link %d-%d does not report the peer's lite mode", e.A, e.B)
		}
	}
	return mw, conts, nil
}

// modeResult is what one mesh of the stage produced.
type modeResult struct {
	runs     [][]any          // trace events, one run per round of requests
	descs    []map[string]any // one per run
	claimed  int              // pairs asked with conv = true
	fallback int              // ... of which pass a lite router without an entry for the destination
	asked    int
	unsent   int      // requests of unclaimed pairs the origin refused to send
	bad      []string // property-level mirror of the trace rules (names a reproduction, never a verdict)
	panics   []string
}

// runModeMesh executes the whole scenario of one mesh; it is a function of the spec alone (count = false: a re-execution).
func runModeMesh(c *vf.Ctx, s modeSpec, count bool) (*modeResult, error) {
	rng := rand.New(rand.NewSource(s.Sub))
	mw, conts, err := buildModeWorld(s, rng)
	if err != nil {
		return nil, err
	}
	ms := mw.ms
	res := &modeResult{}
	base := map[string]any{"kind": "converged-modes-" + s.Shape, "mesh": s}
	if conts != nil {
		base["continents_of_routers"] = conts
	}
	dead := []int{}
	for i := 1; i <= s.N; i++ {
		if mw.deadEnd(i) {
			dead = append(dead, i)
		}
	}
	base["dead_ends_by_the_documented_rule"] = dead
	newRec := func() *recorder {
		rec := newRecorder(ms)
		topo := rec.events[0].(map[string]any)
		topo["lite"] = s.Lite
		topo["stubs"] = s.Stub
		return rec
	}
	round := func(rec *recorder, what string) {
		// Signed frames carry a millisecond time stamp that has to grow from frame to frame of one sender (C03): a first
		// request, signed without a session, within the millisecond of the sender's last announcement would be refused as
		// a duplicate by a receiver that has seen both. Replay protection is not this property's business: wait.
		time.Sleep(3 * time.Millisecond)
		var pairs [][2]int
		for a := 1; a <= s.N; a++ {
			for b := 1; b <= s.N; b++ {
				if a != b {
					pairs = append(pairs, [2]int{a, b})
				}
			}
		}
		rng.Shuffle(len(pairs), func(i, j int) { pairs[i], pairs[j] = pairs[j], pairs[i] })
		for _, p := range pairs {
			a, b := p[0], p[1]
			// ... and likewise between two requests: a lite router that has just told X "unreachable" (an error ping, signed
			// without a session) and asks X itself within the same millisecond would be refused as a duplicate
			time.Sleep(1200 * time.Microsecond)
			conv, fb := mw.claim(a, b)
			A, B := ms.Node(a), ms.Node(b)
			before := len(rec.events)
			handledBefore := len(B.Handled)
			notify, pingID, err := A.Rt.PingPong.Send(B.ID.IP, false, 0)
			res.asked++
			if count {
				c.Eval(1)
			}
			if conv {
				res.claimed++
				if fb {
					res.fallback++
				}
			}
			reqID := 0
			if err == nil {
				for _, e := range rec.events[before:] {
					if mm, ok := e.(map[string]any); ok && mm["ev"] == "cross" {
						reqID = mm["id"].(int)
						break
					}
				}
			}
			if err != nil || reqID == 0 {
				// the request never left its origin
				rec.events = rec.events[:before]
				why := "no frame left the router"
				if err != nil {
					why = err.Error()
				}
				rec.events = append(rec.events, map[string]any{"ev": "refused", "src": a, "dst": b, "conv": conv, "fallback": fb, "err": why})
				if conv {
					res.bad = append(res.bad, "request-not-sent")
				} else {
					res.unsent++
				}
				drain(ms, 2000)
				continue
			}
			tail := append([]any(nil), rec.events[before:]...)
			rec.events = append(rec.events[:before], map[string]any{"ev": "originate", "id": reqID, "src": a, "dst": b, "ttl": 32, "conv": conv, "fallback": fb})
			rec.events = append(rec.events, tail...)
			rec.pingOf[pingID] = reqID
			drain(ms, 2000)
			replied := false
			select {
			case <-notify:
				replied = true
			default:
			}
			end := map[string]any{"ev": "end", "id": reqID, "replied": replied}
			if !replied {
				// a note for the reader of a counterexample: what b's router worker logged for a's frame, if anything
				for _, h := range B.Handled[min(handledBefore, len(B.Handled)):] {
					if h.Src == A.ID.IP && h.HandlerErr() != "" {
						end["note_handler_of_dst_logged"] = h.HandlerErr()
					}
				}
			}
			rec.events = append(rec.events, end)
			if conv && !replied {
				res.bad = append(res.bad, "no-reply")
			}
			if count {
				c.Distinct(fmt.Sprintf("modes|%s|%d|%d|%d|%s", s.Shape, s.Sub, a, b, what))
			}
		}
		for _, e := range rec.events {
			mm, _ := e.(map[string]any)
			switch mm["ev"] {
			case "cross":
				if mm["same"] == false {
					res.bad = append(res.bad, "content-changed")
				}
				if mm["ttl"].(int) < 1 {
					res.bad = append(res.bad, "ttl-zero-forwarded")
				}
			case "reply":
				for _, o := range rec.events {
					if om, _ := o.(map[string]any); om["ev"] == "originate" && om["id"] == mm["id"] && om["dst"] != mm["by"] {
						res.bad = append(res.bad, "answered-by-wrong-router")
					}
				}
			}
		}
		d := map[string]any{"round": what}
		for k, v := range base {
			d[k] = v
		}
		res.runs = append(res.runs, rec.events)
		res.descs = append(res.descs, d)
	}
	round(newRec(), "first requests")
	// the routers' periodic workers tick, then everybody is asked again (what is claimed is read from the tables again)
	rec := newRec()
	evs, hk, _ := housekeeping(c, rng, ms)
	rec.events = append(rec.events, evs...)
	round(rec, "after housekeeping")
	res.descs[len(res.descs)-1]["housekeeping"] = hk
	res.panics = append(res.panics, ms.W.Panics...)
	ms.W.OnSend = nil
	return res, nil
}

// modesStage runs the meshes of the stage and validates their traces with Forwarding_Trace.
func modesStage(c *vf.Ctx, rng *rand.Rand) {
	start := time.Now()
	per := c.Pick(3, 16)
	bt := &batch{}
	claimed, fallback, asked, unsent := 0, 0, 0, 0
	byShape := map[string][3]int{}
	for _, shape := range modeShapes {
		for k := 0; k < per; k++ {
			s := genModeSpec(rng, shape)
			res, err := runModeMesh(c, s, true)
			if err != nil {
				c.Broken("modes: %s: %v (mesh %+v)", shape, err, s)
				return
			}
			if len(res.panics) > 0 {
				c.Violation(vf.Key("panic", "modes-"+shape), fmt.Sprintf("worker panic in a converged mesh with lite / stub routers (%s): %v", shape, res.panics[0]), map[string]any{"mesh": s}, nil)
			}
			for i := range res.runs {
				spec := s
				bt.starts = append(bt.starts, len(bt.events))
				bt.desc = append(bt.desc, res.descs[i])
				bt.events = append(bt.events, res.runs[i]...)
				bt.repro = append(bt.repro, func(why string) bool {
					again, err := runModeMesh(c, spec, false)
					if err != nil {
						return false
					}
					for _, b := range again.bad {
						if b == why {
							return true
						}
					}
					return false
				})
			}
			claimed += res.claimed
			fallback += res.fallback
			asked += res.asked
			unsent += res.unsent
			v := byShape[shape]
			byShape[shape] = [3]int{v[0] + res.asked, v[1] + res.claimed, v[2] + res.fallback}
			if k == 0 && shape == modeShapes[0] {
				c.Sample(map[string]any{"kind": "converged mesh with lite / stub routers", "mesh": s, "pairs_asked": res.asked, "pairs_claimed": res.claimed, "claimed_through_a_lite_router_without_a_route": res.fallback})
			}
		}
	}
	shapes := make([]string, 0, len(byShape))
	for k := range byShape {
		shapes = append(shapes, k)
	}
	sort.Strings(shapes)
	per3 := map[string]any{}
	for _, k := range shapes {
		v := byShape[k]
		per3[k] = map[string]int{"asked": v[0], "claimed": v[1], "claimed_via_lite_fallback": v[2]}
	}
	c.Extra("modes_pairs", per3)
	c.Extra("modes_unclaimed_requests_refused_by_their_origin", unsent)
	c.Logf("T modes: %d meshes with lite / stub routers (%d shapes): %d requests, %d claimed converged (%d of them leave a lite router that holds no route to the destination), %d unclaimed requests refused by their origin; %.1fs",
		per*len(modeShapes), len(modeShapes), asked, claimed, fallback, unsent, time.Since(start).Seconds())
	if fallback == 0 || claimed == 0 {
		c.Broken("modes: vacuous - no claimed pair passes a lite router without a route to the destination (%d claimed of %d)", claimed, asked)
		return
	}
	bt.validate(c, "modes")
}
