// Stage R-links of C10: the same rules over REAL links. Four routers A - R - B - C are joined by real link objects
// (handshake, link encryption, reader, writer, the two send queues of every link); every frame a link reader delivers
// goes through the real switch handler and router worker of its router. After the routers have announced themselves
// A asks C (a routed request through R and B) and must get C's answer. Then A and C each send a burst of
// label-switched frames to the other at the same time, faster than the links carry them: every arrival of such a
// frame is a crossing of the trace (strictly decreasing TTL, at most initial TTL - 1 crossings, content unchanged),
// frames that find a full send queue are lost on the way - and when the burst is over A asks C again. R has one more
// neighbour S, an honest router like the others that has stopped taking bytes off its connection when the bursts
// begin (a suspended host): a third burst, from A to S, ends in the send queue of R's link to S.
package main

import (
	"bytes"
	"fmt"
	"math/rand"
	"sync"
	"sync/atomic"
	"time"

	"github.com/mycoria/mycoria/frame"
	"github.com/mycoria/mycoria/m"

	"verifharness/internal/linkworld"
	"verifharness/internal/mesh"
	"verifharness/internal/vf"
	"verifharness/internal/world"
)

func realLinks(c *vf.Ctx, rng *rand.Rand, burst int) (events []any, desc map[string]any) {
	w := world.NewWorld()
	ids := mesh.Identities(5)
	nodes := []*world.Node{w.NewNode("A", world.NodeOpts{ID: ids[0]}), w.NewNode("R", world.NodeOpts{ID: ids[1]}), w.NewNode("B", world.NodeOpts{ID: ids[2]}), w.NewNode("C", world.NodeOpts{ID: ids[3]}),
		w.NewNode("S", world.NodeOpts{ID: ids[4]})}
	a, r, b, cc, sn := nodes[0], nodes[1], nodes[2], nodes[3], nodes[4]
	num := map[*world.Node]int{a: 1, r: 2, b: 3, cc: 4, sn: 5}
	byIP := map[string]int{a.ID.IP.String(): 1, r.ID.IP.String(): 2, b.ID.IP.String(): 3, cc.ID.IP.String(): 4, sn.ID.IP.String(): 5}
	var suspended atomic.Bool
	release := make(chan struct{})
	defer close(release)
	desc = map[string]any{"kind": "real-links", "burst": burst}
	ar := linkworld.Connect(a, r, nil, 300*time.Millisecond)
	rb := linkworld.Connect(r, b, nil, 300*time.Millisecond)
	bc := linkworld.Connect(b, cc, nil, 300*time.Millisecond)
	rs := linkworld.Connect(r, sn, func(px *linkworld.Proxy, msg linkworld.Msg) [][]byte {
		if msg.Dir == "A" && suspended.Load() {
			<-release // S has stopped reading: nothing R writes is taken off the wire any more
		}
		return nil
	}, 300*time.Millisecond)
	defer rs.Proxy.Close()
	defer ar.Proxy.Close()
	defer rb.Proxy.Close()
	defer bc.Proxy.Close()
	if ar.LinkA == nil || ar.LinkB == nil || rb.LinkA == nil || rb.LinkB == nil || bc.LinkA == nil || bc.LinkB == nil || rs.LinkA == nil || rs.LinkB == nil {
		c.Broken("real links: set-up failed: %v %v %v %v %v %v", ar.ErrA, ar.ErrB, rb.ErrA, rb.ErrB, bc.ErrA, bc.ErrB)
		return nil, desc
	}
	var mu sync.Mutex
	events = append(events, map[string]any{"ev": "topo", "n": 5, "stubs": []int{}, "links": []map[string]any{
		{"a": 2, "b": 5, "la": int(rs.LinkA.SwitchLabel()), "lb": int(rs.LinkB.SwitchLabel())},
		{"a": 1, "b": 2, "la": int(ar.LinkA.SwitchLabel()), "lb": int(ar.LinkB.SwitchLabel())},
		{"a": 2, "b": 3, "la": int(rb.LinkA.SwitchLabel()), "lb": int(rb.LinkB.SwitchLabel())},
		{"a": 3, "b": 4, "la": int(bc.LinkA.SwitchLabel()), "lb": int(bc.LinkB.SwitchLabel())}}})
	// the burst frames, by their payload
	loopID := map[string]int{}
	loopOrig := map[int][]byte{}
	arrived := map[int]bool{} // burst / sized frames that reached C
	stop := make(chan struct{})
	var pumps sync.WaitGroup
	for _, nd := range nodes {
		nd := nd
		pumps.Add(1)
		go func() {
			defer pumps.Done()
			for {
				select {
				case f := <-nd.Sw.Input():
					raw, err := f.FrameDataWithMargins(0, 0)
					if err == nil && f.RecvLink() != nil {
						if mi := 49 + int(raw[48]); len(raw) > mi+2+8 {
							key := string(raw[mi+2 : mi+2+8])
							mu.Lock()
							if id, ok := loopID[key]; ok {
								events = append(events, map[string]any{"ev": "cross", "id": id, "from": byIP[f.RecvLink().Peer().String()], "to": num[nd],
									"ttl": int(raw[1]), "same": bytes.Equal(masked(raw), masked(loopOrig[id])), "known": true})
								if nd == cc {
									arrived[id] = true
								}
							}
							mu.Unlock()
						}
					}
					_, _ = w.Inject(nd, f)
				case <-stop:
					return
				}
			}
		}()
	}
	defer func() {
		close(stop)
		for _, nd := range nodes {
			for _, l := range nd.Peer.GetLinks() {
				go l.Close(nil)
			}
		}
	}()
	// the routers announce themselves until A and B know each other
	knows := func(x, y *world.Node) bool {
		for _, e := range x.RoutingTable().VerifEntries() {
			if e.DstIP == y.ID.IP {
				return true
			}
		}
		return false
	}
	for try := 0; try < 40 && !(knows(a, cc) && knows(cc, a)); try++ {
		for _, nd := range nodes {
			for _, l := range nd.Peer.GetLinks() {
				_ = nd.Rt.AnnouncePing.Send(l.Peer())
			}
		}
		time.Sleep(50 * time.Millisecond)
	}
	if !(knows(a, cc) && knows(cc, a)) {
		c.Broken("real links: A and C did not learn routes to each other")
		return nil, desc
	}
	nextID := 1000
	ask := func(phase string) {
		// frames for a full queue are lost by design: three tries
		answered := false
		tries := 0
		for ; tries < 3 && !answered; tries++ {
			got := make(chan bool, 1)
			go func() {
				notify, _, err := a.Rt.PingPong.Send(cc.ID.IP, false, 0)
				if err != nil {
					time.Sleep(100 * time.Millisecond)
					got <- false
					return
				}
				select {
				case <-notify:
					got <- true
				case <-time.After(2 * time.Second):
					got <- false
				}
			}()
			select {
			case answered = <-got:
			case <-time.After(4 * time.Second): // the request itself never left the router
			}
		}
		c.Eval(1)
		nextID++
		mu.Lock()
		events = append(events, map[string]any{"ev": "originate", "id": nextID, "src": 1, "dst": 4, "ttl": 32, "conv": true})
		if answered {
			events = append(events, map[string]any{"ev": "reply", "id": nextID, "by": 4})
		}
		events = append(events, map[string]any{"ev": "end", "id": nextID, "replied": answered, "phase": phase, "tries": tries})
		mu.Unlock()
	}
	ask("converged")
	// the bursts
	walk := func(ns []*world.Node, fwd, ret []m.SwitchLabel) m.SwitchPath {
		hops := make([]m.SwitchHop, len(ns))
		for i := range ns {
			hops[i].Router = ns[i].ID.IP
			if i < len(ns)-1 {
				hops[i].ForwardLabel = fwd[i]
			}
			if i > 0 {
				hops[i].ReturnLabel = ret[i-1]
			}
		}
		sp := m.SwitchPath{Hops: hops}
		if err := sp.BuildBlocks(); err != nil {
			panic(err)
		}
		return sp
	}
	lAR, lRA := ar.LinkA.SwitchLabel(), ar.LinkB.SwitchLabel()
	lRB, lBR := rb.LinkA.SwitchLabel(), rb.LinkB.SwitchLabel()
	lBC, lCB := bc.LinkA.SwitchLabel(), bc.LinkB.SwitchLabel()
	toC := walk([]*world.Node{a, r, b, cc}, []m.SwitchLabel{lAR, lRB, lBC}, []m.SwitchLabel{lRA, lBR, lCB})
	toA := walk([]*world.Node{cc, b, r, a}, []m.SwitchLabel{lCB, lBR, lRA}, []m.SwitchLabel{lBC, lRB, lAR})
	toS := walk([]*world.Node{a, r, sn}, []m.SwitchLabel{lAR, rs.LinkA.SwitchLabel()}, []m.SwitchLabel{lRA, rs.LinkB.SwitchLabel()})
	suspended.Store(true)
	// one frame of every size around the buffer sizes of the link reader, one after the other on the quiet network:
	// each is handed to C
	sized, lost := 0, 0
	for _, around := range []int{600, 1600} {
		for n := around - 220; n <= around+20; n++ {
			sized++
			id := 500000 + sized
			payload := make([]byte, n)
			rng.Read(payload)
			copy(payload, fmt.Sprintf("9%07d", sized))
			ff, err := a.Builder.NewFrameV1(a.ID.IP, cc.ID.IP, frame.RouterPing, toC.ForwardBlock, payload, nil)
			if err != nil {
				c.Broken("real links: frame of %d bytes: %v", n, err)
				return nil, desc
			}
			label, err := m.NextRotateSwitchBlock(ff.SwitchBlock(), 0)
			if err != nil {
				c.Broken("real links: rotate: %v", err)
				return nil, desc
			}
			raw, _ := ff.FrameDataWithMargins(0, 0)
			mu.Lock()
			loopID[string(payload[:8])] = id
			loopOrig[id] = append([]byte(nil), raw...)
			events = append(events, map[string]any{"ev": "originate", "id": id, "src": 1, "dst": 4, "ttl": int(raw[1]), "conv": true})
			mu.Unlock()
			_ = a.Sw.ForwardByLabel(ff, label)
			c.Eval(1)
			ok := false
			for deadline := time.Now().Add(time.Second); time.Now().Before(deadline) && !ok; {
				mu.Lock()
				ok = arrived[id]
				mu.Unlock()
				if !ok {
					time.Sleep(100 * time.Microsecond)
				}
			}
			if !ok {
				lost++
			}
			mu.Lock()
			events = append(events, map[string]any{"ev": "end", "id": id, "replied": ok, "phase": fmt.Sprintf("a frame with %d bytes of payload on the quiet network", n)})
			mu.Unlock()
			if lost > 3 {
				break
			}
		}
	}
	desc["sized_frames"], desc["sized_frames_lost"] = sized, lost
	injected := make(chan struct{})
	var inj sync.WaitGroup
	for side, from := range []*world.Node{a, cc, a} {
		inj.Add(1)
		sideSeed := rng.Int63() // every injector draws from a generator of its own (math/rand generators are not safe for concurrent use)
		go func(side int, from *world.Node) {
			defer inj.Done()
			rng := rand.New(rand.NewSource(sideSeed))
			sp, dst := toC, cc
			if side == 1 {
				sp, dst = toA, a
			}
			if side == 2 {
				sp, dst = toS, sn
			}
			for i := 0; i < burst; i++ {
				payload := []byte(fmt.Sprintf("%d%07d c10 burst frame", side, i))
				ff, err := from.Builder.NewFrameV1(from.ID.IP, dst.ID.IP, frame.RouterPing, sp.ForwardBlock, payload, nil)
				if err != nil {
					continue
				}
				ttl := 5 + rng.Intn(28)
				ff.SetTTL(uint8(ttl))
				// the origin performs the first rotation itself (no receive link: label 0)
				label, err := m.NextRotateSwitchBlock(ff.SwitchBlock(), 0)
				if err != nil {
					ff.ReturnToPool()
					continue
				}
				raw, _ := ff.FrameDataWithMargins(0, 0)
				mu.Lock()
				id := side*100000 + i + 1
				loopID[string(payload[:8])] = id
				loopOrig[id] = append([]byte(nil), raw...)
				events = append(events, map[string]any{"ev": "originate", "id": id, "src": num[from], "dst": 0, "ttl": ttl, "conv": false})
				mu.Unlock()
				_ = from.Sw.ForwardByLabel(ff, label)
				c.Eval(1)
			}
		}(side, from)
	}
	go func() { inj.Wait(); close(injected) }()
	select {
	case <-injected:
	case <-time.After(20 * time.Second):
		desc["burst_injection"] = "did not finish within 20 s"
	}
	// until the links are quiet again (at most 10 s)
	quietSince := time.Now()
	sentAll := func() int {
		n := 0
		for _, p := range []*linkworld.Proxy{ar.Proxy, rb.Proxy, bc.Proxy} {
			n += p.NSent("A") + p.NSent("B")
		}
		return n
	}
	last := sentAll()
	for deadline := time.Now().Add(10 * time.Second); time.Now().Before(deadline) && time.Since(quietSince) < 300*time.Millisecond; {
		time.Sleep(20 * time.Millisecond)
		if now := sentAll(); now != last {
			last, quietSince = now, time.Now()
		}
	}
	mu.Lock()
	crossings := 0
	for _, e := range events {
		if e.(map[string]any)["ev"] == "cross" {
			crossings++
		}
	}
	mu.Unlock()
	desc["crossings_of_burst_frames"] = crossings
	perFrame := map[int]int{}
	for _, e := range events {
		if ev := e.(map[string]any); ev["ev"] == "cross" {
			perFrame[ev["id"].(int)]++
		}
	}
	most := 0
	for _, n := range perFrame {
		most = max(most, n)
	}
	desc["burst_frames_that_crossed_a_link"], desc["most_crossings_of_one_frame"] = len(perFrame), most
	ask("after the burst")
	if len(w.Panics) > 0 {
		c.Violation(vf.Key("panic", "real-links"), fmt.Sprintf("worker panic over real links: %v", w.Panics[0]), nil, nil)
	}
	mu.Lock()
	defer mu.Unlock()
	return append([]any(nil), events...), desc
}
