// C10 - unicast delivery, bounded forwarding, content preservation. Stage M:
// TLC on Forwarding (every next-hop function on 4 routers towards an absent
// destination - cyclic tables included - and every label-switched walk, TTL
// 1..5). Stage R: each TLC behaviour is installed into real routing tables /
// built as a real switch block and a real frame is sent; stage T: converged
// meshes (C09's world), ping-pong between all ordered pairs, repeated after
// link churn and after ticks of the routers' periodic workers
// (housekeeping.go), and in meshes with lite / stub routers (modes.go). Every link
// crossing is recorded (TTL, byte diff outside TTL / flow flags / switch
// block) and judged by TLC (Forwarding_Trace).
package main

import (
	"bytes"
	"encoding/json"
	"fmt"
	"math/rand"
	"net/netip"
	"sort"
	"time"

	"github.com/fxamacker/cbor/v2"

	"github.com/mycoria/mycoria/frame"
	"github.com/mycoria/mycoria/m"
	"github.com/mycoria/mycoria/router"

	"verifharness/internal/mesh"
	"verifharness/internal/vf"
	"verifharness/internal/world"
)

type caseT struct {
	Nh   []int `json:"nh"`
	Walk []int `json:"walk"`
	Src  int   `json:"src"`
	TTL0 int   `json:"ttl0"`
}

type act struct {
	Name string `json:"name"`
	From int    `json:"from"`
	To   int    `json:"to"`
	TTL  int    `json:"ttl"`
	At   int    `json:"at"`
	Why  string `json:"why"`
}

// recorder logs crossings of one mesh.
type recorder struct {
	ms        *mesh.Mesh
	events    []any
	last      map[string][]byte // frame identity -> bytes at previous crossing (or origin)
	ids       map[string]int
	known     map[string]bool
	pingOf    map[uint64]int // ping id -> frame id of the request
	seenReply map[string]bool
}

func ident(data []byte) string {
	// type, nonce, sequence field, src, dst identify a frame on its way
	return string(data[4:48])
}

func masked(data []byte) []byte {
	d := append([]byte(nil), data...)
	d[1], d[2] = 0, 0
	sw := int(d[48])
	for i := 0; i < sw && 49+i < len(d); i++ {
		d[49+i] = 0
	}
	return d
}

func newRecorder(ms *mesh.Mesh) *recorder {
	r := &recorder{ms: ms, last: map[string][]byte{}, ids: map[string]int{}, known: map[string]bool{}, pingOf: map[uint64]int{}}
	r.events = append(r.events, ms.Topo())
	ms.W.OnSend = func(fl *world.Flight) {
		k := ident(fl.Data)
		id, ok := r.ids[k]
		if !ok {
			id = len(r.ids) + 1
			r.ids[k] = id
		}
		same := true
		if prev, ok := r.last[k]; ok {
			same = bytes.Equal(masked(prev), masked(fl.Data))
		}
		r.last[k] = fl.Data
		r.events = append(r.events, map[string]any{"ev": "cross", "id": id, "from": ms.ID(fl.From.ID.IP), "to": ms.ID(fl.To.ID.IP),
			"ttl": int(fl.Data[1]), "same": same, "known": r.known[k]})
		// replies to ping-pong requests
		if hdr, ok := pingHeader(fl.Data); ok && hdr.PingType == "pong" && hdr.FollowUp {
			if req, ok := r.pingOf[hdr.PingID]; ok && !r.seenReply[fmt.Sprintf("%d/%d", hdr.PingID, id)] {
				if r.seenReply == nil {
					r.seenReply = map[string]bool{}
				}
				r.seenReply[fmt.Sprintf("%d/%d", hdr.PingID, id)] = true
				var src [16]byte
				copy(src[:], fl.Data[16:32])
				r.events = append(r.events, map[string]any{"ev": "reply", "id": req, "by": ms.ID(netip.AddrFrom16(src))})
			}
		}
	}
	return r
}

func pingHeader(data []byte) (router.PingHeader, bool) {
	var hdr router.PingHeader
	mt := frame.MessageType(data[4])
	if mt.IsEncrypted() || len(data) < 52 {
		return hdr, false
	}
	mi := 49 + int(data[48])
	if len(data) < mi+2 {
		return hdr, false
	}
	ml := int(data[mi])<<8 | int(data[mi+1])
	if len(data) < mi+2+ml || ml < 3 {
		return hdr, false
	}
	md := data[mi+2 : mi+2+ml]
	if len(md) < 2+int(md[1]) {
		return hdr, false
	}
	if cbor.Unmarshal(md[2:2+int(md[1])], &hdr) != nil {
		return hdr, false
	}
	return hdr, true
}

// originate registers a frame the driver is about to send.
func (r *recorder) originate(f frame.Frame, src, dst, ttl int, conv bool) int {
	raw, _ := f.FrameDataWithMargins(0, 0)
	k := ident(raw)
	id := len(r.ids) + 1
	r.ids[k] = id
	r.known[k] = true
	r.last[k] = append([]byte(nil), raw...)
	r.events = append(r.events, map[string]any{"ev": "originate", "id": id, "src": src, "dst": dst, "ttl": ttl, "conv": conv})
	return id
}

func k4Edges(rng *rand.Rand) []mesh.Edge {
	var raw [][2]int
	for a := 1; a <= 4; a++ {
		for b := a + 1; b <= 4; b++ {
			raw = append(raw, [2]int{a, b})
		}
	}
	used := map[int]map[int]bool{}
	pick := func(n int) m.SwitchLabel {
		if used[n] == nil {
			used[n] = map[int]bool{}
		}
		for {
			l := 1 + rng.Intn(127)
			if rng.Intn(3) == 0 {
				l = 128 + rng.Intn(16000)
			}
			if !used[n][l] {
				used[n][l] = true
				return m.SwitchLabel(l)
			}
		}
	}
	var out []mesh.Edge
	for _, e := range raw {
		out = append(out, mesh.Edge{A: e[0], B: e[1], LA: pick(e[0]), LB: pick(e[1])})
	}
	return out
}

type batch struct {
	events []any
	desc   []map[string]any
	starts []int
	repro  []func(why string) bool // optional, one per run: re-executes the run from scratch and says whether `why` happened again
}

func (b *batch) add(r *recorder, desc map[string]any) {
	b.starts = append(b.starts, len(b.events))
	b.desc = append(b.desc, desc)
	b.events = append(b.events, r.events...)
}

func (b *batch) validate(c *vf.Ctx, label string) {
	if len(b.events) == 0 {
		return
	}
	rejectAt, inv, res, err := c.TraceCheck("Forwarding_Trace", "Forwarding_Trace.cfg", b.events, vf.TLCOpts{Timeout: 30 * time.Minute, Heap: "8g"})
	if err != nil {
		c.Fatal("T %s: %v", label, err)
	}
	c.AddTraces(len(b.desc))
	c.AddModel(res.Distinct, res.Generated)
	c.Stage("T/"+label, map[string]any{"runs": len(b.desc), "events": len(b.events), "wall_s": res.Wall.Seconds()})
	c.Logf("T %s: %d events of %d runs validated in %.1fs", label, len(b.events), len(b.desc), res.Wall.Seconds())
	if rejectAt <= 0 && inv == "" {
		return
	}
	idx := rejectAt - 1
	ri := sort.Search(len(b.starts), func(i int) bool { return b.starts[i] > idx }) - 1
	ev := b.events[idx].(map[string]any)
	kind := fmt.Sprint(ev["ev"])
	why := kind
	switch kind {
	case "cross":
		switch {
		case ev["same"] == false:
			why = "content-changed"
		case ev["ttl"].(int) < 1:
			why = "ttl-zero-forwarded"
		default:
			why = "ttl-or-bound"
		}
	case "reply":
		why = "answered-by-wrong-router"
	case "end":
		why = "no-reply"
	case "refused":
		why = "request-not-sent"
	}
	// context: the events of that run up to the failing one
	from := b.starts[ri]
	ctx := b.events[from : idx+1]
	if len(ctx) > 60 {
		ctx = ctx[len(ctx)-60:]
	}
	// name the request a reply / end / refusal belongs to
	about := ""
	switch kind {
	case "reply", "end":
		for _, e := range b.events[from:idx] {
			if om, ok := e.(map[string]any); ok && om["ev"] == "originate" && om["id"] == ev["id"] {
				about = fmt.Sprintf(" - the request of router %v to router %v (claimed converged: %v)", om["src"], om["dst"], om["conv"])
			}
		}
	case "refused":
		about = fmt.Sprintf(" - the request of router %v to router %v never left its origin: %v", ev["src"], ev["dst"], ev["err"])
	}
	var reproduce func() bool
	if ri < len(b.repro) && b.repro[ri] != nil {
		fn := b.repro[ri]
		reproduce = func() bool { return fn(why) }
	}
	c.Violation(vf.Key(why, b.desc[ri]["kind"]), fmt.Sprintf("run %v: event %v violates the forwarding rules (%s)%s", b.desc[ri], ev, why, about),
		map[string]any{"run": b.desc[ri], "events": ctx}, reproduce)
}

func drain(ms *mesh.Mesh, max int) int {
	return ms.W.RunUntilQuiet(nil, max)
}

func main() { vf.Main("C10", "model_checking", run) }

func run(c *vf.Ctx) {
	c.Rule("M: TLC exhaustive: complete graph on 4 routers, all 81 next-hop functions towards an absent destination (cyclic and inconsistent ones included) x 4 sources x TTL 1..5, and all label-switched walks of 2..4 routers x TTL 1..5. R: every TLC behaviour realised on real routers (routes installed with AddRoute, switch blocks built with BuildBlocks, real frames sent with the chosen TTL). T: converged meshes (5..12 routers, 5 families), ping-pong between all ordered pairs, again after link churn and again after the routers' periodic workers (routing table / connection state / ping handler / session cleaners) ticked on some or all routers; converged meshes whose routers run in rarely used modes (router.lite / router.stub: lite leaves behind a relay with one full peer, lite leaves on the core, stub-configured leaves and relays, relays with only lite peers, lite relays, random mixtures; late joiners), where a pair is claimed when the tables lead from a to b and back, a lite router without an entry forwarding through any table entry that is not a dead end by the documented rule (modes.go). distinct = distinct (behaviour / mesh, pair)")
	c.Assume("virtual links deliver synchronously, one frame at a time (queue drops under load are outside the property)", "frame identity on its way = type, nonce, sequence field, source and destination bytes")

	mc, err := c.TLC("Forwarding", "Forwarding_MC.cfg", vf.TLCOpts{Workers: 8, Timeout: 10 * time.Minute})
	if err != nil {
		c.Fatal("M: %v", err)
	}
	if mc.Violated != "" {
		c.Broken("M: %s violated in the model", mc.Violated)
	}
	c.AddModel(mc.Distinct, mc.Generated)
	c.Stage("M", map[string]any{"distinct": mc.Distinct, "generated": mc.Generated})
	c.Logf("M: %d distinct", mc.Distinct)

	rng := rand.New(rand.NewSource(c.Seed))

	// ---- R ----
	d, err := c.TLC("Forwarding", "Forwarding_Dump.cfg", vf.TLCOpts{Workers: 1, Timeout: 10 * time.Minute})
	if err != nil {
		c.Fatal("R dump: %v", err)
	}
	isTo := map[string]bool{}
	for _, e := range d.Edges {
		isTo[e.To] = true
	}
	seen := map[string]bool{}
	for _, e := range d.Edges {
		if !isTo[e.From] && !seen[e.From] {
			seen[e.From] = true
			d.Inits = append(d.Inits, e.From)
		}
	}
	g := vf.BuildGraph(d)
	paths := g.CoverPaths(0)
	total := len(paths)
	if lim := c.Pick(500, 1000000); len(paths) > lim {
		rng.Shuffle(len(paths), func(i, j int) { paths[i], paths[j] = paths[j], paths[i] })
		paths = paths[:lim]
	}
	absent := world.NewIdentity(world.EuropePrefix) // destination that is nobody's peer
	b := &batch{}
	drift := 0
	for pi, p := range paths {
		var st []json.RawMessage
		if err := json.Unmarshal([]byte(g.Edges[p[0]].From), &st); err != nil {
			c.Fatal("state: %v", err)
		}
		var cs caseT
		_ = json.Unmarshal(st[0], &cs)
		ms, err := mesh.New(4, k4Edges(rng), mesh.Opts{})
		if err != nil {
			c.Fatal("mesh: %v", err)
		}
		rec := newRecorder(ms)
		desc := map[string]any{"kind": "tlc-routed", "case": cs}
		src := ms.Node(cs.Src)
		var f frame.Frame
		if len(cs.Walk) == 0 {
			// install the arbitrary next-hop function towards the absent destination
			for x := 1; x <= 4; x++ {
				nx := cs.Nh[x-1]
				nd := ms.Node(x)
				hops := []m.SwitchHop{
					{Router: nd.ID.IP, ForwardLabel: nd.LinkTo(ms.Node(nx)).SwitchLabel()},
					{Router: ms.Node(nx).ID.IP, ForwardLabel: 77, ReturnLabel: ms.Node(nx).LinkTo(nd).SwitchLabel()},
					{Router: absent.IP, ReturnLabel: 78},
				}
				added, err := nd.RoutingTable().AddRoute(m.RoutingTableEntry{DstIP: absent.IP, NextHop: ms.Node(nx).ID.IP, Source: m.RouteSourceGossip,
					Expires: time.Now().Add(time.Hour), Path: m.SwitchPath{Hops: hops}})
				if err != nil || !added {
					c.Fatal("install route: %v %v", added, err)
				}
			}
			ff, err := src.Builder.NewFrameV1(src.ID.IP, absent.IP, frame.RouterPing, nil, []byte("c10 routed frame to an absent router"), nil)
			if err != nil {
				c.Fatal("frame: %v", err)
			}
			ff.SetTTL(0)
			_ = ff.SignRaw(src.ID.PrivateKey)
			ff.SetTTL(uint8(cs.TTL0))
			f = ff
			rec.originate(f, cs.Src, 0, cs.TTL0, false)
			_ = src.Rt.RouteFrame(f)
		} else {
			desc["kind"] = "tlc-switched"
			w := cs.Walk
			hops := make([]m.SwitchHop, len(w))
			for i := range w {
				hops[i].Router = ms.Node(w[i]).ID.IP
				if i < len(w)-1 {
					hops[i].ForwardLabel = ms.Node(w[i]).LinkTo(ms.Node(w[i+1])).SwitchLabel()
				}
				if i > 0 {
					hops[i].ReturnLabel = ms.Node(w[i]).LinkTo(ms.Node(w[i-1])).SwitchLabel()
				}
			}
			sp := m.SwitchPath{Hops: hops}
			if err := sp.BuildBlocks(); err != nil {
				c.Fatal("blocks: %v", err)
			}
			dst := ms.Node(w[len(w)-1])
			ff, err := src.Builder.NewFrameV1(src.ID.IP, dst.ID.IP, frame.RouterPing, sp.ForwardBlock, []byte("c10 label switched frame"), nil)
			if err != nil {
				c.Fatal("frame: %v", err)
			}
			ff.SetTTL(uint8(cs.TTL0))
			f = ff
			rec.originate(f, cs.Src, 0, cs.TTL0, false)
			// the origin performs the first rotation itself (no receive link: label 0)
			label, err := m.NextRotateSwitchBlock(f.SwitchBlock(), 0)
			if err != nil {
				c.Fatal("rotate: %v", err)
			}
			// content check baseline after the origin's own rotation
			raw, _ := f.FrameDataWithMargins(0, 0)
			rec.last[ident(raw)] = append([]byte(nil), raw...)
			_ = src.Sw.ForwardByLabel(f, label)
		}
		c.Eval(1)
		drain(ms, 500)
		if len(cs.Walk) == 0 {
			// the same tables, a frame the ROUTER originates itself: a request to the absent router, which it has never
			// heard of (no session: the ping is signed raw). It starts at 32 like every frame a router originates.
			if _, _, err := src.Rt.PingPong.Send(absent.IP, false, 0); err == nil {
				c.Eval(1)
				drain(ms, 500)
				desc["own_request"] = true
			}
		}
		// compare with the model's prediction (drift only)
		want := 0
		for _, ei := range p {
			var a act
			_ = json.Unmarshal(g.Edges[ei].Act, &a)
			if a.Name == "cross" {
				want++
			}
		}
		got := 0
		for _, e := range rec.events {
			if m, ok := e.(map[string]any); ok && m["ev"] == "cross" && m["known"] == true {
				got++
			}
		}
		// a cover path may stop before the behaviour ends; only more crossings than the
		// whole behaviour could have is interesting here
		if got < want {
			drift++
			if drift <= 4 {
				c.Logf("drift: case %+v want %d crossings, got %d; events %v", cs, want, got, rec.events[1:])
			}
		}
		if len(ms.W.Panics) > 0 {
			c.Violation(vf.Key("panic", desc["kind"]), fmt.Sprintf("worker panic while forwarding: %v", ms.W.Panics[0]), map[string]any{"case": cs}, nil)
		}
		b.add(rec, desc)
		c.Distinct(fmt.Sprintf("%v", cs))
		if pi < 2 {
			c.Sample(map[string]any{"kind": desc["kind"], "case": cs, "crossings": got})
		}
	}
	c.Stage("R", map[string]any{"graph_edges": len(g.Edges), "behaviours": total, "executed": len(paths), "impl_level_drift": drift})
	c.Logf("R: %d behaviours (%d executed), drift %d", total, len(paths), drift)
	b.validate(c, "tlc-behaviours")

	// ---- T: converged meshes ----
	type fam struct {
		name string
		gen  func(n int) [][2]int
	}
	line := func(n int) [][2]int {
		var e [][2]int
		for i := 1; i < n; i++ {
			e = append(e, [2]int{i, i + 1})
		}
		return e
	}
	fams := []fam{
		{"line", line},
		{"ring", func(n int) [][2]int { return append(line(n), [2]int{n, 1}) }},
		{"star", func(n int) [][2]int {
			var e [][2]int
			for i := 2; i <= n; i++ {
				e = append(e, [2]int{1, i})
			}
			return e
		}},
		{"tree", func(n int) [][2]int {
			var e [][2]int
			for i := 2; i <= n; i++ {
				e = append(e, [2]int{i / 2, i})
			}
			return e
		}},
		{"grid", func(n int) [][2]int {
			w := 2
			for w*w < n {
				w++
			}
			var e [][2]int
			for i := 1; i <= n; i++ {
				if i%w != 0 && i+1 <= n {
					e = append(e, [2]int{i, i + 1})
				}
				if i+w <= n {
					e = append(e, [2]int{i, i + w})
				}
			}
			return e
		}},
	}
	sizes := []int{5, 9}
	if c.Thorough() {
		sizes = []int{5, 7, 9, 12, 16}
	}
	bt := &batch{}
	hkSame, hkChanged := 0, 0
	for fi, f := range fams {
		for si, n := range sizes {
			raw := f.gen(n)
			used := map[int]map[int]bool{}
			var edges []mesh.Edge
			for _, e := range raw {
				var lab [2]m.SwitchLabel
				for k, nd := range e {
					if used[nd] == nil {
						used[nd] = map[int]bool{}
					}
					for {
						l := 1 + rng.Intn(127)
						if rng.Intn(2) == 0 {
							l = 128 + rng.Intn(16000)
						}
						if !used[nd][l] {
							used[nd][l] = true
							lab[k] = m.SwitchLabel(l)
							break
						}
					}
				}
				edges = append(edges, mesh.Edge{A: e[0], B: e[1], LA: lab[0], LB: lab[1]})
			}
			// every other mesh spans continents: a router files the routers of its own continent by region (/16) and those
			// of every other continent by continent (/12), so its table holds whole groups of routes under one routing
			// prefix - what the per-prefix logic of the table (limits, cleaning) works on. Node ids no longer follow the
			// order of the addresses there.
			var ids []*m.Address
			var conts []string
			if (fi+si+int(c.Seed))%2 == 1 {
				ids, conts = mixedIdentities(rng, n)
			}
			ms, err := mesh.New(n, edges, mesh.Opts{IDs: ids})
			if err != nil {
				c.Fatal("mesh: %v", err)
			}
			// converge: everybody announces, drain
			for i := 1; i <= n; i++ {
				ms.Announce(i, true)
			}
			ms.W.RunUntilQuiet(func(k int) int { return rng.Intn(k) }, 200000)
			rec := newRecorder(ms)
			pairs := 0
			// liveRoute: frames are routed hop by hop, every router by its own table. The mesh has converged for (a, b)
			// when following the tables from a - each router's lookup for b names exactly b and a next hop to which it
			// has a live link - arrives at b without passing a router twice.
			liveRoute := func(a, bb int) bool {
				B := ms.Node(bb)
				cur := ms.Node(a)
				var prev *world.Node
				seenAt := map[*world.Node]bool{}
				for step := 0; step < 31; step++ {
					if cur == B {
						return true
					}
					if seenAt[cur] {
						return false
					}
					seenAt[cur] = true
					e, isDst := cur.RoutingTable().LookupNearestRoute(B.ID.IP)
					if e == nil || !isDst || e.DstIP != B.ID.IP {
						return false
					}
					l := cur.Peer.GetLink(e.NextHop)
					if l == nil || l.IsClosing() {
						return false
					}
					nx := ms.W.NodeByIP(e.NextHop)
					if nx == nil || nx == prev {
						return false
					}
					prev, cur = cur, nx
				}
				return false
			}
			// pingAll asks every ordered pair for which the mesh is claimed to be converged (claim == nil: all of them) and
			// returns the pairs it asked.
			pingAll := func(kind string, claim func(a, bb int) bool) map[[2]int]bool {
				claimed := map[[2]int]bool{}
				for a := 1; a <= n; a++ {
					for bb := 1; bb <= n; bb++ {
						if a == bb {
							continue
						}
						if claim != nil && !claim(a, bb) {
							continue // not converged for this pair after the change: nothing is claimed
						}
						claimed[[2]int{a, bb}] = true
						A, B := ms.Node(a), ms.Node(bb)
						before := len(rec.events)
						notify, pingID, err := A.Rt.PingPong.Send(B.ID.IP, false, 0)
						c.Eval(1)
						pairs++
						if err != nil {
							rec.events = rec.events[:before]
							hasRoute := false
							for _, rt := range ms.Table(a) {
								if rt.Dst == bb {
									hasRoute = true
								}
							}
							if hasRoute {
								// the origin holds a route to B and still refuses to send its own request: the request is never handed to B
								c.Violation(vf.Key("request-not-sent", kind), fmt.Sprintf("converged %s of %d: router %d has a route to %d, but its request was refused: %v", kind, n, a, bb, err),
									map[string]any{"family": kind, "n": n, "edges": raw, "from": a, "to": bb, "err": err.Error()}, nil)
							} else {
								// no route: the mesh is not converged for this pair (C09's business) - skip
								c.Extra("pingpong_send_error", fmt.Sprintf("%s %d->%d: %v", kind, a, bb, err))
							}
							continue
						}
						// the request is the first crossing recorded after `before`; register it as driver-originated
						reqID := 0
						for _, e := range rec.events[before:] {
							if mm, ok := e.(map[string]any); ok && mm["ev"] == "cross" {
								reqID = mm["id"].(int)
								break
							}
						}
						if reqID == 0 {
							continue
						}
						// insert the originate event before the first crossing (TTL 32 at the origin)
						tail := append([]any(nil), rec.events[before:]...)
						rec.events = append(rec.events[:before], map[string]any{"ev": "originate", "id": reqID, "src": a, "dst": bb, "ttl": 32, "conv": true})
						rec.events = append(rec.events, tail...)
						rec.pingOf[pingID] = reqID
						drain(ms, 2000)
						replied := false
						select {
						case <-notify:
							replied = true
						default:
						}
						rec.events = append(rec.events, map[string]any{"ev": "end", "id": reqID, "replied": replied})
						c.Distinct(fmt.Sprintf("%s|%d|%d|%d", kind, n, a, bb))
					}
				}
				return claimed
			}
			byTables := func(a, bb int) bool { return liveRoute(a, bb) && liveRoute(bb, a) }
			// ---- housekeeping: the routers' periodic workers (routing table cleaner, connection state / ping handler /
			// session cleaners) never run in this world; here some idle time passes and they tick on some or all routers
			// between two rounds of requests (housekeeping.go). It closes the run recorded so far and records a run of its own.
			hkPairs, hkRuns := 0, 0
			keep := func(asked map[[2]int]bool, extra map[string]any) map[[2]int]bool {
				for k := 0; k < c.Pick(1, 3); k++ {
					d := map[string]any{"kind": "converged-" + f.name, "n": n, "edges": raw, "before_housekeeping": hkRuns}
					for kk, v := range extra {
						d[kk] = v
					}
					bt.add(rec, d)
					rec = newRecorder(ms)
					evs, hk, unchanged := housekeeping(c, rng, ms)
					rec.events = append(rec.events, evs...)
					claim := byTables
					if !unchanged {
						hkChanged++
					}
					if unchanged {
						hkSame++
						// no route was removed anywhere: the mesh is as converged as it was for the pairs asked before
						prev := asked
						claim = func(a, bb int) bool { return prev[[2]int{a, bb}] }
					}
					before := pairs
					asked = pingAll(f.name+"-after-housekeeping", claim)
					hkPairs += pairs - before
					hkRuns++
					hk["pairs_asked_again"] = pairs - before
					bt.add(rec, map[string]any{"kind": "converged-" + f.name + "-after-housekeeping", "n": n, "edges": raw, "housekeeping": hk,
						"note": "the routers' periodic workers ticked between two rounds of requests; the pairs asked here were all asked (and claimed converged) before the ticks"})
					rec = newRecorder(ms)
				}
				return asked
			}
			asked := pingAll(f.name, nil)
			keep(asked, nil)
			// ---- the topology changes while the routers keep running (what they learnt, cached or remembered while
			// the first requests were routed is still there): a link comes up, another goes down, everybody announces
			// again; the pairs whose tables have converged on the new topology are asked again
			churnPairs := 0
			for round := 0; round < c.Pick(2, 4); round++ {
				has := map[[2]int]bool{}
				for _, e := range ms.Edges {
					has[[2]int{min(e.A, e.B), max(e.A, e.B)}] = true
				}
				// up: two routers at distance two get a direct link; down: one of the two links of the old path
				var cands [][3]int
				for _, e1 := range ms.Edges {
					for _, e2 := range ms.Edges {
						for _, pr := range [][4]int{{e1.A, e1.B, e2.A, e2.B}, {e1.A, e1.B, e2.B, e2.A}, {e1.B, e1.A, e2.A, e2.B}, {e1.B, e1.A, e2.B, e2.A}} {
							// pr: x=pr[1]=pr[2] is the middle
							if pr[1] == pr[2] && pr[0] != pr[3] && !has[[2]int{min(pr[0], pr[3]), max(pr[0], pr[3])}] {
								cands = append(cands, [3]int{pr[0], pr[1], pr[3]})
							}
						}
					}
				}
				if len(cands) == 0 {
					break
				}
				cd := cands[rng.Intn(len(cands))]
				a, x, b := cd[0], cd[1], cd[2]
				if len(rec.events) > 1 {
					bt.add(rec, map[string]any{"kind": "converged-" + f.name, "n": n, "edges": raw, "before_churn_round": round})
				}
				ms.W.OnSend = nil
				la, lb := m.SwitchLabel(20001+rng.Intn(20000)), m.SwitchLabel(20001+rng.Intn(20000))
				for ms.Node(a).Peer.GetLinkByLabel(la) != nil {
					la++
				}
				for ms.Node(b).Peer.GetLinkByLabel(lb) != nil {
					lb++
				}
				if _, _, err := ms.W.Connect(ms.Node(a), ms.Node(b), la, lb, 5); err != nil {
					c.Fatal("churn: connect %d-%d: %v", a, b, err)
				}
				if l := ms.Node(x).LinkTo(ms.Node(b)); l != nil {
					l.Close(nil)
				}
				if l := ms.Node(b).LinkTo(ms.Node(x)); l != nil {
					l.Close(nil)
				}
				var ne []mesh.Edge
				for _, e := range ms.Edges {
					if !(min(e.A, e.B) == min(x, b) && max(e.A, e.B) == max(x, b)) {
						ne = append(ne, e)
					}
				}
				ms.Edges = append(ne, mesh.Edge{A: a, B: b, LA: la, LB: lb})
				drain(ms, 200000)
				for rep := 0; rep < 2; rep++ {
					time.Sleep(2 * time.Millisecond)
					for i := 1; i <= n; i++ {
						ms.Announce(i, true)
					}
					ms.W.OnSend = nil
					ms.W.RunUntilQuiet(func(k int) int { return rng.Intn(k) }, 400000)
				}
				rec = newRecorder(ms)
				before := pairs
				asked = pingAll(f.name+"-after-churn", byTables)
				churnPairs += pairs - before
				if c.Thorough() || rng.Intn(2) == 0 {
					keep(asked, map[string]any{"after_churn_round": round})
				}
			}
			c.Extra(fmt.Sprintf("churn_pairs_%s_%d", f.name, n), churnPairs)
			c.Extra(fmt.Sprintf("housekeeping_pairs_%s_%d", f.name, n), hkPairs)
			if conts != nil {
				c.Extra(fmt.Sprintf("continents_%s_%d", f.name, n), conts)
			}
			if len(ms.W.Panics) > 0 {
				c.Violation(vf.Key("panic", f.name), fmt.Sprintf("worker panic in converged %s of %d: %v", f.name, n, ms.W.Panics[0]), nil, nil)
			}
			if len(rec.events) > 1 {
				bt.add(rec, map[string]any{"kind": "converged-" + f.name, "n": n, "edges": raw})
			}
			c.Logf("T converged %s n=%d: %d pairs (%d after housekeeping, %d after churn), %d events", f.name, n, pairs, hkPairs, churnPairs, len(rec.events))
			if f.name == "ring" && n == sizes[0] {
				c.Sample(map[string]any{"kind": "converged mesh ping-pong", "family": f.name, "n": n, "pairs": pairs, "first_events": rec.events[:min(8, len(rec.events))]})
			}
		}
	}
	c.Extra("housekeeping_runs", map[string]int{"no_route_removed": hkSame, "routes_removed_claim_by_tables": hkChanged})
	c.Logf("T housekeeping: %d runs in which the tables kept their routes (every pair asked before is asked again), %d in which routes were removed (pairs claimed by the tables)", hkSame, hkChanged)
	bt.validate(c, "converged")

	// ---- converged meshes whose routers run in rarely used modes (lite, stub): modes.go
	modesStage(c, rand.New(rand.NewSource(c.Seed*7919+10))) // a PRNG of its own: the stages after it keep their histories

	// ---- the same rules over real links (reader, writer, send queues), with bursts of frames from either end
	rl := &batch{}
	for k := 0; k < c.Pick(1, 6); k++ {
		evs, desc := realLinks(c, rng, 200+100*k)
		if evs == nil {
			continue
		}
		rl.starts = append(rl.starts, len(rl.events))
		rl.desc = append(rl.desc, desc)
		rl.events = append(rl.events, evs...)
		c.Distinct(fmt.Sprintf("real-links|%d", k))
		c.Logf("R-links: bursts of %d frames from either end of a line of four: %v crossings recorded (%v frames, at most %v each)", 200+100*k, desc["crossings_of_burst_frames"], desc["burst_frames_that_crossed_a_link"], desc["most_crossings_of_one_frame"])
	}
	rl.validate(c, "real-links")
}
