// Stage "housekeeping" of C10: the routers of the driver's worlds are assembled without their timer-driven workers, so
// between two requests nothing ever ran that a running router does all the time - the routing table cleaner (every
// 10 min), the connection state cleaner (10 s), the ping handler cleaner (1 min) and the session cleaner (1 min). Here a
// converged mesh that has already carried requests between all its pairs gets some (simulated) idle time and one or more
// ticks of those workers on some or all of its routers, and the same pairs are asked again. Housekeeping is no
// topology change: when it removed no route from any table (nothing expired, no prefix over its limit) the mesh is as
// converged as it was, and every pair that was claimed before is claimed again; when it did remove routes the claim
// falls back to the criterion used after churn (the tables, as the routers read them, lead from a to b and back).
package main

import (
	"fmt"
	"math/rand"
	"net/netip"
	"sort"
	"strings"
	"time"

	"github.com/mycoria/mycoria/m"
	"github.com/mycoria/mycoria/mgr"

	"verifharness/internal/mesh"
	"verifharness/internal/vf"
	"verifharness/internal/world"
)

// tableSet is the content of one router's routing table as a sorted multiset: destination, next hop, source and the
// path (routers and labels); neither the order of the entries in the table nor their expiry is part of it.
func tableSet(ms *mesh.Mesh, id int) []string {
	var out []string
	for _, e := range ms.Node(id).RoutingTable().VerifEntries() {
		var sb strings.Builder
		fmt.Fprintf(&sb, "%d>%d/%v/%d:", ms.ID(e.DstIP), ms.ID(e.NextHop), e.Source, e.Path.TotalHops)
		for _, h := range e.Path.Hops {
			fmt.Fprintf(&sb, "%d.%d.%d,", ms.ID(h.Router), h.ForwardLabel, h.ReturnLabel)
		}
		out = append(out, sb.String())
	}
	sort.Strings(out)
	return out
}

func sameSet(a, b []string) bool {
	if len(a) != len(b) {
		return false
	}
	for i := range a {
		if a[i] != b[i] {
			return false
		}
	}
	return true
}

// housekeepingWorkers are the periodic workers of a router, one tick each (what the worker does when its ticker fires).
var housekeepingWorkers = []struct {
	name string
	tick func(c *vf.Ctx, nd *world.Node)
}{
	{"clean routing table", func(_ *vf.Ctx, nd *world.Node) { nd.RoutingTable().Clean() }},
	{"clean conn states", func(_ *vf.Ctx, nd *world.Node) { nd.Rt.VerifCleanConnStates() }},
	{"clean ping handlers", func(c *vf.Ctx, nd *world.Node) {
		if err := world.WorkerCtx(func(w *mgr.WorkerCtx) { nd.Rt.VerifCleanPingHandlers(w) }); err != nil {
			c.Broken("housekeeping: worker context for the ping handler cleaner: %v", err)
		}
	}},
	{"session cleaner", func(_ *vf.Ctx, nd *world.Node) { nd.St.VerifIdleAndClean(0) }},
}

// housekeeping lets idle time pass and runs ticks of the periodic workers on a PRNG-chosen set of routers. It returns
// the trace events (one per router that ticked), a description for the run and whether every table still holds the
// routes it held before.
func housekeeping(c *vf.Ctx, rng *rand.Rand, ms *mesh.Mesh) (events []any, desc map[string]any, unchanged bool) {
	n := len(ms.Nodes)
	before := make([][]string, n+1)
	for i := 1; i <= n; i++ {
		before[i] = tableSet(ms, i)
	}
	// idle time: none, or up to one announce interval (routes live two intervals and ten seconds)
	var idle time.Duration
	if rng.Intn(3) > 0 {
		idle = time.Duration(30+rng.Intn(271)) * time.Second
	}
	// which routers tick: all of them, or each with probability 1/2 (at least one)
	ticking := map[int]bool{}
	if rng.Intn(2) == 0 {
		for i := 1; i <= n; i++ {
			ticking[i] = true
		}
	} else {
		for i := 1; i <= n; i++ {
			if rng.Intn(2) == 0 {
				ticking[i] = true
			}
		}
		ticking[1+rng.Intn(n)] = true
	}
	order := rng.Perm(n)
	removedTotal := 0
	var who []int
	for _, oi := range order {
		id := oi + 1
		nd := ms.Node(id)
		if idle > 0 {
			nd.RoutingTable().VerifAge(idle)
			nd.Rt.VerifAge(idle)
			nd.St.VerifIdleAndClean(idle) // the idle time passes for the sessions (the cleaner's tick of that minute included)
		}
		if !ticking[id] {
			continue
		}
		ran := []string{} // never nil: the trace is JSON and TLC's reader does not take null for a sequence
		rounds := 1 + rng.Intn(2)
		for r := 0; r < rounds; r++ {
			for _, wi := range rng.Perm(len(housekeepingWorkers)) {
				if rng.Intn(4) == 0 {
					continue // this worker's ticker has not fired yet
				}
				w := housekeepingWorkers[wi]
				if panicked, val := catchPanic(func() { w.tick(c, nd) }); panicked {
					c.Violation(vf.Key("panic", "housekeeping"), fmt.Sprintf("the %q worker of router %d panicked on its tick: %v", w.name, id, val),
						map[string]any{"worker": w.name, "router": id, "topo": ms.Topo()}, nil)
				}
				ran = append(ran, w.name)
			}
		}
		after := tableSet(ms, id)
		removed := len(before[id]) - len(after)
		if removed < 0 {
			removed = 0
		}
		removedTotal += removed
		who = append(who, id)
		events = append(events, map[string]any{"ev": "maint", "node": id, "ticks": ran, "idle_s": int(idle / time.Second), "removed": removed})
	}
	unchanged = true
	for i := 1; i <= n; i++ {
		if !sameSet(before[i], tableSet(ms, i)) {
			unchanged = false
		}
	}
	sort.Ints(who)
	desc = map[string]any{"idle_s": int(idle / time.Second), "routers_ticked": who, "routes_removed": removedTotal, "tables_hold_the_same_routes": unchanged}
	return events, desc, unchanged
}

// continents are geo-marked routable /12 prefixes (Europe, Africa, North America, East Asia).
var continents = []string{"fd10::/12", "fd20::/12", "fd40::/12", "fd70::/12"}

var idPool = map[string][]*m.Address{}

// mixedIdentities returns n identities from two or three continents in PRNG order (at least two routers in one
// continent and at least one in another) and the continent of each node.
func mixedIdentities(rng *rand.Rand, n int) ([]*m.Address, []string) {
	perm := rng.Perm(len(continents))
	k := 2 + rng.Intn(2)
	chosen := make([]string, k)
	for i := range chosen {
		chosen[i] = continents[perm[i]]
	}
	of := make([]string, n)
	for i := range of {
		of[i] = chosen[rng.Intn(k)]
	}
	// make sure the mesh really spans continents
	of[0], of[1%n] = chosen[0], chosen[0]
	of[n-1] = chosen[1]
	rng.Shuffle(n, func(i, j int) { of[i], of[j] = of[j], of[i] })
	used := map[string]int{}
	ids := make([]*m.Address, n)
	for i, p := range of {
		for len(idPool[p]) <= used[p] {
			idPool[p] = append(idPool[p], world.NewIdentity(netip.MustParsePrefix(p)))
		}
		ids[i] = idPool[p][used[p]]
		used[p]++
	}
	return ids, of
}

func catchPanic(fn func()) (panicked bool, val any) {
	defer func() {
		if r := recover(); r != nil {
			panicked, val = true, r
		}
	}()
	fn()
	return false, nil
}
