// X03 - KeepAlive: a part of the specification that serves no listed property. The keep-alive check of one link
// (router/keepalive.go on top of the pong matcher) is model-checked by TLC (a link is closed only after Limit
// failures in a row during which nothing arrived on it; a peer that answers in time is never failed; a dead link
// costs the worker at most 25 s; the check always ends), one question about the design is refuted, and the REAL
// keepAlivePeer is run - in real time, on its own goroutine, against a scripted peer on a virtual link (answers in
// time, late answers that arrive during a later wait or during the pause after a refused send, losses, refused
// sends, other data on the link, somebody else closing the link) - while every event is recorded in the order it
// happened; TLC validates the recorded histories against KeepAlive_Trace. Observations only (explore/X03.json).
package main

import (
	"fmt"
	"math/rand"
	"strings"
	"sync"
	"sync/atomic"
	"time"

	"github.com/mycoria/mycoria/m"
	"github.com/mycoria/mycoria/mgr"

	"verifharness/internal/vf"
	"verifharness/internal/world"
)

// plan is what the environment does in one check.
type plan struct {
	Fast bool     `json:"fast"`
	Att  []string `json:"att"`  // per attempt: intime | late | lost
	Err  []string `json:"err"`  // before attempt k (index k-1): "" | err | errclosed
	Data int      `json:"data"` // other data arrives during wait k (0 = never)
	Oth  int      `json:"oth"`  // somebody else closes the link during wait k (0 = never)
}

type scenario struct {
	idx    int
	p      plan
	module string

	mu     sync.Mutex
	events []any
	nSend  int
	nLoop  int              // sends + refused sends so far
	late   []int            // attempts whose request is held back until the next loop event
	reqFl  map[int]*world.Flight
	bytes  atomic.Uint64
	closed atomic.Bool // closed by the check
	alive  atomic.Bool
	wg     sync.WaitGroup

	w    *world.World
	a, b *world.Node
	la   *world.VLink
	note []string
}

var (
	scenMu sync.Mutex
	scens  = map[string]*scenario{}
	idA    *m.Address
	idB    *m.Address
)

func (s *scenario) rec(ev map[string]any) { s.events = append(s.events, ev) }

// answer lets the peer handle request k and hands its response to the router (under the scenario's mutex).
func (s *scenario) answer(k int) {
	s.mu.Lock()
	defer s.mu.Unlock()
	fl := s.reqFl[k]
	if fl == nil {
		return
	}
	delete(s.reqFl, k)
	before := s.w.NInflight()
	if _, err := s.w.Deliver(fl); err != nil {
		s.rec(map[string]any{"ev": "lose", "k": k})
		return
	}
	var respFl *world.Flight
	s.w.Lock()
	for i := before - 0; i < len(s.w.Inflight); i++ {
		if s.w.Inflight[i].From == s.b {
			respFl = s.w.Inflight[i]
			s.w.Inflight = append(s.w.Inflight[:i:i], s.w.Inflight[i+1:]...)
			break
		}
	}
	s.w.Unlock()
	if respFl == nil {
		s.rec(map[string]any{"ev": "lose", "k": k})
		s.note = append(s.note, fmt.Sprintf("peer did not answer request %d", k))
		return
	}
	s.rec(map[string]any{"ev": "answer", "k": k})
	if s.la.IsClosing() {
		s.rec(map[string]any{"ev": "lose", "k": k})
		return
	}
	hres, err := s.w.Deliver(respFl)
	if err != nil {
		s.rec(map[string]any{"ev": "lose", "k": k})
		return
	}
	s.bytes.Add(uint64(len(respFl.Data)))
	res := "notified"
	for _, h := range hres {
		if e := h.HandlerErr(); e != "" {
			switch {
			case strings.Contains(e, "no state"):
				res = "no state"
			default:
				res = e
			}
		}
	}
	s.rec(map[string]any{"ev": "resp", "k": k, "res": res})
}

func (s *scenario) after(d time.Duration, fn func()) {
	s.wg.Add(1)
	go func() {
		defer s.wg.Done()
		time.Sleep(d)
		fn()
	}()
}

// loopEvent runs what the plan attaches to "the next event of the loop": late requests are released now.
func (s *scenario) loopEvent() {
	late := s.late
	s.late = nil
	for _, k := range late {
		k := k
		s.after(300*time.Millisecond, func() { s.answer(k) })
	}
}

func (s *scenario) onSend(fl *world.Flight) {
	if fl.From != s.a {
		return // the peer's responses are picked up by answer()
	}
	// take the request off the wire: the script decides when it arrives
	s.w.Lock()
	for i, x := range s.w.Inflight {
		if x == fl {
			s.w.Inflight = append(s.w.Inflight[:i:i], s.w.Inflight[i+1:]...)
			break
		}
	}
	s.w.Unlock()
	s.mu.Lock()
	defer s.mu.Unlock()
	s.nSend++
	s.nLoop++
	k := s.nSend
	what := "lost"
	if k <= len(s.p.Att) {
		what = s.p.Att[k-1]
	}
	if s.p.Oth == k {
		what = "lost" // nothing is promised on a link somebody is about to close
	}
	s.rec(map[string]any{"ev": "send", "k": k, "promise": what == "intime"})
	s.loopEvent()
	s.reqFl[k] = fl
	switch what {
	case "intime":
		s.after(50*time.Millisecond, func() { s.answer(k) })
	case "late":
		s.late = append(s.late, k)
	default:
		delete(s.reqFl, k)
		s.rec(map[string]any{"ev": "lose", "k": k})
	}
	if s.p.Data == k {
		s.after(200*time.Millisecond, func() {
			s.mu.Lock()
			defer s.mu.Unlock()
			if s.bytes.Load() == 0 && !s.la.IsClosing() {
				s.bytes.Add(100)
				s.rec(map[string]any{"ev": "data"})
			}
		})
	}
	if s.p.Oth == k {
		s.after(200*time.Millisecond, func() {
			s.mu.Lock()
			defer s.mu.Unlock()
			if !s.la.IsClosing() {
				s.la.SetClosing()
				s.rec(map[string]any{"ev": "otherclose"})
			}
		})
	}
}

// sendHook refuses the send the plan says.
func (s *scenario) sendHook(bool) error {
	s.mu.Lock()
	defer s.mu.Unlock()
	i := s.nLoop // the loop event this would be (0-based)
	if i < len(s.p.Err) && s.p.Err[i] != "" {
		s.nLoop++
		closed := s.p.Err[i] == "errclosed"
		if closed {
			s.la.SetClosing()
		}
		s.rec(map[string]any{"ev": "senderr", "closed": closed})
		s.loopEvent()
		return fmt.Errorf("link refuses the frame (scripted)")
	}
	return nil
}

func logSink(module, line string) {
	if !strings.HasPrefix(module, "ka-") {
		return
	}
	scenMu.Lock()
	s := scens[module]
	scenMu.Unlock()
	if s == nil {
		return
	}
	switch {
	case strings.HasPrefix(line, "keep-alive timed out"):
		s.mu.Lock()
		s.rec(map[string]any{"ev": "timeout"})
		s.mu.Unlock()
	case strings.HasPrefix(line, "keep-alive failed, but link is active"):
		s.alive.Store(true)
	}
}

func runScenario(c *vf.Ctx, idx int, p plan, round int) *scenario {
	s := &scenario{idx: idx, p: p, module: fmt.Sprintf("ka-%d-%d", round, idx), reqFl: map[int]*world.Flight{}}
	scenMu.Lock()
	scens[s.module] = s
	scenMu.Unlock()
	s.w = world.NewWorld()
	s.a = s.w.NewNode("a", world.NodeOpts{ID: idA})
	s.b = s.w.NewNode("b", world.NodeOpts{ID: idB})
	la, _, err := s.w.Connect(s.a, s.b, 7, 9, 10)
	if err != nil {
		c.Fatal("connect: %v", err)
	}
	s.la = la
	la.BytesInFn = func() uint64 { return s.bytes.Load() }
	la.SendHook = s.sendHook
	la.OnClose = func(log func()) {
		s.closed.Store(true)
		if log != nil {
			log()
		}
	}
	s.w.OnSend = s.onSend
	s.rec(map[string]any{"ev": "start", "fast": p.Fast})
	start := time.Now()
	mg := mgr.New(s.module)
	_ = mg.Do("keepalive", func(w *mgr.WorkerCtx) error {
		s.a.Rt.VerifKeepAlivePeer(w, la, p.Fast)
		return nil
	})
	ds := int(time.Since(start) / (100 * time.Millisecond))
	s.mu.Lock()
	how := "ok"
	switch {
	case s.closed.Load():
		how = "closed"
	case s.alive.Load():
		how = "alive"
	case la.IsClosing():
		how = "aborted"
	}
	s.rec(map[string]any{"ev": "end", "how": how, "ds": ds})
	n := len(s.events)
	s.mu.Unlock()
	s.wg.Wait() // late deliveries after the end are not part of the history
	s.mu.Lock()
	s.events = s.events[:n]
	s.mu.Unlock()
	c.Eval(1)
	return s
}

func randomPlan(rng *rand.Rand) plan {
	p := plan{Fast: rng.Intn(3) == 0}
	choices := []string{"intime", "late", "lost", "lost", "late"}
	dead := rng.Intn(3) == 0
	for k := 0; k < 5; k++ {
		ch := choices[rng.Intn(len(choices))]
		if dead {
			ch = "lost"
			if rng.Intn(4) == 0 {
				ch = "late"
			}
		}
		p.Att = append(p.Att, ch)
		e := ""
		switch rng.Intn(9) {
		case 0:
			e = "err"
		case 1:
			if rng.Intn(3) == 0 {
				e = "errclosed"
			}
		}
		p.Err = append(p.Err, e)
	}
	if rng.Intn(4) == 0 {
		p.Data = 1 + rng.Intn(5)
	}
	if rng.Intn(6) == 0 {
		p.Oth = 1 + rng.Intn(4)
	}
	return p
}

func main() { vf.Main("X03", "model_checking", run) }

func run(c *vf.Ctx) {
	c.Rule("M: TLC exhaustive on KeepAlive (both kinds of check, every placement of answers in time / late / lost, refused sends, other data, a close by somebody else): CloseOnlySilent, HeardNeverClosed, OkOnlyAnswered, AbortOnlyClosing, AliveOnlyHeard, PromiseKept, Budget, TimeBound, SilentMeansClosed, Terminates (under fairness); Q1 AnsweredMeansOk must be refuted. T: the real keepAlivePeer runs in real time against a scripted peer on a virtual link (quick 48 / thorough 480 checks, directed ones first); the recorded histories are validated by TLC against KeepAlive_Trace with all invariants and the time each call took. Observations only.")
	c.Assume("in-time answers are handed over 50 ms after the request, late ones 300 ms after the next request or refused send; the shortest timer of the check is 1 s", "the link is a test double: its byte counter counts the frames the driver hands to the router")
	res, err := c.TLC("KeepAlive", "KeepAlive_MC.cfg", vf.TLCOpts{Workers: 8, Timeout: 20 * time.Minute})
	if err != nil {
		c.Fatal("M: %v", err)
	}
	c.AddModel(res.Distinct, res.Generated)
	if res.Violated != "" || !res.Completed {
		c.Broken("the KeepAlive model itself violates %q (completed=%v)", res.Violated, res.Completed)
	}
	q, err := c.TLC("KeepAlive", "KeepAlive_Q1.cfg", vf.TLCOpts{Workers: 4, Timeout: 10 * time.Minute})
	if err != nil {
		c.Fatal("Q1: %v", err)
	}
	if q.Violated != "AnsweredMeansOk" {
		c.Broken("Q1 AnsweredMeansOk was expected to be refuted by TLC and was not (%q)", q.Violated)
	}
	c.Stage("M", map[string]any{"distinct": res.Distinct, "generated": res.Generated, "Q1_refuted": q.Violated == "AnsweredMeansOk"})
	c.Logf("M: %d distinct states; Q1 refuted", res.Distinct)

	world.LogSink = logSink
	world.InstallLogCapture()
	idA, idB = world.NewIdentity(world.EuropePrefix), world.NewIdentity(world.EuropePrefix)

	five := func(s string) []string { return []string{s, s, s, s, s} }
	none := five("")
	directed := []plan{
		{Att: five("intime"), Err: none},                                                         // a peer that answers
		{Att: five("lost"), Err: none},                                                           // a dead peer: closed after 25 s
		{Att: five("lost"), Err: none, Data: 3},                                                  // silent for pings, but data arrives
		{Fast: true, Att: five("lost"), Err: none},                                               // fast check, dead peer
		{Fast: true, Att: five("intime"), Err: none},                                             // fast check, live peer
		{Att: []string{"late", "lost", "lost", "lost", "lost"}, Err: none},                        // the answer to attempt 1 arrives during wait 2
		{Att: []string{"late", "lost", "lost", "lost", "lost"}, Err: []string{"", "err", "", "", ""}}, // Q1: ... arrives during the pause after a refused send
		{Att: five("lost"), Err: none, Oth: 2},                                                   // somebody else closes the link during wait 2
		{Att: five("lost"), Err: []string{"", "", "errclosed", "", ""}},                          // the link goes away under the third send
		{Att: five("lost"), Err: five("err")},                                                    // every send refused
		{Att: []string{"lost", "lost", "lost", "lost", "late"}, Err: none},                        // only a late answer to the last attempt
		{Att: []string{"lost", "late", "late", "intime", "lost"}, Err: none},
	}
	n := c.Pick(48, 480)
	var plans []plan
	plans = append(plans, directed...)
	for len(plans) < n {
		plans = append(plans, randomPlan(c.Rand))
	}
	batch := 48
	var all []*scenario
	for lo := 0; lo < len(plans); lo += batch {
		hi := min(lo+batch, len(plans))
		out := make([]*scenario, hi-lo)
		var wg sync.WaitGroup
		for i := lo; i < hi; i++ {
			wg.Add(1)
			go func(i int) {
				defer wg.Done()
				out[i-lo] = runScenario(c, i, plans[i], 0)
			}(i)
		}
		wg.Wait()
		all = append(all, out...)
		c.Logf("T: %d/%d checks run", hi, len(plans))
	}

	check := func(ss []*scenario) (rejectAt int, inv string, bad *scenario) {
		var events []any
		var owner []*scenario
		for _, s := range ss {
			for _, e := range s.events {
				events = append(events, e)
				owner = append(owner, s)
			}
		}
		at, inv, tres, err := c.TraceCheck("KeepAlive_Trace", "KeepAlive_Trace.cfg", events, vf.TLCOpts{Timeout: 10 * time.Minute})
		if err != nil {
			c.Fatal("T: %v", err)
		}
		c.AddModel(tres.Distinct, tres.Generated)
		if at > 0 && at <= len(owner) {
			return at, inv, owner[at-1]
		}
		if at != 0 {
			c.Broken("trace rejected at line %d of %d", at, len(events))
		}
		return 0, "", nil
	}
	outcomes := map[string]int{}
	nEvents := 0
	for _, s := range all {
		nEvents += len(s.events)
		if e, ok := s.events[len(s.events)-1].(map[string]any); ok {
			outcomes[fmt.Sprint(e["how"])]++
		}
		c.Distinct(fmt.Sprint(s.events))
		for _, x := range s.note {
			c.Logf("note (check %d): %s", s.idx, x)
		}
	}
	c.Sample(all[6].events)
	rest := all
	rejected := 0
	for len(rest) > 0 {
		at, inv, bad := check(rest)
		if bad == nil {
			break
		}
		rejected++
		// run the same plan again on its own: a history that depended on scheduling luck does not come back
		again := runScenario(c, bad.idx, bad.p, rejected)
		at2, inv2, bad2 := check([]*scenario{again})
		if bad2 != nil {
			what := "a history of the real keep-alive check is not a behaviour of KeepAlive"
			if inv2 != "" {
				what = "the real keep-alive check violates " + inv2
			}
			c.Violation(vf.Key("keepalive", inv2, fmt.Sprint(bad.p)), fmt.Sprintf("%s: plan %+v, rejected at event %d of %v", what, bad.p, at2, again.events), again.events, nil)
		} else {
			c.Logf("T: check %d was rejected once (line %d %s) and accepted when run on its own: %v", bad.idx, at, inv, bad.events)
		}
		var next []*scenario
		for _, s := range rest {
			if s != bad {
				next = append(next, s)
			}
		}
		rest = next
	}
	c.AddTraces(len(all))
	c.Extra("outcomes", outcomes)
	c.Extra("events", nEvents)
	c.Extra("rejected_once", rejected)
	c.Stage("T", map[string]any{"checks": len(all), "events": nEvents, "outcomes": outcomes, "rejected_once": rejected})
	c.Logf("T: %d checks, %d events, outcomes %v, rejected %d", len(all), nEvents, outcomes, rejected)
}
