# sourced by bin/check and setup: offline Go toolchain that can build /repo (go 1.26.3)
export GOFLAGS=-mod=mod GOPROXY=off GOSUMDB=off GOTOOLCHAIN=local GONOSUMDB='*' GONOSUMCHECK=1 GOFLAGS=-mod=mod
GO=/root/go/pkg/mod/golang.org/toolchain@v0.0.1-go1.26.3.linux-amd64/bin/go
if [ ! -x "$GO" ]; then
  for c in /root/go/pkg/mod/golang.org/toolchain@v0.0.1-go1.26.8.linux-amd64/bin/go /opt/veriftools/go1.26.8/bin/go "$(command -v go1.26.8)" "$(command -v go1.26)"; do
    if [ -n "$c" ] && [ -x "$c" ]; then GO="$c"; break; fi
  done
fi
export GO
