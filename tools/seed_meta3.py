#!/usr/bin/env python3
# writes meta.json for the round-3 seeds from verify.log + MATRIX.txt (run after tools/seed_matrix.sh)
import json, os, re
R3 = {
 "c01-generator-ignore-continue": ("the generator's skip for an ignored prefix became a `continue` of the inner loop: an identity inside an ignored prefix is returned. Needs accept and ignore lists that overlap.", True,
    "caught by the first version: the generator stage of C01 enumerates accept x ignore lists and judges every returned identity with Identity.tla (inside-ignored-prefix)"),
 "c02-grow-drops-auth": ("moveToBiggerSlice copies only up to authIndex: a sealed/signed frame whose appendix is replaced by one that outgrows the pooled slice loses its MAC/signature (zeroes). Needs SetAppendixData on an already sealed frame with a growing appendix.", False,
    "MISSED by C02's first version (appendix only set before sealing). Strengthened: C02 has a stage `R appendix` that replaces the appendix of every sealed frame class by shorter/equal/longer/slice-outgrowing ones and requires the receiver to accept exactly as before (appendix-replaced/<k>/invalidated). C17 (ContentOK now compares the auth block) and C09 (grown announcements stop verifying) catch it too."),
 "c03-out-rollover-resets-in": ("the receiver's OWN outgoing counter wrap resets both directions of its priority handler: every priority frame of the epoch can be replayed once. Needs the receiver to send ~2^32 frames itself (helper sets the counter next to the wrap) between an acceptance and the replay.", False,
    "MISSED by C03's first version (receivers never sent anything themselves). Strengthened: SeqWindow_Trace has an `ownsend` event (receiver seals regular+priority frames of its own, half of the time across its own wrap) that must leave the accepted set unchanged; the random histories insert it between deliveries: trace/FrameV1.Unseal/RouterCtrl/accepted-twice. C15 caught it from the start (current-key frame accepted twice)."),
 "c08-record-key-from-record": ("a hop record is verified with the key it carries instead of the stored session key: a record naming a router the victim already knows, made with the adversary's key, is accepted. Needs a known router + an adversarial peer.", False,
    "MISSED by C08's first version (no operator built a fresh record for somebody else's address). Strengthened: GossipAuth has the operator `forgeknown` (record by=OtherPeer key=adversary, directly below the adversary's own record); the driver builds it on real bytes: forgery-accepted/forgeknown. C01 caught it from the start (entry point: hop record with a re-derived key)."),
 "c09-grow-forgets-offset": ("moveToBiggerSlice forgets the link-frame offset when it sizes the bigger slice: an announcement whose appendix outgrows its slice cannot be sent on (no room for the margins). Needs chains long enough to outgrow the pooled slice.", True,
    "caught by the first version: C09's converged lines of 8+ leave routers without routes (reach/line)"),
 "c10-stale-recvlink-originated": ("initFrame no longer clears recvLink: a pooled frame struct reused for an ORIGINATED frame keeps the previous receive link and RouteFrame refuses it as `would loop` when the next hop is that peer. Needs transit then originate on the same router.", False,
    "MISSED by C10's first version - the converged all-pairs stage ran into it but filed the refused Send under `mesh not converged` (a blind spot of the harness). Corrected: a refused request although the origin holds a route to the destination is a violation (request-not-sent/<family>). C17 caught it from the start."),
 "c11-disconnect-pathless-peer": ("RemoveDisconnected looks only at path hops: the pathless peer route AddLink inserts survives the disconnect of its router. Needs a peer route without hops + a whole-router disconnect.", True,
    "caught by the first version: RoutingTable.tla P7 on the replayed graph (P7/rmdis)"),
 "c12-second-zero-scan": ("NextRotateSwitchBlock's second-zero scan skips block[0] when the consumed label is 0: return path corrupt / panic at the destination. Needs a block whose first byte after the shift is the slot.", True,
    "caught by the first version: SwitchPath replay (rotate-panic, wrong return path)"),
 "c14-retry-reuses-ping-id": ("a hello retry reuses the ping ID of the unanswered attempt but a fresh key: a late response to the first attempt is bound to the second attempt's key -> both sides `established` with different keys. Needs timeout, retry, late response.", True,
    "caught by the first version: HelloExchange.tla replay with expire/duplicate/late schedules (key mismatch outside the two known-open concurrent-hello keys)"),
 "c15-prio-in-window-not-reset": ("In() resets the regular instead of the priority in-window at a key rollover: the first priority frames of the new epoch are rejected as replays. Needs priority traffic before and after the sender's wrap.", True,
    "caught by the first version: KeyRollover_Sim walks (current-frame-rejected/FrameV1/p)"),
 "c16-refused-add-removes-route": ("AddLink adds the peer route before the duplicate checks and `takes it back` with RemoveNextHop on refusal - which also removes the route of the live link to that peer. Needs a second link to an already connected peer.", True,
    "caught by the first version: LinkRegistry.tla cross-handshake replay (live-link-without-peer-route)"),
 "c17-recycle-refused-frame": ("a refused NewFrameV1 puts the frame object back into the pool with cached src/dst: the next parsed frame reports stale addresses. Needs a refused construction followed by a parse.", False,
    "MISSED by C17's first version (it never made NewFrameV1 fail, and compared bytes rather than accessors). Strengthened: FrameLifecycle class `refused-new` (oversize construction between uses) and ContentOK compares SrcIP/DstIP/type accessors with the bytes: content/refused-new."),
 "c18-skip-empty-save": ("Stop returns early for an empty state: saving an empty state over a non-empty file leaves the old generation on disk. Needs a shrinking (to empty) second generation.", False,
    "MISSED by C18's first version (states only grew; run ended exit 2 on the seeded tree because the empty program tripped a driver assertion - corrected). Strengthened: StateFile generations include a save of the EMPTY state after a non-empty one and a clean-save-without-kill path whose result must be the state just saved: clean-save-lost/no-calls, roundtrip/shrunk-state/to-empty."),
 "c19-idn-unicode-key": ("CleanDomain returns the unicode spelling for IDN names: configured resolve entries are stored under a key the (punycode) query never matches. Needs an internationalised configured name.", False,
    "MISSED by C19's first version (ASCII names only). Strengthened: the Resolver configuration has the label xn--bcher-kva configured in its unicode spelling; every source combination is queried in punycode: wrong-source ... xn--bcher-kva.myco."),
}
matrix = {}
mp = '/verif/seeded/MATRIX.txt'
if os.path.exists(mp):
    for line in open(mp):
        parts = line.split(' ', 3)
        if len(parts) >= 3:
            matrix.setdefault(parts[0], []).append(line.strip()[:400])
for sid, (needs, first, caught) in R3.items():
    d = '/verif/seeded/' + sid
    prop = sid.split('-')[0].upper()
    log = [l.rstrip()[:300] for l in open(d + '/verify.log')][:5] if os.path.exists(d + '/verify.log') else []
    meta = {"seed": sid, "round": 3, "property": prop, "breaks": prop, "needs_to_manifest": needs,
            "caught_by": caught, "caught_by_first_version": first,
            "origin": "independent sub-agent given only the property text and its own scratch worktree of /repo (nothing from /verif)",
            "confirmed": {"log": log, "matrix": matrix.get(sid, [])},
            "ran": ["tools/seed_verify.sh", "tools/seed_matrix.sh (bin/check <property> --tier quick on /repo with the patch applied, then git checkout)"]}
    if os.path.exists(d + '/also'):
        meta["also_caught_by"] = open(d + '/also').read().split()
    json.dump(meta, open(d + '/meta.json', 'w'), indent=1)
    print(sid, first)
