#!/usr/bin/env python3
"""Regenerates /verif/MANIFEST.json from tools/checks.json (one entry per built check)."""
import json, os, subprocess
root = os.path.dirname(os.path.dirname(os.path.abspath(__file__)))
checks = json.load(open(os.path.join(root, "tools", "checks.json")))
props = [json.loads(l) for l in open(os.path.join(root, "properties.jsonl"))]
built = {c["id"]: c for c in checks["checks"]}
hooks = checks["hook_commits"]
m = {
 "version": 1,
 "setup_cmd": "cd /verif && bin/setup",
 "hooks": {
  "guard": "verif",
  "enable": "go build -tags verif (harness module replaces github.com/mycoria/mycoria => /repo)",
  "baseline_off_cmd": "cd /repo && GOFLAGS=-mod=mod go test -vet=off -count=1 -timeout 25m ./...",
  "source_commits": hooks,
  "add_only": True,
 },
 "engines": [
  {"name": "tlc", "path": "/verif/spec", "serves_properties": sorted(built), "kind_free_text": "explicit TLA+ specification checked with TLC 1.8 (exhaustive small configs, simulation, trace validation)"},
  {"name": "harness", "path": "/verif/harness", "serves_properties": sorted(built), "kind_free_text": "Go drivers: replay TLC state-graph paths / simulation walks into the real code, record traces of the real code and validate them with TLC"},
 ],
 "checks": [],
 "notes": checks.get("notes", ""),
 "not_applicable": [],
}
for p in props:
    pid = p["id"]
    if pid in built:
        c = built[pid]
        m["checks"].append({
         "property_id": pid,
         "quick_cmd": f"bin/check {pid} --tier quick",
         "thorough_cmd": f"bin/check {pid} --tier thorough",
         "evidence_file": f"/verif/evidence/{pid}.json",
         "replay_cmd_template": f"bin/check {pid} --replay {{path}}",
         "engine": "tlc+harness",
         "level_claimed": {"category": "model_checking", "text": c["level_text"], "design_ref": c["design_ref"]},
         "level_note": c["level_note"],
         "technique": c["technique"],
        })
    else:
        m["not_applicable"].append({"property_id": pid, "reason": checks["pending"].get(pid, "check not built yet in this round; the TLA+ module planned for it is described in DESIGN.md section 4 - no claim is made")})
json.dump(m, open(os.path.join(root, "MANIFEST.json"), "w"), indent=1)
print("checks:", len(m["checks"]), "not_applicable:", len(m["not_applicable"]))
