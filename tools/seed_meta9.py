#!/usr/bin/env python3
# writes meta.json for the round-9 seeds from verify.log + MATRIX.txt(.partial)
import json, os
R9 = {
 "c01-lite-hop-lowlevel-verify": ("a router in lite mode checks the identity of an unknown router it only sees as a hop record with the low-level digest comparison (no range, hash-name, key-type or key-size check): identities outside fd00::/8 and unknown key types are accepted as hops, unknown hash names and 31-byte keys crash the announcement handler. Needs router.lite on the receiver and a hop router it has never heard of.", False,
   "MISSED at first (every victim ran with the default options). Strengthened: the hop-record entry presents every case to victims in lite mode (the relay in lite mode too, so that announcements still reach it) and in stub mode as well: forged-identity-accepted / panic through entry hop."),
 "c02-rekey-keeps-window": ("key set-up no longer resets the sequence handlers: the one place that re-keys an EXISTING session in place (the hello server) keeps the old receive window and counters. After A lost its session (restart) and set up keys again, the first N frames A seals for B are refused as duplicates.", False, "@C02@"),
 "c03-getsession-double-create": ("GetSession holds the sessions lock only for the map lookup and the insert: two workers that look the same router up at the same moment on first contact (or after the session cleaner ran) each build a Session of their own - one signed frame unseals twice.", False, "@C03@"),
 "c04-signature-cache": ("Unseal skips the signature check for a frame whose 64 signature bytes it has verified before (per-session cache of 32 signatures): a recorded handshake message of P, altered in every authenticated byte (own key-exchange share, the victim's fresh challenge, a newer stamp) and sent with the recorded signature, is accepted - a link 'to P' that ends at the attacker.", False, "@C04@"),
 "c05-kx-keypair-reused": ("a router re-uses one X25519 key-exchange key pair for ten minutes: a second link between the same two routers gets the same link keys as the one before, with an empty replay window - link frames recorded on the previous link are delivered on the new one.", False, "@C05@"),
 "c06-icmp-error-quoted-key": ("an inbound ICMPv6 error message (types 1-4) is judged by the connection it QUOTES instead of by itself: with any tcp/udp service the sender may use, or any connection the local host opened to it, the sender gets ICMPv6 packets delivered without an icmp6 service.", False, "@C06@"),
 "c07-getsession-clears-offline": ("creating a session object for a stored router clears its stored offline flag - and the ping parser looks the session up BEFORE it verifies anything: after the victim lost its session objects (restart, session cleaner) any frame that claims source X, garbage signature included, marks X online again.", False, "@C07@"),
 "c08-origin-delivers-foreign-chain": ("the refusal 'source equals the delivering peer but hop records are attached' is lost: an origin that is peered with the victim delivers its own announcement with a genuine chain whose outermost signer is another router Q - accepted: a route via Q with the origin as next hop, and forwarded on.", False, "@C08@"),
 "c09-refresh-keeps-labels": ("re-announcements of a known route with unchanged delay only refresh expiry and stub flag: after a link between two remote relays was lost and re-established with other switch labels, everybody else keeps the old labels for good - routes whose forward labels name links that no longer exist.", False, "@C09@"),
 "c10-clean-skips-resort": ("the routing-table cleaner sorts back into routing order only when it removed something: after a tick that removes nothing (small, quiet meshes - always) the table stays in cleaning order, binary-search lookups return other routers' entries, frames go to the wrong neighbour.", False, "@C10@"),
 "c11-clean-copy-swap": ("Clean works on a copy without the lock and swaps it in when the length has not changed: a re-announcement that lands between snapshot and swap is rolled back although it was reported as added.", False, "@C11@"),
 "c12-stub-skips-last-rotate": ("the switch worker of a router configured as stub takes a shortcut that escalates every frame without rotating its switch block: at a stub destination the terminating zero is not consumed and the return label never written - the block it holds does not reverse to the return path. The guarded hook calls handleFrame directly and never sees it.", False, "@C12@"),
 "c13-error-states-self-deadlock": ("when the error-ping handler holds states for 10 000 routers it calls its own Clean while holding the lock Clean takes: the router worker that handles the next frame from a new source deadlocks, and so does every worker after it.", False, "@C13@"),
 "c14-finalize-keeps-newer-keys": ("the link handshake installs its keys only if the session's encryption object is still the one it saw at its first message: a hello exchange that completes in between is noticed on the initiator's side only (the responder re-keys in place) - one end keeps the hello keys, the other installs the link keys; both report 'set up', nothing decrypts.", False, "@C14@"),
 "c15-replacewith-stale-raw-keys": ("SetEncryptionSession copies the ciphers of the new session into the existing object but not the raw keys the roll-over derives the next key from: keys installed the way the router installs them (hello client, link handshake) work until the first wrap, after which the two ends hold different keys for good.", False, "@C15@"),
 "c16-removenexthop-needs-peer-route": ("RemoveNextHop returns early when the table holds no peer route for the hop: after a disconnect ping removed the peer route of a live link and a forwarded announcement added a gossip route via that peer, closing the link leaves the gossip route behind.", False, "@C16@"),
 "c17-clone-drops-closing-link": ("Clone does not copy the receive link when that link is closing: the copy has no link, or the link of whatever frame used the recycled frame object before.", True,
   "caught by the first version: the walks of FramePool clone frames whose receive link has been closed: CloneEqual of FramePool_Trace."),
 "c18-inplace-fallback": ("when the temporary file cannot be created or renamed (a directory of that name, a state directory the router may not write to, a bind-mounted state file) the state is written in place: a kill during that write leaves a half-written state file and no previous generation.", False, "@C18@"),
 "c19-unescape-after-gate": ("the lookup key is unescaped AFTER the '.myco' suffix test on the escaped text: a query for the single label 'router.myco' (a dot inside the label, 'router\\.myco.' in presentation format) passes the gate and is answered by every source.", False,
   "MISSED at first (names not under .myco were built from plain labels). Strengthened: two more spellings of names outside .myco - ONE label that contains a dot, with the backslash and with the decimal escape: answered-instead-of-nxdomain."),
 "c20-ipv6-hostport": ("listen and connect addresses are joined as host:port without brackets: IPv6 literals ('tcp://[::1]:PORT') can neither be listened on nor dialled - start reports success, the routers never peer.", False,
   "MISSED at first (listeners had no host, connects went to 127.0.0.1). Strengthened: listeners are named without a host, by the IPv4 or by the IPv6 loopback (kept over restarts on fixed ports); connect entries use a matching address: no-peering."),
}
CAUGHT = {}
cp = '/verif/tools/seed_meta9_caught.json'
if os.path.exists(cp):
    CAUGHT = json.load(open(cp))
matrix = {}
for mp in ['/verif/seeded/MATRIX.txt', '/verif/seeded/MATRIX.txt.partial']:
    if os.path.exists(mp):
        for line in open(mp):
            parts = line.split(' ', 3)
            if len(parts) >= 3:
                matrix.setdefault(parts[0], [])
                if line.strip()[:400] not in matrix[parts[0]]:
                    matrix[parts[0]].append(line.strip()[:400])
for sid, (needs, first, caught) in R9.items():
    d = '/verif/seeded/' + sid
    if not os.path.isdir(d):
        print('missing', sid); continue
    prop = sid.split('-')[0].upper()
    if caught.startswith('@'):
        caught = CAUGHT.get(prop, 'MISSED at first; strengthening in progress')
    log = [l.rstrip()[:300] for l in open(d + '/verify.log')][:5] if os.path.exists(d + '/verify.log') else []
    meta = {"seed": sid, "round": 9, "property": prop, "breaks": prop, "needs_to_manifest": needs,
            "caught_by": caught, "caught_by_first_version": first,
            "origin": "independent sub-agent given only the property text, the descriptions of the earlier seeds for that property and its own scratch worktree of /repo (nothing from /verif)",
            "confirmed": {"log": log, "matrix": matrix.get(sid, [])[-4:]},
            "ran": ["tools/seed_verify.sh (scratch worktree: build, existing tests, demo with / without the change)", "tools/seed_matrix_par.sh (bin/check <property> --tier quick in a scratch copy of /verif against a scratch worktree with the patch applied)"]}
    json.dump(meta, open(d + '/meta.json', 'w'), indent=1)
print('ok')
