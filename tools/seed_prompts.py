#!/usr/bin/env python3
# seed_prompts.py <round> <outdir> <worktree-prefix>
# Writes one prompt per property for a round of independent seeding sub-agents. A prompt contains the property text,
# the one-line descriptions of every earlier seed for that property (site + what it needs) and the agent's scratch
# worktree - nothing else from /verif.
import json, os, re, sys
rnd, out, pre = sys.argv[1], sys.argv[2], sys.argv[3]
os.makedirs(out, exist_ok=True)
props = {}
for l in open('/verif/properties.jsonl'):
    d = json.loads(l); props[d['id']] = d
earlier = {}
for sid in sorted(os.listdir('/verif/seeded')):
    mp = f'/verif/seeded/{sid}/meta.json'
    if not os.path.exists(mp): continue
    m = json.load(open(mp))
    files = sorted(set(re.findall(r'^diff --git a/(\S+)', open(f'/verif/seeded/{sid}/patch.diff').read(), re.M)))
    earlier.setdefault(m['property'], []).append(f"   - {sid} ({', '.join(files)}): {m['needs_to_manifest']}")
T = open('/verif/tools/seed_prompt_template.txt').read()
for pid, p in sorted(props.items()):
    wt = f"{pre}-{pid.lower()}"
    txt = T.replace('@WT@', wt).replace('@PID@', pid).replace('@TITLE@', p['title']).replace('@STATEMENT@', p['statement']).replace('@EARLIER@', '\n'.join(earlier.get(pid, [])))
    open(f'{out}/{pid}.txt', 'w').write(txt)
print('wrote', len(props), 'prompts to', out)
