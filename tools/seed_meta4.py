#!/usr/bin/env python3
# writes meta.json for the round-4 seeds from verify.log + MATRIX.txt (run after tools/seed_matrix.sh)
import json, os
R4 = {
 "c04-relayed-proof-dst-unchecked": ("the destination of a peering response / ack is no longer compared (`&&` for `||`): an insider M that is in a handshake with an honest P at the same time copies the victim's challenge into its own request to P and hands P's response and ack (signed by P, addressed to M) to the victim, which registers a link to P over a connection that ends at M. Needs a third router, a concurrent handshake, aligned roles, no universe secret.", False,
   "MISSED by C04's first version (wire adversary between two honest routers; insider without the secret). Strengthened: HandshakeRelay.tla (32 cases: roles x challenge x whose response / ack; negative control DstChecked=FALSE refuted) and a scripted three-party relay against a real victim and a real honest P: relay/server/cV/P/P and relay/client/cV/P/P."),
 "c05-both-directions-one-key": ("both directions of a link session use one key (`New(key1)` twice): a link frame recorded in one direction unseals when injected into the other. Needs reflection into the opposite direction with a sequence number ahead of the victim's window.", False,
   "MISSED by C05's first version (no fault moved a frame across directions). Strengthened: LinkLayer has the fault `reflect` (a frame the receiver sealed for the opposite direction, sequence number ahead, put in front of a unit); the driver makes the receiver send n+4 frames first and injects the newest; also the plan enumeration now keeps two operators that lead to the same model state apart: altered-frame-delivered/reflect."),
 "c06-prohibited-falls-through": ("the inbound path picks the error ping per cached status in a switch without default: a cached `prohibited` verdict (isolated router, outbound packet to a non-friend) lets the mirrored inbound packet through to the local interface. Needs isolation, an outbound packet first, then the mirror.", True,
   "caught by the first version: TrafficPolicy's established-flow cases with isolation (admitted/ok/true)"),
 "c07-seqtime-before-signature": ("Unseal checks the sequence time before the signature; parsePingMsg tolerates `immediate duplicate` for hop pings: a hop ping claiming X with exactly the stamp of X's newest accepted frame is handled without any signature check. Needs the stamp of X's newest frame (in clear on the wire) and the hop-ping message type.", False,
   "MISSED by C07's first version (no variant reused a stamp). Strengthened: ControlPlane variant `forged-at-newest-stamp` (every ping type built as a hop ping by a router without X's key, carrying the stamp of X's newest frame on record): hello-req/forged-at-newest-stamp and others."),
 "c13-varint-overflow-negative": ("NextRotateSwitchBlock rejects bytesRead == 0 but lets a negative byte count (varint overflow) through: slice bounds panic in the switch worker, before any authentication. Needs a 10-byte varint with continuation bits.", True,
   "caught by the first version: FrameLifecycle class sealed/switchblock (panic/sealed/switchblock/slice-bounds)"),
 "c20-lite-announce-wait": ("a lite router's announce worker waits for its first link in a loop that ignores cancellation: a lite router stopped while it has no link blocks Stop for 60 s and leaves the worker behind. Needs lite mode and no link at stop time.", True,
   "caught by the first version: Lifecycle walks with lite configurations (failed to stop module=router timed out)"),
}
matrix = {}
for mp in ['/verif/seeded/MATRIX.txt', '/verif/seeded/MATRIX.txt.partial']:
    if os.path.exists(mp):
        for line in open(mp):
            parts = line.split(' ', 3)
            if len(parts) >= 3:
                matrix.setdefault(parts[0], [])
                if line.strip()[:400] not in matrix[parts[0]]:
                    matrix[parts[0]].append(line.strip()[:400])
for sid, (needs, first, caught) in R4.items():
    d = '/verif/seeded/' + sid
    prop = sid.split('-')[0].upper()
    log = [l.rstrip()[:300] for l in open(d + '/verify.log')][:5] if os.path.exists(d + '/verify.log') else []
    meta = {"seed": sid, "round": 4, "property": prop, "breaks": prop, "needs_to_manifest": needs,
            "caught_by": caught, "caught_by_first_version": first,
            "origin": "independent sub-agent given only the property text and its own scratch worktree of /repo (nothing from /verif)",
            "confirmed": {"log": log, "matrix": matrix.get(sid, [])},
            "ran": ["tools/seed_verify.sh", "tools/seed_matrix.sh (bin/check <property> --tier quick on /repo with the patch applied, then git checkout)"]}
    if os.path.exists(d + '/also'):
        meta["also_caught_by"] = open(d + '/also').read().split()
    json.dump(meta, open(d + '/meta.json', 'w'), indent=1)
    print(sid, first)
