#!/usr/bin/env python3
# writes meta.json for the round-8 seeds from verify.log + MATRIX.txt(.partial)
import json, os
R8 = {
 "c01-known-router-not-reverified": ("the identity carried in a peering request is verified only when the receiving router has no session for that address yet: a request signed by the real key of a KNOWN address may carry any hash name, key type or easing value.", False,
   "MISSED at first (every presentation met a victim that had never heard of the presenter). Strengthened: history `met` - the holder of the key completed a genuine handshake before and the link was closed; then every peering case with the genuine key and another tuple is presented again (Identity_Trace: outcome must follow Acceptable, the key learnt before stays bound): forged-identity-accepted."),
 "c02-too-new-frame": ("signed frames stamped more than a minute ahead of the receiver's clock are refused - but the sender's own time sequence runs ahead of the clock by one millisecond per frame sealed within the same millisecond: a burst of 60 000 frames gets the rest refused.", False,
   "MISSED at first (signed streams were paced at one per millisecond, 30 frames). Strengthened: stream `burst` in stage T - one router seals signed frames as fast as it can until its stamps are 62 s ahead of the clock (about 90 000 frames); the first, some in between and the last ones are delivered untouched: FrameSeal_Trace `untouched fresh frames do unseal`."),
 "c03-peek-then-mark": ("the replay check is split into a read-only peek before decryption and a mark after it: copies of one frame handled at the same moment on several workers all pass the peek.", False,
   "MISSED at first (deliveries were sequential). Strengthened: stage concurrent copies - four copies of every frame of a history are handed to Unseal on four goroutines released together; the decisions are linearised (accepted one first) and judged by SeqWindow_Trace: at most one copy is accepted."),
 "c04-clock-reset-accepts-old": ("a signed frame whose stamp lies more than an hour behind the newest accepted one is taken for a clock reset of the sender and accepted: handshake messages recorded two hours ago pass the time check again (the ack is bound to nothing else).", False,
   "MISSED at first (the earlier connection of `replayold` was milliseconds old). Strengthened: every replay-from-earlier-connection plan is run again with an earlier connection of two hours ago (the sender's messages carry the stamps of then, signed by its key) and a meeting of the two routers since: registered/replayold."),
 "c05-handshake-frame-double-pooled": ("ParseFrameV1 recycles the frame (and its pooled slice) on two late structural errors, and the link reader recycles the slice of every refused frame: a stranger's malformed handshake frame puts one buffer into the shared pool twice; established links then read the next frame into memory a handler still holds.", False,
   "MISSED at first (nothing else used the receiver's pool; the handler returned frames at once). Strengthened: receiver history `strangers` (handshake frames with inner lengths beyond their end at the listener) and a frame handler that holds every frame until the next one arrived and compares it again: delivered/not-identical."),
 "c06-known-connection-skips-address-check": ("for a connection the policy cache already knows, the per-packet check inner source == frame source is skipped: once P has sent one genuine packet, anybody's frame may carry P's inner address.", False,
   "MISSED at first (every spoofed packet met an empty connection cache). Strengthened: the inner-src-differs variants are delivered right after the claimed sender's own genuine packet of the same flow: admitted/inner-src."),
 "c07-disconnect-drops-expired": ("RemoveDisconnected also drops every non-peer route that has run out: a disconnect of X changes routes of routers that have nothing to do with X.", False,
   "MISSED at first (all routes were fresh when a disconnect arrived). Strengthened: before the disconnect variants the victim's table is aged (VerifAge) so that gossip routes of unrelated routers have run out and are not cleaned yet: ControlPlane `only X's routes change`."),
 "c08-chain-depth-bound-dropped": ("the loop over nested hop records stops silently after 99 layers instead of refusing the announcement: records at depth 100 and beyond are neither verified nor listed.", False,
   "MISSED at first (chains had at most 20 records). Strengthened: stage R-deep - announcements with 40, 98, 99, 100, 101, 130 validly signed records of routers with throwaway identities, intact and with one record altered after signing (event `deep` of GossipAuth_Trace: what is accepted lists exactly the attached records): forgery-accepted/deep."),
 "c09-continent-budget-halved": ("the per-prefix budget for routes to another continent is halved (32 to 16): a router stops admitting new destinations of a foreign /12 once it holds 33 entries for it.", False,
   "MISSED at first (all identities were of one continent). Strengthened: family two-continents - a dense mesh (every router linked to three neighbours on either side) of 1 or 3 routers of one continent and 13-15 of another, the routers announcing one after the other: Reach of GossipMesh_Trace."),
 "c10-sendpriority-blocks-transit": ("SendPriority waits for room in the priority queue instead of dropping: a neighbour that does not drain its link pins every worker that has a frame for it - the transit router forwards nothing any more.", False,
   "MISSED at first (C10's meshes used virtual links only; C13's class link-post/peer-stops-reading caught it from the start). Strengthened: stage R-links - five routers over REAL links (reader, writer, send queues) with the real switch handler and router worker behind every reader; a routed request before and after bursts from either end and towards a neighbour that has stopped reading: no-reply/real-links. Also caught by C13."),
 "c11-total-delay-wraps": ("CalculateTotals sums the hop delays in 16 bits: routes slower than 65.5 s wrap around and sort in front of fast ones.", False,
   "MISSED at first (the driver copied hops and delay back from the table, and no hop was slower than 100 ms). Strengthened: hops and delay of every route are computed by the driver from the hop records (each hop at least the minimum, saturating), a fifth of the routes have hops of 15-65 s: P1 (lookup order) of RoutingTableNested_Trace."),
 "c12-shared-rotate-buffer": ("the switch rotates switch blocks in one scratch buffer shared by all its workers: frames handled at the same moment leave with each other's labels.", False,
   "MISSED at first (one frame at a time). Strengthened: switchconc - frames of several paths through the REAL switch handler of one router on many goroutines released together; every forwarded frame is a `rotate` event of SwitchLabel_Trace: the block that leaves is the rotation of the block that came."),
 "c13-cleaned-session-released": ("the session cleaner wipes the fields of sessions it removes; a handshake state keeps its session pointer across messages: a participant that pauses for more than a minute before its second message panics the link set-up worker.", False,
   "MISSED at first (every handshake ran in milliseconds). Strengthened: class link-mid/paused-handshake of FrameLifecycle - well-formed messages, a pause of 90 s / 3 min / 2 h before message 2 or 3 during which the session cleaner has its tick (guarded hook ed16000): panic/link-mid/paused-handshake."),
 "c14-old-frame-moves-fresh-window": ("the sequence number is checked (and the window moved) before the frame is authenticated: a frame sealed under the previous keys, arriving after a re-keying, moves the fresh window and the first frames under the new keys are refused.", False,
   "MISSED at first (nothing was in flight across a re-keying). Strengthened: the last frame of every one-way burst stays in flight until the next observation, also across a re-keying; what is sealed afterwards must unseal (one-way observations of the KeySetup executions, judged by KeySetup's TrafficOK)."),
 "c15-reset-before-key-switch": ("initFinalize resets the sequence handlers before the shared secret is computed: a key exchange that fails afterwards leaves the OLD keys with restarted counters - nonces repeat.", False,
   "MISSED at first (every set-up succeeded). Strengthened: set-ups that fail half-way (unusable share) are mixed into the repeated key set-ups; `sealed2` events of KeyRollover_Trace: no (key, nonce) pair twice: rekey-nonce."),
 "c16-label-lookup-cache": ("GetLinkByLabel remembers its last hit in a lock-free one-entry cache that is filled after the read lock is gone: a complete close of the link between the map read and the fill leaves the closed link findable by its label.", False,
   "MISSED at first (scheduling points were the set-up / close steps of real links; the lookups were only asked for live links). Strengthened: every snapshot asks GetLink / GetLinkByLabel for every peer and label the router ever had a link with, and stage R-yield freezes each registry function at each of its calls into a link (test doubles of peering.Link, two points in IsClosing) while that link is closed completely: dead-link-found-by-label."),
 "c17-exchange-slice-before-check": ("a new helper hands the old buffer back to the pool before it is known whether a bigger one exists: a Reply refused for size leaves the frame in a buffer that is already back in the pool.", False,
   "MISSED at first (refused replies were not looked at). Strengthened: replies refused because no pooled buffer can hold them (66 000 bytes and more) inside `mutate` steps of the FramePool histories must leave the frame, its content and its buffer alone - the frames observed after the step are judged by FramePool_Trace (refusals for message length alone are not asserted: the property is silent)."),
 "c18-universe-adopted-on-load": ("state.New rewrites stored routers without a universe to the configured one and saves them back: what is on disk after a start is not what was stored.", False,
   "MISSED at first (the check worked below state.New). Strengthened: instance generations - a state file with routers of several universes (and none) goes through whole routers (mycoria.New, start, stop), also with a changed universe in between: round trip of StateFile_Trace."),
 "c19-negative-mapping-cache": ("misses of the mapping storage are remembered for a second: a name that is mapped right after it was asked for stays unanswered.", False,
   "MISSED at first (the sets were fixed per server). Strengthened: phases - while the server runs the name is mapped, mapped to another address and unmapped again, with queries in between (Resolver_Trace: what a source holds is what it holds at the moment of the query): no-answer."),
 "c20-no-frame-handler-on-one-cpu": ("the number of router frame handlers is GOMAXPROCS-1: on a host with one CPU no handler runs - start reports success, links come up, nothing is ever answered.", False,
   "MISSED at first (16 CPUs; peering was the last thing looked at). Strengthened: after peering each router sends the other a request that must be answered (3 tries), and two scenarios run with GOMAXPROCS(1): peered-but-deaf."),
}
matrix = {}
for mp in ['/verif/seeded/MATRIX.txt', '/verif/seeded/MATRIX.txt.partial']:
    if os.path.exists(mp):
        for line in open(mp):
            parts = line.split(' ', 3)
            if len(parts) >= 3:
                matrix.setdefault(parts[0], [])
                if line.strip()[:400] not in matrix[parts[0]]:
                    matrix[parts[0]].append(line.strip()[:400])
for sid, (needs, first, caught) in R8.items():
    d = '/verif/seeded/' + sid
    if not os.path.isdir(d):
        print('missing', sid); continue
    prop = sid.split('-')[0].upper()
    log = [l.rstrip()[:300] for l in open(d + '/verify.log')][:5] if os.path.exists(d + '/verify.log') else []
    meta = {"seed": sid, "round": 8, "property": prop, "breaks": prop, "needs_to_manifest": needs,
            "caught_by": caught, "caught_by_first_version": first,
            "origin": "independent sub-agent given only the property text, the descriptions of the earlier seeds for that property and its own scratch worktree of /repo (nothing from /verif)",
            "confirmed": {"log": log, "matrix": matrix.get(sid, [])},
            "ran": ["tools/seed_verify.sh (scratch worktree: build, existing tests, demo with / without the change)", "tools/seed_matrix_par.sh (bin/check <property> --tier quick in a scratch copy of /verif against a scratch worktree with the patch applied)"]}
    json.dump(meta, open(d + '/meta.json', 'w'), indent=1)
print('ok')
