#!/bin/bash
# seed_matrix_par.sh [-j N] [seed-id ...]
# The regression of seed_matrix.sh without touching /repo: every seed gets a scratch git worktree of /repo's HEAD
# with its patch applied and a scratch copy of /verif whose harness module is redirected to that worktree
# (VERIF_ROOT + the replace line of harness/go.mod), so that N seeds run side by side and /repo stays free.
# Each scratch pair is removed as soon as its checks are done.  Result lines go to seeded/MATRIX.txt (full run)
# or seeded/MATRIX.txt.partial (named seeds).  This is a regression record, not evidence.
set -u
J=3
if [ "${1:-}" = "-j" ]; then J="$2"; shift 2; fi
cd /verif || exit 2
ids=("$@"); full=0
if [ ${#ids[@]} -eq 0 ]; then full=1; ids=($(ls seeded | grep -v MATRIX)); fi
base=/tmp/mx.$$; mkdir -p "$base/out"
one() {
  id="$1"; d=/verif/seeded/$id; [ -f "$d/patch.diff" ] || return 0
  prop=$(echo "$id" | cut -d- -f1 | tr a-z A-Z)
  props="$prop"; [ -f "$d/also" ] && props="$props $(cat $d/also)"
  w="$base/$id"; mkdir -p "$w"
  git -C /repo worktree add -q --detach "$w/repo" HEAD || { echo "$id $prop worktree-failed" > "$base/out/$id"; return 0; }
  if ! git -C "$w/repo" apply "$d/patch.diff"; then
    echo "$id $prop patch-does-not-apply" > "$base/out/$id"
  else
    rsync -a --exclude .git --exclude .work --exclude replays --exclude seeded /verif/ "$w/verif/"
    sed -i "s#=> /repo\$#=> $w/repo#" "$w/verif/harness/go.mod"
    : > "$base/out/$id"
    for p in $props; do
      log="$w/$p.log"
      (cd "$w/verif" && VERIF_ROOT="$w/verif" timeout 1800 bin/check "$p" --tier quick > "$log" 2>&1); rc=$?
      v=$(grep -A1 '^VIOLATION' "$log" | grep 'what:' | head -1 | cut -c1-220)
      n=$(grep -c '^VIOLATION' "$log")
      echo "$id $p exit=$rc violations=$n $v" >> "$base/out/$id"
      [ "$p" = "$prop" ] && cp "$log" "$d/check_quick.log"
    done
  fi
  git -C /repo worktree remove --force "$w/repo"; rm -rf "$w"
  cat "$base/out/$id"
}
export -f one; export base
printf '%s\n' "${ids[@]}" | xargs -P "$J" -I{} bash -c 'one {}'
tmp=$(mktemp); for id in "${ids[@]}"; do [ -f "$base/out/$id" ] && cat "$base/out/$id" >> "$tmp"; done
miss=$(awk '{split($1,a,"-"); if (toupper(a[1])==$2 && $3!="exit=1") print $1}' "$tmp")
if [ $full -eq 1 ]; then mv "$tmp" seeded/MATRIX.txt; else cat "$tmp" >> seeded/MATRIX.txt.partial; rm -f "$tmp"; fi
rm -rf "$base"; git -C /repo worktree prune
echo "own-property misses: ${miss:-none}"
exit 0
