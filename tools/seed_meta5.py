#!/usr/bin/env python3
# writes meta.json for the round-5 seeds from verify.log + MATRIX.txt (run after tools/seed_matrix.sh)
import json, os
R5 = {
 "c01-hop-record-key-from-record": ("a hop record is verified with the key it carries instead of the stored one (the same mechanism an earlier C08 seed used, found independently from the C01 text): a record naming a known router with another router's key is accepted.", True,
   "caught by the first version: C01's entry point `identity presented through a hop record` (and C08's `forgeknown`)"),
 "c02-seal-keeps-flow-byte": ("Seal no longer zeroes the flow-control byte while it computes the signature / MAC (only the TTL): a frame whose flow flags are set BEFORE it is sealed is rejected by the receiver. Needs hop fields set before sealing.", False,
   "MISSED by C02's first version (hop fields were only changed after sealing). Strengthened: half of all frames get a random TTL and flow-control byte before they are sealed: genuine-rejected."),
 "c03-nokeys-drops-signing-seq": ("handling a `no encryption keys` error ping deletes the whole session of that router instead of its encryption half: the newest accepted time stamp of the signed class is forgotten and every earlier signed frame can be replayed. Needs the error ping between acceptance and replay, and per-frame session lookup.", False,
   "MISSED by C03's first version (it held on to one session object). Strengthened: the signed-class histories look the session up in the state for every frame, as the router does, and contain `nokeys` events (SeqWindow_Trace: the newest stamp is unchanged): trace/FrameV1.Unseal/signed/timestamp-order."),
 "c05-refused-frame-stale-addresses": ("a refused NewFrameV1 puts the frame object back into the pool with its cached addresses: the next frame the link reader parses into it is handed to the handler with correct bytes and another frame's SrcIP/DstIP. Needs a refused construction on the receiver before the frame arrives.", False,
   "MISSED by C05's first version (deliveries were compared as bytes; nothing was ever refused on the receiver). Strengthened: the drain compares what the handler sees (SrcIP, DstIP, type) with the frame's bytes, and a third of the links have refused constructions on every scheduler slot of the receiver before each frame: altered-frame-delivered. C17 catches the same mechanism."),
 "c06-packed-policy-key": ("the inbound policy key packs protocol and port into 32 bits with the port's high byte overlapping the protocol: (protocol, port) pairs that share the key with a configured service are admitted without a service.", True,
   "caught by the first version (the protocol sweep 0..255 hit colliding pairs); the wide port sweep added in this round (every port sharing a byte with the service's, thorough: all 65536) makes it systematic"),
 "c07-attachment-struct-reused": ("the per-layer attachment struct of the announce parser is reused across layers while the state keeps a POINTER into it: a relay first seen in a hop record ends up bound to the address and key of the next deeper relay, which can then produce pings `as` that relay. Needs a chain of 3+ relays with an unknown middle one.", False,
   "MISSED by C07's first version (no router was ever learnt through a hop record). Strengthened: variant `resealed-after-hop-learning` - router 5 is first heard of as a relay in a genuine 3-record announcement, then every ping type claims it, sealed by the next deeper relay: disconnect-down/resealed-after-hop-learning. C08 now also checks after every case that every session of the victim is bound to its own router's address and key (binding/none)."),
 "c08-refresh-keeps-old-path": ("AddRoute keeps the stored path when a re-learnt route has the same total delay: after a newer genuine announcement the route still carries the labels / per-hop delays signed for the older one. Needs a newer announcement over the same forwarders with a changed record and unchanged total.", False,
   "MISSED by C08's first version (every case started from an empty table). Strengthened: operator `renew` (GossipAuth): the earlier announcement with the forwarder's record at 1 ms is processed first, then the newer one with 3 ms and another forward label; the installed hops must be what the newer records say: stale-route/renew."),
 "c09-isrelay-skips-innermost": ("the forwarding rule's hop-list test skips the innermost relay: an announcement is sent to a router that is already in its hop list whenever a cycle that does not contain the origin exists. Functionally silent (the receiver drops it).", True,
   "caught by the first version: GossipMesh_Trace flooding rules on grids / ladders (flood-rule/grid)"),
 "c10-exact-fit-frame-dropped": ("the link reader treats a frame that exactly fills its pooled buffer (600 / 1600 / 5100 / 9600 bytes on the wire) as too big and discards it silently.", False,
   "MISSED by C10 (its meshes use virtual links that mimic the reader - a reader-only change is outside what it executes; recorded as a limit of C10 in DESIGN) and by C05's first version (no frame hit a buffer size exactly). Strengthened: C05 runs undisturbed links with every payload length T-140..T-20 around the four buffer sizes: every frame must arrive. Caught by C05 (see `also`)."),
 "c11-clean-evicts-peers": ("Clean() counts peer routes as excess of their routing prefix: with more direct peers in one prefix than its limit, Clean evicts peers.", True,
   "caught by the first version: RoutingTable.tla peers-never-evicted on the replayed graph"),
 "c12-buildblocks-reuses-dirty-block": ("BuildBlocks reuses the blocks a SwitchPath value already holds without zeroing: rebuilding a value (or a struct copy of it) with hops that encode shorter leaves stale bytes behind the labels. Fresh paths are always right.", False,
   "MISSED by C12's first version (every path was built on a fresh value). Strengthened: two thirds of the Go-PRNG paths are built on the value of the previous path (in place, or on a struct copy whose original must stay untouched); SwitchLabel_Trace's Build checks the blocks against the hops alone: trace/build."),
 "c13-nokeys-release-then-error": ("the `no encryption keys` branch of the traffic handler releases the frame and THEN returns an error when the error ping cannot be sent: the router worker logs on a released frame (panic) and releases it again. Needs traffic from a known router without keys to which no error ping can be routed.", False,
   "MISSED by C13's first version (no class combined `no keys` with `no way back`). Strengthened: class sealed/traffic-nokeys (known router without keys; half of the time with a privacy address, which is never routable), error-ping cool-downs aged before every input: panic/sealed/traffic-nokeys/slice-bounds."),
 "c14-send-lock-released-early": ("HelloPingHandler.Send releases its lock before the exchange is recorded as active: two packets for a router without keys handled at the same moment start two exchanges, and the responder's last served request is not the one the initiator completes. Local concurrency only.", False,
   "MISSED by C14's first version (Start was one atomic step in the driver as in the model). Strengthened: stage R-concurrent-start - four simultaneous Send calls, both delivery orders, 1500 rounds; judged by the property after the network drained: mismatch/concurrent-start/code."),
 "c15-check-before-decrypt": ("Unseal checks (and moves) the replay window before the frame is authenticated: a late old-key frame after the wrap moves the window back up, the next frame triggers a second key roll-over and the two ends never resync.", True,
   "caught by the first version: KeyRollover walks with reordering across the wrap"),
 "c16-zero-label-underivable-peer": ("assignSwitchLabel takes the derived label whenever it is not in use - also when NO label can be derived (about one address in 128): the link gets switch label 0.", False,
   "MISSED by C16's first version (none of its identities was of that class). Strengthened: every third two-router run uses an identity from whose address no label can be derived: zero-label."),
 "c17-clear-only-used-part": ("a released frame's buffer is only zeroed up to the frame's current end: a frame that shrank (shorter appendix, shorter reply) leaves old bytes behind, which show in the margins and clones of the next frame built there.", True,
   "caught by the first version: FramePool NoRemnant on the replayed walks"),
 "c18-unescape-html-in-json": ("the state encoder undoes HTML escaping on the raw JSON text: a stored string that contains the TEXT backslash-u0026 (or 003c / 003e) is written as an invalid escape and the next start refuses the file.", False,
   "MISSED by C18's first version (no such text among its strings) - and on the seeded tree the run ended exit 2, because a cleanly written file that does not load tripped a driver assertion. Strengthened: strings that look like escape sequences of the stored format; a cleanly saved generation that the loader refuses is a violation (reload-after-clean-save)."),
 "c19-svcb-answer-overwritten": ("the reply sections share one backing array: for an SVCB query the info TXT record overwrites the SVCB answer - the answer section carries no address.", False,
   "MISSED by C19's first version (an address anywhere in the message was enough). Strengthened: the record type that was asked for (AAAA, SVCB, both for ANY) must be in the ANSWER section with exactly the source's address: wrong-address."),
 "c20-blocking-escalate-on-stop": ("priority frames are handed from the switch to the router with a blocking send: a ping of the peer that arrives while the router module has stopped and the switch has not wedges a switch worker; Stop times out.", True,
   "caught by the first version: Lifecycle walks with two peered routers (failed to stop module timed out)"),
}
matrix = {}
for mp in ['/verif/seeded/MATRIX.txt', '/verif/seeded/MATRIX.txt.partial']:
    if os.path.exists(mp):
        for line in open(mp):
            parts = line.split(' ', 3)
            if len(parts) >= 3:
                matrix.setdefault(parts[0], [])
                if line.strip()[:400] not in matrix[parts[0]]:
                    matrix[parts[0]].append(line.strip()[:400])
for sid, (needs, first, caught) in R5.items():
    d = '/verif/seeded/' + sid
    if not os.path.isdir(d):
        print('missing', sid); continue
    prop = sid.split('-')[0].upper()
    log = [l.rstrip()[:300] for l in open(d + '/verify.log')][:5] if os.path.exists(d + '/verify.log') else []
    meta = {"seed": sid, "round": 5, "property": prop, "breaks": prop, "needs_to_manifest": needs,
            "caught_by": caught, "caught_by_first_version": first,
            "origin": "independent sub-agent given only the property text, the descriptions of the two earlier seeds for that property and its own scratch worktree of /repo (nothing from /verif)",
            "confirmed": {"log": log, "matrix": matrix.get(sid, [])},
            "ran": ["tools/seed_verify.sh", "tools/seed_matrix.sh (bin/check <property> --tier quick on /repo with the patch applied, then git checkout)"]}
    if os.path.exists(d + '/also'):
        meta["also_caught_by"] = open(d + '/also').read().split()
    json.dump(meta, open(d + '/meta.json', 'w'), indent=1)
print('ok')
