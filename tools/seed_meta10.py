#!/usr/bin/env python3
# writes meta.json for the round-10 seeds from verify.log + MATRIX.txt(.partial)
import json, os
R10 = {
 "c01-session-struct-reuse": ("the session cleaner puts removed Session structs on a free list and GetSession re-uses them without resetting the lazily created signing part: a session created for router B after a cleaner tick authenticates frames with the key of the router A that owned the struct before - (address B, key A) is not a self-certifying pair. Needs: A's session used for a signed frame, idle, cleaned; then a session for another router.", False, "@C01@"),
 "c02-out-lockfree-wrap-race": ("EncryptionSession.Out draws the sequence number without the session lock and reads the out cipher at the end: when several goroutines seal for one session across the wrap of the regular sequence, the frame numbered 0xFFFFFFFF can be sealed with the key of AFTER the roll-over - an untouched frame that does not unseal.", False, "@C02@"),
 "c03-refused-rekey-resets-window": ("InitKeyServer clears the sequence handlers before it validates the key-exchange type and share: a REFUSED key set-up on a session in use (unsupported exchange type, malformed share) leaves keys and ciphers in place but forgets the replay window - every frame accepted before unseals a second time.", False, "@C03@"),
 "c04-secret-dropped-without-universe": ("the configuration parser drops the universe secret when no universe name is configured: a router with a secret and no universe name completes the handshake with any router of the default universe that sends no proof at all.", False, "@C04@"),
 "c05-in-rollover-deferred": ("the incoming key roll-over is committed only after the frame authenticated, but RolloverRequired still resets the window for the unauthenticated sequence number: on a link whose receiver is within 256 of the wrap, one forged frame with a small clear sequence number empties the replay window while the key stays - recorded frames of that link are delivered again.", False, "@C05@"),
 "c06-delayed-frame-tolerated": ("the traffic handler tolerates ErrDelayedFrame from Unseal (which decrypts before it checks the sequence): a recorded traffic frame of an admitted sender is handed to the local interface again once the sender is more than 64 frames ahead.", False, "@C06@"),
 "c07-addrouter-installs-session": ("AddRouter also installs a fresh session object for a router it has just stored; its storage check-then-save is not atomic: two workers that handle copies of the first ping of an unknown router at the same moment each install a session of their own (with an empty time sequence) - both copies are accepted.", False, "@C07@"),
 "c08-shared-signing-context-buffer": ("the announce handler builds the 88-byte signing context in one scratch array shared by all router workers: while worker 1 verifies the hop records of announcement A, worker 2 handles announcement B - records signed for B are accepted inside A.", False, "@C08@"),
 "c09-expired-grace-dropped": ("AddRoute refuses gossip routes whose expiry lies in the past at once (the one-hour grace for origins with a lagging clock is gone): an honest router whose clock is 10-70 minutes slow is reachable for its direct peers only.", False, "@C09@"),
 "c10-lite-peers-make-stub": ("IsStub counts only non-lite peers: a router with one full peer and lite peers announces itself as a stub although it is the only relay of its lite peers; lite routers, which route everything through the nearest non-stub entry, can no longer send anything beyond it.", False, "@C10@"),
 "c11-format-sorts-live-table": ("RoutingTable.Format (the dashboard's table page) sorts `rt.entries` itself - the live backing array - by routing prefix: with nested routable prefixes the table is out of routing order until the next cleanup; lookups return other destinations, re-announcements are inserted as duplicates.", False, "@C11@"),
 "c12-stale-switchblock-cache": ("FrameV1 caches the switch block as a slice; moveToBiggerSlice (an appendix that does not fit the pooled buffer) does not refresh it: after the move the switch rotates the block inside the OLD, released buffer - the block on the wire is never rotated, bytes outside the frame are written.", False, "@C12@"),
 "c13-lock-order-route-lookup": ("RouteFrame filters routes by asking the link registry (GetLink) from inside the routing table's read lock, while AddLink/RemoveLink take the registry lock and then the table lock: link churn concurrent with routed traffic deadlocks a router worker and, behind it, the whole router.", False, "@C13@"),
 "c14-error-ping-rekeys-without-clearing": ("on a `no encryption keys` error ping the router starts a hello exchange itself and keeps the old session until it completes: if the response is lost, the sender keeps the OLD keys (so its next packet starts nothing) while the restarted peer holds new ones - both established, nothing decrypts.", True, "caught by the first version: KeySetup's schedules with a `no keys` error ping (action Forget / data / err) end in a mismatch the specification of the code does not allow: mismatch/divergent/code."),
 "c15-linkframe-no-check": ("LinkFrame.Unseal no longer calls Check on the link session: the receiver's highest sequence number never advances, so it never follows the sender's key roll-over (and link frames replay freely).", True, "caught by the first version: link sessions are driven over the wrap by the walks and install histories of C15: accepted-twice/LinkFrame/r."),
 "c16-setup-timeout-closes-before-add": ("accepted connections get a 10 s set-up timer whose Stop() result is ignored: a timer that fires after the last set-up message was read closes the link BEFORE AddLink registers it - a closing link stays registered (findable by peer and label, peer route kept) for good.", False, "@C16@"),
 "c17-reader-trims-pooled-slice": ("the link reader hands ParseFrame the pooled slice trimmed to the bytes read: an appendix grown in place on a frame that came from a real link is lost by Clone (bytes past the received length are zero), and the link margins are reported unavailable although the buffer has room.", False, "@C17@"),
 "c18-dns-removes-shadowed-mappings": ("dns.New deletes stored mappings whose name a higher-priority source answers (friend, resolve entry, API name): a mapping shadowed by a configuration change is gone from the state file after the next start and clean shutdown - only when the DNS server is constructed (tun enabled).", False, "@C18@"),
 "c19-failed-write-falls-back-nxdomain": ("when writing the positive reply fails once (write deadline, ENOBUFS) the handler falls back to replyNotFound: the client is told NXDOMAIN for a name that has a source, instead of nothing.", False, "@C19@"),
 "c20-setup-timeout-orphans-goroutine": ("outgoing link set-up runs on a raw goroutine that reports over an unbuffered channel, with a 10 s timeout in the caller: a handshake answered after more than 10 s leaves one goroutine blocked for ever (no manager counts it) and the routers never peer over a slow path.", False, "@C20@"),
}
CAUGHT = {}
cp = '/verif/tools/seed_meta10_caught.json'
if os.path.exists(cp):
    CAUGHT = json.load(open(cp))
matrix = {}
for mp in ['/verif/seeded/MATRIX.txt', '/verif/seeded/MATRIX.txt.partial']:
    if os.path.exists(mp):
        for line in open(mp):
            parts = line.split(' ', 3)
            if len(parts) >= 3:
                matrix.setdefault(parts[0], [])
                if line.strip()[:400] not in matrix[parts[0]]:
                    matrix[parts[0]].append(line.strip()[:400])
for sid, (needs, first, caught) in R10.items():
    d = '/verif/seeded/' + sid
    if not os.path.isdir(d):
        print('missing', sid); continue
    prop = sid.split('-')[0].upper()
    if caught.startswith('@'):
        caught = CAUGHT.get(prop, 'MISSED at first; strengthening in progress')
    log = [l.rstrip()[:300] for l in open(d + '/verify.log')][:5] if os.path.exists(d + '/verify.log') else []
    meta = {"seed": sid, "round": 10, "property": prop, "breaks": prop, "needs_to_manifest": needs,
            "caught_by": caught, "caught_by_first_version": first,
            "origin": "independent sub-agent given only the property text, the descriptions of the earlier seeds for that property and its own scratch worktree of /repo (nothing from /verif)",
            "confirmed": {"log": log, "matrix": matrix.get(sid, [])[-4:]},
            "ran": ["tools/seed_verify.sh (scratch worktree: build, existing tests, demo with / without the change)", "tools/seed_matrix_par.sh (bin/check <property> --tier quick in a scratch copy of /verif against a scratch worktree with the patch applied)"]}
    json.dump(meta, open(d + '/meta.json', 'w'), indent=1)
print('ok')
