#!/bin/bash
# seed_matrix.sh [seed-id ...]
# Regression over the kept seeded changes: applies each seeded/<id>/patch.diff to /repo, runs the quick check of
# the seed's own property (and the extra checks named in seeded/<id>/also, if any), undoes the change straight
# afterwards, and records exit code + first VIOLATION line in seeded/MATRIX.txt.  /repo must be clean; nothing
# else may run against /repo while this does.  Evidence/replays written meanwhile are scratch: refresh afterwards.
set -u
cd /verif || exit 2
if [ -n "$(git -C /repo status --porcelain)" ]; then echo "/repo is not clean" >&2; exit 2; fi
ids=("$@"); if [ ${#ids[@]} -eq 0 ]; then ids=($(ls seeded | grep -v MATRIX)); fi
out=seeded/MATRIX.txt; tmp=$(mktemp)
miss=0
for id in "${ids[@]}"; do
  d=seeded/$id; [ -f "$d/patch.diff" ] || continue
  prop=$(echo "$id" | cut -d- -f1 | tr a-z A-Z)
  props="$prop"; [ -f "$d/also" ] && props="$props $(cat $d/also)"
  for p in $props; do
    git -C /repo apply "/verif/$d/patch.diff" || { echo "$id $p patch-does-not-apply" >> "$tmp"; continue; }
    log=.work/matrix.$id.$p.log; mkdir -p .work
    timeout 1800 bin/check "$p" --tier quick > "$log" 2>&1; rc=$?
    git -C /repo checkout -- .
    v=$(grep -A1 '^VIOLATION' "$log" | grep 'what:' | head -1 | cut -c1-220)
    n=$(grep -c '^VIOLATION' "$log")
    echo "$id $p exit=$rc violations=$n $v" | tee -a "$tmp"
    if [ "$p" = "$prop" ] && [ $rc -ne 1 ]; then miss=$((miss+1)); fi
    [ "$p" = "$prop" ] && cp "$log" "$d/check_quick.log"
    rm -f "$log"
  done
done
if [ $# -eq 0 ]; then mv "$tmp" "$out"; else cat "$tmp" >> "$out.partial"; rm -f "$tmp"; fi
echo "own-property misses: $miss"
[ -z "$(git -C /repo status --porcelain)" ] || { echo "/repo left dirty" >&2; exit 2; }
exit 0
