#!/usr/bin/env python3
# writes meta.json for the round-7 seeds from verify.log + MATRIX.txt(.partial)
import json, os
R7 = {
 "c01-ipv4-address-accepted": ("VerifyAddress tests only the first byte of the address and compares the digest over len(ip) bytes: an IPv4 address 253.x.y.z made of the first four bytes of a digest that begins with fd is accepted (from a stored form or a CBOR hop record).", False,
   "MISSED at first (every `outside` address was a 16-byte one). Strengthened: a third of the `outside` identities are IPv4 addresses 253.x.y.z ground from a digest beginning with fd, a third carry an IPv6 zone: forged-identity-accepted (config / hop entry)."),
 "c02-seq-precheck-before-verify": ("Unseal of the signed class pre-checks the time stamp BEFORE the signature: a tampered or forged hop ping with the stamp of the newest accepted frame gets `immediate duplicate` - the one error the router's ping parser tolerates for hop pings - and is handed to its handler.", False,
   "MISSED at first (the frame-level sweep only looked at err != nil; C07 has the router-level variant). Strengthened: stage T sees hop pings as their consumer does - event field `dup` (handed on because of the duplicate tolerance): only an UNALTERED copy of the newest accepted frame may get that far (FrameSeal_Trace)."),
 "c03-clock-lead-reanchor": ("TimeSequenceHandler.Check re-anchors when the newest stamp is more than 24 h ahead of the receiver's clock: older signed frames are accepted again, in any order.", False,
   "MISSED at first (all stamps were within 40 ms of the receiver's clock). Strengthened: in half of the signed histories the sender's clock is not the receiver's - stamps 25 h, 48 h, 10 d ahead and 25 h, 69 h behind are mixed in; the rule is about stamps alone: timestamp-order."),
 "c04-universe-equalfold": ("the universe names are compared with strings.EqualFold: routers of universes that differ only in letter case peer (the proof hashes the requester's spelling, so a shared secret does not help).", False,
   "MISSED at first (the model had universes u and v). Strengthened: a third universe `U` - different, equal under case folding - in Handshake.tla (48 more configurations, none may register): config/U."),
 "c05-reader-spare-room-hangs": ("the link reader asks the pool for 256 bytes more than the frame: for a length prefix of 65420+ the pool has no slice and the discard loop spins on zero-length reads forever - the link stays up and delivers nothing.", True,
   "caught by the first version: LinkLayer garbage units with maximal length prefixes (intact later frames keep arriving or the link is closed)"),
 "c06-exthdr-len-wraps": ("IPv6 extension headers are now skipped to find the transport header, with the header length computed in uint8: at Hdr Ext Len 255 the offset does not advance and the `ports` are read from the extension header's own option bytes, which the sender chooses.", False,
   "MISSED at first (no packet carried an extension header). Strengthened: variant `exthdr` - every TCP/UDP `ok` case again with 1-2 Hop-by-Hop / Routing / Destination-Options headers of Hdr Ext Len 0, 1, 254, 255 whose option bytes spell the port of another service; only-if clause (TrafficPolicy_Trace): admitted/exthdr."),
 "c07-hello-response-by-id": ("hello responses are matched by ping ID alone and applied to the remote stored in the exchange: a third authenticated router that saw the ID answers in its own name and re-keys the victim's session with X.", False,
   "MISSED at first (every non-authentic variant claimed X as its source). Strengthened: variant `answered-by-another` in ControlPlane.tla - a genuine hello response of another known router, in its own name, echoing the ID of the victim's open exchange with X: hello-resp/answered-by-another."),
 "c08-duplicate-signer-skipped": ("while copying the verified hop records into the route, a record whose router is already listed is skipped: the route names the SET of signers, not the sequence of signed records.", False,
   "MISSED at first (duprec duplicated another router's record, which is refused anyway). Strengthened: operator `wraptwice` in GossipAuth.tla - the forwarder attaches two genuine records of its own; accepted, and the route lists both: wrong-route/wraptwice."),
 "c09-shared-signing-context": ("the announce handler's signing context became a shared array field: two router workers of one relay handling announcements at the same moment sign forwarded copies under the wrong announcement's context - receivers behind that relay never learn the origin.", False,
   "MISSED at first (meshes deliver one frame at a time). Strengthened: stage T-concurrent-workers - stars, double stars and trees in which all frames in flight for one router are handled by as many REAL router workers at once (world.DeliverConcurrent), reach judged by TLC: reach/concurrent-star."),
 "c10-unknown-dst-ttl": ("pings to a destination the origin has no session for (signed raw) leave with TTL 64 instead of 32.", False,
   "MISSED at first (all originated frames went to known routers). Strengthened: over the arbitrary tables of stage R the router itself originates a request to the absent router it has never heard of: ttl-or-bound/tlc-routed."),
 "c11-new-destination-kept-on-error": ("for a NEW destination the switch blocks are built after the entry was inserted: a path that cannot be built returns `not added` and stays in the table.", False,
   "MISSED at first (only buildable paths were added). Strengthened: one gossip route in eight of stage T-nested carries a path that must be refused (return label on the first hop, forward label on the last, labels beyond 255 bytes): P2 of RoutingTableNested_Trace: nested/add."),
 "c12-addroute-reuses-blocks": ("AddRoute takes over the switch blocks of a table entry that RouteEquals the new one - which never compares labels: a route re-learnt with other labels keeps the old blocks.", False,
   "MISSED at first (paths were built directly, never through the routing table). Strengthened: tableRoutes - routes added and re-learnt with other / wider / narrower labels over the same relays; every table entry is a `build` event: its blocks must be the blocks of ITS hops: trace/build."),
 "c13-short-challenge-sliced": ("the challenge echoed in the peering response is sliced to 32 bytes while only 16 are required: a correctly signed request with a 16-31 byte challenge panics the link set-up worker.", False,
   "MISSED at first (the amplifier values of signed-fields were huge or empty). Strengthened: sizes around the handshake's own limits (15, 16, 20, 31, 33 bytes; 8-64 in the random part): panic/link-mid/signed-fields."),
 "c14-serving-abandons-own-exchange": ("serving the peer's hello request marks the router's own open exchange done: with both initiating at once and one response lost, the surviving response is refused - both set up, keys differ.", True,
   "caught by the first version: KeySetup cover paths (both start, one response dropped): mismatch/.../code"),
 "c15-server-reuses-exchange-key": ("InitKeyServer reuses its ephemeral key when the client's share equals the previous one: the same keys are derived again and the sequence handlers reset - frames restart at 1 under an unchanged key.", False,
   "MISSED at first (every set-up used fresh client shares). Strengthened: histories of repeated key set-ups on one session pair (fresh shares, and a request that is served a second time) with frames sealed in between on both sides; `sealed2` events of KeyRollover_Trace: rekey-nonce."),
 "c16-close-before-workers-skips-removal": ("Link.Close only calls RemoveLink when a `registered` flag is set, which startWorkers sets: a plain Close between AddLink and startWorkers leaves the closed link registered, with its route, for good.", False,
   "MISSED at first (the close injected into the AddLink window was always the manager's CloseLink, which removes the link itself). Strengthened: half of these closes are plain Link.Close calls (as the keep-alive worker does): dead-link-found-by-peer."),
 "c17-newframe-keeps-recvlink": ("initFrame no longer resets the receive link (moved into Reply / ReplyTo): a frame built by NewFrameV1 on a recycled frame object exposes the link of the frame released before.", True,
   "caught by the first version: FramePool NoRemnant (link of a new frame must be none)"),
 "c18-writable-probe-creates-empty-file": ("mycoria.New probes the state path for writability and thereby creates a zero-byte state file where none existed: a router killed before its first completed save refuses to start the next time.", False,
   "MISSED at first (the check worked on the storage package only). Strengthened: stage R-instance - a whole router constructed (and started) by mycoria.New in a child process that is killed before it ever saves, on a path without and with a state file; the next construction on that path must succeed: instance-refuses-to-start."),
 "c19-second-friend-name-dropped": ("a `skip repeated entries` guard in the friend loop of the configuration parser also skips recording the NAME: a second name for an already listed friend router is no friend name - a stored mapping answers for it.", False,
   "MISSED at first (one name per friend router). Strengthened: in half of the friend cases the friend has an earlier entry under another name: no-answer / wrong-source."),
 "c20-pong-cleaner-self-deadlock": ("PingPongHandler.Clean walks its map under the read lock and removes expired states through a function that takes the write lock: the first expired, unanswered pong wedges the `clean ping handlers` worker for good (60 s after start at the earliest).", False,
   "MISSED at first (no scenario lives 60 s, no pong goes unanswered). Strengthened: cleanerTick - after peering each running router sends a request to a router that does not exist, its 30 s are run out and one tick of the cleaner is executed (guarded hooks 5c246d5): cleaner-wedged; the run ends at once."),
}
matrix = {}
for mp in ['/verif/seeded/MATRIX.txt', '/verif/seeded/MATRIX.txt.partial']:
    if os.path.exists(mp):
        for line in open(mp):
            parts = line.split(' ', 3)
            if len(parts) >= 3:
                matrix.setdefault(parts[0], [])
                if line.strip()[:400] not in matrix[parts[0]]:
                    matrix[parts[0]].append(line.strip()[:400])
for sid, (needs, first, caught) in R7.items():
    d = '/verif/seeded/' + sid
    if not os.path.isdir(d):
        print('missing', sid); continue
    prop = sid.split('-')[0].upper()
    log = [l.rstrip()[:300] for l in open(d + '/verify.log')][:5] if os.path.exists(d + '/verify.log') else []
    meta = {"seed": sid, "round": 7, "property": prop, "breaks": prop, "needs_to_manifest": needs,
            "caught_by": caught, "caught_by_first_version": first,
            "origin": "independent sub-agent given only the property text, the descriptions of the earlier seeds for that property and its own scratch worktree of /repo (nothing from /verif)",
            "confirmed": {"log": log, "matrix": matrix.get(sid, [])},
            "ran": ["tools/seed_verify.sh (scratch worktree: build, existing tests, demo with / without the change)", "tools/seed_matrix_par.sh (bin/check <property> --tier quick in a scratch copy of /verif against a scratch worktree with the patch applied)"]}
    json.dump(meta, open(d + '/meta.json', 'w'), indent=1)
print('ok')
