#!/usr/bin/env python3
# writes meta.json for the round-6 seeds from verify.log + MATRIX.txt(.partial) (run after tools/seed_matrix_par.sh)
import json, os
R6 = {
 "c01-attachment-hoisted": ("the per-layer attachment struct of the announce parser is hoisted out of the loop while the state keeps a pointer into it (the mechanism a round-5 C07 seed used, found independently from the C01 text): after one well-formed announcement with 2+ hop records the stored record and session of an unknown router that is NOT the innermost record hold the next deeper router's identity.", False,
   "MISSED by C01's first version (its hop entry presented the identity as the innermost of two records; C07 and C08 caught it as it was). Strengthened: half of the hop presentations put the presented identity in the MIDDLE of three records, above the genuine record of a router nobody has heard of: forged-identity / wrong bound key."),
 "c02-verify-cache-without-key": ("a cache of the last verified signature in the frame builder whose key leaves out the public key: a signed frame first unsealed under its real sender's session unseals under ANY other sender's session right afterwards. Needs the genuine unseal first, then a byte-identical copy under another session with nothing verified in between.", True,
   "caught by the first version: FrameSeal session relation `otherSender` after the genuine unseal"),
 "c03-check-before-open": ("FrameV1.Unseal runs the replay-window check BEFORE the AEAD open: a damaged or forged copy of frame N+1 marks N+1 as seen and the intact frame is refused; a late frame across a re-key or the wrap moves the window. Genuine-only histories behave as before.", False,
   "MISSED by C03's first version (only genuine frames and exact duplicates were delivered; C15 and C02 caught it as it was). Strengthened: event `forged` (SeqWindow_Trace): copies with a flipped bit in the MAC or the sequence field - of the frame about to arrive or of one up to 300 ahead - are delivered in between, must be refused and must leave no trace: fresh-in-window-rejected."),
 "c04-verify-address-after-addrouter": ("VerifyAddress moved behind GetSession/AddRouter: a first connection presenting P's address with M's key is refused but leaves P's address bound to M's key; a second connection presenting P's genuine identity, signed by M, is accepted - a link to P is registered although P never spoke.", False,
   "MISSED by C04's first version (its insiders spoke for themselves, one connection each; C01 caught it as it was). Strengthened: HandshakeImpersonate.tla (claimed address x history of 3 connections x victim knows P or not x secret; the order `store before verify` is the negative control TLC refutes in 2 connections), all 96 connections scripted against persistent real victims: impersonate/swapped."),
 "c05-window-moves-unauthenticated": ("LinkFrame.Unseal checks the replay window on the clear sequence number before the frame is authenticated, and the reader no longer counts sequence errors towards its 100-error limit: one injected frame with a forged sequence number black-holes the link for good while it stays up.", True,
   "caught by the first version: LinkLayer plans with a corrupted frame followed by intact ones (intact later frames keep arriving or the link is closed)"),
 "c06-hello-launders-verdict": ("a successful hello exchange turns `unreachable` connection entries back to `allowed` - and an `unreachable` error ping (from anybody, about anybody) overwrites cached `prohibited`/`denied` verdicts first: prohibited -> unreachable -> allowed. Needs the cached verdict, the error ping and the hello, then the same packet again.", False,
   "MISSED by C06's first version (every packet met a fresh connection table). Strengthened: the ConnTrack behaviours (cached verdicts, error pings, time, cleaner, and now hello exchanges) are executed on a real router as a stage of C06 and what the local host and the mesh saw is judged over the whole history by ConnTrackPolicy_Trace: history/in, history/out."),
 "c07-reorder-tolerance": ("TimeSequenceHandler.Check tolerates signed frames up to 250 ms older than the newest accepted one without remembering which it has seen: any genuine ping inside that band can be replayed at will.", True,
   "caught by the first version: ControlPlane variant replayed (a genuine older ping after a newer one)"),
 "c08-hop-record-cache-without-context": ("a cache of verified hop records keyed by the record bytes only (without the signing context): a record verified once for one announcement is accepted inside any other announcement. Needs the victim to have processed the announcement the record is taken from.", False,
   "MISSED by C08's first version (splice operators ran against a victim that had processed the genuine TARGET announcement, never the SOURCE of the spliced record). Strengthened: `spliceorigin` after the other origin's announcement was processed, `splicetime` as the earlier (processed) record inside the newer announcement: forgery-accepted/splicetime."),
 "c09-sent-back-to-origin": ("the forwarding filter lost its `do not send to the announcing router` case: a relayed variant of an announcement is sent over the direct link back to its origin whenever a cycle contains the origin (functionally silent: the origin drops it).", True,
   "caught by the first version: GossipMesh_Trace flooding rules (flood-rule/ring, tlc-3, tlc-4)"),
 "c10-stale-route-cache": ("RouteFrame caches the last routing decision per destination while the next hop's link is up: after the topology changed (new direct link, old path gone) frames still go the old way and are dropped there. Needs traffic, then a change that keeps the old next hop's link, then traffic again.", False,
   "MISSED by C10's first version (meshes were built once and only used). Strengthened: between two all-pairs rounds on RUNNING routers a link comes up between routers at distance two, one link of the old path goes down, everybody announces again; pairs whose tables have converged on the new topology are asked again: no-reply/converged-*."),
 "c11-clean-prescan-nested-prefix": ("Clean() returns early when a pre-scan over the destination-sorted table finds no routing prefix over its limit - counting RUNS of equal prefixes: with nested routable prefixes (the own prefix in the middle of its region, as the router configures them) the region's entries are split in two runs and the excess is never removed.", False,
   "MISSED by C11's first version (one flat routable prefix per table). Strengthened: stage T-nested - tables with three nested prefix levels and small limits, 60/1500 random histories, every clause judged by RoutingTableNested_Trace with routing prefix and limit derived by the driver from the configuration: nested/clean."),
 "c12-overlong-forward-not-refused": ("CalculateBlockSize became a sliding window whose `> 255` refusal only looks at later rotation states: a path whose FORWARD labels alone exceed 255 bytes (86+ three-byte hops) is no longer refused.", True,
   "caught by the first version: SwitchLabel over-long paths must be refused (build-not-refused)"),
 "c13-sendpriority-blocks": ("LinkBase.SendPriority waits for room in the 100-slot priority queue instead of dropping: a peer that stops reading its connection and keeps sending requests that need a reply wedges every router worker.", False,
   "MISSED by C13's first version (virtual links never block; the real-link classes only injected bytes). Strengthened: class link-post/peer-stops-reading - a real link whose far end stops reading after the handshake, 150-400 real pong requests through the real reader, switch handler and router worker: stalled."),
 "c14-stale-window-after-rekey": ("SequenceHandler.Reset returns early when the handler never SENT anything: a router that has only received under the old keys keeps its replay window across a re-key and refuses the peer's frames 1..k. Both ends have identical keys.", False,
   "MISSED by C14's first version (observations always tried both directions, which makes every router a sender; no router ever lost its keys on its own). Strengthened: action Forget in KeySetup.tla, the orderly re-keying sub-graph (NextRekey) replayed with one-way and two-way flows of 3 frames as observations: mismatch/A=client,B=server/code."),
 "c15-in-rollover-resets-out-counter": ("the receiver-side roll-over (peer's counter wrapped) now also zeroes this side's OUTGOING regular counter while its out key stays: frames restart at 1 under the same key - nonce reuse.", True,
   "caught by the first version: KeyRollover duplex walks (accepted-twice / nonce reuse)"),
 "c16-route-after-register": ("AddLink registers the link under the lock and adds the peer route after releasing it: a close by the manager that lands in between removes the registration (no route yet), then the route is added - a peer route without a live link, for good.", False,
   "MISSED by C16's first version (no scheduling point between registration and route; the enforced schedules hold whole AddLink calls). Strengthened: world.Node.OnRoutingTable - the close is started from inside the registry's access to the routing table and given 30 ms to get through (it cannot on a correct registry): peer-route-without-live-link."),
 "c17-refused-parse-double-return": ("a refused ParseFrameV1 returns the frame object AND the caller's buffer to the pools; the link reader hands its buffer back too: the buffer is pooled twice and the next two frames of that size share it.", False,
   "MISSED by C17's first version (refused constructions were only NewFrameV1 ones). Strengthened: refusedParse - a malformed version-1 frame (lengths beyond the data) parsed on a pooled buffer that its owner then hands back, before new/parse operations: NoSharing."),
 "c18-prune-on-load": ("the JSON storage loader calls Prune after loading, and Prune deletes every router that was never looked up before it looks at its limit: stored routers that were only saved are gone after a restart.", True,
   "caught by the first version: StateFile round trip (saved state = reloaded state)"),
 "c19-short-name-panics": ("the `.myco` gate slices the last six bytes of the name before checking its length: any query name shorter than six bytes panics the handler - no reply at all.", True,
   "caught by the first version (no-reply for `myco.`) - but the check needed 15+ minutes on the seeded tree because every silent query cost a 2 s timeout; wire probes now use 400 ms + one slow retry and stop after a dozen silent queries (47 s)."),
 "c20-universe-case-folded": ("universe names are lower-cased on the wire and in the comparison, but the universe proof still hashes the name as configured on one side and as received on the other: routers in a universe with an upper-case letter AND a secret never peer.", False,
   "MISSED by C20's first version (universes were `verse0..2`). Strengthened: five spellings of the universe name (case, blank, non-ASCII, 64 characters) x secret yes/no, one both-up / peer / stop walk each: no-peering."),
 "c13-pong-retry-double-close": (None, None, None),
 "c20-links-copied-under-wrong-lock": (None, None, None),
}
matrix = {}
for mp in ['/verif/seeded/MATRIX.txt', '/verif/seeded/MATRIX.txt.partial']:
    if os.path.exists(mp):
        for line in open(mp):
            parts = line.split(' ', 3)
            if len(parts) >= 3:
                matrix.setdefault(parts[0], [])
                if line.strip()[:400] not in matrix[parts[0]]:
                    matrix[parts[0]].append(line.strip()[:400])
for sid, (needs, first, caught) in R6.items():
    d = '/verif/seeded/' + sid
    if not os.path.isdir(d):
        print('missing', sid); continue
    if needs is None:
        m = json.load(open(d + '/meta.json'))
        m.setdefault("confirmed", {})["matrix"] = matrix.get(sid, [])
        json.dump(m, open(d + '/meta.json', 'w'), indent=1)
        continue
    prop = sid.split('-')[0].upper()
    log = [l.rstrip()[:300] for l in open(d + '/verify.log')][:5] if os.path.exists(d + '/verify.log') else []
    meta = {"seed": sid, "round": 6, "property": prop, "breaks": prop, "needs_to_manifest": needs,
            "caught_by": caught, "caught_by_first_version": first,
            "origin": "independent sub-agent given only the property text, the descriptions of the earlier seeds for that property and its own scratch worktree of /repo (nothing from /verif)",
            "confirmed": {"log": log, "matrix": matrix.get(sid, [])},
            "ran": ["tools/seed_verify.sh (scratch worktree: build, existing tests, demo with / without the change)", "tools/seed_matrix_par.sh (bin/check <property> --tier quick in a scratch copy of /verif against a scratch worktree with the patch applied)"]}
    if os.path.exists(d + '/also'):
        meta["also_caught_by"] = open(d + '/also').read().split()
    json.dump(meta, open(d + '/meta.json', 'w'), indent=1)
print('ok')
