#!/bin/bash
# seed_verify.sh <seed-id> <PROPERTY> <agent-worktree> <demo-dest-dir-in-repo> <demo go test args...>
# Confirms in a fresh scratch worktree that the seeded change compiles, passes the existing tests, that the
# demonstration fails with it and passes without it; then runs the property's quick check against it.
set -u
id="$1"; prop="$2"; wt="$3"; dest="$4"; shift 4
. /verif/bin/goenv.sh
out=/verif/seeded/$id; mkdir -p "$out"
cp "$wt"/SEED/patch.diff "$out"/patch.diff
for f in "$wt"/SEED/*; do case "$f" in *patch.diff) ;; *) cp -r "$f" "$out"/ ;; esac; done
v=/tmp/wt/v-$id; git -C /repo worktree remove --force "$v" 2>/dev/null; git -C /repo worktree add -q "$v" HEAD || exit 2
res() { echo "$1" | tee -a "$out/verify.log"; }
: > "$out/verify.log"
cd "$v" || exit 2
git apply "$out/patch.diff" || { res "patch does not apply"; exit 2; }
$GO build ./... && res "build: OK" || res "build: FAIL"
if $GO test -vet=off -count=1 ./... > /tmp/wt/v-$id.tests 2>&1; then res "existing tests: PASS"; else
  # m.TestTable is known flaky on the pinned tree; retry once
  if $GO test -vet=off -count=1 ./... > /tmp/wt/v-$id.tests 2>&1; then res "existing tests: PASS (second run)"; else res "existing tests: FAIL"; tail -5 /tmp/wt/v-$id.tests | tee -a "$out/verify.log"; fi; fi
demo=$(ls "$out"/*_test.go | head -1)
mkdir -p "$v/$dest"; cp "$demo" "$v/$dest/zz_seed_demo_test.go"
if $GO test -vet=off -count=1 "$@" ./$dest/ > /tmp/wt/v-$id.demo1 2>&1; then res "demo with change: PASS (unexpected)"; else res "demo with change: FAIL (expected)"; fi
git apply -R "$out/patch.diff"
if $GO test -vet=off -count=1 "$@" ./$dest/ > /tmp/wt/v-$id.demo2 2>&1; then res "demo without change: PASS (expected)"; else res "demo without change: FAIL (unexpected)"; tail -5 /tmp/wt/v-$id.demo2; fi
cd /verif
git -C /repo worktree remove --force "$v"
# the property's quick check against the seeded change (scratch worktree + scratch copy of /verif; /repo untouched)
tools/seed_matrix_par.sh -j 1 "$id" > "$out/matrix_run.log" 2>&1
rc=$(grep "^$id $prop " "$out/matrix_run.log" | head -1 | sed 's/.*exit=\([0-9]*\).*/\1/')
rm -f "$out/matrix_run.log"
res "bin/check $prop --tier quick on the seeded tree: exit $rc"
grep -E "^VIOLATION|^  what" "$out/check_quick.log" | head -6 | cut -c1-300 | tee -a "$out/verify.log"
