\* C03 stage M: exhaustive, window 4, numbers 1..9, up to 7 deliveries.
CONSTANTS
  W = 4
  MaxSeq = 9
  MaxLen = 7
  Reach = 0
  RecordOnShift = TRUE
INIT Init
NEXT Next
VIEW View
INVARIANTS TypeOK Refines HighestIsNewest NewestIsMax
PROPERTIES AtMostOnceA AcceptsFreshA
