SPECIFICATION Spec
CONSTANTS
  DoneFlag = TRUE
  MaxFails = 5
  MaxCalls = 3
  MaxExtra = 3
  MaxLoss = 2
  Workers = {1}
  AllowClean = FALSE
  AtomicHandle = TRUE
  AllowTxErr = FALSE
INVARIANTS TypeOK NoPanic ActiveOwn
CHECK_DEADLOCK FALSE
