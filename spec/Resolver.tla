------------------------------ MODULE Resolver ------------------------------
(***************************************************************************)
(* The built-in name resolver (api/dns/dns.go handleRequest / Lookup),      *)
(* serving C19.  A query is (name kind, top-level domain, type, class); a    *)
(* configuration says in which of the three configurable sources the name    *)
(* occurs (resolve entries, friends, stored mappings), each source holding a *)
(* different address so that the answering source is identifiable.           *)
(* TLC enumerates the whole product as one case each.                        *)
(***************************************************************************)
EXTENDS Integers, Sequences, FiniteSets, TLC, Json

Kinds == {"api", "forbidden", "plain"}       \* router.myco / wpad.myco / anything else
Tlds == {"myco", "org", "myco-only", "none", "no-question"}
  \* x.myco / x.org / the name "myco" itself / a bare label / a message whose question section is empty
Types == {"A", "AAAA", "SVCB", "HTTPS", "ANY", "MX", "TXT", "PTR", "T65535"}
Classes == {"IN", "ANY", "CH", "HS", "NONE"}
AddrTypes == {"A", "AAAA", "SVCB", "HTTPS", "ANY"}

VARIABLES phase, act
vars == <<phase, act>>
Init == phase = "start" /\ act = [name |-> "init"]

(* first matching source in the fixed order *)
Lookup(kind, inRes, inFr, inMap) ==
  IF kind = "api" THEN "internal"
  ELSE IF inRes THEN "resolve-config"
  ELSE IF kind = "forbidden" THEN "forbidden"
  ELSE IF inFr THEN "friend"
  ELSE IF inMap THEN "mapping"
  ELSE "none"
Answered(src) == src \in {"internal", "resolve-config", "friend", "mapping"}
Answer(kind, tld, ty, cl, inRes, inFr, inMap) ==
  IF tld # "myco" \/ ty \notin AddrTypes \/ cl \notin {"IN", "ANY"} THEN "nxdomain"
  ELSE LET src == Lookup(kind, inRes, inFr, inMap) IN IF Answered(src) THEN src ELSE "nxdomain"

Case(kind, tld, ty, cl, inRes, inFr, inMap) ==
  /\ phase' = "done"
  /\ act' = [name |-> "case", kind |-> kind, tld |-> tld, type |-> ty, class |-> cl,
             inres |-> inRes, infr |-> inFr, inmap |-> inMap,
             answer |-> Answer(kind, tld, ty, cl, inRes, inFr, inMap),
             nomap |-> Answer(kind, tld, ty, cl, inRes, inFr, FALSE)]
Next == phase = "start" /\ \E kind \in Kinds, tld \in Tlds, ty \in Types, cl \in Classes, inRes \in BOOLEAN, inFr \in BOOLEAN, inMap \in BOOLEAN :
          Case(kind, tld, ty, cl, inRes, inFr, inMap)
Spec == Init /\ [][Next]_vars

(* Properties (C19). *)
OnlyMyco == act.name = "case" /\ act.tld # "myco" => act.answer = "nxdomain"
OnlyAddressQueries == act.name = "case" /\ (act.type \notin AddrTypes \/ act.class \notin {"IN", "ANY"}) => act.answer = "nxdomain"
(* a stored mapping never changes the answer of a name a higher source knows *)
NoShadow == act.name = "case" /\ (act.kind # "plain" \/ act.inres \/ act.infr) => act.answer = act.nomap
MappingOnlyLast == act.name = "case" /\ act.answer = "mapping" => act.kind = "plain" /\ ~act.inres /\ ~act.infr

DumpEdge == PrintT("EDGE " \o ToJson(phase) \o "\t" \o ToJson(act') \o "\t" \o ToJson(<<phase', act'>>))
=============================================================================
