------------------------------ MODULE KeepAlive ------------------------------
(***************************************************************************)
(* X03 - the keep-alive check of one link (router/keepalive.go,            *)
(* keepAlivePeer) on top of the pong matcher (router/ping_pong.go). It     *)
(* serves no listed property: it is the part of the router that decides    *)
(* when a link "seems down" and closes it - the source of the local closes *)
(* C16 quantifies over - and it composes PingPong (retries re-use ONE ping  *)
(* ID, so a late response to an earlier attempt answers a later one) with  *)
(* timers and the link's byte counter.                                     *)
(*                                                                         *)
(* One action per step of the loop in keepAlivePeer:                       *)
(*   Top      the head of the loop: abort when the link is closing; after  *)
(*            Limit failures close the link unless it received data since  *)
(*            the check began; otherwise send (SendOK / SendErr)           *)
(*   Notified the select woke up on the notify channel                     *)
(*   Timeout  the select woke up on its timer (1+2*fails seconds)          *)
(* and the environment: the peer answers a request (PeerAnswer), a frame   *)
(* is lost (Lose), the router worker handles a response (HandleResp: pluck *)
(* the state of the ping ID and close its channel, "no state" otherwise),  *)
(* other data arrives on the link (Data), somebody else closes the link    *)
(* (OtherClose).                                                           *)
(*                                                                         *)
(* Time is abstracted by promises: when the environment promises to answer *)
(* attempt k in time, the timer of that wait cannot fire before the        *)
(* response was handled. "elapsed" adds up the seconds spent in time-outs  *)
(* and pauses.                                                             *)
(* Deviations named: Send is atomic here (its three steps are PingPong's   *)
(* subject); the pong cleaner (30 s) cannot run inside a check of 25 s and *)
(* is left out.                                                            *)
(***************************************************************************)
EXTENDS Integers, FiniteSets, TLC

VARIABLES
  fast,      \* the fast check (first check after the device slept): one failure is enough
  pc,        \* "top" | "wait" | "ok" | "alive" | "closed" | "aborted"
  fails,     \* the loop's failure counter
  att,       \* requests put on the wire so far
  senderrs,  \* sends that were refused
  req,       \* attempts whose request is on the wire
  resp,      \* attempts whose response is on the wire
  promised,  \* attempts the environment answers in time
  held,      \* the state object the check waits on is the entry of its ping ID
  chClosed,  \* the notify channel the check holds is closed
  heard,     \* link.BytesIn() > bytesRcvd: something arrived on the link since the check began
  closing,   \* link.IsClosing()
  byOther,   \* somebody else closed the link
  elapsed,   \* seconds spent waiting
  answered,  \* history: attempts whose response was handled while a state existed
  act        \* output: what the last step did

vars == <<fast, pc, fails, att, senderrs, req, resp, promised, held, chClosed, heard, closing, byOther, elapsed, answered, act>>

Limit == IF fast THEN 1 ELSE 5
Final == {"ok", "alive", "closed", "aborted"}
Att == 1..5

Init ==
  /\ fast \in BOOLEAN
  /\ pc = "top" /\ fails = 0 /\ att = 0 /\ senderrs = 0
  /\ req = {} /\ resp = {} /\ promised = {}
  /\ held = FALSE /\ chClosed = FALSE
  /\ heard = FALSE /\ closing = FALSE /\ byOther = FALSE
  /\ elapsed = 0 /\ answered = {}
  /\ act = [name |-> "init"]

(* ---- the check ---- *)
Abort ==
  /\ pc = "top" /\ closing
  /\ pc' = "aborted" /\ act' = [name |-> "abort"]
  /\ UNCHANGED <<fast, fails, att, senderrs, req, resp, promised, held, chClosed, heard, closing, byOther, elapsed, answered>>

GiveUp ==
  /\ pc = "top" /\ ~closing /\ fails >= Limit
  /\ IF heard
       THEN pc' = "alive" /\ closing' = closing /\ act' = [name |-> "alive"]
       ELSE pc' = "closed" /\ closing' = TRUE /\ act' = [name |-> "close"]
  /\ UNCHANGED <<fast, fails, att, senderrs, req, resp, promised, held, chClosed, heard, byOther, elapsed, answered>>

\* PingPong.Send with the ping ID of the first attempt: the state of that ID if it is still there, a new one otherwise
SendOK(p) ==
  /\ pc = "top" /\ ~closing /\ fails < Limit
  /\ att' = att + 1
  /\ req' = req \cup {att + 1}
  /\ promised' = IF p THEN promised \cup {att + 1} ELSE promised
  /\ held' = TRUE
  /\ chClosed' = IF held THEN chClosed ELSE FALSE
  /\ pc' = "wait"
  /\ act' = [name |-> "send", k |-> att + 1, promise |-> p]
  /\ UNCHANGED <<fast, fails, senderrs, resp, heard, closing, byOther, elapsed, answered>>

\* the send is refused; the link may have been closed underneath (then the check ends silently)
SendErr(c) ==
  /\ pc = "top" /\ ~closing /\ fails < Limit
  /\ senderrs' = senderrs + 1
  /\ IF c
       THEN /\ closing' = TRUE /\ byOther' = TRUE /\ pc' = "aborted"
            /\ UNCHANGED <<fails, elapsed>>
       ELSE /\ fails' = fails + 1 /\ pc' = "top"
            /\ elapsed' = IF fast THEN elapsed ELSE elapsed + 1
            /\ UNCHANGED <<closing, byOther>>
  /\ act' = [name |-> "senderr", closed |-> c]
  /\ UNCHANGED <<fast, att, req, resp, promised, held, chClosed, heard, answered>>

Notified ==
  /\ pc = "wait" /\ chClosed
  /\ pc' = "ok" /\ act' = [name |-> "notified"]
  /\ UNCHANGED <<fast, fails, att, senderrs, req, resp, promised, held, chClosed, heard, closing, byOther, elapsed, answered>>

\* the timer of this wait; it cannot fire before an answer that was promised in time has been handled
Timeout ==
  /\ pc = "wait"
  /\ att \notin promised \/ closing
  /\ elapsed' = elapsed + 1 + 2 * fails
  /\ fails' = fails + 1
  /\ pc' = "top"
  /\ act' = [name |-> "timeout"]
  /\ UNCHANGED <<fast, att, senderrs, req, resp, promised, held, chClosed, heard, closing, byOther, answered>>

(* ---- the environment ---- *)
PeerAnswer(k) ==
  /\ k \in req
  /\ req' = req \ {k} /\ resp' = resp \cup {k}
  /\ act' = [name |-> "answer", k |-> k]
  /\ UNCHANGED <<fast, pc, fails, att, senderrs, promised, held, chClosed, heard, closing, byOther, elapsed, answered>>

Lose(k) ==
  /\ k \notin promised
  /\ \/ k \in req /\ req' = req \ {k} /\ resp' = resp
     \/ k \in resp /\ resp' = resp \ {k} /\ req' = req
  /\ act' = [name |-> "lose", k |-> k]
  /\ UNCHANGED <<fast, pc, fails, att, senderrs, promised, held, chClosed, heard, closing, byOther, elapsed, answered>>

\* a router worker handles a response: the frame arrived on the link; the state of the ping ID - if there is one -
\* is taken out and its channel closed
HandleResp(k) ==
  /\ k \in resp /\ ~closing
  /\ resp' = resp \ {k}
  /\ heard' = TRUE
  /\ IF held
       THEN /\ held' = FALSE /\ chClosed' = TRUE /\ answered' = answered \cup {k}
            /\ act' = [name |-> "resp", k |-> k, res |-> "notified"]
       ELSE /\ UNCHANGED <<held, chClosed, answered>>
            /\ act' = [name |-> "resp", k |-> k, res |-> "no state"]
  /\ UNCHANGED <<fast, pc, fails, att, senderrs, req, promised, closing, byOther, elapsed>>

Data ==
  /\ ~heard /\ ~closing /\ pc \notin Final
  /\ heard' = TRUE /\ act' = [name |-> "data"]
  /\ UNCHANGED <<fast, pc, fails, att, senderrs, req, resp, promised, held, chClosed, closing, byOther, elapsed, answered>>

OtherClose ==
  /\ ~closing /\ pc \notin Final
  /\ closing' = TRUE /\ byOther' = TRUE /\ act' = [name |-> "otherclose"]
  /\ UNCHANGED <<fast, pc, fails, att, senderrs, req, resp, promised, held, chClosed, heard, elapsed, answered>>

Check == Abort \/ GiveUp \/ (\E p \in BOOLEAN : SendOK(p)) \/ (\E c \in BOOLEAN : SendErr(c)) \/ Notified \/ Timeout
KeepPromise == \E k \in promised : PeerAnswer(k) \/ HandleResp(k)
Env == (\E k \in Att : PeerAnswer(k) \/ Lose(k) \/ HandleResp(k)) \/ Data \/ OtherClose

Next == Check \/ Env
Spec == Init /\ [][Next]_vars /\ WF_vars(Check) /\ WF_vars(KeepPromise)

(* ---- properties ---- *)
TypeOK ==
  /\ fast \in BOOLEAN /\ pc \in {"top", "wait"} \cup Final
  /\ fails \in 0..5 /\ att \in 0..5 /\ senderrs \in 0..5
  /\ req \subseteq Att /\ resp \subseteq Att /\ promised \subseteq Att /\ answered \subseteq Att
  /\ elapsed \in 0..25

\* a link is closed by the check only after Limit failures in a row during which nothing at all arrived on it
CloseOnlySilent == pc = "closed" => /\ ~heard /\ answered = {} /\ fails = Limit /\ ~byOther
\* ... as an action property (every transition, see DESIGN 0a.9)
HeardNeverClosedA == [][heard => pc' # "closed"]_vars
\* "succeeded" only for a response to this check's ping ID
OkOnlyAnswered == pc = "ok" => answered # {}
\* the check ends without a verdict only because somebody else closed the link
AbortOnlyClosing == pc = "aborted" => byOther
\* "active (received data)" only when something did arrive
AliveOnlyHeard == pc = "alive" => heard /\ fails = Limit
\* a peer that answers in time is never failed once: the first attempt succeeds
PromiseKept == (att >= 1 /\ 1 \in promised /\ senderrs = 0 /\ ~byOther) => fails = 0 /\ att = 1 /\ pc \in {"wait", "ok", "aborted"}
\* the loop's accounting: every iteration is one request or one refused send
Budget ==
  /\ att + senderrs <= Limit
  /\ fails <= Limit
  /\ pc \in {"top", "alive", "closed"} => fails = att + senderrs
\* the time a dead link costs the worker (which checks its links one after the other): at most 25 s, 1 s for the fast check
TimeBound ==
  /\ elapsed <= (IF fast THEN 1 ELSE 25)
  /\ (pc = "closed" /\ ~fast /\ senderrs = 0) => elapsed = 25
\* whoever is silent gets closed: a check that ends without having heard anything ended by closing (or was overtaken)
SilentMeansClosed == (pc \in Final /\ ~heard) => pc \in {"closed", "aborted"}

Terminates == <>(pc \in Final)

(* ---- what TLC must refute (the questions are about the design, see DESIGN 5d) ---- *)
\* Q1: a check that was answered (a response to its ping ID was handled) always ends "ok"
AnsweredMeansOk == (pc \in Final /\ answered # {}) => pc \in {"ok", "aborted"}

View == <<fast, pc, fails, att, senderrs, req, resp, promised, held, chClosed, heard, closing, byOther, elapsed, answered>>
=============================================================================
