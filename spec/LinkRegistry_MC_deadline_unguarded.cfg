CONSTANTS
  IdentityChecked = TRUE
  Shape = "deadlineU"
  HandshakeMayFail = TRUE
INIT Init
NEXT Next
VIEW View
INVARIANTS Consistent
