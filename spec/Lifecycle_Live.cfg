CONSTANTS
  Insts = {"A"}
  MaxCycles = 1
  MaxWorkers = 2
  NilCheckFirst = TRUE
  HonourCancel = TRUE
  Churn = {"peering", "router"}
  TunChoices = {TRUE, FALSE}
  AllowStartFail = TRUE
SPECIFICATION Spec
PROPERTIES StopCompletes
INVARIANTS CleanStop
