\* C12 stage M, both representatives of every class, 2..4 hops.
CONSTANTS
  MaxHops = 4
  Reps = {1, 127, 128, 16383, 16384, 65535}
  SimMinHops = 2
  SimMaxHops = 2
  SimBigOnly = FALSE
INIT Init
NEXT Next
INVARIANTS LabelsInOrder NeverOutside ReversesExactly SizeSufficientAndMinimal
