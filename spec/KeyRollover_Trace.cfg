CONSTANTS Wrap = 1048576
INIT TraceInit
NEXT TraceNext
POSTCONDITION TraceAccepted
