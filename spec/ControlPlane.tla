------------------------------ MODULE ControlPlane ------------------------------
(***************************************************************************)
(* The control plane of a router (router/ping.go parsePingMsg and the ping *)
(* handlers hello / pong / error / disconnect / announce), serving C07.    *)
(*                                                                         *)
(* The victim router 0 has peers 1..3 and knows router 4 only through      *)
(* gossip.  Its abstract state is what the property names: per router the   *)
(* end-to-end keys and tun MTU, the routing table, connection states,       *)
(* stored public info and the offline flag.  A ping is a type (with code),  *)
(* the router X it claims to come from and a variant saying how it was      *)
(* produced: genuinely by X, or altered / re-addressed / re-signed /        *)
(* replayed / first contact with a key that does not hash to X.             *)
(* TLC enumerates type x variant x claimed source x routing table as one    *)
(* case each and computes the only state change the property allows.        *)
(***************************************************************************)
EXTENDS Integers, Sequences, FiniteSets, TLC, Json

Routers == {1, 2, 3, 4, 5}      \* 5 = a router the victim has never heard of (first contact)
Peers == {1, 2, 3}

Types == {"hello-req", "hello-resp", "pong-req", "pong-resp",
          "err-generic", "err-unreachable", "err-nokeys", "err-denied", "err-rejected",
          "disconnect-down", "disconnect-list", "announce"}
Variants == {"genuine",        \* produced and sealed by X itself, newer than anything seen from X
             "flip-header",    \* one bit of an authenticated frame header field changed on the way
             "flip-pinghdr",   \* ... of the ping header
             "flip-body",      \* ... of the ping body
             "flip-sig",       \* ... of the signature
             "src-rewritten",  \* source address replaced by another known router
             "dst-rewritten",  \* destination address replaced
             "resealed",       \* produced by another router Z but claiming X as source (sealed with Z's key)
             "replayed",       \* a genuine ping of X delivered again after newer ones
             "replayed-after-rekey", \* ... and after the victim itself completed a new key exchange with X in between
             "forged-at-newest-stamp", \* made by a router without X's key as a HOP ping (the class for which an immediate duplicate is tolerated)
                               \* claiming X, carrying exactly the time stamp of X's newest accepted signed frame
             "resealed-after-hop-learning", \* X became known to the victim only as a RELAY named in a hop record of a genuine
                               \* announcement (first contact through gossip); the ping is produced by the next deeper relay
             "answered-by-another", \* a RESPONSE to an exchange the victim has open with X, made by another known router Z in
                               \* its OWN name (genuinely signed by Z) and echoing the exchange's ping ID, which is readable on the wire
             "transit",        \* only TTL / flow flags changed (must stay effective)
             "first-genuine",  \* first contact: header key hashes to the (unknown) source address
             "first-badkey"}   \* first contact: header carries a key that does not hash to the source
Authentic(v) == v \in {"genuine", "transit", "first-genuine"}
FirstContact(v) == v \in {"first-genuine", "first-badkey"}

(* Catalogue of system-producible routes of the victim: [dst, nh, path]     *)
(* (path from the victim 0 to dst; peer routes have the 2-element path).    *)
Catalogue == { [dst |-> 1, nh |-> 1, path |-> <<0, 1>>],
               [dst |-> 2, nh |-> 2, path |-> <<0, 2>>],
               [dst |-> 3, nh |-> 3, path |-> <<0, 3>>],
               [dst |-> 4, nh |-> 1, path |-> <<0, 1, 4>>],
               [dst |-> 4, nh |-> 2, path |-> <<0, 2, 4>>],
               [dst |-> 4, nh |-> 1, path |-> <<0, 1, 2, 4>>],
               [dst |-> 3, nh |-> 1, path |-> <<0, 1, 3>>],
               [dst |-> 2, nh |-> 3, path |-> <<0, 3, 2>>],
               [dst |-> 1, nh |-> 2, path |-> <<0, 2, 4, 1>>] }
InPath(r, x) == \E i \in DOMAIN r.path : r.path[i] = x
Mentions(r, x) == r.dst = x \/ r.nh = x \/ InPath(r, x)

VARIABLES phase, act
vars == <<phase, act>>
Init == phase = "start" /\ act = [name |-> "init"]

(* What a ping may change, given that it is authentic.                      *)
Effect(t, x, table) ==
  [ keys    |-> IF t \in {"hello-req", "hello-resp", "err-nokeys"} THEN {x} ELSE {},     \* only the session with X
    mtu     |-> IF t \in {"hello-req", "hello-resp"} THEN {x} ELSE {},
    removed |-> IF t \in {"disconnect-down", "disconnect-list"} THEN {r \in table : Mentions(r, x)} ELSE {},
    mayadd  |-> t = "announce",
    conn    |-> t \in {"err-unreachable", "err-denied", "err-rejected"},                    \* connection status may change
    info    |-> IF t = "announce" THEN {x} ELSE {},
    offline |-> IF t = "disconnect-down" THEN {x} ELSE {},
    stored  |-> {} ]
NoEffect == [keys |-> {}, mtu |-> {}, removed |-> {}, mayadd |-> FALSE, conn |-> FALSE, info |-> {}, offline |-> {}, stored |-> {}]
Allowed(t, v, x, table) == IF ~Authentic(v) THEN NoEffect
                           ELSE IF v = "first-genuine" THEN [Effect(t, x, table) EXCEPT !.stored = {x}]
                           ELSE Effect(t, x, table)

Case(t, v, x, table) ==
  /\ phase = "start" /\ phase' = "done"
  /\ (t \in {"disconnect-down", "disconnect-list"} \/ table = {[dst |-> 1, nh |-> 1, path |-> <<0, 1>>], [dst |-> 2, nh |-> 2, path |-> <<0, 2>>], [dst |-> 3, nh |-> 3, path |-> <<0, 3>>]})
  /\ (t \in {"hello-req", "hello-resp", "announce", "disconnect-down", "disconnect-list"} \/ x \in {1, 5})   \* other types: one source suffices
  /\ (t = "announce" => x \in Peers)
  /\ ((FirstContact(v) \/ v = "resealed-after-hop-learning") <=> x = 5)
  /\ (x = 5 => t \in {"hello-req", "pong-req", "err-generic", "disconnect-down"})
  /\ (v = "answered-by-another" => t = "hello-resp" /\ x \in Peers)
  /\ act' = [name |-> "case", type |-> t, variant |-> v, src |-> x, table |-> table,
             effect |-> Allowed(t, v, x, table)]

(***************************************************************************)
(* The history "good-bye, then the sessions are lost".  Some routers `off`  *)
(* have said good-bye (a genuine disconnect with GoingDown: their offline   *)
(* flag is set in the victim's storage) and the victim has lost session      *)
(* objects since - the session cleaner dropped every idle session, or only   *)
(* the ones without keys (one minute instead of one hour), or the victim     *)
(* was restarted on the same storage.  Then a ping claiming X arrives.  The  *)
(* rule is the same: only a ping that is authentic as X may change anything, *)
(* and then only what its type allows.  The property is silent on whether a  *)
(* router that is authentically heard from again is still "offline": X's own *)
(* flag may change with any authentic ping of X, nobody else's ever.         *)
(* "forged-hop": a genuine announcement of peer X that arrives dressed with  *)
(* a hop record naming a router of `off` which that router never signed for  *)
(* this announcement; whatever the victim does with the announcement, it is  *)
(* authentic for X only.                                                     *)
(* "replayed-after-loss": a verbatim copy of a genuine ping of X that the    *)
(* victim received BEFORE it lost the session objects (newer pings of X      *)
(* followed), delivered again afterwards: a replay, it changes nothing.      *)
(***************************************************************************)
Known == {1, 2, 3, 4}
LostVariants == {"genuine", "transit", "flip-header", "flip-pinghdr", "flip-body", "flip-sig",
                 "src-rewritten", "dst-rewritten", "resealed", "forged-hop", "replayed-after-loss"}
Hows == {"cleaner-all", "cleaner-unkeyed", "restart"}
AuthenticLost(v) == v \in {"genuine", "transit", "forged-hop"}
AllowedLost(t, v, x, table) == IF ~AuthenticLost(v) THEN NoEffect
                               ELSE [Effect(t, x, table) EXCEPT !.offline = @ \cup {x}]
PeerRoutes == {[dst |-> p, nh |-> p, path |-> <<0, p>>] : p \in Peers}
LostTables == {PeerRoutes, PeerRoutes \cup {[dst |-> 4, nh |-> 2, path |-> <<0, 2, 4>>]}}
Offs == {O \in SUBSET Known : O # {} /\ Cardinality(O) <= 2}
(* what is left of the table once the routers of `off` have said good-bye *)
AfterGoodbyes(table, off) == {r \in table : \A o \in off : ~Mentions(r, o)}

LostCase(t, v, x, off, how, table) ==
  /\ phase = "start" /\ phase' = "done"
  /\ (t = "announce" => x \in Peers)
  /\ (v = "forged-hop" => t = "announce")
  \* a recorded good-bye of a router that is not among `off`: that router came back (announced itself) before the loss
  /\ (v = "replayed-after-loss" /\ t = "disconnect-down" => x \in off \/ x \in Peers)
  /\ act' = [name |-> "lost", type |-> t, variant |-> v, src |-> x, off |-> off, how |-> how, table |-> table,
             effect |-> AllowedLost(t, v, x, AfterGoodbyes(table, off))]

(***************************************************************************)
(* The history "first contact, several workers at once".  A router runs    *)
(* one frame worker per CPU, so pings that arrive back to back are worked   *)
(* on at the same moment.  The victim has no stored record and no session   *)
(* object of router X - it never heard of X, or it was restarted without    *)
(* its state file (then it knows nobody) - when a burst arrives: one or two *)
(* genuine pings of X (the second one newer), each in 1..3 verbatim copies  *)
(* (an on-path attacker sends every frame twice; copies may come over       *)
(* different links), and possibly a genuine announcement of another peer    *)
(* `hop` that travelled through X, so that one of its hop records, signed   *)
(* by X, introduces X as well.  The rule is the same, whatever the workers  *)
(* do at the same moment: every DISTINCT authentic ping may have its effect *)
(* once; the other copies are replays and change nothing.  Afterwards every *)
(* ping of the burst, delivered again, is a replay (event "atonce-replay"   *)
(* of the trace specification).                                             *)
(***************************************************************************)
FirstTypes == {"hello-req", "pong-req", "err-generic", "err-nokeys", "disconnect-down", "disconnect-list", "announce"}
Unknowns == {"never-heard", "storage-lost"}
(* the effect one ping p = [type, src, first] may have (first: no stored record of src before the burst) *)
AllowedOnce(p, table) == IF p.first THEN [Effect(p.type, p.src, table) EXCEPT !.stored = {p.src}] ELSE Effect(p.type, p.src, table)
(* ... and a burst of distinct authentic pings; `hops`: routers introduced by genuine hop records *)
AllowedAtOnce(pings, hops, table) ==
  LET A == {AllowedOnce(pings[i], table) : i \in DOMAIN pings}
  IN [ keys    |-> UNION {a.keys : a \in A},
       mtu     |-> UNION {a.mtu : a \in A},
       removed |-> UNION {a.removed : a \in A},
       mayadd  |-> \E a \in A : a.mayadd,
       conn    |-> \E a \in A : a.conn,
       info    |-> UNION {a.info : a \in A},
       offline |-> UNION {a.offline : a \in A},
       stored  |-> UNION {a.stored : a \in A} \cup hops ]
AtOnceTable == PeerRoutes \cup {[dst |-> 4, nh |-> 2, path |-> <<0, 2, 4>>]}

AtOnceCase(t1, k1, t2, k2, x, how, hop) ==
  /\ phase = "start" /\ phase' = "done"
  /\ (how = "never-heard" => x = 5)                        \* everybody else is known then
  /\ ("announce" \in {t1, t2} => x \in Peers)
  /\ (t2 = "none" <=> k2 = 0)
  /\ hop \in {0} \cup (Peers \ {x})
  /\ k1 + k2 + (IF hop = 0 THEN 0 ELSE 1) >= 2             \* a burst
  /\ LET px == <<[type |-> t1, src |-> x, first |-> TRUE]>> \o
               (IF t2 = "none" THEN <<>> ELSE <<[type |-> t2, src |-> x, first |-> TRUE]>>)
         ph == IF hop = 0 THEN <<>> ELSE <<[type |-> "announce", src |-> hop, first |-> (how = "storage-lost")]>>
         relays == IF hop = 0 THEN {} ELSE {x} \cup (Peers \ {hop})    \* the routers the hop records may name
     IN act' = [name |-> "atonce", t1 |-> t1, k1 |-> k1, t2 |-> t2, k2 |-> k2, src |-> x, how |-> how, hop |-> hop,
                table |-> AtOnceTable, effect |-> AllowedAtOnce(px \o ph, relays, AtOnceTable)]

Tables == {T \in SUBSET Catalogue : Cardinality(T) <= 4 /\ \A p \in Peers : [dst |-> p, nh |-> p, path |-> <<0, p>>] \in T \/ Cardinality(T) <= 2}
Next == phase = "start" /\
          \/ \E t \in Types, v \in Variants, x \in Routers, table \in Tables : Case(t, v, x, table)
          \/ \E t \in Types, v \in LostVariants, x \in Known, off \in Offs, how \in Hows, table \in LostTables :
                LostCase(t, v, x, off, how, table)
          \/ \E t1 \in FirstTypes, k1 \in 1..3, t2 \in FirstTypes \cup {"none"}, k2 \in 0..3, x \in Routers, how \in Unknowns, hop \in 0..3 :
                AtOnceCase(t1, k1, t2, k2, x, how, hop)
Spec == Init /\ [][Next]_vars

(* Properties (C07). *)
OnlyAuthenticChanges == act.name = "case" /\ ~Authentic(act.variant) => act.effect = NoEffect
HelloConfined == act.name = "case" /\ act.type \in {"hello-req", "hello-resp"} => act.effect.keys \subseteq {act.src}
DisconnectConfined == act.name = "case" /\ act.type \in {"disconnect-down", "disconnect-list"} =>
                        \A r \in act.effect.removed : Mentions(r, act.src)
DisconnectComplete == act.name = "case" /\ act.type \in {"disconnect-down", "disconnect-list"} /\ Authentic(act.variant) =>
                        \A r \in act.table \ act.effect.removed : ~Mentions(r, act.src)

LostOnlyAuthenticChanges == act.name = "lost" /\ ~AuthenticLost(act.variant) => act.effect = NoEffect
LostOfflineConfined == act.name = "lost" => act.effect.offline \subseteq {act.src}     \* never the flag of another router
LostDisconnectConfined == act.name = "lost" => \A r \in act.effect.removed : Mentions(r, act.src)

(* a burst of pings of X at first contact: nobody else's keys, MTU, flag or routes; records only of X and of the   *)
(* routers genuine hop records name                                                                              *)
AtOnceConfined == act.name = "atonce" =>
                    /\ act.effect.keys \subseteq {act.src} /\ act.effect.mtu \subseteq {act.src}
                    /\ act.effect.offline \subseteq {act.src}
                    /\ \A r \in act.effect.removed : Mentions(r, act.src)
                    /\ act.effect.info \subseteq {act.src} \cup (IF act.hop = 0 THEN {} ELSE {act.hop})
                    /\ (act.hop = 0 => act.effect.stored \subseteq {act.src})

DumpEdge == PrintT("EDGE " \o ToJson(phase) \o "\t" \o ToJson(act') \o "\t" \o ToJson(<<phase', act'>>))
=============================================================================
