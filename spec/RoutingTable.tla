------------------------------ MODULE RoutingTable ------------------------------
(***************************************************************************)
(* The routing table of mycoria (m/table.go), serving C11.                 *)
(*                                                                         *)
(* Implementation level: the table's operations transcribed branch by      *)
(* branch.  The Go slice is kept sorted by (dst, hops, delay, relay ids);   *)
(* inside one destination that key is unique (an equal route is replaced),  *)
(* so the slice is represented by the set of its entries and positions are  *)
(* computed from the key (Rank).                                           *)
(* Property level (P1..P7 of C11) are invariants / action properties over   *)
(* the same state.                                                          *)
(*                                                                         *)
(* Addresses are small integers; Prefix(d) is the routing prefix.  Only     *)
(* system-producible routes are added (peering.AddLink: peer route without  *)
(* path; announce handler: peer route with path <<me, dst>>, gossip route   *)
(* with >= 1 relay whose next hop is the first relay).                      *)
(***************************************************************************)
EXTENDS Integers, Sequences, FiniteSets, TLC, Json

CONSTANTS Dsts,        \* destination / router addresses
          PrefixA,     \* the destinations that share routing prefix 1 (the others are prefix 2)
          Relays,      \* routers that may appear as relays / next hops
          Limit,       \* EntriesPerPrefix
          MaxOps,      \* bound on the number of operations (0 = unbounded)
          MaxRelays    \* longest relay chain of a gossip route

VARIABLES entries,  \* set of routing table entries
          nops,
          act

vars == <<entries, nops, act>>
View == <<entries, nops>>

Prefix(d) == IF d \in PrefixA THEN 1 ELSE 2

-----------------------------------------------------------------------------
(* Routes the system can produce.                                          *)
PeerLink(d) == [dst |-> d, nh |-> d, src |-> "peer", hops |-> 1, delay |-> 0,
                relays |-> <<>>, plen |-> 0, exp |-> "fresh"]
PeerAnn(d, slow) == [dst |-> d, nh |-> d, src |-> "peer", hops |-> 1,
                     delay |-> IF slow THEN 105 ELSE 10,
                     relays |-> <<>>, plen |-> 2, exp |-> "fresh"]
Gossip(d, rel, slow) == [dst |-> d, nh |-> rel[1], src |-> "gossip", hops |-> Len(rel) + 1,
                         delay |-> 5 * (Len(rel) + 2) + (IF slow THEN 95 ELSE 0),
                         relays |-> rel, plen |-> Len(rel) + 2, exp |-> "fresh"]

RelaySeqs(d) == {<<a>> : a \in Relays \ {d}} \cup
                (IF MaxRelays < 2 THEN {}
                 ELSE {<<a, b>> : a \in Relays \ {d}, b \in Relays \ {d}} \ {<<a, a>> : a \in Relays})

Addable == {PeerLink(d) : d \in Relays} \cup
           {PeerAnn(d, s) : d \in Relays, s \in BOOLEAN} \cup
           UNION {{Gossip(d, rel, s) : rel \in RelaySeqs(d), s \in BOOLEAN} : d \in Dsts}

-----------------------------------------------------------------------------
(* Order and equality of routes as coded (stdSort, RouteEquals).           *)
RelLess(a, b) == \E k \in 1..Len(a) : a[k] < b[k] /\ \A j \in 1..(k - 1) : a[j] = b[j]
Better(a, b) == \/ a.hops < b.hops
                \/ a.hops = b.hops /\ a.delay < b.delay
                \/ a.hops = b.hops /\ a.delay = b.delay /\ Len(a.relays) = Len(b.relays)
                   /\ RelLess(a.relays, b.relays)
RouteEq(a, b) == /\ a.dst = b.dst
                 /\ \/ a.src = "peer" /\ b.src = "peer"
                    \/ a.hops = b.hops /\ a.plen = b.plen /\ a.relays = b.relays

Sec(T, d) == {e \in T : e.dst = d}
PrefSec(T, p) == {e \in T : Prefix(e.dst) = p}
Rank(T, e) == Cardinality({x \in Sec(T, e.dst) : Better(x, e)})
Best(T, d) == CHOOSE e \in Sec(T, d) : \A x \in Sec(T, d) : ~Better(x, e)

(* AddRoute: <<added, new table>>.                                          *)
AddRoute(T, r) ==
  LET sec == Sec(T, r.dst)
  IN IF sec = {}
     THEN IF r.src = "gossip" /\ Cardinality(PrefSec(T, Prefix(r.dst))) > 2 * Limit
          THEN <<FALSE, T>>
          ELSE <<TRUE, T \cup {r}>>
     ELSE IF \E e \in sec : RouteEq(e, r)
          THEN LET e == CHOOSE x \in sec : RouteEq(x, r) /\ \A y \in sec : RouteEq(y, r) => ~Better(y, x)
               IN <<TRUE, (T \ {e}) \cup {r}>>
          ELSE IF Cardinality(sec) < 3 \/ r.src = "peer"
               THEN <<TRUE, T \cup {r}>>
               ELSE LET third == CHOOSE x \in sec : Rank(T, x) = 2
                    IN IF Better(r, third) THEN <<TRUE, (T \ {third}) \cup {r}>>
                       ELSE <<FALSE, T>>

RemoveNextHop(T, p) == {e \in T : e.nh # p}

PathRouters(e) == IF e.plen = 0 THEN <<>> ELSE <<0>> \o e.relays \o <<e.dst>>
InPath(e, x) == \E k \in 1..Len(PathRouters(e)) : PathRouters(e)[k] = x
AdjacentTo(e, x, L) ==
  LET pr == PathRouters(e)
  IN \E k \in 1..Len(pr) : /\ pr[k] = x
                           /\ \/ (k > 1 /\ pr[k - 1] \in L)
                              \/ (k < Len(pr) /\ pr[k + 1] \in L)
RemoveDisconnected(T, x, L) ==
  IF L = {} THEN {e \in T : ~(e.dst = x \/ e.nh = x \/ InPath(e, x))}
  ELSE {e \in T : ~AdjacentTo(e, x, L)}

(* Clean: drop expired non-peer routes, then per routing prefix keep only  *)
(* the first Limit entries of the cleaning order - gossip beyond is cut.    *)
CleanBefore(x, e) == /\ Prefix(x.dst) = Prefix(e.dst)
                     /\ \/ x.hops < e.hops
                        \/ x.hops = e.hops /\ x.delay < e.delay
                        \/ x.hops = e.hops /\ x.delay = e.delay /\ x.dst < e.dst
                        \/ x.hops = e.hops /\ x.delay = e.delay /\ x.dst = e.dst
                           /\ Len(x.relays) = Len(e.relays) /\ RelLess(x.relays, e.relays)
Clean(T) ==
  LET live == {e \in T : e.src = "peer" \/ e.exp = "fresh"}
  IN {e \in live : e.src # "gossip" \/ Cardinality({x \in live : CleanBefore(x, e)}) < Limit}

Age(T) == {IF e.src = "peer" THEN e ELSE [e EXCEPT !.exp = "old"] : e \in T}

-----------------------------------------------------------------------------
Init == entries = {} /\ nops = 0 /\ act = [name |-> "init"]

Bound == MaxOps = 0 \/ nops < MaxOps

DoAdd(r) == /\ Bound
            /\ LET res == AddRoute(entries, r)
               IN /\ entries' = res[2]
                  /\ act' = [name |-> "add", route |-> r, added |-> res[1], before |-> entries]
            /\ nops' = nops + 1
DoRemoveNextHop(p) == /\ Bound
                      /\ entries' = RemoveNextHop(entries, p)
                      /\ act' = [name |-> "rmnh", peer |-> p, before |-> entries]
                      /\ nops' = nops + 1
DoRemoveDisconnected(x, L) == /\ Bound
                              /\ entries' = RemoveDisconnected(entries, x, L)
                              /\ act' = [name |-> "rmdis", router |-> x, peers |-> L, before |-> entries]
                              /\ nops' = nops + 1
DoClean == /\ Bound
           /\ entries' = Clean(entries)
           /\ act' = [name |-> "clean", before |-> entries]
           /\ nops' = nops + 1
DoAge == /\ Bound
         /\ \E e \in entries : e.exp = "fresh" /\ e.src # "peer"
         /\ entries' = Age(entries)
         /\ act' = [name |-> "age", before |-> entries]
         /\ nops' = nops + 1

Next == \/ \E r \in Addable : DoAdd(r)
        \/ \E p \in Relays : DoRemoveNextHop(p)
        \/ \E x \in Relays : \E L \in {{}} \cup {{y} : y \in Relays \ {x}} : DoRemoveDisconnected(x, L)
        \/ DoClean
        \/ DoAge

Spec == Init /\ [][Next]_vars

(* Simulation: one random operation per step, biased towards additions.     *)
NextSim ==
  LET k == RandomElement(1..10)
  IN IF k <= 6 THEN \E r \in {RandomElement(Addable)} : DoAdd(r)
     ELSE IF k = 7 THEN \E p \in {RandomElement(Relays)} : DoRemoveNextHop(p)
     ELSE IF k = 8 THEN \E x \in {RandomElement(Relays)} :
                          \E L \in {RandomElement({{}} \cup {{y} : y \in Relays \ {x}})} : DoRemoveDisconnected(x, L)
     ELSE IF k = 9 THEN DoClean
     ELSE (IF (\E e \in entries : e.exp = "fresh" /\ e.src # "peer") THEN DoAge ELSE DoClean)

-----------------------------------------------------------------------------
(* Properties (C11).                                                       *)
Gossips(T, p) == {e \in PrefSec(T, p) : e.src = "gossip"}
PeersOf(T) == {e.dst : e \in {x \in T : x.src = "peer"}}

(* P1: the lookup result (= first entry of the destination's section) is   *)
(* a route to exactly that address, peer first, then fewest hops / delay.   *)
P1 == \A d \in Dsts : Sec(entries, d) # {} =>
        LET b == Best(entries, d)
        IN /\ b.dst = d
           /\ \A x \in Sec(entries, d) : x.src = "peer" => b.src = "peer"
           /\ \A x \in Sec(entries, d) : ~(x.hops < b.hops \/ (x.hops = b.hops /\ x.delay < b.delay))
(* P2: added <=> present, not added => unchanged.                           *)
P2 == act.name = "add" =>
        IF act.added THEN \E e \in entries : e = act.route
        ELSE entries = act.before
(* P3: a peer route disappears only through a removal naming that peer.     *)
P3 == act.name \in {"add", "rmnh", "rmdis", "clean", "age"} =>
        \A p \in PeersOf(act.before) : p \in PeersOf(entries)
             \/ (act.name = "rmnh" /\ act.peer = p)
             \/ (act.name = "rmdis" /\ (act.router = p \/ p \in act.peers))
(* P4: at most three non-peer routes per destination.                       *)
P4 == \A d \in Dsts : Cardinality({e \in Sec(entries, d) : e.src # "peer"}) <= 3
(* P5: gossip per routing prefix bounded, and within the limit after Clean. *)
P5 == /\ \A p \in {1, 2} : Cardinality(Gossips(entries, p)) <= 3 * (2 * Limit + 1)
      /\ act.name = "clean" => \A p \in {1, 2} : Cardinality(Gossips(entries, p)) <= Limit
(* P6: no expired route survives a cleanup.                                 *)
P6 == act.name = "clean" => \A e \in entries : e.src = "peer" \/ e.exp = "fresh"
(* P7: removals leave no route with that next hop / router.                 *)
P7 == /\ act.name = "rmnh" => \A e \in entries : e.nh # act.peer
      /\ act.name = "rmdis" /\ act.peers = {} =>
           \A e \in entries : e.dst # act.router /\ e.nh # act.router /\ ~InPath(e, act.router)
      /\ act.name = "rmdis" /\ act.peers # {} =>
           \A e \in entries : ~AdjacentTo(e, act.router, act.peers)
(* Removals and cleanups never invent routes.                               *)
OnlyShrinks == act.name \in {"rmnh", "rmdis", "clean"} => entries \subseteq act.before
(* The key is unique inside a destination (the set model is faithful).      *)
KeyUnique == \A a \in entries : \A b \in entries :
               (a # b /\ a.dst = b.dst) => (Better(a, b) \/ Better(b, a))

DumpEdge == PrintT("EDGE " \o ToJson(View) \o "\t" \o ToJson([act' EXCEPT !.before = {}]) \o "\t" \o ToJson(View'))
DumpStep == PrintT("OUT " \o ToJson([name |-> "step", i |-> nops', a |-> [act' EXCEPT !.before = {}]]))
(***************************************************************************)
(* `act` (the step's observed outcome) is not part of the VIEW: as a state  *)
(* predicate an invariant over act would be evaluated only for the first     *)
(* representative TLC finds of each view class.  The action forms below are  *)
(* evaluated for EVERY transition TLC generates; the configurations that use *)
(* a VIEW check these.                                                       *)
(***************************************************************************)
P2A == [][P2']_vars
P3A == [][P3']_vars
P5A == [][P5']_vars
P6A == [][P6']_vars
P7A == [][P7']_vars
OnlyShrinksA == [][OnlyShrinks']_vars

=============================================================================
