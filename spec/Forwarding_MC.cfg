\* C10 stage M: complete graph on 4 routers, every next-hop function towards an absent router 5 (81, cyclic ones
\* included), every label-switched walk of <= 4 routers, initial TTL 1..5.
CONSTANTS
  Nodes = {1, 2, 3, 4}
  Edges = {{1, 2}, {1, 3}, {1, 4}, {2, 3}, {2, 4}, {3, 4}}
  D = 5
  InitTTLs = {1, 2, 3, 4, 5}
  MaxWalk = 4
SPECIFICATION Spec
INVARIANTS Bounded TTLDecreases NeverZero
PROPERTIES Stops
