------------------------------ MODULE Lifecycle ------------------------------
(***************************************************************************)
(* Construction, start, peering and stop of router instances               *)
(* (instance.go, mgr/module.go, mgr/manager.go, mgr/worker.go), serving C20. *)
(*                                                                          *)
(* An instance is a GROUP of module slots in a fixed order; a slot holds a  *)
(* module, an untyped nil or a TYPED nil (a nil pointer wrapped in the      *)
(* Module interface - what instance.New passes for the tun device, the      *)
(* netstack and the DNS server of a relay-only router).  Each module has a  *)
(* manager counting its workers; Cancel ends the manager's context and      *)
(* workers leave when they see it.  Start runs the slots in order, Stop in  *)
(* reverse: module.Stop, Cancel, WaitForWorkers.                            *)
(***************************************************************************)
EXTENDS Integers, Sequences, FiniteSets, TLC, Json

CONSTANTS Insts,          \* instance names
          MaxCycles,      \* construct/start/stop cycles per instance
          MaxWorkers,     \* bound on workers per module
          NilCheckFirst,  \* TRUE: NewGroup tests a slot for nil before calling Manager() on it
          HonourCancel,   \* TRUE: every worker returns once its context is cancelled
          AllowStartFail, \* whether a module's Start may fail
          TunChoices,     \* values of "tun disabled" the configurations range over
          Churn           \* modules whose worker count varies while running (links, requests)

Slots == <<"storage", "state", "tun", "netstack", "api", "dns", "peering", "switch", "router", "dashboard">>
NSlots == Len(Slots)
SlotOf(name) == CHOOSE i \in 1..NSlots : Slots[i] = name
(* modules that keep long-running workers after Start *)
Resident == {"state", "peering", "switch", "router", "api", "tun", "netstack", "dns"}
(* the dashboard has no manager and is skipped by NewGroup; storage keeps no workers *)
NoManager == {"dashboard"}

VARIABLES phase,     \* inst -> "none" | "constructed" | "starting" | "running" | "stopping" | "stopped" | "panicked" | "startfailed"
          slot,      \* inst -> slot index -> "module" | "nil" | "typednil"
          group,     \* inst -> sequence of slot indexes in the group
          started,   \* inst -> sequence of slot indexes started (in order)
          stopped,   \* inst -> sequence of slot indexes stopped (in order)
          workers,   \* inst -> slot index -> number of running workers
          cancelled, \* inst -> set of slot indexes whose manager is cancelled
          stopok,    \* inst -> result of Stop
          links,     \* set of {a, b}: live peering links
          cycle,     \* inst -> number of completed constructions
          timedout,  \* instances whose Stop gave up waiting for workers
          act
vars == <<phase, slot, group, started, stopped, workers, cancelled, stopok, links, cycle, timedout, act>>

Init ==
  /\ phase = [i \in Insts |-> "none"]
  /\ slot = [i \in Insts |-> [s \in 1..NSlots |-> "nil"]]
  /\ group = [i \in Insts |-> <<>>]
  /\ started = [i \in Insts |-> <<>>]
  /\ stopped = [i \in Insts |-> <<>>]
  /\ workers = [i \in Insts |-> [s \in 1..NSlots |-> 0]]
  /\ cancelled = [i \in Insts |-> {}]
  /\ stopok = [i \in Insts |-> TRUE]
  /\ links = {}
  /\ cycle = [i \in Insts |-> 0]
  /\ timedout = {}
  /\ act = [name |-> "init"]

Range(s) == {s[k] : k \in 1..Len(s)}
SelectIdx(P(_)) == LET RECURSIVE F(_) F(k) == IF k > NSlots THEN <<>> ELSE (IF P(k) THEN <<k>> ELSE <<>>) \o F(k + 1) IN F(1)

(* instance.New: which slots a configuration fills.  tun off => tun, netstack and dns are typed nils;  *)
(* api and dashboard exist iff there is an API listener (custom, or the netstack's when the tun is on) *)
SlotsFor(tunOff, apiListen) ==
  [s \in 1..NSlots |->
     LET nm == Slots[s] IN
     IF nm \in {"tun", "netstack", "dns"} THEN (IF tunOff THEN "typednil" ELSE "module")
     ELSE IF nm \in {"api", "dashboard"} THEN (IF apiListen \/ ~tunOff THEN "module" ELSE "typednil")
     ELSE "module"]

Construct(i, tunOff, apiListen) ==
  /\ phase[i] \in {"none", "stopped", "startfailed"} /\ cycle[i] < MaxCycles
  /\ LET sl == SlotsFor(tunOff, apiListen)
         \* NewGroup: Manager() is called on the slot; on a typed nil that dereferences a nil pointer
         panics == ~NilCheckFirst /\ \E s \in 1..NSlots : sl[s] = "typednil" /\ Slots[s] \notin NoManager
     IN /\ slot' = [slot EXCEPT ![i] = sl]
        /\ phase' = [phase EXCEPT ![i] = IF panics THEN "panicked" ELSE "constructed"]
        /\ group' = [group EXCEPT ![i] = IF panics THEN <<>> ELSE SelectIdx(LAMBDA s : sl[s] = "module" /\ Slots[s] \notin NoManager)]
  /\ started' = [started EXCEPT ![i] = <<>>] /\ stopped' = [stopped EXCEPT ![i] = <<>>]
  /\ workers' = [workers EXCEPT ![i] = [s \in 1..NSlots |-> 0]]
  /\ cancelled' = [cancelled EXCEPT ![i] = {}]
  /\ stopok' = [stopok EXCEPT ![i] = TRUE]
  /\ cycle' = [cycle EXCEPT ![i] = @ + 1]
  /\ act' = [name |-> "construct", inst |-> i, tunoff |-> tunOff, api |-> apiListen]
  /\ UNCHANGED <<links, timedout>>

(* Group.Start: the next slot of the group is started and spawns its resident workers *)
StartModule(i) ==
  /\ phase[i] \in {"constructed", "starting"}
  /\ Len(started[i]) < Len(group[i])
  /\ LET s == group[i][Len(started[i]) + 1] IN
     /\ started' = [started EXCEPT ![i] = Append(@, s)]
     /\ workers' = [workers EXCEPT ![i][s] = IF Slots[s] \in Resident THEN 1 ELSE 0]
     /\ phase' = [phase EXCEPT ![i] = IF Len(started[i]) + 1 = Len(group[i]) THEN "running" ELSE "starting"]
     /\ act' = [name |-> "startmodule", inst |-> i, module |-> Slots[s]]
  /\ UNCHANGED <<slot, group, stopped, cancelled, stopok, links, cycle, timedout>>

(* a module's Start fails: it and everything before it is stopped in reverse *)
StartFails(i) ==
  /\ AllowStartFail
  /\ phase[i] \in {"constructed", "starting"}
  /\ Len(started[i]) < Len(group[i])
  /\ LET s == group[i][Len(started[i]) + 1] IN
     /\ started' = [started EXCEPT ![i] = Append(@, s)]
     /\ phase' = [phase EXCEPT ![i] = "stopping"]
     /\ stopok' = [stopok EXCEPT ![i] = FALSE]
     /\ act' = [name |-> "startfails", inst |-> i, module |-> Slots[s]]
  /\ UNCHANGED <<slot, group, stopped, workers, cancelled, links, cycle, timedout>>

(* transient workers (a link's reader/writer/handler, a request) come and go *)
Spawn(i, s) ==
  /\ phase[i] = "running" /\ s \in Range(started[i]) /\ s \notin cancelled[i]
  /\ Slots[s] \in Churn /\ workers[i][s] < MaxWorkers
  /\ workers' = [workers EXCEPT ![i][s] = @ + 1]
  /\ act' = [name |-> "spawn", inst |-> i, module |-> Slots[s]]
  /\ UNCHANGED <<phase, slot, group, started, stopped, cancelled, stopok, links, cycle, timedout>>
WorkerExit(i, s) ==
  /\ workers[i][s] > 0
  /\ s \in cancelled[i] /\ HonourCancel
  /\ workers' = [workers EXCEPT ![i][s] = @ - 1]
  /\ act' = [name |-> "exit", inst |-> i, module |-> Slots[s]]
  /\ UNCHANGED <<phase, slot, group, started, stopped, cancelled, stopok, links, cycle, timedout>>
TransientExit(i, s) ==
  /\ workers[i][s] > 1 /\ s \notin cancelled[i]
  /\ workers' = [workers EXCEPT ![i][s] = @ - 1]
  /\ act' = [name |-> "exit", inst |-> i, module |-> Slots[s]]
  /\ UNCHANGED <<phase, slot, group, started, stopped, cancelled, stopok, links, cycle, timedout>>

PeeringUp(i) == phase[i] = "running" /\ SlotOf("peering") \in Range(started[i]) /\ SlotOf("peering") \notin cancelled[i]
Peer(a, b) ==
  /\ a # b /\ PeeringUp(a) /\ PeeringUp(b) /\ {a, b} \notin links
  /\ links' = links \cup {{a, b}}
  /\ act' = [name |-> "peer", a |-> a, b |-> b]
  /\ UNCHANGED <<phase, slot, group, started, stopped, workers, cancelled, stopok, cycle, timedout>>

(* Group.Stop *)
StopRequest(i) ==
  /\ phase[i] = "running"
  /\ phase' = [phase EXCEPT ![i] = "stopping"]
  /\ act' = [name |-> "stoprequest", inst |-> i]
  /\ UNCHANGED <<slot, group, started, stopped, workers, cancelled, stopok, links, cycle, timedout>>

NextToStop(i) == started[i][Len(started[i]) - Len(stopped[i])]
(* module.Stop + Cancel of the last started, not yet stopped module *)
StopCancel(i) ==
  /\ phase[i] = "stopping" /\ Len(stopped[i]) < Len(started[i])
  /\ NextToStop(i) \notin cancelled[i]
  /\ cancelled' = [cancelled EXCEPT ![i] = @ \cup {NextToStop(i)}]
  /\ links' = IF Slots[NextToStop(i)] = "peering" THEN {l \in links : i \notin l} ELSE links
  /\ act' = [name |-> "stopcancel", inst |-> i, module |-> Slots[NextToStop(i)]]
  /\ UNCHANGED <<phase, slot, group, started, stopped, workers, stopok, cycle, timedout>>
(* WaitForWorkers returns: the module is stopped *)
StopWait(i) ==
  /\ phase[i] = "stopping" /\ Len(stopped[i]) < Len(started[i])
  /\ NextToStop(i) \in cancelled[i] /\ workers[i][NextToStop(i)] = 0
  /\ stopped' = [stopped EXCEPT ![i] = Append(@, NextToStop(i))]
  /\ phase' = [phase EXCEPT ![i] = IF Len(stopped[i]) + 1 = Len(started[i]) THEN (IF stopok[i] THEN "stopped" ELSE "startfailed") ELSE "stopping"]
  /\ act' = [name |-> "stopwait", inst |-> i, module |-> Slots[NextToStop(i)]]
  /\ UNCHANGED <<slot, group, started, workers, cancelled, stopok, links, cycle, timedout>>
(* WaitForWorkers gives up after its timeout: Stop reports failure and goes on *)
StopTimeout(i) ==
  /\ phase[i] = "stopping" /\ Len(stopped[i]) < Len(started[i])
  /\ NextToStop(i) \in cancelled[i] /\ workers[i][NextToStop(i)] > 0 /\ ~HonourCancel
  /\ stopped' = [stopped EXCEPT ![i] = Append(@, NextToStop(i))]
  /\ stopok' = [stopok EXCEPT ![i] = FALSE]
  /\ phase' = [phase EXCEPT ![i] = IF Len(stopped[i]) + 1 = Len(started[i]) THEN "startfailed" ELSE "stopping"]
  /\ act' = [name |-> "stoptimeout", inst |-> i, module |-> Slots[NextToStop(i)]]
  /\ timedout' = timedout \cup {i}
  /\ UNCHANGED <<slot, group, started, workers, cancelled, links, cycle>>

Next ==
  \/ \E i \in Insts, t \in TunChoices, a \in BOOLEAN : Construct(i, t, a)
  \/ \E i \in Insts : StartModule(i) \/ StartFails(i) \/ StopRequest(i) \/ StopCancel(i) \/ StopWait(i) \/ StopTimeout(i)
  \/ \E i \in Insts, s \in 1..NSlots : Spawn(i, s) \/ WorkerExit(i, s) \/ TransientExit(i, s)
  \/ \E a \in Insts, b \in Insts : Peer(a, b)

Fairness == \A i \in Insts : WF_vars(StopCancel(i)) /\ WF_vars(StopWait(i)) /\ \A s \in 1..NSlots : WF_vars(WorkerExit(i, s))
Spec == Init /\ [][Next]_vars /\ Fairness

(* ---- Properties (C20) *)
(* constructing a router never panics, whatever slots the configuration leaves empty *)
ConstructOK == \A i \in Insts : phase[i] # "panicked"
(* modules start in group order and stop in exactly the reverse order *)
IsPrefix(s, t) == Len(s) <= Len(t) /\ \A k \in 1..Len(s) : s[k] = t[k]
StartOrder == \A i \in Insts : IsPrefix(started[i], group[i])
StopReverse == \A i \in Insts : \A k \in 1..Len(stopped[i]) : stopped[i][k] = started[i][Len(started[i]) - k + 1]
(* no module runs workers outside its started..stopped window *)
NoStrayWorkers == \A i \in Insts : \A s \in 1..NSlots : workers[i][s] > 0 => s \in Range(started[i])
(* a successful Stop leaves no worker behind *)
CleanStop == \A i \in Insts : phase[i] = "stopped" => stopok[i] /\ \A s \in 1..NSlots : workers[i][s] = 0
(* Stop never gives up waiting: every worker leaves once its manager is cancelled *)
NoTimeout == timedout = {}
(* a link needs two live peering modules *)
LinksLive == \A l \in links : \A i \in l : PeeringUp(i) \/ (phase[i] = "stopping" /\ SlotOf("peering") \notin cancelled[i])
(* every stop that is asked for completes *)
StopCompletes == \A i \in Insts : (phase[i] = "stopping") ~> (phase[i] \in {"stopped", "startfailed"})

DumpEdge == PrintT("EDGE " \o ToJson(<<phase, started, stopped, workers, cancelled, links, cycle>>) \o "\t" \o ToJson(act') \o "\t" \o ToJson(<<phase', started', stopped', workers', cancelled', links', cycle'>>))
=============================================================================
