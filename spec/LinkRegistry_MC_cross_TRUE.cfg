CONSTANTS
  IdentityChecked = TRUE
  Shape = "cross"
  HandshakeMayFail = TRUE
INIT Init
NEXT Next
VIEW View
INVARIANTS Consistent
