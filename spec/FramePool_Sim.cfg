\* C17 simulation: 3 structs, 5 tiers (the real pool classes), long random sequences.
CONSTANTS
  Structs = {1, 2, 3}
  Bufs = {1, 2, 3, 4, 5, 6}
  Tiers = {1, 2, 3, 4, 5}
  MaxOps = 1000000
  CloneSameTier = TRUE
  ParseResetsLink = TRUE
INIT Init
NEXT NextSim
INVARIANTS NoSharing NoPanic CloneEqual Isolation NoRemnant
ACTION_CONSTRAINT DumpStep
