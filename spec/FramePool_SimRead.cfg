\* C17 simulation, reader-born frames: 3 structs, 5 tiers (the real pool classes), long random sequences in which
\* most frames are born in the link reader of one of two links.
CONSTANTS
  Structs = {1, 2, 3}
  Bufs = {1, 2, 3, 4, 5, 6}
  Tiers = {1, 2, 3, 4, 5}
  MaxOps = 1000000
  CloneSameTier = TRUE
  ParseResetsLink = TRUE
INIT Init
NEXT NextSimR
INVARIANTS NoSharing NoPanic CloneEqual Isolation NoRemnant
ACTION_CONSTRAINT DumpStep
