\* C05: graph used to enumerate the fault plans (<= 2 faults on 4 frames)
CONSTANTS
  N = 4
  W = 2
  CloseAfter = 3
  MaxFaults = 2
INIT Init
NEXT Next
ACTION_CONSTRAINT DumpEdge
