------------------------------ MODULE FramePool ------------------------------
(***************************************************************************)
(* Frame structs and pooled buffers of mycoria (frame/builder.go,          *)
(* frame/frame_v1.go), serving C17 (and the ownership part of C13).        *)
(*                                                                         *)
(* Buffers carry the content: buf[b] = [owner, tier, tok, apx] where tok    *)
(* and apx are write tokens (0 = zeroed).  A frame struct reads its content *)
(* through its buffer, so any aliasing shows up as a foreign token.         *)
(* sync.Pool is modelled as it behaves: Get returns any pooled item of the  *)
(* class or a new one.                                                      *)
(*                                                                         *)
(* CloneSameTier / ParseResetsLink = TRUE describe the code as it is now    *)
(* (fix: commits); FALSE reproduce the pinned behaviour (Clone always took  *)
(* the smallest tier; ParseFrameV1 kept the recycled struct's link).        *)
(***************************************************************************)
EXTENDS Integers, Sequences, FiniteSets, TLC, Json

CONSTANTS Structs, Bufs, Tiers, MaxOps, CloneSameTier, ParseResetsLink

VARIABLES st,    \* struct -> [used, buf, link]      (link survives Release as coded)
          buf,   \* buffer -> [owner, tier, tok, apx] owner: -1 unallocated, 0 pooled, s in use
          tokc,  \* token counter
          nops,
          act

vars == <<st, buf, tokc, nops, act>>
View == <<st, buf, nops>>

Init == /\ st = [s \in Structs |-> [used |-> FALSE, buf |-> 0, link |-> 0]]
        /\ buf = [b \in Bufs |-> [owner |-> -1, tier |-> 0, tok |-> 0, apx |-> 0]]
        /\ tokc = 0 /\ nops = 0
        /\ act = [name |-> "init"]

Bound == nops < MaxOps
Free(s) == ~st[s].used
(* Buffers a Get(t) may return: pooled ones of that tier, or a new one.    *)
(* (sync.Pool may drop pooled items at any time, so a pooled buffer of      *)
(* another tier stands for memory that is allocated afresh.)               *)
Gettable(t) == {b \in Bufs : buf[b].owner = 0 \/ buf[b].owner = -1}
Content(s) == [tok |-> buf[st[s].buf].tok, apx |-> buf[st[s].buf].apx]
Snapshot == [s \in Structs |-> IF st[s].used THEN [tok |-> Content(s).tok, apx |-> Content(s).apx, link |-> st[s].link, buf |-> st[s].buf]
                               ELSE [tok |-> -1, apx |-> -1, link |-> -1, buf |-> -1]]

New(s, t) ==
  /\ Bound /\ Free(s)
  /\ \E b \in Gettable(t) :
       /\ buf' = [buf EXCEPT ![b] = [owner |-> s, tier |-> t, tok |-> tokc + 1, apx |-> 0]]
       /\ st' = [st EXCEPT ![s] = [used |-> TRUE, buf |-> b, link |-> 0]]
       /\ act' = [name |-> "new", s |-> s, t |-> t, before |-> Snapshot, panic |-> FALSE,
                  recycled |-> (buf[b].owner = 0 /\ buf[b].tier = t), dirt |-> buf[b].tok]
  /\ tokc' = tokc + 1 /\ nops' = nops + 1

Parse(s, t) ==
  /\ Bound /\ Free(s)
  /\ \E b \in Gettable(t) :
       /\ buf' = [buf EXCEPT ![b] = [owner |-> s, tier |-> t, tok |-> tokc + 1, apx |-> 0]]
       /\ st' = [st EXCEPT ![s] = [used |-> TRUE, buf |-> b,
                                   link |-> IF ParseResetsLink THEN 0 ELSE st[s].link]]
       /\ act' = [name |-> "parse", s |-> s, t |-> t, before |-> Snapshot, panic |-> FALSE,
                  recycled |-> (buf[b].owner = 0 /\ buf[b].tier = t), dirt |-> buf[b].tok]
  /\ tokc' = tokc + 1 /\ nops' = nops + 1

(* Read: the LINK READER gives birth to a frame - it takes a pooled buffer by  *)
(* the length announced on the wire, reads the bytes into it, lets the builder *)
(* parse them in place and stamps the frame with the link it arrived on (k).   *)
(* Such a frame is what a router's handlers clone, grow, answer and release.   *)
Read(s, t, k) ==
  /\ Bound /\ Free(s)
  /\ \E b \in Gettable(t) :
       /\ buf' = [buf EXCEPT ![b] = [owner |-> s, tier |-> t, tok |-> tokc + 1, apx |-> 0]]
       /\ st' = [st EXCEPT ![s] = [used |-> TRUE, buf |-> b, link |-> k]]
       /\ act' = [name |-> "read", s |-> s, t |-> t, k |-> k, before |-> Snapshot, panic |-> FALSE,
                  recycled |-> (buf[b].owner = 0 /\ buf[b].tier = t), dirt |-> buf[b].tok]
  /\ tokc' = tokc + 1 /\ nops' = nops + 1

SetLink(s, k) ==
  /\ Bound /\ st[s].used /\ st[s].link # k
  /\ st' = [st EXCEPT ![s].link = k]
  /\ act' = [name |-> "setlink", s |-> s, k |-> k, before |-> Snapshot, panic |-> FALSE]
  /\ UNCHANGED <<buf, tokc>> /\ nops' = nops + 1

Clone(s, c) ==
  /\ Bound /\ st[s].used /\ Free(c)
  /\ LET t == buf[st[s].buf].tier
         ct == IF CloneSameTier THEN t ELSE 1
     IN IF ct < t
        THEN /\ act' = [name |-> "clone", s |-> s, c |-> c, before |-> Snapshot, panic |-> TRUE]
             /\ UNCHANGED <<st, buf>>
        ELSE \E b \in Gettable(ct) :
               /\ buf' = [buf EXCEPT ![b] = [owner |-> c, tier |-> ct, tok |-> buf[st[s].buf].tok, apx |-> buf[st[s].buf].apx]]
               /\ st' = [st EXCEPT ![c] = [used |-> TRUE, buf |-> b, link |-> st[s].link]]
               /\ act' = [name |-> "clone", s |-> s, c |-> c, before |-> Snapshot, panic |-> FALSE]
  /\ UNCHANGED tokc /\ nops' = nops + 1

(* Reply re-initialises the struct in place; a too small buffer is returned *)
(* to the pool (cleared) and replaced.                                      *)
Reply(s, t) ==
  /\ Bound /\ st[s].used
  /\ LET old == st[s].buf
     IN IF t <= buf[old].tier
        THEN /\ buf' = [buf EXCEPT ![old].tok = tokc + 1, ![old].apx = 0]
             /\ st' = [st EXCEPT ![s].link = 0]
        ELSE \E b \in (Gettable(t) \ {old}) :
               /\ buf' = [buf EXCEPT ![old] = [owner |-> 0, tier |-> buf[old].tier, tok |-> 0, apx |-> 0],
                                     ![b] = [owner |-> s, tier |-> t, tok |-> tokc + 1, apx |-> 0]]
               /\ st' = [st EXCEPT ![s] = [used |-> TRUE, buf |-> b, link |-> 0]]
  /\ act' = [name |-> "reply", s |-> s, t |-> t, before |-> Snapshot, panic |-> FALSE]
  /\ tokc' = tokc + 1 /\ nops' = nops + 1

(* SetAppendixData writes inside the current buffer; when the appendix does  *)
(* not fit, the frame moves to a bigger pooled buffer (the old one goes back  *)
(* to the pool, cleared); beyond the protocol limit it fails unchanged.       *)
SetAppendix(s, mode) ==
  /\ Bound /\ st[s].used
  /\ LET old == st[s].buf
     IN CASE mode = "fits" ->
               /\ buf' = [buf EXCEPT ![old].apx = tokc + 1]
               /\ UNCHANGED st
          [] mode = "grow" ->
               \E b \in (Gettable(buf[old].tier) \ {old}) :
                 /\ buf' = [buf EXCEPT ![old] = [owner |-> 0, tier |-> buf[old].tier, tok |-> 0, apx |-> 0],
                                       ![b] = [owner |-> s, tier |-> buf[old].tier, tok |-> buf[old].tok, apx |-> tokc + 1]]
                 /\ st' = [st EXCEPT ![s].buf = b]
          [] mode = "toobig" -> UNCHANGED <<buf, st>>
  /\ act' = [name |-> "setapx", s |-> s, mode |-> mode, before |-> Snapshot, panic |-> FALSE]
  /\ tokc' = tokc + 1 /\ nops' = nops + 1

Mutate(s) ==
  /\ Bound /\ st[s].used
  /\ buf' = [buf EXCEPT ![st[s].buf].tok = tokc + 1]
  /\ act' = [name |-> "mutate", s |-> s, before |-> Snapshot, panic |-> FALSE]
  /\ UNCHANGED st /\ tokc' = tokc + 1 /\ nops' = nops + 1

Release(s) ==
  /\ Bound /\ st[s].used
  /\ buf' = [buf EXCEPT ![st[s].buf] = [owner |-> 0, tier |-> buf[st[s].buf].tier, tok |-> 0, apx |-> 0]]
  /\ st' = [st EXCEPT ![s].used = FALSE, ![s].buf = 0]
  /\ act' = [name |-> "release", s |-> s, before |-> Snapshot, panic |-> FALSE]
  /\ UNCHANGED tokc /\ nops' = nops + 1

Next == \/ \E s \in Structs, t \in Tiers : New(s, t) \/ Parse(s, t) \/ Reply(s, t)
        \/ \E s \in Structs, k \in {1, 2} : SetLink(s, k)
        \/ \E s \in Structs, c \in Structs : Clone(s, c)
        \/ \E s \in Structs, md \in {"fits", "grow", "toobig"} : SetAppendix(s, md)
        \/ \E s \in Structs : Mutate(s) \/ Release(s)

(* A router's frames: every frame is born in the link reader (Read), the rest   *)
(* is what handlers do with it.  Kept apart from Next so that the bounded model  *)
(* of the builder alone stays as small as it was (a Read is a Parse that also    *)
(* sets the link: with it in Next the 4-operation model is ten times larger).    *)
(* FramePool_DumpR checks this relation exhaustively and prints its edges.       *)
NextR == \/ \E s \in Structs, t \in Tiers : Read(s, t, 1) \/ Reply(s, t)
         \/ \E s \in Structs, k \in {1, 2} : SetLink(s, k)
         \/ \E s \in Structs, c \in Structs : Clone(s, c)
         \/ \E s \in Structs, md \in {"fits", "grow", "toobig"} : SetAppendix(s, md)
         \/ \E s \in Structs : Mutate(s) \/ Release(s)

(* (The leading conjunct keeps TLC from splitting the action on the          *)
(* quantifier at start-up, which would evaluate RandomElement only once.)    *)
NextSim ==
  /\ nops >= 0
  /\ \E s \in {RandomElement(Structs)} : \E t \in {RandomElement(Tiers)} : \E k \in {RandomElement(1..12)} :
    IF Free(s) THEN (IF k <= 8 THEN New(s, t) ELSE Parse(s, t))
    ELSE IF k <= 2 THEN Reply(s, t)
    ELSE IF k = 3 THEN SetLink(s, IF st[s].link = 1 THEN 2 ELSE 1)
    ELSE IF k <= 6 THEN (IF \E c \in Structs : Free(c)
                        THEN Clone(s, CHOOSE c \in Structs : Free(c)) ELSE Mutate(s))
    ELSE IF k <= 8 THEN \E md \in {RandomElement({"fits", "grow", "toobig"})} : SetAppendix(s, md)
    ELSE IF k = 9 THEN Mutate(s)
    ELSE Release(s)

(* Walks of a router's life: most frames are born in the link reader (of one    *)
(* of two links), are cloned, have their appendix replaced (in place, across a  *)
(* tier, beyond the limit), are answered, changed and released.                 *)
NextSimR ==
  /\ nops >= 0
  /\ \E s \in {RandomElement(Structs)} : \E t \in {RandomElement(Tiers)} : \E k \in {RandomElement(1..14)} :
    IF Free(s) THEN (IF k <= 10 THEN Read(s, t, 1 + (k % 2)) ELSE IF k <= 12 THEN New(s, t) ELSE Parse(s, t))
    ELSE IF k <= 1 THEN Reply(s, t)
    ELSE IF k = 2 THEN SetLink(s, IF st[s].link = 1 THEN 2 ELSE 1)
    ELSE IF k <= 6 THEN (IF \E c \in Structs : Free(c)
                        THEN Clone(s, CHOOSE c \in Structs : Free(c)) ELSE Mutate(s))
    ELSE IF k <= 10 THEN \E j \in {RandomElement(1..5)} :
                           SetAppendix(s, IF j <= 2 THEN "fits" ELSE IF j <= 4 THEN "grow" ELSE "toobig")
    ELSE IF k = 11 THEN Mutate(s)
    ELSE Release(s)

Spec == Init /\ [][Next]_vars

-----------------------------------------------------------------------------
(* Properties (C17).                                                       *)
Used == {s \in Structs : st[s].used}
NoSharing == \A a \in Used : \A b \in Used : a # b => st[a].buf # st[b].buf
NoPanic == act.name # "init" => ~act.panic
CloneEqual == act.name = "clone" /\ ~act.panic =>
                /\ Content(act.c).tok = act.before[act.s].tok
                /\ Content(act.c).apx = act.before[act.s].apx
                /\ st[act.c].link = act.before[act.s].link
(* Frames the operation did not target keep content and link.               *)
Targets == IF act.name = "clone" THEN {act.c} ELSE IF act.name = "init" THEN {} ELSE {act.s}
Isolation == \A s \in Structs \ Targets :
               (act.name # "init" /\ act.before[s].tok # -1) =>
                  /\ st[s].used
                  /\ Content(s).tok = act.before[s].tok /\ Content(s).apx = act.before[s].apx
                  /\ st[s].link = act.before[s].link
(* New / parsed / reply frames show only their own content and no link.     *)
(* A frame the link reader made shows only what was read and the link it came on. *)
NoRemnant == act.name \in {"new", "parse", "reply", "read"} =>
               /\ st[act.s].link = (IF act.name = "read" THEN act.k ELSE 0)
               /\ Content(act.s).apx = 0
               /\ Content(act.s).tok = tokc
NoDirt == act.name \in {"new", "parse", "read"} => act.dirt = 0
OwnerOK == \A b \in Bufs : buf[b].owner > 0 => st[buf[b].owner].used /\ st[buf[b].owner].buf = b

DumpEdge == PrintT("EDGE " \o ToJson(View) \o "\t" \o ToJson([act' EXCEPT !.before = 0]) \o "\t" \o ToJson(View'))
DumpStep == PrintT("OUT " \o ToJson([i |-> nops', a |-> [act' EXCEPT !.before = 0]]))
(***************************************************************************)
(* `act` (the step's observed outcome) is not part of the VIEW: as a state  *)
(* predicate an invariant over act would be evaluated only for the first     *)
(* representative TLC finds of each view class.  The action forms below are  *)
(* evaluated for EVERY transition TLC generates; the configurations that use *)
(* a VIEW check these.                                                       *)
(***************************************************************************)
NoPanicA == [][NoPanic']_vars
CloneEqualA == [][CloneEqual']_vars
IsolationA == [][Isolation']_vars
NoRemnantA == [][NoRemnant']_vars
NoDirtA == [][NoDirt']_vars

=============================================================================
