\* C15 stage M: both directions seal (duplex), scaled constants, <= 4 seals per end, D = 1.
CONSTANTS
  Wrap = 16
  RollLo = 3
  RollHi = 12
  W = 3
  D = 1
  StartOff = {1, 2}
  MaxSeal = 4
  Duplex = TRUE
  Dups = FALSE
  SplitReset = TRUE
INIT Init
NEXT Next
VIEW View
INVARIANTS NeverAhead
PROPERTIES NonceUniqueA OnlyOnceA CurrentAcceptedA OldKeyRejectedA RollsInStepA PrioRestartA
