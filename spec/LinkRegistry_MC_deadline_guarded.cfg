CONSTANTS
  IdentityChecked = TRUE
  Shape = "deadlineG"
  HandshakeMayFail = TRUE
INIT Init
NEXT Next
VIEW View
INVARIANTS Consistent
