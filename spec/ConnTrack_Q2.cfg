SPECIFICATION LiveSpec
CONSTANTS
  Remotes = {1, 2}
  Friends = {2}
  Isolated = FALSE
  OpenSvcs = {"t80"}
  OutKeys <- AOutKeys
  InKeys <- AInKeys
  Senders = {2}
  Mirror = FALSE
  Codes = {"unreachable"}
PROPERTIES Recovers
CHECK_DEADLOCK FALSE
