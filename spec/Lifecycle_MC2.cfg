CONSTANTS
  Insts = {"A", "B"}
  MaxCycles = 2
  MaxWorkers = 2
  NilCheckFirst = TRUE
  HonourCancel = TRUE
  Churn = {"peering"}
  TunChoices = {TRUE}
  AllowStartFail = TRUE
INIT Init
NEXT Next
INVARIANTS ConstructOK StartOrder StopReverse NoStrayWorkers CleanStop LinksLive NoTimeout
