CONSTANTS
  Remotes = {1, 2}
  Friends = {2}
  Isolated = FALSE
  OpenSvcs = {"t80"}
  OutKeys <- MCOutKeys
  InKeys <- MCInKeys
  Senders = {1, 2}
  Mirror = TRUE
  Codes = {"unreachable", "denied", "rejected"}
INIT Init
NEXT Next
