SPECIFICATION Spec
CONSTANTS
  SharedKx = TRUE
  FinalizeChecked = TRUE
INVARIANTS OwnKeys
CHECK_DEADLOCK FALSE
