\* Real window size, random walks that stay near the window edge; every step printed.
CONSTANTS
  W = 64
  MaxSeq = 100000
  MaxLen = 0
  Reach = 70
  RecordOnShift = TRUE
INIT Init
NEXT NextSim
INVARIANTS AtMostOnce AcceptsFresh Refines
ACTION_CONSTRAINT DumpStep
