\* Replay graph: window 4, numbers 1..7, up to 5 deliveries, every edge printed.
CONSTANTS
  W = 4
  MaxSeq = 7
  MaxLen = 5
  Reach = 0
  RecordOnShift = TRUE
INIT Init
NEXT Next
VIEW View
ACTION_CONSTRAINT DumpEdge
PROPERTIES AtMostOnceA AcceptsFreshA
