------------------------------ MODULE TrafficPolicy ------------------------------
(***************************************************************************)
(* Traffic policy of a router (config/config.go parse / getInfoFromURL /    *)
(* CheckInboundTrafficPolicy, router/traffic.go handleIncomingTraffic,      *)
(* router/tun.go handleTunPacket, router/connections.go checkPolicy),       *)
(* serving C06.                                                             *)
(*                                                                         *)
(* Routers: me, two friends f1 (configured by name) and f2, two strangers   *)
(* o1, o2.  A configuration is one or two services plus the isolate flag.   *)
(* Policy(cfg) is written from the DOCUMENTED meaning of the schemes.       *)
(* TLC enumerates configuration x packet (x an established flow) as one     *)
(* case each with the verdict the property allows.                          *)
(* UdpOpensTcp = TRUE reproduces the pinned parser (udp:// mapped to TCP).  *)
(***************************************************************************)
EXTENDS Integers, Sequences, FiniteSets, TLC, Json

CONSTANT UdpOpensTcp

(* the configured friend list: both friends, or nobody (an empty friends section) *)
FriendLists == {"both", "none"}
FriendsOf(fl) == IF fl = "both" THEN {"f1", "f2"} ELSE {}
Friends == FriendsOf("both")
Senders == {"f1", "f2", "o1", "o2"}
Schemes == {"tcp", "udp", "http", "https", "icmp6", "ping6"}
Ports == {0, 53, 80, 443, 8080}           \* 0 in a service = no explicit port
Accesses == {"public", "friends", "for-f1-name", "for-f2-ip", "for-o1-ip"}
Protos == {6, 17, 58, 47}

Service(sc, port, acc) == [scheme |-> sc, port |-> port, access |-> acc]
(* protocols and port a service opens (documented meaning) *)
SvcProtos(s) == CASE s.scheme = "tcp" -> {6}
                  [] s.scheme = "udp" -> IF UdpOpensTcp THEN {6} ELSE {17}
                  [] s.scheme \in {"http", "https"} -> {6, 17}
                  [] s.scheme \in {"icmp6", "ping6"} -> {58}
SvcPort(s) == IF s.scheme \in {"icmp6", "ping6"} THEN 0
              ELSE IF s.port # 0 THEN s.port
              ELSE IF s.scheme = "http" THEN 80 ELSE IF s.scheme = "https" THEN 443 ELSE -1
SvcValid(s) == SvcPort(s) >= 0                       \* tcp/udp need an explicit port
Keys(s) == {<<pr, SvcPort(s)>> : pr \in SvcProtos(s)}
Admits(s, who, fl) == CASE s.access = "public" -> TRUE
                    [] s.access = "friends" -> who \in FriendsOf(fl)
                    [] s.access = "for-f1-name" -> who = "f1"
                    [] s.access = "for-f2-ip" -> who = "f2"
                    [] s.access = "for-o1-ip" -> who = "o1"
CfgValid(svcs) == /\ \A i \in DOMAIN svcs : SvcValid(svcs[i])
                  /\ \A i \in DOMAIN svcs : \A j \in DOMAIN svcs : i # j => Keys(svcs[i]) \cap Keys(svcs[j]) = {}
PolicyAdmits(svcs, proto, dport, who, fl) ==
  \E i \in DOMAIN svcs : <<proto, dport>> \in Keys(svcs[i]) /\ Admits(svcs[i], who, fl)
(* a friend can only be named if it is configured *)
NamesOK(svcs, fl) == fl = "both" \/ \A i \in DOMAIN svcs : svcs[i].access # "for-f1-name"

(* ports are only read for TCP and UDP *)
EffPort(proto, port) == IF proto \in {6, 17} THEN port ELSE 0

InVariants == {"ok", "sealed-by-other", "unsealed", "inner-src-differs", "inner-dst-differs"}
(* inbound: handed to the local interface? *)
InboundToTun(svcs, isolate, who, proto, dport, variant, flow, fl) ==
  /\ variant = "ok"
  /\ \/ PolicyAdmits(svcs, proto, EffPort(proto, dport), who, fl)
     \/ (flow /\ (~isolate \/ who \in FriendsOf(fl)))      \* reply of a flow the local host opened (and was allowed to open)

(* ---- Delivery histories of one flow.  "... only if it came in a frame that unsealed under the sender's session":   *)
(* a sealed frame unseals at its receiver at most once (the replay protection of the session, C03).  A frame whose      *)
(* packet was handed to the local interface had unsealed; the same frame delivered again - at once, inside the 64-frame *)
(* window, or after the sender has moved on by more than the window, when the receiver cannot tell any more whether it   *)
(* has seen the number - does not unseal, so its packet may not be handed on a second time, whatever its (valid,         *)
(* decryptable) content and whatever the policy says about it.                                                          *)
(*   handedBefore    - an earlier delivery of this very frame was handed to the local interface                         *)
(*   deliveredBefore - this very frame was delivered before (whatever became of it)                                     *)
(*   late            - a frame the sender sealed AFTER this one was delivered before it (reordering).  The property is   *)
(*                     silent on whether a late frame still unseals (C03: inside the window it does, behind it the      *)
(*                     receiver is free to refuse), so a late frame MAY be handed on if the policy admits it.            *)
(* A frame that is neither (sealed after everything delivered so far, delivered for the first time) is what every other  *)
(* case of this module delivers: the policy alone decides, also in the middle of a history of redeliveries.              *)
MayHandOn(svcs, isolate, who, proto, dport, flow, fl, handedBefore) ==
  ~handedBefore /\ InboundToTun(svcs, isolate, who, proto, dport, "ok", flow, fl)
MustHandOn(svcs, isolate, who, proto, dport, flow, fl, deliveredBefore, late) ==
  ~deliveredBefore /\ ~late /\ InboundToTun(svcs, isolate, who, proto, dport, "ok", flow, fl)

OutDsts == {"f1", "o1", "internal", "non-mycoria", "multicast"}
OutboundToMesh(isolate, srcIsMe, dst) ==
  /\ srcIsMe
  /\ dst \in {"f1", "o1", "internal"}                 \* inside fd00::/8 and not multicast
  /\ (~isolate \/ dst = "f1")

VARIABLES phase, act
vars == <<phase, act>>
Init == phase = "start" /\ act = [name |-> "init"]

Single == {<<Service(sc, p, a)>> : sc \in Schemes, p \in {0, 53, 80, 8080}, a \in Accesses}
Double == {<<Service(s1, p1, a1), Service(s2, p2, a2)>> :
             s1 \in {"tcp", "udp", "http"}, p1 \in {53, 80}, a1 \in {"public", "friends"},
             s2 \in {"udp", "https", "icmp6"}, p2 \in {0, 53}, a2 \in {"friends", "for-o1-ip"}}
Configs == {<<>>} \cup Single \cup Double

CaseIn(svcs, isolate, who, proto, dport, variant, flow, fl) ==
  /\ phase = "start" /\ phase' = "done"
  /\ CfgValid(svcs) /\ NamesOK(svcs, fl)
  /\ act' = [name |-> "in", svcs |-> svcs, isolate |-> isolate, who |-> who, proto |-> proto, dport |-> dport,
             variant |-> variant, flow |-> flow, friends |-> fl,
             totun |-> InboundToTun(svcs, isolate, who, proto, dport, variant, flow, fl)]
CaseOut(svcs, isolate, srcIsMe, dst, proto) ==
  /\ phase = "start" /\ phase' = "done"
  /\ CfgValid(svcs)
  /\ act' = [name |-> "out", svcs |-> svcs, isolate |-> isolate, srcisme |-> srcIsMe, dst |-> dst, proto |-> proto,
             tomesh |-> OutboundToMesh(isolate, srcIsMe, dst)]
(* ---- ICMPv6 messages that QUOTE a packet.                                                                       *)
(* An ICMPv6 error message (types 1..4: destination unreachable, packet too big, time exceeded, parameter problem)   *)
(* carries as much of the packet it complains about as fits.  Those quoted bytes are the sender's choice.  Whatever   *)
(* they spell - the protocol and port of a configured service, a packet the local host really sent to that router,    *)
(* a connection of the sender that was admitted - the message is an ICMPv6 packet from `who` and the property judges   *)
(* it as such: protocol 58, no port, "exactly that protocol".  The only history that admits it without an icmp6/ping6 *)
(* service is the established-flow reading for ICMPv6 itself: the local host sent an ICMPv6 packet to that router.     *)
(* R concretises: kind "error" = types 1..4, "info" = every other type; the quoted protocol/port of "svc i" = one of  *)
(* Keys(svcs[i]), of "unserved" = a pair no service has; direction of the quoted addresses, lengths, remote ports.     *)
IcmpKinds == {"error", "info"}
QuoteHists == {"made-up",      \* nothing happened before
               "opened",       \* the local host sent exactly the quoted packet to `who` before (an outbound entry exists)
               "seen",         \* `who` sent the packet the quote mirrors before (admitted or refused, as the policy says)
               "pinged"}       \* the local host sent an ICMPv6 packet to `who` before: the established flow of ICMPv6
QuoteWhats(svcs) == {"unserved"} \cup (IF Len(svcs) >= 1 THEN {"svc1"} ELSE {}) \cup (IF Len(svcs) >= 2 THEN {"svc2"} ELSE {})
CaseIcmp(svcs, isolate, who, kind, what, hist, fl) ==
  /\ phase = "start" /\ phase' = "done"
  /\ CfgValid(svcs) /\ NamesOK(svcs, fl)
  /\ what \in QuoteWhats(svcs)
  /\ act' = [name |-> "icmp", svcs |-> svcs, isolate |-> isolate, who |-> who, proto |-> 58, dport |-> 0,
             variant |-> "icmp-quote", kind |-> kind, what |-> what, hist |-> hist, flow |-> (hist = "pinged"), friends |-> fl,
             totun |-> InboundToTun(svcs, isolate, who, 58, 0, "ok", hist = "pinged", fl)]
CaseBadCfg(svcs) ==
  /\ phase = "start" /\ phase' = "done"
  /\ ~CfgValid(svcs)
  /\ act' = [name |-> "badcfg", svcs |-> svcs]

Few == {<<>>, <<Service("tcp", 80, "public")>>, <<Service("http", 0, "friends")>>}
Next == phase = "start" /\ (
        \* every configuration x every genuine packet
        \/ \E svcs \in Configs, who \in Senders, proto \in Protos, dport \in Ports :
              CaseIn(svcs, FALSE, who, proto, dport, "ok", FALSE, "both")
        \* the same with an empty friend list (single services and no service)
        \/ \E svcs \in {<<>>} \cup Single, who \in Senders, proto \in Protos, dport \in Ports :
              CaseIn(svcs, FALSE, who, proto, dport, "ok", FALSE, "none")
        \* packets that are not what they claim, against a few configurations
        \/ \E svcs \in Few, who \in Senders, proto \in Protos, dport \in Ports, variant \in InVariants \ {"ok"} :
              CaseIn(svcs, FALSE, who, proto, dport, variant, FALSE, "both")
        \* replies of a flow the local host opened
        \/ \E svcs \in {<<>>, <<Service("tcp", 80, "friends")>>}, isolate \in BOOLEAN, who \in Senders, proto \in Protos,
              dport \in {80, 8080}, variant \in {"ok", "inner-src-differs", "sealed-by-other"} :
              CaseIn(svcs, isolate, who, proto, dport, variant, TRUE, "both")
        \/ \E svcs \in {<<>>, <<Service("tcp", 80, "friends")>>}, isolate \in BOOLEAN, who \in Senders, proto \in {6, 17}, dport \in {80} :
              CaseIn(svcs, isolate, who, proto, dport, "ok", TRUE, "none")
        \/ \E svcs \in {<<>>} \cup {<<Service("tcp", 80, "public")>>}, isolate \in BOOLEAN, srcIsMe \in BOOLEAN, dst \in OutDsts, proto \in Protos :
              CaseOut(svcs, isolate, srcIsMe, dst, proto)
        \* ICMPv6 messages quoting a packet, against every configuration; under isolation against a few
        \/ \E svcs \in Configs, who \in Senders, kind \in IcmpKinds, what \in {"svc1", "svc2", "unserved"}, hist \in QuoteHists :
              CaseIcmp(svcs, FALSE, who, kind, what, hist, "both")
        \/ \E svcs \in Few \cup {<<Service("icmp6", 0, "friends")>>}, who \in Senders, kind \in IcmpKinds, what \in {"svc1", "unserved"}, hist \in QuoteHists, fl \in FriendLists :
              CaseIcmp(svcs, TRUE, who, kind, what, hist, fl)
        \/ \E svcs \in Configs : CaseBadCfg(svcs))
Spec == Init /\ [][Next]_vars

(* Properties (C06). *)
(* a friends-only service admits nobody when no friend is configured *)
NoFriendsNoEntry == act.name = "in" /\ act.friends = "none" /\ ~act.flow /\ Len(act.svcs) = 1 /\ act.svcs[1].access = "friends" => ~act.totun
DefaultDeny == act.name = "in" /\ act.svcs = <<>> /\ ~act.flow => ~act.totun
OnlyAuthenticated == act.name = "in" /\ act.totun => act.variant = "ok"
TcpIsTcp == act.name = "in" /\ act.totun /\ ~act.flow /\ Len(act.svcs) = 1 /\ act.svcs[1].scheme = "tcp" => act.proto = 6
UdpIsUdp == act.name = "in" /\ act.totun /\ ~act.flow /\ Len(act.svcs) = 1 /\ act.svcs[1].scheme = "udp" => act.proto = 17
IsolationHolds == act.name = "out" /\ act.tomesh /\ act.isolate => act.dst = "f1"
NoSpoofing == act.name = "out" /\ act.tomesh => act.srcisme
(* what an ICMPv6 message quotes buys nothing: without the local host having pinged the sender it needs an icmp6/ping6 service *)
QuoteBuysNothing == act.name = "icmp" /\ act.totun /\ act.hist # "pinged" =>
                      \E i \in DOMAIN act.svcs : act.svcs[i].scheme \in {"icmp6", "ping6"} /\ Admits(act.svcs[i], act.who, act.friends)

DumpEdge == PrintT("EDGE " \o ToJson(phase) \o "\t" \o ToJson(act') \o "\t" \o ToJson(<<phase', act'>>))
=============================================================================
