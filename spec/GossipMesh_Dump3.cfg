\* generated by the block in DESIGN/C09: GossipMesh_Dump3.cfg
CONSTANTS
  Nodes = {1, 2, 3}
  Topologies = {{{1, 2}, {1, 3}}, {{1, 2}, {2, 3}}, {{1, 3}, {2, 3}}, {{1, 2}, {1, 3}, {2, 3}}}
  OriginSets = {{1, 2, 3}}
  PerLink = FALSE
INIT Init
NEXT Next
VIEW View
INVARIANTS NoEcho LoopFree Reach AtMostThree
ACTION_CONSTRAINT DumpEdge
PROPERTIES OncePerPathA
