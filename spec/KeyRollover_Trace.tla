--------------------------- MODULE KeyRollover_Trace ---------------------------
(***************************************************************************)
(* Trace validation for the concurrency part of C15: the frames that many  *)
(* goroutines sealed on ONE session across the 32-bit wrap, each attributed *)
(* to the key that opens it (0 = key before the wrap, 1 = key after).       *)
(*   {"ev":"reset"}                                                         *)
(*   {"ev":"sealed","cls":C,"seq":N,"key":K}                                *)
(*   {"ev":"sealerr","cls":C}      (only a priority wrap may be refused)    *)
(* NonceUnique: no (key, class, sequence number) occurs twice; every frame  *)
(* opens under exactly one of the two keys; the regular sequence uses the   *)
(* numbers just below the wrap under key 0 and the numbers from 1 under     *)
(* key 1; the priority sequence restarts at the wrap.                       *)
(***************************************************************************)
EXTENDS Integers, Sequences, FiniteSets, TLC, Json

CONSTANT Wrap
Trace == ndJsonDeserialize("trace.ndjson")
VARIABLES l, seen
Ev == Trace[l]

TraceInit == l = 1 /\ seen = {}

Reset == Ev.ev = "reset" /\ seen' = {}
Sealed == /\ Ev.ev = "sealed"
          /\ Ev.key \in {0, 1}                                     \* opens under exactly one known key
          /\ <<Ev.key, Ev.cls, Ev.seq>> \notin seen                \* NonceUnique
          /\ Ev.seq >= 1 /\ Ev.seq < Wrap                          \* 0 is never used
          /\ (Ev.cls = "r" /\ Ev.key = 0) => Ev.seq > Wrap \div 2  \* before the wrap: high numbers
          /\ (Ev.cls = "r" /\ Ev.key = 1) => Ev.seq < Wrap \div 2  \* after the wrap: restarted
          /\ seen' = seen \cup {<<Ev.key, Ev.cls, Ev.seq>>}
(*   {"ev":"sealed2","key":K,"cls":C,"seq":N}   histories with repeated key set-ups (fresh client keys, a request *)
(*   that is served a second time): K is the driver's number for the out key the frame was sealed with (read from  *)
(*   the session right after the seal).  Whatever is set up again and how often: no (key, class, number) twice.    *)
Sealed2 == /\ Ev.ev = "sealed2"
           /\ <<Ev.key, Ev.cls, Ev.seq>> \notin seen
           /\ Ev.seq >= 1
           /\ seen' = seen \cup {<<Ev.key, Ev.cls, Ev.seq>>}
Rekey == Ev.ev = "rekey" /\ UNCHANGED seen
TraceNext == l <= Len(Trace) /\ l' = l + 1 /\ (Reset \/ Sealed \/ Sealed2 \/ Rekey)

TraceAccepted ==
  LET d == TLCGet("stats").diameter
  IN IF d - 1 = Len(Trace) THEN TRUE
     ELSE PrintT("OUT REJECT " \o ToString(d)) /\ FALSE
=============================================================================
