CONSTANTS W = 64
INIT TraceInit
NEXT TraceNext
POSTCONDITION TraceAccepted
