SPECIFICATION Spec
INVARIANTS TypeOK CloseOnlySilent OkOnlyAnswered AbortOnlyClosing AliveOnlyHeard PromiseKept Budget TimeBound SilentMeansClosed
PROPERTIES HeardNeverClosedA Terminates
CHECK_DEADLOCK FALSE
