------------------------------ MODULE MeshChurn ------------------------------
(***************************************************************************)
(* Beyond the listed properties: the mesh as a whole while links come and   *)
(* go.  Composition of                                                      *)
(*   - the link registry's effect on routing (peering/peering.go AddLink /   *)
(*     RemoveLink -> m/table.go AddRoute / RemoveNextHop),                   *)
(*   - announcement flooding (router/ping_announce.go, as in GossipMesh),     *)
(*   - route expiry (announcements carry an expiry of two announce intervals *)
(*     plus a margin; m/table.go Clean),                                     *)
(*   - source-routed forwarding of a frame along the switch labels of the    *)
(*     route its sender chose (switchr/switch.go, router/routing.go).        *)
(* Time is abstract: AgeAll is "one announce interval passes while the       *)
(* network is quiet"; a route lives for two of them unless an announcement    *)
(* that travelled exactly its path refreshes it.                              *)
(*                                                                          *)
(* Questions no single listed property asks:                                 *)
(*   NoRouteViaDeadLink  no table ever holds a route whose next hop has no   *)
(*                       live link                                           *)
(*   DataSafe            a frame is delivered only to its destination and    *)
(*                       only over live links; a frame whose path crosses a  *)
(*                       dead link is dropped where the path breaks          *)
(*   Heals               once the network was quiet for two intervals after  *)
(*                       the last link change and everybody announced again, *)
(*                       every route in every table is a live walk and every *)
(*                       pair of routers connected in the topology has one    *)
(***************************************************************************)
EXTENDS Integers, Sequences, FiniteSets, TLC, Json

CONSTANTS Nodes, InitEdges, MaxAnn, MaxChurn, MaxAge, MaxData, PossibleEdges

VARIABLES edges, table, latest, inflight, ann, churn, ages, sinceChurn, annSinceAge, data, ndata, dlatest, clock, act
vars == <<edges, table, latest, inflight, ann, churn, ages, sinceChurn, annSinceAge, data, ndata, dlatest, clock, act>>
View == <<edges, table, latest, inflight, ann, churn, ages, sinceChurn, annSinceAge, data, ndata, dlatest, clock>>

Nb(n) == {x \in Nodes : {n, x} \in edges}
InSeq(x, s) == \E i \in 1..Len(s) : s[i] = x
RelLess(a, b) == \E i \in 1..Len(a) : a[i] < b[i] /\ \A j \in 1..(i - 1) : a[j] = b[j]
Better(a, b) == \/ Len(a.path) < Len(b.path)
                \/ Len(a.path) = Len(b.path) /\ RelLess(a.path, b.path)
RouteEq(a, b) == (a.peer /\ b.peer) \/ a.path = b.path
Sec(T, d) == {e \in T : e.dst = d}
Rank(T, e) == Cardinality({x \in Sec(T, e.dst) : Better(x, e)})
AddRoute(T, r) ==
  LET sec == Sec(T, r.dst)
  IN IF sec = {} THEN <<TRUE, T \cup {r}>>
     ELSE IF \E e \in sec : RouteEq(e, r)
          THEN <<TRUE, (T \ {e \in sec : RouteEq(e, r)}) \cup {r}>>
          ELSE IF Cardinality(sec) < 3 \/ r.peer THEN <<TRUE, T \cup {r}>>
               ELSE LET third == CHOOSE x \in sec : Rank(T, x) = 2
                    IN IF Better(r, third) THEN <<TRUE, (T \ {third}) \cup {r}>> ELSE <<FALSE, T>>
PeerRoute(n, x) == [dst |-> x, path |-> <<n, x>>, peer |-> TRUE, age |-> 0]

Init ==
  /\ edges = InitEdges
  /\ table = [n \in Nodes |-> {PeerRoute(n, x) : x \in {y \in Nodes : {n, y} \in InitEdges}}]
  /\ latest = [n \in Nodes |-> [o \in Nodes |-> 0]]
  /\ inflight = {}
  /\ ann = [n \in Nodes |-> 0]
  /\ churn = 0 /\ ages = 0 /\ sinceChurn = 2
  /\ annSinceAge = {}
  /\ data = {} /\ ndata = 0
  /\ dlatest = [n \in Nodes |-> [x \in Nodes |-> 0]]   \* newest signed-frame stamp n has accepted from x
  /\ clock = [n \in Nodes |-> 0]                        \* the time stamps a router puts on what it signs only grow
  /\ act = [name |-> "init"]

Quiet == inflight = {} /\ data = {}

(* (announcements are started one flood at a time here; concurrent floods are GossipMesh's subject) *)
Announce(o) ==
  /\ ann[o] < MaxAnn /\ Nb(o) # {} /\ inflight = {}
  /\ ann' = [ann EXCEPT ![o] = @ + 1]
  /\ inflight' = inflight \cup {[o |-> o, k |-> ann[o] + 1, ts |-> clock[o] + 1, hops |-> <<>>, from |-> o, to |-> x] : x \in Nb(o)}
  /\ clock' = [clock EXCEPT ![o] = @ + 1]
  /\ annSinceAge' = annSinceAge \cup {o}
  /\ act' = [name |-> "announce", o |-> o, k |-> ann[o] + 1]
  /\ UNCHANGED <<edges, table, latest, churn, ages, sinceChurn, data, ndata, dlatest>>

Deliver(m) ==
  /\ m \in inflight
  /\ LET r == m.to IN
     IF {m.from, r} \notin edges
     THEN \* the link went down under the frame
          /\ inflight' = inflight \ {m}
          /\ act' = [name |-> "deliver", m |-> m, outcome |-> "lost"]
          /\ UNCHANGED <<table, latest, dlatest>>
     ELSE IF m.o # r /\ m.ts < dlatest[r][m.o]
     THEN \* every signed frame of a router - whichever way it came - is checked against ONE time sequence per
          \* sender: r has already accepted a newer signed frame of the origin (a later announcement or a ping)
          /\ inflight' = inflight \ {m}
          /\ act' = [name |-> "deliver", m |-> m, outcome |-> "delayed"]
          /\ UNCHANGED <<table, latest, dlatest>>
     ELSE IF m.o = r \/ InSeq(r, m.hops)
     THEN /\ inflight' = inflight \ {m}
          /\ latest' = IF m.o # r THEN [latest EXCEPT ![r][m.o] = m.k] ELSE latest
          /\ dlatest' = IF m.o # r THEN [dlatest EXCEPT ![r][m.o] = m.ts] ELSE dlatest
          /\ act' = [name |-> "deliver", m |-> m, outcome |-> "dropped"]
          /\ UNCHANGED table
     ELSE LET res == AddRoute(table[r], [dst |-> m.o, path |-> <<r>> \o m.hops \o <<m.o>>, peer |-> m.hops = <<>>, age |-> 0])
              targets == IF res[1] THEN {x \in Nb(r) : x # m.o /\ x # m.from /\ ~InSeq(x, m.hops)} ELSE {}
          IN /\ table' = [table EXCEPT ![r] = res[2]]
             /\ latest' = [latest EXCEPT ![r][m.o] = m.k]
             /\ dlatest' = [dlatest EXCEPT ![r][m.o] = m.ts]
             /\ inflight' = (inflight \ {m}) \cup {[o |-> m.o, k |-> m.k, ts |-> m.ts, hops |-> <<r>> \o m.hops, from |-> r, to |-> q] : q \in targets}
             /\ act' = [name |-> "deliver", m |-> m, outcome |-> IF res[1] THEN "added" ELSE "notadded"]
  /\ UNCHANGED <<edges, ann, churn, ages, sinceChurn, annSinceAge, data, ndata, clock>>

(* RemoveLink at both ends: registry entries and every route whose next hop is the peer *)
LinkDown(a, b) ==
  /\ churn < MaxChurn /\ {a, b} \in edges /\ a # b
  /\ edges' = edges \ {{a, b}}
  /\ table' = [n \in Nodes |-> IF n = a THEN {e \in table[a] : e.path[2] # b}
                               ELSE IF n = b THEN {e \in table[b] : e.path[2] # a} ELSE table[n]]
  /\ churn' = churn + 1 /\ sinceChurn' = 0 /\ annSinceAge' = {}
  /\ act' = [name |-> "linkdown", a |-> a, b |-> b]
  /\ UNCHANGED <<latest, inflight, ann, ages, data, ndata, dlatest, clock>>
LinkUp(a, b) ==
  /\ churn < MaxChurn /\ {a, b} \in PossibleEdges /\ {a, b} \notin edges /\ a # b
  /\ edges' = edges \cup {{a, b}}
  /\ table' = [n \in Nodes |-> IF n = a THEN AddRoute(table[a], PeerRoute(a, b))[2]
                               ELSE IF n = b THEN AddRoute(table[b], PeerRoute(b, a))[2] ELSE table[n]]
  /\ churn' = churn + 1 /\ sinceChurn' = 0 /\ annSinceAge' = {}
  /\ act' = [name |-> "linkup", a |-> a, b |-> b]
  /\ UNCHANGED <<latest, inflight, ann, ages, data, ndata, dlatest, clock>>

(* one announce interval passes while nothing is in flight *)
(* (every router announces once per interval: the interval only ends when everybody with a link has done so) *)
AgeAll ==
  /\ Quiet /\ ages < MaxAge /\ annSinceAge = {n \in Nodes : Nb(n) # {}}
  /\ table' = [n \in Nodes |-> {IF e.peer THEN e ELSE [e EXCEPT !.age = @ + 1] : e \in {x \in table[n] : x.peer \/ x.age < 1}}]
  /\ ages' = ages + 1 /\ sinceChurn' = IF sinceChurn < 2 THEN sinceChurn + 1 ELSE 2
  /\ annSinceAge' = {}
  /\ act' = [name |-> "ageall"]
  /\ UNCHANGED <<edges, latest, inflight, ann, churn, data, ndata, dlatest, clock>>

(* a frame leaves s for d along the best route s has; it carries the labels of the whole path.  pos = p means: the
   frame is on the link from path[p-1] to path[p].  The source puts it on the first link at once. *)
Best(T, d) == CHOOSE e \in Sec(T, d) : \A x \in Sec(T, d) : x = e \/ Better(e, x) \/ (x.peer /\ e.peer)
SendData(s, d) ==
  /\ ndata < MaxData /\ s # d /\ Sec(table[s], d) # {} /\ inflight = {}
  /\ data' = data \cup {[src |-> s, dst |-> d, path |-> Best(table[s], d).path, pos |-> 2, stamp |-> clock[s] + 1]}
  /\ clock' = [clock EXCEPT ![s] = @ + 1]
  /\ ndata' = ndata + 1
  /\ act' = [name |-> "senddata", s |-> s, d |-> d, path |-> Best(table[s], d).path]
  /\ UNCHANGED <<edges, table, latest, inflight, ann, churn, ages, sinceChurn, annSinceAge, dlatest>>
(* the frame reaches the end of the link it is on - if the link still exists *)
Hop(f) ==
  /\ f \in data
  /\ LET n == f.path[f.pos] IN
     IF {f.path[f.pos - 1], n} \notin edges
     THEN /\ data' = data \ {f} /\ UNCHANGED dlatest
          /\ act' = [name |-> "hop", f |-> f, outcome |-> "lost", at |-> n]
     ELSE IF f.pos = Len(f.path)
     THEN \* signed frames of one sender are accepted in the order of their time stamps only: a frame that was
          \* overtaken by a newer one of the same sender is refused ("delayed frame")
          /\ data' = data \ {f}
          /\ IF f.stamp > dlatest[n][f.src]
             THEN /\ dlatest' = [dlatest EXCEPT ![n][f.src] = f.stamp]
                  /\ act' = [name |-> "hop", f |-> f, outcome |-> "delivered", at |-> n]
             ELSE /\ UNCHANGED dlatest
                  /\ act' = [name |-> "hop", f |-> f, outcome |-> "overtaken", at |-> n]
     ELSE IF {n, f.path[f.pos + 1]} \in edges
     THEN /\ data' = (data \ {f}) \cup {[f EXCEPT !.pos = @ + 1]} /\ UNCHANGED dlatest
          /\ act' = [name |-> "hop", f |-> f, outcome |-> "forwarded", at |-> n]
     ELSE /\ data' = data \ {f} /\ UNCHANGED dlatest
          /\ act' = [name |-> "hop", f |-> f, outcome |-> "dropped", at |-> n]
  /\ UNCHANGED <<edges, table, latest, inflight, ann, churn, ages, sinceChurn, annSinceAge, ndata, clock>>

Next ==
  \/ \E o \in Nodes : Announce(o)
  \/ \E m \in inflight : Deliver(m)
  \/ \E a \in Nodes, b \in Nodes : LinkDown(a, b) \/ LinkUp(a, b)
  \/ AgeAll
  \/ \E s \in Nodes, d \in Nodes : SendData(s, d)
  \/ \E f \in data : Hop(f)
Spec == Init /\ [][Next]_vars

(* ---- Properties *)
IsWalk(p) == \A i \in 1..(Len(p) - 1) : {p[i], p[i + 1]} \in edges
NoRouteViaDeadLink == \A n \in Nodes : \A e \in table[n] : {n, e.path[2]} \in edges
DataSafe == act.name = "hop" =>
              /\ (act.outcome = "delivered" => act.at = act.f.dst /\ act.f.pos = Len(act.f.path))
              /\ (act.outcome \in {"delivered", "forwarded", "dropped"} => {act.f.path[act.f.pos - 1], act.at} \in edges)
              /\ (act.outcome = "forwarded" => {act.at, act.f.path[act.f.pos + 1]} \in edges)
Connected(a, b) ==
  LET RECURSIVE Reach(_, _)
      Reach(S, k) == IF k = 0 THEN S ELSE Reach(S \cup UNION {Nb(x) : x \in S}, k - 1)
  IN b \in Reach({a}, Cardinality(Nodes))
Healed == Quiet /\ sinceChurn = 2 /\ churn > 0
Heals == Healed =>
           /\ \A n \in Nodes : \A e \in table[n] : IsWalk(e.path)
           /\ \A a \in Nodes : \A b \in Nodes : a # b /\ Connected(a, b) /\ ann[b] > 0 => Sec(table[a], b) # {}
(* reachability probes (TLC is asked to refute them: the counterexample is a behaviour that ends healed) *)
NeverHealedWithout(a, b) == ~(Healed /\ {a, b} \notin edges /\ \E n \in Nodes : \E e \in table[n] : ~e.peer)
NeverHealed12 == NeverHealedWithout(1, 2)
NeverHealed23 == NeverHealedWithout(2, 3)
NeverHealed13 == NeverHealedWithout(1, 3)
DumpEdge == PrintT("EDGE " \o ToJson(View) \o "\t" \o ToJson(act') \o "\t" \o ToJson(View'))
(***************************************************************************)
(* `act` (the step's observed outcome) is not part of the VIEW: as a state  *)
(* predicate an invariant over act would be evaluated only for the first     *)
(* representative TLC finds of each view class.  The action forms below are  *)
(* evaluated for EVERY transition TLC generates; the configurations that use *)
(* a VIEW check these.                                                       *)
(***************************************************************************)
DataSafeA == [][DataSafe']_vars

=============================================================================
