--------------------------- MODULE SwitchLabel_Trace ---------------------------
(***************************************************************************)
(* Trace validation for C12: calls of the real BuildBlocks /               *)
(* NextRotateSwitchBlock / TransformToReturnBlock recorded by the driver   *)
(* on paths drawn by the Go PRNG, checked against the protocol operators   *)
(* of SwitchLabel and the traversal properties.                            *)
(*  {"ev":"build","n":N,"f":[..],"r":[..],"err":B,"fwd":[..],"ret":[..]}  *)
(*  {"ev":"rotate","before":[..],"recv":N,"label":N,"after":[..],"want":N} *)
(*    optional field "outside":N of a rotate event - frames whose block is *)
(*    rotated by a switch after the router did other things to the frame   *)
(*    (appendix attached / frame moved to a bigger pooled buffer / cloned  *)
(*    / parsed again / frame object re-used): before and after are the     *)
(*    block on the wire, outside is the number of bytes the driver saw     *)
(*    change that do not belong to the block the frame carries (rest of    *)
(*    the frame, the buffer the frame left, the clone set aside).          *)
(*  {"ev":"reverse","before":[..],"after":[..],"want":[..]}                *)
(*  {"ev":"arrive","n":N,"f":[..],"r":[..],"dir":"fwd"|"ret","block":[..]} *)
(*    the block a frame carried when the switch of the router at the far   *)
(*    end of the path handed it to its upper layer (frames that travelled  *)
(*    through running switch workers of routers in normal/stub/lite mode)  *)
(***************************************************************************)
EXTENDS SwitchLabel

Trace == ndJsonDeserialize("trace.ndjson")
VARIABLE l
Ev == Trace[l]

TraceInit == l = 1 /\ Init

Build == /\ Ev.ev = "build"
         /\ LET size == ImplSize(Ev.n, Ev.f, Ev.r)
            IN /\ Ev.err <=> size > 255                       \* refused exactly when it cannot fit
               /\ ~Ev.err => /\ Ev.fwd = FwdBlock(Ev.n, Ev.f, size)
                             /\ Ev.ret = RetBlock(Ev.n, Ev.r, size)
Rot == /\ Ev.ev = "rotate"
       /\ LET r == Rotate(Ev.before, Ev.recv)
          IN /\ r.fits
             /\ r.next = Ev.label
             /\ r.blk = Ev.after
             /\ Ev.label = Ev.want                             \* labels come out in path order
             /\ ("outside" \in DOMAIN Ev) => Ev.outside = 0     \* no byte outside the block is touched
Revs == /\ Ev.ev = "reverse"
        /\ ToReturn(Ev.before) = Ev.after
        /\ Ev.after = Ev.want                                   \* equals the path's other block

(* Path level, spec operators only: what reaches the far end reverses to   *)
(* exactly the path's other block.                                         *)
Arrive == /\ Ev.ev = "arrive"
          /\ ToReturn(Ev.block) = IF Ev.dir = "fwd"
                                   THEN RetBlock(Ev.n, Ev.r, Len(Ev.block))
                                   ELSE FwdBlock(Ev.n, Ev.f, Len(Ev.block))

TraceNext == /\ l <= Len(Trace)
             /\ l' = l + 1
             /\ (Build \/ Rot \/ Revs \/ Arrive)
             /\ UNCHANGED vars

TraceAccepted ==
  LET d == TLCGet("stats").diameter
  IN IF d - 1 = Len(Trace) THEN TRUE
     ELSE PrintT("OUT REJECT " \o ToString(d)) /\ FALSE
=============================================================================
