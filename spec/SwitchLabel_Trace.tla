--------------------------- MODULE SwitchLabel_Trace ---------------------------
(***************************************************************************)
(* Trace validation for C12: calls of the real BuildBlocks /               *)
(* NextRotateSwitchBlock / TransformToReturnBlock recorded by the driver   *)
(* on paths drawn by the Go PRNG, checked against the protocol operators   *)
(* of SwitchLabel and the traversal properties.                            *)
(*  {"ev":"build","n":N,"f":[..],"r":[..],"err":B,"fwd":[..],"ret":[..]}  *)
(*  {"ev":"rotate","before":[..],"recv":N,"label":N,"after":[..],"want":N} *)
(*  {"ev":"reverse","before":[..],"after":[..],"want":[..]}                *)
(***************************************************************************)
EXTENDS SwitchLabel

Trace == ndJsonDeserialize("trace.ndjson")
VARIABLE l
Ev == Trace[l]

TraceInit == l = 1 /\ Init

Build == /\ Ev.ev = "build"
         /\ LET size == ImplSize(Ev.n, Ev.f, Ev.r)
            IN /\ Ev.err <=> size > 255                       \* refused exactly when it cannot fit
               /\ ~Ev.err => /\ Ev.fwd = FwdBlock(Ev.n, Ev.f, size)
                             /\ Ev.ret = RetBlock(Ev.n, Ev.r, size)
Rot == /\ Ev.ev = "rotate"
       /\ LET r == Rotate(Ev.before, Ev.recv)
          IN /\ r.fits
             /\ r.next = Ev.label
             /\ r.blk = Ev.after
             /\ Ev.label = Ev.want                             \* labels come out in path order
Revs == /\ Ev.ev = "reverse"
        /\ ToReturn(Ev.before) = Ev.after
        /\ Ev.after = Ev.want                                   \* equals the path's other block

TraceNext == /\ l <= Len(Trace)
             /\ l' = l + 1
             /\ (Build \/ Rot \/ Revs)
             /\ UNCHANGED vars

TraceAccepted ==
  LET d == TLCGet("stats").diameter
  IN IF d - 1 = Len(Trace) THEN TRUE
     ELSE PrintT("OUT REJECT " \o ToString(d)) /\ FALSE
=============================================================================
