CONSTANTS
  Insts = {"A", "B"}
  MaxCycles = 1
  MaxWorkers = 2
  NilCheckFirst = TRUE
  HonourCancel = TRUE
  Churn = {"peering", "router"}
  TunChoices = {TRUE, FALSE}
  AllowStartFail = TRUE
INIT Init
NEXT Next
INVARIANTS ConstructOK StartOrder StopReverse NoStrayWorkers CleanStop LinksLive NoTimeout
