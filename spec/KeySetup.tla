------------------------------ MODULE KeySetup ------------------------------
(***************************************************************************)
(* End-to-end key set-up between two routers A < B (address order)          *)
(* (router/ping_hello.go, router/tun.go, router/ping_error.go,              *)
(* state/session.go), serving C14.                                          *)
(*                                                                         *)
(* Send: one active exchange per destination, a DETACHED encryption session *)
(* with a fresh client share; request signed.  Request handler: server key  *)
(* exchange on the LIVE session of the source (fresh server share, keys     *)
(* final at once), response.  Response handler: matching active exchange    *)
(* and ping id, once only: complete the detached session and REPLACE the    *)
(* live one.  Signed pings pass the strict time sequence of their sender.   *)
(* A "no encryption keys" error clears the live session.                    *)
(*                                                                         *)
(* TieBreak = TRUE is the code as it is now (fix: commit): while an own      *)
(* exchange with the same router is still open, the router with the lower   *)
(* address ignores the other's request and the router with the higher       *)
(* address abandons its own exchange when it serves the request.  FALSE is   *)
(* the pinned code.  TLC shows that this repair is NOT sufficient (stale      *)
(* requests after a lost response still end with both routers "server").     *)
(* RoleByAddress = TRUE is a second candidate: the router with the lower      *)
(* address never serves a request - it answers it by starting its own         *)
(* exchange - so it is always the key-exchange client; the higher one always   *)
(* serves and abandons its own exchange.  Neither candidate is in the code.    *)
(*                                                                         *)
(* The SECOND way two routers get end-to-end keys is the link (peering)       *)
(* handshake between direct peers (peering/init.go): three signed messages     *)
(* per direction over the (reliable, ordered) connection - request, response,   *)
(* ack - with a key exchange of its own that is kept apart from the session      *)
(* until finalize() installs it with SetEncryptionSession ("the key exchange     *)
(* also sets up the encryption with the router itself").  LinkDial / LinkRecv    *)
(* model it beside the hello actions (MaxLinks = 0 switches it off), so that      *)
(* TLC enumerates every placement of a hello exchange between the first message   *)
(* of a handshake and the two finalisations.  Its messages are signed by the       *)
(* same sessions and pass the same strict time sequence as the hello pings.        *)
(***************************************************************************)
EXTENDS Integers, Sequences, FiniteSets, TLC, Json

CONSTANTS MaxStarts, MaxDrops, MaxDups, TieBreak, RoleByAddress,
          MaxForget,  \* how often a router may lose its keys on its own (restart, idle sessions are cleaned up)
          MaxLinks    \* how many link handshakes between the two routers may be started (0: hello exchanges only)

Routers == {"A", "B"}
Peer(x) == IF x = "A" THEN "B" ELSE "A"
Lower(x) == x = "A"

VARIABLES live,     \* router -> [set |-> BOOLEAN, c, s, role]   keys = K(c, s)
          pending,  \* router -> [open |-> BOOLEAN, id, c, done]
          net,      \* set of messages in flight [to, kind, id, share, stamp, n]
          clock,    \* router -> last stamp used for signing
          latest,   \* router -> newest stamp accepted from the peer
          fresh,    \* next fresh share / ping id
          nstart, ndrop, ndup,
          nforget,
          errs,     \* router -> number of "no keys" errors it has sent (rate limited in the code)
          lq,       \* router -> sequence of link-handshake messages on the connection towards it (FIFO, reliable)
          lst,      \* router -> its end of the link handshake [step, client, c, s]
          nlink,    \* link handshakes started so far
          act

\* step of one end of a link handshake: 0 none, 1 waiting for the request, 2 for the response, 3 for the ack,
\* 4 finalised (linked), 5 failed (connection closed)
lvars == <<lq, lst, nlink>>
vars == <<live, pending, net, clock, latest, fresh, nstart, ndrop, ndup, errs, nforget, lq, lst, nlink, act>>
View == <<live, pending, net, clock, latest, fresh, nstart, ndrop, ndup, errs, nforget, lq, lst, nlink>>

NoKeys == [set |-> FALSE, c |-> 0, s |-> 0, role |-> "none"]
NoPending == [open |-> FALSE, id |-> 0, c |-> 0, done |-> FALSE]
NoLink == [step |-> 0, client |-> FALSE, c |-> 0, s |-> 0]

Init == /\ live = [x \in Routers |-> NoKeys]
        /\ pending = [x \in Routers |-> NoPending]
        /\ net = {}
        /\ clock = [x \in Routers |-> 0] /\ latest = [x \in Routers |-> 0]
        /\ fresh = 1
        /\ nstart = [x \in Routers |-> 0] /\ ndrop = 0 /\ ndup = 0
        /\ errs = [x \in Routers |-> 0] /\ nforget = 0
        /\ lq = [x \in Routers |-> <<>>] /\ lst = [x \in Routers |-> NoLink] /\ nlink = 0
        /\ act = [name |-> "init"]

Msg(to, kind, id, share, stamp) == [to |-> to, kind |-> kind, id |-> id, share |-> share, stamp |-> stamp, n |-> 0]

(* handleTunPacket: a local packet for the peer while encryption is not set *)
(* up and no exchange is active starts a hello.                              *)
Start(x) ==
  /\ nstart[x] < MaxStarts
  /\ ~live[x].set /\ ~pending[x].open
  /\ pending' = [pending EXCEPT ![x] = [open |-> TRUE, id |-> fresh, c |-> fresh + 1, done |-> FALSE]]
  /\ clock' = [clock EXCEPT ![x] = @ + 1]
  /\ net' = net \cup {Msg(Peer(x), "req", fresh, fresh + 1, clock[x] + 1)}
  /\ fresh' = fresh + 2
  /\ nstart' = [nstart EXCEPT ![x] = @ + 1]
  /\ act' = [name |-> "start", at |-> x]
  /\ UNCHANGED <<live, latest, ndrop, ndup, errs, nforget>> /\ UNCHANGED lvars

(* A message is taken off the network and handled by its receiver.           *)
Recv(m) ==
  /\ m \in net
  /\ m.n = 2 => lst[m.to].step = 4   \* over the link: behind the ack, which the receiver has read when it is linked
  /\ LET y == m.to
         x == Peer(y)
     IN IF m.stamp <= latest[y]
        THEN \* strict time sequence: duplicates and overtaken older pings are dropped
             /\ net' = net \ {m}
             /\ act' = [name |-> "recv", m |-> m, outcome |-> "stale"]
             /\ UNCHANGED <<live, pending, clock, latest, fresh, nforget>>
        ELSE /\ latest' = [latest EXCEPT ![y] = m.stamp]
             /\ CASE m.kind = "req" /\ RoleByAddress /\ Lower(y) ->
                     \* never serve: answer by initiating (unless an exchange is already open)
                     IF pending[y].open
                     THEN /\ net' = net \ {m}
                          /\ act' = [name |-> "recv", m |-> m, outcome |-> "ignored"]
                          /\ UNCHANGED <<live, pending, clock, fresh, nforget>>
                     ELSE /\ pending' = [pending EXCEPT ![y] = [open |-> TRUE, id |-> fresh, c |-> fresh + 1, done |-> FALSE]]
                          /\ clock' = [clock EXCEPT ![y] = @ + 1]
                          /\ net' = (net \ {m}) \cup {Msg(x, "req", fresh, fresh + 1, clock[y] + 1)}
                          /\ fresh' = fresh + 2
                          /\ act' = [name |-> "recv", m |-> m, outcome |-> "initiated"]
                          /\ UNCHANGED live
                  [] m.kind = "req" /\ ~(RoleByAddress /\ Lower(y)) ->
                     IF TieBreak /\ pending[y].open /\ ~pending[y].done /\ Lower(y)
                     THEN \* own exchange wins, ignore the request
                          /\ net' = net \ {m}
                          /\ act' = [name |-> "recv", m |-> m, outcome |-> "ignored"]
                          /\ UNCHANGED <<live, pending, clock, fresh, nforget>>
                     ELSE /\ live' = [live EXCEPT ![y] = [set |-> TRUE, c |-> m.share, s |-> fresh, role |-> "server"]]
                          /\ pending' = IF (TieBreak \/ RoleByAddress) /\ pending[y].open /\ ~pending[y].done
                                        THEN [pending EXCEPT ![y].done = TRUE]   \* abandon own exchange
                                        ELSE pending
                          /\ clock' = [clock EXCEPT ![y] = @ + 1]
                          \* a router that is linked to the other by now routes its answer over the link (n = 2):
                          \* ordered behind its handshake messages, neither lost nor duplicated
                          /\ net' = (net \ {m}) \cup {[Msg(x, "resp", m.id, fresh, clock[y] + 1) EXCEPT !.n = IF lst[y].step = 4 THEN 2 ELSE 0]}
                          /\ fresh' = fresh + 1
                          /\ act' = [name |-> "recv", m |-> m, outcome |-> "served"]
                  [] m.kind = "resp" ->
                     IF pending[y].open /\ pending[y].id = m.id /\ ~pending[y].done
                     THEN /\ live' = [live EXCEPT ![y] = [set |-> TRUE, c |-> pending[y].c, s |-> m.share, role |-> "client"]]
                          /\ pending' = [pending EXCEPT ![y].done = TRUE]
                          /\ net' = net \ {m}
                          /\ act' = [name |-> "recv", m |-> m, outcome |-> "completed"]
                          /\ UNCHANGED <<clock, fresh, nforget>>
                     ELSE /\ net' = net \ {m}
                          /\ act' = [name |-> "recv", m |-> m, outcome |-> "rejected"]
                          /\ UNCHANGED <<live, pending, clock, fresh, nforget>>
                  [] m.kind = "err" ->
                     /\ live' = [live EXCEPT ![y] = NoKeys]
                     /\ net' = net \ {m}
                     /\ act' = [name |-> "recv", m |-> m, outcome |-> "cleared"]
                     /\ UNCHANGED <<pending, clock, fresh, nforget>>
  /\ UNCHANGED <<nstart, ndrop, ndup, errs, nforget>> /\ UNCHANGED lvars

Drop(m) == /\ m \in net /\ ndrop < MaxDrops /\ m.n # 2
           /\ net' = net \ {m} /\ ndrop' = ndrop + 1
           /\ act' = [name |-> "drop", m |-> m]
           /\ UNCHANGED <<live, pending, clock, latest, fresh, nstart, ndup, errs, nforget>> /\ UNCHANGED lvars

(* Duplication: a second copy of a message in flight (n = 1).                *)
Dup(m) == /\ m \in net /\ m.n = 0 /\ ndup < MaxDups
          /\ [m EXCEPT !.n = 1] \notin net
          /\ ndup' = ndup + 1
          /\ act' = [name |-> "dup", m |-> m]
          /\ net' = net \cup {[m EXCEPT !.n = 1]}
          /\ UNCHANGED <<live, pending, clock, latest, fresh, nstart, ndrop, errs, nforget>> /\ UNCHANGED lvars

(* The active exchange times out (30 s) / its cool-down ends (5 s).          *)
Expire(x) == /\ pending[x].open
             /\ pending' = [pending EXCEPT ![x] = NoPending]
             /\ act' = [name |-> "expire", at |-> x]
             /\ UNCHANGED <<live, net, clock, latest, fresh, nstart, ndrop, ndup, errs, nforget>> /\ UNCHANGED lvars

(* Traffic from x reaches a peer that has no keys: it answers with the       *)
(* "no encryption keys" error (a signed ping).                               *)
DataToKeyless(x) ==
  /\ live[x].set /\ ~live[Peer(x)].set
  /\ errs[Peer(x)] = 0          \* error pings of one kind to one router are rate limited (10 s)
  /\ errs' = [errs EXCEPT ![Peer(x)] = 1]
  /\ clock' = [clock EXCEPT ![Peer(x)] = @ + 1]
  /\ net' = net \cup {Msg(x, "err", 0, 0, clock[Peer(x)] + 1)}
  /\ act' = [name |-> "data", at |-> x]
  /\ UNCHANGED <<live, pending, latest, fresh, nstart, ndrop, ndup, nforget>> /\ UNCHANGED lvars

(* A router loses its keys on its own: it was restarted, or its idle session   *)
(* was cleaned up.  Its next packet for the peer starts a new set-up, which   *)
(* the peer - still holding the old keys - serves in place.                   *)
Forget(x) ==
  /\ live[x].set /\ nforget < MaxForget
  /\ live' = [live EXCEPT ![x] = NoKeys]
  /\ nforget' = nforget + 1
  /\ act' = [name |-> "forget", at |-> x]
  /\ UNCHANGED <<pending, net, clock, latest, fresh, nstart, ndrop, ndup, errs>> /\ UNCHANGED lvars

-----------------------------------------------------------------------------
(* The link (peering) handshake between the two routers as direct peers          *)
(* (peering/init.go, peering/link.go handleSetup).  Both ends write their signed   *)
(* request when the connection is up; every end answers the peer's request with a  *)
(* response (the dialling end is the key-exchange client and puts its share in),    *)
(* the peer's response with an ack (the listening end derives the keys and puts its  *)
(* share in) and, having read the peer's ack, derives the link keys and INSTALLS the  *)
(* handshake's key exchange as the end-to-end encryption session (finalize).  The      *)
(* connection is ordered and reliable.  Every message is checked against the strict     *)
(* time sequence of its signer: a hello ping that was signed later but arrived earlier   *)
(* makes the handshake fail at that end, which closes the connection.                    *)
LMsg(kind, share, stamp) == [kind |-> kind, share |-> share, stamp |-> stamp]
LSend(q, y, m) == IF lst[y].step = 5 THEN q ELSE [q EXCEPT ![y] = Append(@, m)]

LinkDial(d) ==
  /\ nlink < MaxLinks
  /\ \A x \in Routers : lst[x].step = 0 /\ lq[x] = <<>>
  /\ lst' = [x \in Routers |-> [step |-> 1, client |-> (x = d), c |-> 0, s |-> 0]]
  /\ clock' = [x \in Routers |-> clock[x] + 1]
  /\ lq' = [y \in Routers |-> <<LMsg("lreq", 0, clock[Peer(y)] + 1)>>]
  /\ nlink' = nlink + 1
  /\ act' = [name |-> "dial", at |-> d]
  /\ UNCHANGED <<live, pending, net, latest, fresh, nstart, ndrop, ndup, errs, nforget>>

LinkRecv(y) ==
  /\ lq[y] # <<>>
  /\ LET m == Head(lq[y])
         x == Peer(y)
         rest == [lq EXCEPT ![y] = Tail(@)]
         me == lst[y]
     IN IF m.kind = "lerr"
        THEN \* the peer gave up and closed the connection
             /\ lst' = [lst EXCEPT ![y].step = IF me.step = 4 THEN 4 ELSE 5]
             /\ lq' = [lq EXCEPT ![y] = <<>>]
             /\ act' = [name |-> "lrecv", at |-> y, kind |-> m.kind, outcome |-> IF me.step = 4 THEN "closed" ELSE "failed"]
             /\ UNCHANGED <<live, clock, latest, fresh>>
        ELSE IF m.stamp <= latest[y]
        THEN \* strict time sequence: the handshake fails at y, y closes the connection
             /\ lst' = [lst EXCEPT ![y].step = 5]
             /\ lq' = [lq EXCEPT ![y] = <<>>, ![x] = IF lst[x].step = 5 THEN <<>> ELSE Append(@, LMsg("lerr", 0, 0))]
             /\ act' = [name |-> "lrecv", at |-> y, kind |-> m.kind, outcome |-> "refused"]
             /\ UNCHANGED <<live, clock, latest, fresh>>
        ELSE /\ latest' = [latest EXCEPT ![y] = m.stamp]
             /\ CASE m.kind = "lreq" ->
                     LET share == IF me.client THEN fresh ELSE 0
                     IN /\ lst' = [lst EXCEPT ![y] = [me EXCEPT !.step = 2, !.c = share]]
                        /\ fresh' = IF me.client THEN fresh + 1 ELSE fresh
                        /\ clock' = [clock EXCEPT ![y] = @ + 1]
                        /\ lq' = LSend(rest, x, LMsg("lresp", share, clock[y] + 1))
                        /\ act' = [name |-> "lrecv", at |-> y, kind |-> m.kind, outcome |-> "request"]
                        /\ UNCHANGED live
                  [] m.kind = "lresp" ->
                     LET share == IF me.client THEN 0 ELSE fresh
                     IN /\ lst' = [lst EXCEPT ![y] = IF me.client THEN [me EXCEPT !.step = 3]
                                                    ELSE [me EXCEPT !.step = 3, !.c = m.share, !.s = fresh]]
                        /\ fresh' = IF me.client THEN fresh ELSE fresh + 1
                        /\ clock' = [clock EXCEPT ![y] = @ + 1]
                        /\ lq' = LSend(rest, x, LMsg("lack", share, clock[y] + 1))
                        /\ act' = [name |-> "lrecv", at |-> y, kind |-> m.kind, outcome |-> "response"]
                        /\ UNCHANGED live
                  [] m.kind = "lack" ->
                     \* finalize(): the handshake's key exchange becomes the end-to-end session, whatever was there
                     LET s == IF me.client THEN m.share ELSE me.s
                     IN /\ lst' = [lst EXCEPT ![y] = [me EXCEPT !.step = 4, !.s = s]]
                        /\ live' = [live EXCEPT ![y] = [set |-> TRUE, c |-> me.c, s |-> s,
                                                         role |-> IF me.client THEN "lclient" ELSE "lserver"]]
                        /\ lq' = rest
                        /\ act' = [name |-> "lrecv", at |-> y, kind |-> m.kind, outcome |-> "finalized"]
                        /\ UNCHANGED <<clock, fresh>>
  /\ UNCHANGED <<pending, net, nstart, ndrop, ndup, errs, nforget, nlink>>

LinkBusy == \E x \in Routers : lst[x].step \in {1, 2, 3} \/ lq[x] # <<>>

Opp(r) == CASE r = "client" -> "server" [] r = "server" -> "client"
            [] r = "lclient" -> "lserver" [] r = "lserver" -> "lclient" [] OTHER -> "?"
Compatible == /\ live["A"].c = live["B"].c /\ live["A"].s = live["B"].s
              /\ live["B"].role = Opp(live["A"].role)
Quiescent == (~\E m \in net : m.kind \in {"req", "resp"}) /\ ~LinkBusy
Mismatch == Quiescent /\ live["A"].set /\ live["B"].set /\ ~Compatible

(* Simulation: a random enabled step.                                        *)
Enabled2 == {<<"start", x>> : x \in {r \in Routers : nstart[r] < MaxStarts /\ ~live[r].set /\ ~pending[r].open}}
            \cup {<<"expire", x>> : x \in {r \in Routers : pending[r].open}}
            \cup {<<"data", x>> : x \in {r \in Routers : live[r].set /\ ~live[Peer(r)].set /\ errs[Peer(r)] = 0}}
            \cup {<<"forget", x>> : x \in {r \in Routers : live[r].set /\ nforget < MaxForget}}
            \cup {<<"recv", m>> : m \in net} \cup {<<"recv", m>> : m \in net}
            \cup (IF ndrop < MaxDrops THEN {<<"drop", m>> : m \in net} ELSE {})
            \cup (IF ndup < MaxDups THEN {<<"dup", m>> : m \in {x \in net : x.n = 0 /\ [x EXCEPT !.n = 1] \notin net}} ELSE {})
NextSim == /\ ndrop >= 0
           /\ Enabled2 # {}
           /\ \E e \in {RandomElement(Enabled2)} :
                CASE e[1] = "start" -> Start(e[2])
                  [] e[1] = "expire" -> Expire(e[2])
                  [] e[1] = "data" -> DataToKeyless(e[2])
                  [] e[1] = "forget" -> Forget(e[2])
                  [] e[1] = "recv" -> Recv(e[2])
                  [] e[1] = "drop" -> Drop(e[2])
                  [] e[1] = "dup" -> Dup(e[2])
DumpStep == PrintT("OUT " \o ToJson([a |-> act', bad |-> Mismatch', net |-> net', live |-> live',
                                      first |-> (fresh = 1 /\ net = {} /\ nstart["A"] + nstart["B"] = 0)]))

Next == \/ \E x \in Routers : Start(x) \/ Expire(x) \/ DataToKeyless(x) \/ Forget(x)
        \/ \E m \in net : Recv(m) \/ Drop(m) \/ Dup(m)
        \/ \E x \in Routers : LinkDial(x) \/ LinkRecv(x)

(* A hello exchange and a link handshake between the same two routers: ONE router  *)
(* starts a hello exchange (two at once are the open findings of the hello exchange  *)
(* alone), at any moment before, during or after the handshake; every placement of    *)
(* its two messages (and of a loss / a duplicate, if the bounds allow one) between     *)
(* the six messages of the handshake.                                                  *)
NextLink ==
  \/ \E x \in Routers : Start(x) /\ nstart["A"] + nstart["B"] = 0
  \/ \E m \in net : Recv(m) \/ Drop(m) \/ Dup(m)
  \/ \E x \in Routers : LinkDial(x) \/ LinkRecv(x)

(* Re-keying, one set-up at a time: a set-up completes undisturbed, one router    *)
(* forgets its keys, the windows run out, and the set-up runs again against the  *)
(* peer that still holds the old keys (the orderly sub-graph of Next).            *)
NextRekey ==
  \/ \E x \in Routers : Start(x) /\ net = {}
                         /\ (nstart["A"] + nstart["B"] = 0 \/ (nforget = 1 /\ nstart["A"] + nstart["B"] = 1))
  \/ \E m \in net : Recv(m)
  \/ \E x \in Routers : Expire(x) /\ net = {} /\ nforget = 1
  \/ \E x \in Routers : Forget(x) /\ net = {} /\ live["A"].set /\ live["B"].set

Spec == Init /\ [][Next]_vars

-----------------------------------------------------------------------------
(* Properties (C14).                                                       *)
NoSilentMismatch == Quiescent => ~(live["A"].set /\ live["B"].set /\ ~Compatible)

(* Prints the class of every quiescent mismatch state (always TRUE): used to  *)
(* enumerate the classes of the known finding for larger bounds.             *)
ClassProbe == Mismatch => PrintT("OUT CLASS " \o live["A"].role \o "," \o live["B"].role)
DumpEdge == PrintT("EDGE " \o ToJson(View) \o "\t" \o ToJson([a |-> act', bad |-> Mismatch']) \o "\t" \o ToJson(View'))
=============================================================================
