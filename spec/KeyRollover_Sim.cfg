\* C15 simulation with the real thresholds (Wrap 2^20 stands for 2^32, see DESIGN 3.3), one direction.
CONSTANTS
  Wrap = 1048576
  RollLo = 255
  RollHi = 1048320
  W = 64
  D = 8
  StartOff = {1, 2, 3, 5, 9, 17, 40, 64, 65, 100, 200, 255, 256, 257, 300}
  MaxSeal = 420
  Duplex = FALSE
  Dups = TRUE
  SplitReset = TRUE
INIT Init
NEXT NextSim
INVARIANTS NonceUnique OnlyOnce CurrentAccepted OldKeyRejected RollsInStep NeverAhead PrioRestart
ACTION_CONSTRAINT DumpStep
