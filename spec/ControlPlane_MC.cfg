INIT Init
NEXT Next
INVARIANTS OnlyAuthenticChanges HelloConfined DisconnectConfined DisconnectComplete LostOnlyAuthenticChanges LostOfflineConfined LostDisconnectConfined AtOnceConfined
ACTION_CONSTRAINT DumpEdge
