INIT Init
NEXT Next
INVARIANTS OnlyAuthenticChanges HelloConfined DisconnectConfined DisconnectComplete
ACTION_CONSTRAINT DumpEdge
