INIT Init
NEXT Next
INVARIANTS OnlyAuthenticChanges HelloConfined DisconnectConfined DisconnectComplete LostOnlyAuthenticChanges LostOfflineConfined LostDisconnectConfined
ACTION_CONSTRAINT DumpEdge
