CONSTANTS
  Binding = "sorted"
  MHasSecret = FALSE
INIT Init
NEXT Next
INVARIANTS AuthOnRegister
ACTION_CONSTRAINT DumpEdge
