--------------------------- MODULE ControlPlane_Trace ---------------------------
(***************************************************************************)
(* Trace validation for C07: pings (genuine and forged) delivered to a     *)
(* real router; the driver snapshots the state the property names before   *)
(* and after and records what changed.                                      *)
(*  {"ev":"case","type":T,"variant":V,"src":X,"before":[routes],            *)
(*   "after":[routes],"keys":[ids],"mtu":[ids],"conn":B,"info":[ids],        *)
(*   "offline":[ids],"stored":[ids],"panic":B}                               *)
(* and the same record with "ev":"lost","off":[ids],"how":H for pings that  *)
(* arrive after good-byes and a loss of session objects; "atonce" /          *)
(* "atonce-replay" for bursts worked on by several workers at once (below). *)
(***************************************************************************)
EXTENDS ControlPlane

Trace == ndJsonDeserialize("trace.ndjson")
VARIABLE l
Ev == Trace[l]
ToSet(sq) == {sq[sk] : sk \in DOMAIN sq}
TraceInit == l = 1 /\ Init

Judge(al) ==
  LET before == ToSet(Ev.before)
      after == ToSet(Ev.after)
  IN /\ ~Ev.panic
     /\ ToSet(Ev.keys) \subseteq al.keys            \* a hello / error from X touches only the session with X
     /\ ToSet(Ev.mtu) \subseteq al.mtu
     /\ (before \ after) \subseteq al.removed        \* a disconnect from X removes only routes that contain X
     /\ (after \ before # {}) => al.mayadd
     /\ Ev.conn => al.conn
     /\ ToSet(Ev.info) \subseteq al.info
     /\ ToSet(Ev.offline) \subseteq al.offline
     /\ ToSet(Ev.stored) \subseteq al.stored         \* no stored record unless the header key hashes to the source

CaseOK == Judge(Allowed(Ev.type, Ev.variant, Ev.src, ToSet(Ev.before)))

(* {"ev":"lost", ... same fields ..., "off":[ids],"how":H}: the ping arrived after the routers `off` had said     *)
(* good-bye and the victim had lost session objects (cleaner / restart); same judgement, AllowedLost.            *)
LostOK == Judge(AllowedLost(Ev.type, Ev.variant, Ev.src, ToSet(Ev.before)))

(* {"ev":"atonce","pings":[{"type":T,"src":X,"first":B,"copies":K,"effective":N}..],"hops":[ids],"how":H,       *)
(*  ... the same before/after fields, taken before and after the whole burst ...}: a burst of genuine pings      *)
(* (every distinct one in K verbatim copies) was worked on by as many router workers at the same moment; the     *)
(* sources marked first had no stored record and no session object before.  `effective` is the number of copies   *)
(* of that ping that are witnessed to have changed state the property names (a hello request: the number of       *)
(* different key-exchange shares the victim answered this one request with - every one is a new set of session   *)
(* keys).  Of the copies of one ping at most one is not a replay, and all that changed over the burst is what     *)
(* the distinct authentic pings allow once each (AllowedAtOnce; `hops`: routers named by genuine hop records).    *)
AtOnceOK == /\ \A i \in DOMAIN Ev.pings : Ev.pings[i].effective <= 1
            /\ Judge(AllowedAtOnce(Ev.pings, ToSet(Ev.hops), ToSet(Ev.before)))
(* {"ev":"atonce-replay", ... the fields of "case" ...}: a ping of such a burst delivered again afterwards, one   *)
(* frame at a time: a replay (the victim received it before and nothing older than it is new), it changes nothing *)
AtOnceReplayOK == Judge(Allowed(Ev.type, "replayed", Ev.src, ToSet(Ev.before)))

TraceNext == /\ l <= Len(Trace) /\ l' = l + 1
             /\ \/ Ev.ev = "case" /\ CaseOK = TRUE
                \/ Ev.ev = "lost" /\ LostOK = TRUE
                \/ Ev.ev = "atonce" /\ AtOnceOK = TRUE
                \/ Ev.ev = "atonce-replay" /\ AtOnceReplayOK = TRUE
             /\ UNCHANGED vars

TraceAccepted ==
  LET dd == TLCGet("stats").diameter
  IN IF dd - 1 = Len(Trace) THEN TRUE
     ELSE PrintT("OUT REJECT " \o ToString(dd)) /\ FALSE
=============================================================================
