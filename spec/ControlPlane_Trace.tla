--------------------------- MODULE ControlPlane_Trace ---------------------------
(***************************************************************************)
(* Trace validation for C07: pings (genuine and forged) delivered to a     *)
(* real router; the driver snapshots the state the property names before   *)
(* and after and records what changed.                                      *)
(*  {"ev":"case","type":T,"variant":V,"src":X,"before":[routes],            *)
(*   "after":[routes],"keys":[ids],"mtu":[ids],"conn":B,"info":[ids],        *)
(*   "offline":[ids],"stored":[ids],"panic":B}                               *)
(***************************************************************************)
EXTENDS ControlPlane

Trace == ndJsonDeserialize("trace.ndjson")
VARIABLE l
Ev == Trace[l]
ToSet(sq) == {sq[sk] : sk \in DOMAIN sq}
TraceInit == l = 1 /\ Init

CaseOK ==
  LET before == ToSet(Ev.before)
      after == ToSet(Ev.after)
      al == Allowed(Ev.type, Ev.variant, Ev.src, before)
  IN /\ ~Ev.panic
     /\ ToSet(Ev.keys) \subseteq al.keys            \* a hello / error from X touches only the session with X
     /\ ToSet(Ev.mtu) \subseteq al.mtu
     /\ (before \ after) \subseteq al.removed        \* a disconnect from X removes only routes that contain X
     /\ (after \ before # {}) => al.mayadd
     /\ Ev.conn => al.conn
     /\ ToSet(Ev.info) \subseteq al.info
     /\ ToSet(Ev.offline) \subseteq al.offline
     /\ ToSet(Ev.stored) \subseteq al.stored         \* no stored record unless the header key hashes to the source

TraceNext == l <= Len(Trace) /\ l' = l + 1 /\ Ev.ev = "case" /\ CaseOK = TRUE /\ UNCHANGED vars

TraceAccepted ==
  LET dd == TLCGet("stats").diameter
  IN IF dd - 1 = Len(Trace) THEN TRUE
     ELSE PrintT("OUT REJECT " \o ToString(dd)) /\ FALSE
=============================================================================
