\* C12 stage M (high representatives of the three size classes), 2..5 hops.
CONSTANTS
  MaxHops = 5
  Reps = {127, 16383, 65535}
  SimMinHops = 2
  SimMaxHops = 2
  SimBigOnly = FALSE
INIT Init
NEXT Next
INVARIANTS LabelsInOrder NeverOutside ReversesExactly SizeSufficientAndMinimal
