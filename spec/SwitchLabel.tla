------------------------------ MODULE SwitchLabel ------------------------------
(***************************************************************************)
(* Switch-label source routes (m/switch_label.go), serving C12.            *)
(*                                                                         *)
(* A block is a sequence of bytes.  Labels are LEB128 varints.  Because    *)
(* the block bytes are wire format, Rotate / ToReturn / Build are the      *)
(* protocol itself and are transcribed; the properties are stated          *)
(* separately over a whole traversal:                                      *)
(*   - rotating the forward block hop by hop yields the forward labels in  *)
(*     order and 0 at the destination, never writing outside the block;    *)
(*   - the block left at the destination reverses to the return block;     *)
(*   - traversing the return block yields the return labels in reverse     *)
(*     and reverses back to the forward block;                             *)
(*   - the block size is sufficient and minimal; > 255 is refused.         *)
(* A path has n >= 2 hops; F[i] (i in 1..n) are forward labels with        *)
(* F[n] = 0, R[i] are return labels with R[1] = 0.                         *)
(***************************************************************************)
EXTENDS Integers, Sequences, FiniteSets, TLC, Json

CONSTANTS MaxHops,   \* exhaustive enumeration for 2..MaxHops hops
          Reps,      \* label representatives
          SimMinHops, SimMaxHops, \* simulation: random hop counts in this range
          SimBigOnly              \* simulation: draw only 3-byte labels (forces sizes above 255)

VARIABLES n, F, R,      \* the path
          block,        \* the travelling block
          phase,        \* "pick" | "fwd" | "turn" | "ret" | "back" | "done" | "refused"
          i,            \* current hop (1-based)
          act

vars == <<n, F, R, block, phase, i, act>>
View == <<n, F, R, block, phase, i>>

-----------------------------------------------------------------------------
(* Varints.                                                                *)
EncSize(x) == IF x <= 127 THEN 1 ELSE IF x <= 16383 THEN 2 ELSE 3
Enc(x) == IF x <= 127 THEN <<x>>
          ELSE IF x <= 16383 THEN <<128 + (x % 128), x \div 128>>
          ELSE <<128 + (x % 128), 128 + ((x \div 128) % 128), x \div 16384>>
Rev(s) == [k \in 1..Len(s) |-> s[Len(s) + 1 - k]]
Zeros(k) == [j \in 1..k |-> 0]

(* <<value, bytes read>>; 0 bytes read = buffer exhausted.                 *)
Dec(b) == IF Len(b) = 0 THEN <<0, 0>>
          ELSE IF b[1] < 128 THEN <<b[1], 1>>
          ELSE IF Len(b) < 2 THEN <<0, 0>>
          ELSE IF b[2] < 128 THEN <<(b[1] - 128) + 128 * b[2], 2>>
          ELSE IF Len(b) < 3 THEN <<0, 0>>
          ELSE <<(b[1] - 128) + 128 * (b[2] - 128) + 16384 * (b[3] % 128), 3>>

SetMin(S) == CHOOSE x \in S : \A y \in S : x <= y

(* One hop: extract the next label, shift the block left, write the label  *)
(* of the link the frame arrived on (reversed varint) at the second zero.  *)
(* Result: [next, blk, fits].                                              *)
Rotate(b, ret) ==
  LET d == Dec(b)
      next == d[1]
      k == d[2]
      L == Len(b)
      sh == [j \in 1..L |-> IF j + k <= L THEN b[j + k] ELSE 0]
      Z == {j \in 1..L : sh[j] = 0}
      pos == IF next = 0
             THEN (IF Z = {} THEN L ELSE SetMin(Z))
             ELSE (IF Cardinality(Z) < 2 THEN L ELSE SetMin(Z \ {SetMin(Z)}))
      slot == Rev(Enc(ret))
      fits == pos + Len(slot) - 1 <= L
  IN [next |-> next,
      fits |-> fits /\ k > 0,
      blk |-> [j \in 1..L |-> IF j >= pos /\ j < pos + Len(slot) THEN slot[j - pos + 1] ELSE sh[j]]]

(* Reverse the block and strip leading zeros.                              *)
ToReturn(b) ==
  LET r == Rev(b)
      L == Len(b)
      NZ == {j \in 1..L : r[j] # 0}
  IN IF NZ = {} THEN r
     ELSE LET f == SetMin(NZ) IN [j \in 1..L |-> IF j + f - 1 <= L THEN r[j + f - 1] ELSE 0]

RECURSIVE Concat(_, _, _)
Concat(lab, from, to) == IF from > to THEN <<>> ELSE Enc(lab[from]) \o Concat(lab, from + 1, to)
RECURSIVE ConcatDown(_, _, _)
ConcatDown(lab, from, to) == IF from < to THEN <<>> ELSE Enc(lab[from]) \o ConcatDown(lab, from - 1, to)

Pad(s, size) == s \o Zeros(size - Len(s))

FwdBlock(nn, FF, size) == Pad(Concat(FF, 1, nn - 1), size)
RetBlock(nn, RR, size) == Pad(ConcatDown(RR, nn, 2), size)

(* The size as the code computes it: slide a window of n-1 labels over     *)
(* f_1..f_n r_2..r_n and take the largest sum of encoded sizes.            *)
SizeSim(nn, FF, RR) == [j \in 1..(2 * nn - 1) |-> IF j <= nn THEN EncSize(FF[j]) ELSE EncSize(RR[j - nn + 1])]
RECURSIVE SumRange(_, _, _)
SumRange(s, from, to) == IF from > to THEN 0 ELSE s[from] + SumRange(s, from + 1, to)
SetMax(S) == CHOOSE x \in S : \A y \in S : x >= y
ImplSize(nn, FF, RR) ==
  LET sim == SizeSim(nn, FF, RR)
  IN SetMax({SumRange(sim, w, w + nn - 2) : w \in 1..nn} \cup
            {SumRange(sim, nn + 1, 2 * nn - 1)})

(* Does a whole forward traversal with block size `size` work?             *)
RECURSIVE FwdWorks(_, _, _, _, _)
FwdWorks(nn, FF, RR, b, k) ==
  LET r == Rotate(b, RR[k])
  IN /\ r.fits
     /\ r.next = FF[k]
     /\ IF k = nn THEN ToReturn(r.blk) = RetBlock(nn, RR, Len(b))
        ELSE FwdWorks(nn, FF, RR, r.blk, k + 1)
RECURSIVE RetWorks(_, _, _, _, _)
RetWorks(nn, FF, RR, b, k) ==
  LET r == Rotate(b, FF[k])
  IN /\ r.fits
     /\ r.next = RR[k]
     /\ IF k = 1 THEN ToReturn(r.blk) = FwdBlock(nn, FF, Len(b))
        ELSE RetWorks(nn, FF, RR, r.blk, k - 1)
Works(nn, FF, RR, size) ==
  /\ size >= Len(Concat(FF, 1, nn - 1))
  /\ size >= Len(ConcatDown(RR, nn, 2))
  /\ FwdWorks(nn, FF, RR, FwdBlock(nn, FF, size), 1)
  /\ RetWorks(nn, FF, RR, RetBlock(nn, RR, size), nn)

-----------------------------------------------------------------------------
Paths(nn) == {[f |-> [j \in 1..nn |-> IF j = nn THEN 0 ELSE ff[j]],
               r |-> [j \in 1..nn |-> IF j = 1 THEN 0 ELSE rr[j]]] :
                 ff \in [1..(nn - 1) -> Reps], rr \in [2..nn -> Reps]}

Start(nn, FF, RR) ==
  LET size == ImplSize(nn, FF, RR)
  IN /\ n' = nn /\ F' = FF /\ R' = RR
     /\ i' = 1
     /\ IF size > 255
        THEN /\ phase' = "refused" /\ block' = <<>>
             /\ act' = [name |-> "build", n |-> nn, f |-> FF, r |-> RR, size |-> size, refused |-> TRUE]
        ELSE /\ phase' = "fwd" /\ block' = FwdBlock(nn, FF, size)
             /\ act' = [name |-> "build", n |-> nn, f |-> FF, r |-> RR, size |-> size, refused |-> FALSE,
                        fwd |-> FwdBlock(nn, FF, size), ret |-> RetBlock(nn, RR, size)]

Init == /\ n = 0 /\ F = <<>> /\ R = <<>> /\ block = <<>> /\ phase = "pick" /\ i = 0
        /\ act = [name |-> "init"]

Pick == /\ phase = "pick"
        /\ \E nn \in 2..MaxHops : \E p \in Paths(nn) : Start(nn, p.f, p.r)

(* Simulation: a random path with labels from the whole 16-bit range.      *)
RandLabelAt(j) == LET x == RandomElement(1..(3 * 65535))
                  IN IF SimBigOnly THEN 16384 + (x % 49152)
                     ELSE IF x <= 65535 THEN 1 + (x % 127)
                     ELSE IF x <= 2 * 65535 THEN 128 + (x % 16256)
                     ELSE 16384 + (x % 49152)
PickSim == /\ phase = "pick"
           /\ \E nn \in {RandomElement(SimMinHops..SimMaxHops)} :
                \E FF \in {[j \in 1..nn |-> IF j = nn THEN 0 ELSE RandLabelAt(j)]} :
                  \E RR \in {[j \in 1..nn |-> IF j = 1 THEN 0 ELSE RandLabelAt(j + 1000)]} :
                    Start(nn, FF, RR)

FwdStep == /\ phase = "fwd"
           /\ LET r == Rotate(block, R[i])
              IN /\ block' = r.blk
                 /\ act' = [name |-> "rotate", dir |-> "fwd", hop |-> i, before |-> block, recv |-> R[i],
                            label |-> r.next, fits |-> r.fits, after |-> r.blk, want |-> F[i]]
                 /\ IF i = n THEN phase' = "turn" /\ i' = i ELSE phase' = "fwd" /\ i' = i + 1
           /\ UNCHANGED <<n, F, R>>

Turn == /\ phase = "turn"
        /\ block' = ToReturn(block)
        /\ act' = [name |-> "reverse", dir |-> "fwd", before |-> block, after |-> ToReturn(block),
                   want |-> RetBlock(n, R, Len(block))]
        /\ phase' = "ret" /\ i' = n
        /\ UNCHANGED <<n, F, R>>

RetStep == /\ phase = "ret"
           /\ LET r == Rotate(block, F[i])
              IN /\ block' = r.blk
                 /\ act' = [name |-> "rotate", dir |-> "ret", hop |-> i, before |-> block, recv |-> F[i],
                            label |-> r.next, fits |-> r.fits, after |-> r.blk, want |-> R[i]]
                 /\ IF i = 1 THEN phase' = "back" /\ i' = i ELSE phase' = "ret" /\ i' = i - 1
           /\ UNCHANGED <<n, F, R>>

Back == /\ phase = "back"
        /\ block' = ToReturn(block)
        /\ act' = [name |-> "reverse", dir |-> "ret", before |-> block, after |-> ToReturn(block),
                   want |-> FwdBlock(n, F, Len(block))]
        /\ phase' = "done"
        /\ UNCHANGED <<n, F, R, i>>

Next == Pick \/ FwdStep \/ Turn \/ RetStep \/ Back
NextSim == PickSim \/ FwdStep \/ Turn \/ RetStep \/ Back
Spec == Init /\ [][Next]_vars

-----------------------------------------------------------------------------
(* Properties (C12).                                                       *)
LabelsInOrder == act.name = "rotate" => act.label = act.want
NeverOutside == act.name = "rotate" => act.fits
ReversesExactly == act.name = "reverse" => act.after = act.want
SizeSufficientAndMinimal ==
  act.name = "build" /\ ~act.refused =>
     /\ Works(act.n, act.f, act.r, act.size)
     /\ ~Works(act.n, act.f, act.r, act.size - 1)
SizeSufficient == act.name = "build" /\ ~act.refused => Works(act.n, act.f, act.r, act.size)

DumpEdge == PrintT("EDGE " \o ToJson(View) \o "\t" \o ToJson(act') \o "\t" \o ToJson(View'))
DumpStep == PrintT("OUT " \o ToJson(act'))
(* The exhaustive configurations run WITHOUT a VIEW: every (state, outcome) pair is a state of its own, so the   *)
(* invariants over `act` are evaluated for every transition.  (Under a VIEW that hides act, TLC evaluates state  *)
(* invariants only for the first representative of a view class; the primed action forms used elsewhere are too   *)
(* slow here.)  The Dump configurations keep the VIEW - they only print edges.                                    *)

=============================================================================
