\* generated by the block in DESIGN/C09: GossipMesh_Dump4.cfg
CONSTANTS
  Nodes = {1, 2, 3, 4}
  Topologies = {{{1, 2}, {1, 3}, {1, 4}}, {{1, 2}, {1, 3}, {2, 4}}, {{1, 2}, {1, 3}, {3, 4}}, {{1, 2}, {1, 4}, {2, 3}}, {{1, 2}, {1, 4}, {3, 4}}, {{1, 2}, {2, 3}, {2, 4}}, {{1, 2}, {2, 3}, {3, 4}}, {{1, 2}, {2, 4}, {3, 4}}, {{1, 3}, {1, 4}, {2, 3}}, {{1, 3}, {1, 4}, {2, 4}}, {{1, 3}, {2, 3}, {2, 4}}, {{1, 3}, {2, 3}, {3, 4}}, {{1, 3}, {2, 4}, {3, 4}}, {{1, 4}, {2, 3}, {2, 4}}, {{1, 4}, {2, 3}, {3, 4}}, {{1, 4}, {2, 4}, {3, 4}}, {{1, 2}, {1, 3}, {1, 4}, {2, 3}}, {{1, 2}, {1, 3}, {1, 4}, {2, 4}}, {{1, 2}, {1, 3}, {1, 4}, {3, 4}}, {{1, 2}, {1, 3}, {2, 3}, {2, 4}}, {{1, 2}, {1, 3}, {2, 3}, {3, 4}}, {{1, 2}, {1, 3}, {2, 4}, {3, 4}}, {{1, 2}, {1, 4}, {2, 3}, {2, 4}}, {{1, 2}, {1, 4}, {2, 3}, {3, 4}}, {{1, 2}, {1, 4}, {2, 4}, {3, 4}}, {{1, 2}, {2, 3}, {2, 4}, {3, 4}}, {{1, 3}, {1, 4}, {2, 3}, {2, 4}}, {{1, 3}, {1, 4}, {2, 3}, {3, 4}}, {{1, 3}, {1, 4}, {2, 4}, {3, 4}}, {{1, 3}, {2, 3}, {2, 4}, {3, 4}}, {{1, 4}, {2, 3}, {2, 4}, {3, 4}}, {{1, 2}, {1, 3}, {1, 4}, {2, 3}, {2, 4}}, {{1, 2}, {1, 3}, {1, 4}, {2, 3}, {3, 4}}, {{1, 2}, {1, 3}, {1, 4}, {2, 4}, {3, 4}}, {{1, 2}, {1, 3}, {2, 3}, {2, 4}, {3, 4}}, {{1, 2}, {1, 4}, {2, 3}, {2, 4}, {3, 4}}, {{1, 3}, {1, 4}, {2, 3}, {2, 4}, {3, 4}}, {{1, 2}, {1, 3}, {1, 4}, {2, 3}, {2, 4}, {3, 4}}}
  OriginSets = {{1}, {2}, {3}, {4}}
  PerLink = FALSE
INIT Init
NEXT Next
VIEW View
INVARIANTS NoEcho LoopFree Reach AtMostThree
ACTION_CONSTRAINT DumpEdge
PROPERTIES OncePerPathA
