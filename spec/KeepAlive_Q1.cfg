SPECIFICATION Spec
INVARIANTS AnsweredMeansOk
CHECK_DEADLOCK FALSE
