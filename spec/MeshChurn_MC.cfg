CONSTANTS
  Shape = "tri"
  MaxAnn = 3
  MaxChurn = 1
  MaxAge = 2
  MaxData = 1
INIT Init
NEXT Next
VIEW View
INVARIANTS NoRouteViaDeadLink Heals
PROPERTIES DataSafeA
