INIT TraceInit
NEXT TraceNext
INVARIANTS NoSharing Isolation CloneEqual NoRemnant ContentOK FailedIsNoop NoPanic
POSTCONDITION TraceAccepted
