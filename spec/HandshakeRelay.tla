---------------------------- MODULE HandshakeRelay ----------------------------
(***************************************************************************)
(* The key-possession proof of the peering handshake against a PARTICIPANT  *)
(* M that is, at the same time, in an honest handshake with the router P it  *)
(* wants to pass for (peering/init.go handlePeeringRequest / Response / Ack),*)
(* serving C04.  No universe secret anywhere (with one, the universe proof   *)
(* binds the two addresses - HandshakeInsider).                              *)
(*                                                                         *)
(*        V  <---- connection 1 ---->  M  <---- connection 2 ---->  P       *)
(*                                                                         *)
(* Both ends of a connection send a request (own address, fresh challenge), *)
(* answer the other's request with a response (echo of the challenge; the   *)
(* client's response carries its key-exchange value) and close with an ack  *)
(* (the server's ack carries its key-exchange value).  Every message is     *)
(* signed by its sender; responses and acks name their destination.         *)
(* M owns a valid identity: P answers M's request whatever challenge it     *)
(* holds.  M may hand V any message it has (its own, or P's, unchanged).    *)
(* A message is [kind, signer, dst, echo, kx].                              *)
(***************************************************************************)
EXTENDS Integers, Sequences, FiniteSets, TLC, Json

CONSTANTS DstChecked     \* the code as it is: TRUE.  FALSE = negative control (destination of response/ack not compared)

Roles == {"client", "server"}
Other(r) == IF r = "client" THEN "server" ELSE "client"

VARIABLES phase, act
vars == <<phase, act>>

(* what P sends on connection 2 when M's request to it holds challenge c and P's role there is pr *)
ReqP == [kind |-> "req", signer |-> "P", dst |-> "any", echo |-> "", kx |-> FALSE]
RespP(c, pr) == [kind |-> "resp", signer |-> "P", dst |-> "M", echo |-> c, kx |-> pr = "client"]
AckP(pr) == [kind |-> "ack", signer |-> "P", dst |-> "M", echo |-> "", kx |-> pr = "server"]
(* what M can make itself *)
RespM(c, mr) == [kind |-> "resp", signer |-> "M", dst |-> "V", echo |-> c, kx |-> mr = "client"]
AckM(mr) == [kind |-> "ack", signer |-> "M", dst |-> "V", echo |-> "", kx |-> mr = "server"]

(* V believes it talks to P (the request it got is P's own, unchanged).  vr = V's role on connection 1. *)
VAcceptsResp(msg, vr) == /\ msg.kind = "resp" /\ msg.signer = "P"        \* verified with the key of the requester's address
                         /\ msg.echo = "cV"                              \* its own fresh challenge
                         /\ (DstChecked => msg.dst = "V")
                         /\ (vr = "server" => msg.kx)                     \* the client's response must bring the key-exchange value
VAcceptsAck(msg, vr) == /\ msg.kind = "ack" /\ msg.signer = "P"
                        /\ (DstChecked => msg.dst = "V")
                        /\ (vr = "client" => msg.kx)

Init == phase = "start" /\ act = [name |-> "init"]
(* one case: V's role, P's role towards M, the challenge M puts into its request to P, whose response / ack M hands to V *)
Case(vr, pr, c, respFrom, ackFrom) ==
  /\ phase = "start" /\ phase' = "done"
  /\ LET resp == IF respFrom = "P" THEN RespP(c, pr) ELSE RespM("cV", Other(vr))
         ack == IF ackFrom = "P" THEN AckP(pr) ELSE AckM(Other(vr))
         reg == VAcceptsResp(resp, vr) /\ VAcceptsAck(ack, vr)
     IN act' = [name |-> "relay", vrole |-> vr, prole |-> pr, challenge |-> c, resp |-> respFrom, ack |-> ackFrom, registered |-> reg]
Next == phase = "start" /\ \E vr \in Roles, pr \in Roles, c \in {"cV", "cM"}, rf \in {"P", "M"}, af \in {"P", "M"} : Case(vr, pr, c, rf, af)
Spec == Init /\ [][Next]_vars

(* C04: P never spoke on connection 1, and M does not hold P's key: V must not register a link to P *)
NoLinkWithoutProof == act.name = "relay" => ~act.registered
DumpEdge == PrintT("EDGE " \o ToJson(phase) \o "\t" \o ToJson(act') \o "\t" \o ToJson(<<phase', act'>>))
=============================================================================
