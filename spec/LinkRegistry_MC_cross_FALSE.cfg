CONSTANTS
  IdentityChecked = FALSE
  Shape = "cross"
  HandshakeMayFail = TRUE
INIT Init
NEXT Next
VIEW View
INVARIANTS Consistent
