------------------------------ MODULE Identity ------------------------------
(***************************************************************************)
(* Self-certifying router identities (m/address.go VerifyAddress,           *)
(* AddressFromStorage, the generator; peering/init.go, router/ping.go,       *)
(* router/ping_announce.go entry points), serving C01.                       *)
(*                                                                          *)
(* An identity (address, hash name, key type, key, easing) is presented      *)
(* through an entry point.  The model describes it relative to a genuine     *)
(* identity G (address = first 128 bits of Digest(G's material)): each field *)
(* is the original or one corruption of it.  Digest is collision resistant:  *)
(* any change of the hashed material (hash name, type, key, easing) changes   *)
(* it.  The code's checks are modelled in the order they run and yield a      *)
(* REASON; the property is stated declaratively (Acceptable) and TLC shows    *)
(* that the two agree for every combination.                                  *)
(***************************************************************************)
EXTENDS Integers, Sequences, FiniteSets, TLC, Json

IpKinds   == {"digest", "bitflip", "outside", "known", "rederived"}
  \* G's address / one bit flipped inside fd00::/8 / G is a self-consistent identity whose digest lies outside fd00::/8 /
  \* the address of a router the victim already knows / the address is RE-DERIVED: it is the digest of exactly the
  \* material that is presented (whatever its type name or key size) and was ground into fd00::/8 - only the checks on
  \* the names and sizes can refuse it
HashKinds == {"orig", "othervalid", "unknown", "empty", "long"}
TypeKinds == {"ed25519", "unknown", "empty"}
KeyKinds  == {"orig", "bitflip", "other", "short", "long", "empty"}
EasKinds  == {"orig", "changed"}
Entries   == {"config", "peering", "ping", "hop"}

VARIABLES phase, act
vars == <<phase, act>>
Init == phase = "start" /\ act = [name |-> "init"]

(* the easing the receiver works with: the ping header has no easing field *)
EasingSeen(entry, eased, eas) ==
  IF entry = "ping" THEN (IF eased THEN "changed" ELSE "orig") ELSE eas

(* ---- the declarative property *)
InBase(ip) == ip # "outside"
DigestDefined(h) == h \in {"orig", "othervalid"}
DigestMatches(ip, h, t, k, e) ==
  IF ip = "rederived" THEN e = "orig"       \* the digest was computed over the presented material with the presented easing
  ELSE ip \in {"digest", "outside"} /\ h = "orig" /\ t = "ed25519" /\ k = "orig" /\ e = "orig"
TypeKnown(t) == t = "ed25519"
KeySizeOK(k) == k \in {"orig", "bitflip", "other"}
Acceptable(entry, eased, ip, h, t, k, eas) ==
  InBase(ip) /\ DigestDefined(h) /\ TypeKnown(t) /\ KeySizeOK(k) /\ DigestMatches(ip, h, t, k, EasingSeen(entry, eased, eas))

(* ---- the checks in code order (VerifyAddress, then VerifyAddressKey; AddressFromStorage checks sizes first) *)
Reason(entry, eased, ip, h, t, k, eas) ==
  LET e == EasingSeen(entry, eased, eas) IN
  IF entry = "config" /\ k \in {"short", "long", "empty"} THEN "key-size"
  ELSE IF entry = "config" /\ ~DigestDefined(h) THEN "hash-invalid"
  ELSE IF ~InBase(ip) THEN "not-in-base"
  ELSE IF ~DigestDefined(h) THEN "hash-invalid"
  ELSE IF t # "ed25519" THEN "key-type"
  ELSE IF k \in {"short", "long", "empty"} THEN "key-size"
  ELSE IF ~DigestMatches(ip, h, t, k, e) THEN "digest-mismatch"
  ELSE "ok"

Present(entry, eased, ip, h, t, k, eas) ==
  /\ phase' = "done"
  /\ act' = [name |-> "present", entry |-> entry, eased |-> eased, ip |-> ip, hash |-> h, type |-> t, key |-> k, easing |-> eas,
             outcome |-> IF Reason(entry, eased, ip, h, t, k, eas) = "ok" THEN "ok" ELSE "error",
             reason |-> Reason(entry, eased, ip, h, t, k, eas),
             acceptable |-> Acceptable(entry, eased, ip, h, t, k, eas),
             (* what the victim believes afterwards *)
             binding |-> IF Reason(entry, eased, ip, h, t, k, eas) = "ok" THEN "presented-key"
                         ELSE IF ip = "known" THEN "previous-key" ELSE "none"]

(* the generator: a candidate's region against the requested and ignored prefix sets *)
Regions == {"eu", "na", "roaming", "privacy", "internal"}
Generate(cand, accept, ignore) ==
  /\ phase' = "done"
  /\ act' = [name |-> "generate", cand |-> cand, accept |-> accept, ignore |-> ignore,
             returned |-> cand # "internal" /\ cand \notin ignore /\ cand \in accept]

Next == phase = "start" /\
  (\/ \E entry \in Entries, eased \in BOOLEAN, ip \in IpKinds \ {"rederived"}, h \in HashKinds, t \in TypeKinds, k \in KeyKinds, eas \in EasKinds :
        Present(entry, eased, ip, h, t, k, eas)
   \* re-derived addresses: only where a digest exists; the presented easing is zero (eased = FALSE) or not
   \/ \E entry \in Entries, eased \in BOOLEAN, h \in {"orig", "othervalid"}, t \in TypeKinds, k \in {"orig", "other", "short", "long", "empty"} :
        Present(entry, eased, "rederived", h, t, k, "orig")
   \/ \E cand \in Regions, accept \in SUBSET (Regions \ {"internal"}), ignore \in SUBSET (Regions \ {"internal"}) : Generate(cand, accept, ignore))
Spec == Init /\ [][Next]_vars

(* ---- Properties (C01) *)
(* accepted exactly when the address lies in the base range and equals the digest of the presented material *)
AcceptIffProved == act.name = "present" => ((act.outcome = "ok") = act.acceptable)
(* a binding for an address exists only with a key that was proved to own it *)
BindingOnlyIfProved == act.name = "present" => (act.binding = "presented-key" => act.acceptable)
(* an identity that does not own a known router's address never replaces that router's key *)
NoTakeover == act.name = "present" /\ act.ip = "known" => act.binding = "previous-key"
(* the generator only returns identities in a requested prefix, outside ignored and internal ranges *)
GeneratorSound == act.name = "generate" /\ act.returned => act.cand \in act.accept /\ act.cand \notin act.ignore /\ act.cand # "internal"

DumpEdge == PrintT("EDGE " \o ToJson(phase) \o "\t" \o ToJson(act') \o "\t" \o ToJson(<<phase', act'>>))
=============================================================================
