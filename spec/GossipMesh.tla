------------------------------ MODULE GossipMesh ------------------------------
(***************************************************************************)
(* Flooding of router announcements in an honest mesh                       *)
(* (router/ping_announce.go Send / Handle, router/ping.go parsePingMsg,     *)
(* switchr/switch.go, m/table.go AddRoute), serving C09.                    *)
(*                                                                         *)
(* An origin's announcement is sent on every link; a receiver verifies it,  *)
(* applies the strict time sequence of the origin (an older stamp is        *)
(* dropped, an equal stamp - another copy of the same announcement - is     *)
(* processed), refuses announcements that already carry its own hop record, *)
(* adds the route (at most three non-peer routes per destination, better    *)
(* ones replace the third), and - only if the route was added - forwards a   *)
(* copy with its own hop record to every link except the origin, the link   *)
(* it came from and routers already in the hop list.                        *)
(* Deliver(m) for any in-flight m is the schedule.                          *)
(***************************************************************************)
EXTENDS Integers, Sequences, FiniteSets, TLC, Json

CONSTANTS Nodes,       \* set of node ids (integers; id order = address order)
          Topologies,  \* set of edge sets (each a set of two-element sets of nodes); Init picks one
          OriginSets,  \* set of sets of announcing nodes; Init picks one
          PerLink      \* TRUE: one announcement per link of the origin (as announceRouter does), FALSE: one

VARIABLES Edges,     \* the topology of this behaviour
          Origins,   \* the announcing nodes of this behaviour
          table,     \* node -> set of routes [dst, path, peer]
          latest,    \* node -> origin -> newest stamp processed
          inflight,  \* set of messages [o, k, hops, from, to]
          todo,      \* origin -> number of announcements still to send
          seen,      \* history: (o, k, hops, to) delivered so far
          act

vars == <<Edges, Origins, table, latest, inflight, todo, seen, act>>
View == <<Edges, Origins, table, latest, inflight, todo, seen>>

Nb(n) == {x \in Nodes : {n, x} \in Edges}
Deg(n) == Cardinality(Nb(n))
InSeq(x, s) == \E i \in 1..Len(s) : s[i] = x

RelLess(a, b) == \E i \in 1..Len(a) : a[i] < b[i] /\ \A j \in 1..(i - 1) : a[j] = b[j]
(* stdSort inside one destination: hops, (equal delays), relay ids.         *)
Better(a, b) == \/ Len(a.path) < Len(b.path)
                \/ Len(a.path) = Len(b.path) /\ RelLess(a.path, b.path)
RouteEq(a, b) == (a.peer /\ b.peer) \/ a.path = b.path
Sec(T, d) == {e \in T : e.dst = d}
Rank(T, e) == Cardinality({x \in Sec(T, e.dst) : Better(x, e)})

AddRoute(T, r) ==
  LET sec == Sec(T, r.dst)
  IN IF sec = {} THEN <<TRUE, T \cup {r}>>
     ELSE IF \E e \in sec : RouteEq(e, r)
          THEN <<TRUE, (T \ {e \in sec : RouteEq(e, r)}) \cup {r}>>
          ELSE IF Cardinality(sec) < 3 \/ r.peer THEN <<TRUE, T \cup {r}>>
               ELSE LET third == CHOOSE x \in sec : Rank(T, x) = 2
                    IN IF Better(r, third) THEN <<TRUE, (T \ {third}) \cup {r}>> ELSE <<FALSE, T>>

Init == /\ Edges \in Topologies
        /\ Origins \in OriginSets
        /\ table = [n \in Nodes |-> {[dst |-> x, path |-> <<n, x>>, peer |-> TRUE] : x \in Nb(n)}]
        /\ latest = [n \in Nodes |-> [o \in Nodes |-> 0]]
        /\ inflight = {}
        /\ todo = [n \in Nodes |-> IF n \in Origins THEN (IF PerLink THEN Deg(n) ELSE 1) ELSE 0]
        /\ seen = {}
        /\ act = [name |-> "init"]

(* AnnouncePingHandler.Send: one announcement, a copy on every link.        *)
Announce(o) ==
  /\ todo[o] > 0
  /\ LET k == (IF PerLink THEN Deg(o) ELSE 1) - todo[o] + 1
     IN /\ inflight' = inflight \cup {[o |-> o, k |-> k, hops |-> <<>>, from |-> o, to |-> x] : x \in Nb(o)}
        /\ act' = [name |-> "announce", o |-> o, k |-> k]
  /\ todo' = [todo EXCEPT ![o] = @ - 1]
  /\ UNCHANGED <<Edges, Origins, table, latest, seen>>

(* Switch + router worker + announce handler at m.to.                       *)
Deliver(m) ==
  /\ m \in inflight
  /\ LET r == m.to
         again == <<m.o, m.k, m.hops, r>> \in seen
     IN /\ seen' = seen \cup {<<m.o, m.k, m.hops, r>>}
        /\ inflight' = (inflight \ {m}) \cup
             (IF m.o = r \/ m.k < latest[r][m.o] \/ InSeq(r, m.hops) THEN {}
              ELSE LET res == AddRoute(table[r], [dst |-> m.o, path |-> <<r>> \o m.hops \o <<m.o>>, peer |-> m.hops = <<>>])
                   IN IF ~res[1] THEN {}
                      ELSE {[o |-> m.o, k |-> m.k, hops |-> <<r>> \o m.hops, from |-> r, to |-> q] :
                              q \in {x \in Nb(r) : x # m.o /\ x # m.from /\ ~InSeq(x, m.hops)}})
        /\ IF m.o = r
           THEN /\ act' = [name |-> "deliver", m |-> m, outcome |-> "own", fwd |-> {}, again |-> again]
                /\ UNCHANGED <<table, latest>>
           ELSE IF m.k < latest[r][m.o]
           THEN /\ act' = [name |-> "deliver", m |-> m, outcome |-> "delayed", fwd |-> {}, again |-> again]
                /\ UNCHANGED <<table, latest>>
           ELSE /\ latest' = [latest EXCEPT ![r][m.o] = m.k]
                /\ IF InSeq(r, m.hops)
                   THEN /\ act' = [name |-> "deliver", m |-> m, outcome |-> "looping", fwd |-> {}, again |-> again]
                        /\ UNCHANGED table
                   ELSE LET res == AddRoute(table[r], [dst |-> m.o, path |-> <<r>> \o m.hops \o <<m.o>>, peer |-> m.hops = <<>>])
                            targets == IF res[1] THEN {x \in Nb(r) : x # m.o /\ x # m.from /\ ~InSeq(x, m.hops)} ELSE {}
                        IN /\ table' = [table EXCEPT ![r] = res[2]]
                           /\ act' = [name |-> "deliver", m |-> m, outcome |-> IF res[1] THEN "added" ELSE "notadded",
                                      fwd |-> targets, again |-> again]
  /\ UNCHANGED <<todo, Edges, Origins>>

Next == (\E o \in Nodes : Announce(o)) \/ (\E m \in inflight : Deliver(m))
Spec == Init /\ [][Next]_vars
FairSpec == Spec /\ WF_vars(Next)

(* Simulation: a random enabled step. *)
NextSim == /\ seen = seen
           /\ \E c \in {RandomElement(1..3)} :
                IF (c = 1 \/ inflight = {}) /\ (\E o \in Nodes : todo[o] > 0)
                THEN \E o \in {RandomElement({x \in Nodes : todo[x] > 0})} : Announce(o)
                ELSE \E m \in {RandomElement(inflight)} : Deliver(m)

-----------------------------------------------------------------------------
(* Properties (C09).                                                       *)
NoEcho == \A m \in inflight : m.to # m.o /\ ~InSeq(m.to, m.hops) /\ (Len(m.hops) > 1 => m.to # m.hops[2])
                              /\ (Len(m.hops) = 1 => m.to # m.o)
OncePerPath == act.name = "deliver" => ~act.again
LoopFree == \A m \in inflight : \A i \in 1..Len(m.hops) : \A j \in 1..Len(m.hops) :
               (i # j => m.hops[i] # m.hops[j]) /\ m.hops[i] # m.o
Quiet == inflight = {} /\ \A o \in Nodes : todo[o] = 0
IsWalk(p) == \A i \in 1..(Len(p) - 1) : {p[i], p[i + 1]} \in Edges
Reach == Quiet => \A r \in Nodes : \A d \in Origins \ {r} :
                    \E e \in table[r] : e.dst = d /\ e.path[1] = r /\ e.path[Len(e.path)] = d /\ IsWalk(e.path)
AtMostThree == \A r \in Nodes : \A d \in Nodes : Cardinality({e \in Sec(table[r], d) : ~e.peer}) <= 3
Termination == <>(inflight = {} /\ \A o \in Nodes : todo[o] = 0)

Topo == [edges |-> Edges, origins |-> Origins]
DumpEdge == PrintT("EDGE " \o ToJson(View) \o "\t" \o ToJson(act') \o "\t" \o ToJson(View'))
DumpStep == PrintT("OUT " \o ToJson([a |-> act', topo |-> Topo, first |-> (seen = {} /\ inflight = {} /\ act'.name = "announce" /\ \A o \in Nodes : todo[o] = (IF o \in Origins THEN (IF PerLink THEN Deg(o) ELSE 1) ELSE 0))]))
(***************************************************************************)
(* `act` (the step's observed outcome) is not part of the VIEW: as a state  *)
(* predicate an invariant over act would be evaluated only for the first     *)
(* representative TLC finds of each view class.  The action forms below are  *)
(* evaluated for EVERY transition TLC generates; the configurations that use *)
(* a VIEW check these.                                                       *)
(***************************************************************************)
OncePerPathA == [][OncePerPath']_vars

=============================================================================
