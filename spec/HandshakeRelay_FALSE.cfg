SPECIFICATION Spec
CONSTANTS DstChecked = FALSE
INVARIANTS NoLinkWithoutProof
ACTION_CONSTRAINT DumpEdge
CHECK_DEADLOCK FALSE
