------------------------------ MODULE GossipAuth ------------------------------
(***************************************************************************)
(* Authenticity of gossip routes (router/ping_announce.go parseAnnouncePing *)
(* and Handle, router/ping.go parsePingMsg), serving C08.                   *)
(*                                                                         *)
(* An announcement a = (origin, stamp, body, origin signature) travels with *)
(* nested hop records; record i names router by[i] and is signed by it over  *)
(* its own fields AND the whole chain below it, with the context (origin,    *)
(* stamp, origin signature).  Symbolically a record is                        *)
(*   [by, key, ctx, covers, intact]                                          *)
(* and its signature verifies iff key = by (signed with the key bound to the *)
(* named router), ctx = the announcement it arrives with, covers = the chain *)
(* that actually hangs below it, and intact (own bytes unchanged).           *)
(* The adversary is a router adjacent to the victim (it holds its own key     *)
(* and may therefore produce a fresh valid OUTER record over anything), or a  *)
(* wire attacker (no key).  TLC enumerates every operator, depth and chain    *)
(* length as one case; the driver applies it to real bytes.                   *)
(***************************************************************************)
EXTENDS Integers, Sequences, FiniteSets, TLC, Json

CONSTANTS MaxLen      \* honest chains of 0..MaxLen forwarders

VARIABLES phase, act
vars == <<phase, act>>

(* Routers: 0 = victim, 1..MaxLen forwarders (1 = outermost = delivering peer), 9 = origin, 8 = another peer of the victim *)
Origin == 9
OtherPeer == 8
Honest(L) == [i \in 1..L |-> [by |-> i, key |-> i, ctx |-> "a", covers |-> L - i, intact |-> TRUE]]
(* covers = number of records below; genuine record i covers exactly the genuine suffix i+1..L *)

Ops == {"none", "transit", "mutbody", "mutsig", "wrongpeer", "replayold",
        "outerflip", "outersigflip", "stripouter",
        "innerflip", "innersigflip", "splicetime", "spliceorigin", "reattribute", "forgeknown", "duprec", "reorder",
        "skipto", "claimdirect", "renew", "wraptwice", "handover", "splicechain", "splicebelow"}
NeedsDepth(op) == op \in {"innerflip", "innersigflip", "splicetime", "spliceorigin", "reattribute", "forgeknown", "duprec", "reorder", "skipto"}

(* The chain the victim receives and who delivers it, per operator.  `d` is the depth (2..L) of the     *)
(* record the adversary (router 1, re-signing its own outer record) tampers with.                       *)
Fresh1(n) == [by |-> 1, key |-> 1, ctx |-> "a", covers |-> n, intact |-> TRUE]   \* adversary's new outer record over n records
Tamper(L, d, f(_)) == [i \in 1..L |-> IF i = 1 THEN Fresh1(L - 1) ELSE IF i = d THEN f(Honest(L)[i]) ELSE Honest(L)[i]]

(* "handover": a copy of the announcement with a GENUINE suffix d..L of its chain (d = 1: the whole chain, d = L + 1: no     *)
(* record at all; nothing is altered, every signature verifies) is handed to the victim by a peer p of its own choosing  *)
(* among the routers the victim peers with: the origin itself (the victim has a link of its own to it), any forwarder     *)
(* named in the chain (ditto), or the uninvolved other peer.  Only the peer that signed the outermost attached record     *)
(* (the origin when nothing is attached) may deliver it.                                                                  *)
Received(L, op, d) ==
  CASE op \in {"none", "transit", "mutbody", "mutsig", "wrongpeer", "replayold"} -> Honest(L)
    [] op = "outerflip" -> [Honest(L) EXCEPT ![1].intact = FALSE]
    [] op = "outersigflip" -> [Honest(L) EXCEPT ![1].intact = FALSE]
    [] op = "stripouter" -> SubSeq(Honest(L), 2, L)
    [] op = "innerflip" -> Tamper(L, d, LAMBDA r : [r EXCEPT !.intact = FALSE])
    [] op = "innersigflip" -> Tamper(L, d, LAMBDA r : [r EXCEPT !.intact = FALSE])
    [] op = "splicetime" -> Tamper(L, d, LAMBDA r : [r EXCEPT !.ctx = "b"])       \* same router's record for another stamp
    [] op = "spliceorigin" -> Tamper(L, d, LAMBDA r : [r EXCEPT !.ctx = "c"])     \* ... for another origin
    [] op = "reattribute" -> Tamper(L, d, LAMBDA r : [r EXCEPT !.by = 7])          \* names a router that did not sign
    [] op = "forgeknown" -> \* a fresh record naming a router the victim already knows (its other peer), made and signed with the adversary's own key
         Tamper(L, d, LAMBDA r : [r EXCEPT !.by = OtherPeer, !.key = 1])
    [] op = "duprec" -> \* record d twice: every record above the copy now has one record more below it than it signed
         [i \in 1..(L + 1) |-> IF i = 1 THEN Fresh1(L) ELSE IF i <= d THEN Honest(L)[i] ELSE Honest(L)[i - 1]]
    [] op = "reorder" -> \* records d and d+1 swapped (each keeps what it genuinely signed)
         [i \in 1..L |-> IF i = 1 THEN Fresh1(L - 1) ELSE IF i = d THEN Honest(L)[d + 1]
                         ELSE IF i = d + 1 THEN Honest(L)[d] ELSE Honest(L)[i]]
    [] op = "wraptwice" -> \* honest as far as signatures go: the forwarder attaches TWO records of its own (each genuinely signed for
                           \* this announcement, each covering what hangs below it) - the route must list both, in order
         [i \in 1..(L + 1) |-> IF i = 1 THEN Fresh1(L) ELSE IF i = 2 THEN Fresh1(L - 1) ELSE Honest(L)[i - 1]]
    [] op = "skipto" -> <<Fresh1(L - d + 1)>> \o SubSeq(Honest(L), d, L)               \* own fresh record + genuine suffix
    [] op = "claimdirect" -> <<Fresh1(0)>>                                            \* own fresh record, nothing below
    [] op = "handover" -> SubSeq(Honest(L), d, L)
    [] op = "splicechain" -> \* the WHOLE chain of another announcement (every record genuinely signed by its router - for that other
                             \* announcement - and covering what hangs below it), attached to this one and delivered by its outermost signer
         [i \in 1..L |-> [Honest(L)[i] EXCEPT !.ctx = "c"]]
    [] op = "splicebelow" -> \* the adversary's own fresh record for THIS announcement over the genuine chain 2..L of another announcement
         [i \in 1..L |-> IF i = 1 THEN Fresh1(L - 1) ELSE [Honest(L)[i] EXCEPT !.ctx = "c"]]
    [] op = "renew" -> \* honest: the route is already installed from an earlier announcement whose outer record carried other
                       \* labels / another delay (same total); this is the NEWER announcement with the forwarder's fresh record
         [i \in 1..L |-> IF i = 1 THEN Fresh1(L - 1) ELSE Honest(L)[i]]

Deliverer(L, op, p) == IF op = "handover" THEN p ELSE IF op = "wrongpeer" THEN OtherPeer ELSE IF L = 0 THEN Origin ELSE 1

(* Implementation level: what the code checks, in its order. *)
SigOK(ch, i) == /\ ch[i].key = ch[i].by /\ ch[i].ctx = "a" /\ ch[i].intact
                /\ ch[i].covers = Len(ch) - i
                /\ (i < Len(ch) => TRUE)
ImplAccept(L, op, d, p) ==
  LET ch == Received(L, op, d)
  IN /\ op \notin {"mutbody", "mutsig", "replayold"}          \* origin signature / strict time sequence
     /\ \A i \in 1..Len(ch) : SigOK(ch, i)
     /\ (Len(ch) = 0 => Deliverer(L, op, p) = Origin)
     /\ (Len(ch) > 0 => ch[1].by = Deliverer(L, op, p))

(* Property level: every named router signed its hop for this very announcement, nesting intact,        *)
(* delivering peer is the outermost signer (or the origin).                                             *)
Genuine(r, L) == \E i \in 1..L : r = Honest(L)[i]
OwnFresh(r) == r.by = 1 /\ r.key = 1 /\ r.ctx = "a" /\ r.intact
PropAccept(L, op, d, p) ==
  LET ch == Received(L, op, d)
  IN /\ op \notin {"mutbody", "mutsig", "replayold"}
     /\ \A i \in 1..Len(ch) : (Genuine(ch[i], L) \/ (i <= (IF op = "wraptwice" THEN 2 ELSE 1) /\ OwnFresh(ch[i]))) /\ ch[i].covers = Len(ch) - i
     /\ (Len(ch) = 0 => Deliverer(L, op, p) = Origin)
     /\ (Len(ch) > 0 => ch[1].by = Deliverer(L, op, p))
Path(L, op, d) == [i \in 1..Len(Received(L, op, d)) |-> Received(L, op, d)[i].by]

Init == phase = "start" /\ act = [name |-> "init"]
(* seen = TRUE: the victim has already processed the genuine announcement (same stamp): a copy is then  *)
(* an "immediate duplicate", which the code tolerates for hop pings - the rule for forgeries is the same. *)
Case(L, op, d, seen, p) ==
  /\ phase = "start" /\ phase' = "done"
  /\ (seen => op # "replayold")
  /\ (NeedsDepth(op) => d \in 2..L) /\ (~NeedsDepth(op) /\ op # "handover" => d = 0)
  /\ (op = "handover" => L >= 1 /\ d \in 1..(L + 1) /\ p \in (1..L) \cup {Origin, OtherPeer})
  /\ (op # "handover" => p = 0)
  /\ (op \in {"outerflip", "outersigflip", "stripouter", "claimdirect", "renew", "wraptwice", "splicechain"} => L >= 1)
  /\ (op = "splicebelow" => L >= 2)
  /\ (op = "wraptwice" => ~seen)
  /\ (op = "renew" => ~seen)
  /\ (op = "reorder" => d < L)
  /\ (op = "forgeknown" => d = 2)       \* directly below the adversary's own record: nothing else in the chain is disturbed
  /\ act' = [name |-> "case", len |-> L, op |-> op, depth |-> d, seen |-> seen,
             accept |-> ImplAccept(L, op, d, p), propaccept |-> PropAccept(L, op, d, p),
             path |-> IF PropAccept(L, op, d, p) THEN Path(L, op, d) ELSE <<>>,
             via |-> Deliverer(L, op, p), peer |-> p]
Next == phase = "start" /\ \E L \in 0..MaxLen, op \in Ops, d \in 0..(MaxLen + 1), seen \in BOOLEAN, p \in 0..9 : Case(L, op, d, seen, p)
Spec == Init /\ [][Next]_vars

Agree == act.name = "case" => (act.accept <=> act.propaccept)
DumpEdge == PrintT("EDGE " \o ToJson(phase) \o "\t" \o ToJson(act') \o "\t" \o ToJson(<<phase', act'>>))
=============================================================================
