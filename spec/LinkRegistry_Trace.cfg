INIT TraceInit
NEXT TraceNext
POSTCONDITION TraceAccepted
