------------------------------ MODULE StateFile ------------------------------
(***************************************************************************)
(* The persisted router state (storage/storage_json.go), serving C18.       *)
(*                                                                          *)
(* A directory maps names to inodes; an inode holds a prefix of the         *)
(* serialisation of one version of the state ("old" = what the previous     *)
(* shutdown wrote, "new" = what this shutdown writes).  The writing process *)
(* executes a PROGRAM of system calls - the program is a parameter: the     *)
(* model configurations instantiate it with candidate designs, the trace    *)
(* specification with the calls the real Stop() was observed to make under  *)
(* strace.  The process can be killed between any two calls and inside any  *)
(* write (a prefix of the bytes reaches the file).  Process-kill semantics: *)
(* completed calls are visible, nothing is reordered.                       *)
(* At the next start the loader succeeds iff the state file is absent or    *)
(* holds a complete version.                                                *)
(***************************************************************************)
EXTENDS Integers, Sequences, FiniteSets, TLC, Json

CONSTANTS Prog,     \* sequence of [op, name, name2, fd, n, trunc, creat]; a write's n is the share of the new
                    \* serialisation it carried when observed (scaled to the generation's length, see WriteLen)
          OldLen,   \* bytes of the serialisation found at the very beginning; 0 = there was no file
          NewLen,   \* bytes of the serialisation the first shutdown writes
          NextLens  \* lengths of the serialisations later shutdowns write (the router restarts after a kill or
                    \* a completed shutdown, loads the file, runs, and shuts down again with the same program)
ASSUME NewLen > 0
MaxGen == 1 + Len(NextLens)
LenOf(v) == IF v = 0 THEN OldLen ELSE IF v = 1 THEN NewLen ELSE NextLens[v - 1]

Names == ({"state"} \cup {Prog[i].name : i \in 1..Len(Prog)} \cup {Prog[i].name2 : i \in 1..Len(Prog)}) \ {""}
MaxIno == 1 + Len(Prog) * MaxGen

VARIABLES dir,    \* name -> inode number, 0 = no such file
          ino,    \* inode number -> [ver, len, stale]: the first len bytes of version ver's serialisation, followed by
                  \* stale bytes of whatever the file held before (ver = -1: nothing written yet)
          fds,    \* fd -> [ino, off], ino 0 = closed
          pc, killed, nextIno,
          gen,      \* the shutdown being executed writes version gen
          loaded,   \* the version the running router loaded at its start (-1: no file, empty state)
          refused,  \* a start found a file it could not load
          act
vars == <<dir, ino, fds, pc, killed, nextIno, gen, loaded, refused, act>>

Fds == {Prog[i].fd : i \in 1..Len(Prog)}

Init ==
  /\ dir = [nm \in Names |-> IF nm = "state" /\ OldLen > 0 THEN 1 ELSE 0]
  /\ ino = [i \in 1..MaxIno |-> IF i = 1 /\ OldLen > 0 THEN [ver |-> 0, len |-> OldLen, stale |-> 0] ELSE [ver |-> -1, len |-> 0, stale |-> 0]]
  /\ fds = [f \in Fds |-> [ino |-> 0, off |-> 0]]
  /\ pc = 1 /\ killed = FALSE /\ nextIno = 2
  /\ gen = 1 /\ loaded = (IF OldLen > 0 THEN 0 ELSE -1) /\ refused = FALSE
  /\ act = [name |-> "init"]

Cur == Prog[pc]
Running == ~killed /\ pc <= Len(Prog)

(* the length of a write call in this generation: the observed program wrote NewLen bytes through a file descriptor
   between its open and its close (a SESSION; a program that gives up on one file and writes the serialisation again
   to another one has two sessions, each of NewLen bytes - checked concretely by the driver); a later generation
   hands over LenOf(gen) bytes split in the same proportion (the last call of the session takes the rest) *)
OpenOf(i) ==
  LET S == {j \in 1..(i - 1) : Prog[j].op = "open" /\ Prog[j].fd = Prog[i].fd}
  IN IF S = {} THEN 0 ELSE CHOOSE j \in S : \A k \in S : k <= j
SameSession(i, j) == Prog[j].op = "write" /\ Prog[j].fd = Prog[i].fd /\ OpenOf(j) = OpenOf(i)
WriteLen(i) ==
  LET isLast == \A j \in (i + 1)..Len(Prog) : ~SameSession(i, j)
      before == LET RECURSIVE Sum(_) Sum(j) == IF j = 0 THEN 0 ELSE (IF SameSession(i, j) THEN (Prog[j].n * LenOf(gen)) \div NewLen ELSE 0) + Sum(j - 1) IN Sum(i - 1)
  IN IF isLast THEN LenOf(gen) - before ELSE (Prog[i].n * LenOf(gen)) \div NewLen

(* what k more bytes written through fd do to the file: the bytes are version gen's serialisation in order (checked
   concretely by the driver); they overwrite what is there from the fd's offset on, anything beyond stays *)
Written(f, k) ==
  LET i == fds[f].ino
      c == ino[i]
      total == c.len + c.stale
      off == fds[f].off
  IN IF k = 0 THEN ino
     ELSE IF off = 0 \/ (c.ver = gen /\ off = c.len)
          THEN LET newlen == off + k
                   rest == IF total > newlen THEN total - newlen ELSE 0
               IN [ino EXCEPT ![i] = [ver |-> gen, len |-> newlen, stale |-> rest]]
          ELSE [ino EXCEPT ![i] = [ver |-> -2, len |-> 0, stale |-> total + k]]    \* garbage

DoOpen ==
  /\ Cur.op = "open"
  /\ IF dir[Cur.name] = 0
     THEN IF Cur.creat
          THEN /\ dir' = [dir EXCEPT ![Cur.name] = nextIno]
               /\ ino' = [ino EXCEPT ![nextIno] = [ver |-> -1, len |-> 0, stale |-> 0]]
               /\ fds' = [fds EXCEPT ![Cur.fd] = [ino |-> nextIno, off |-> 0]]
               /\ nextIno' = nextIno + 1
          ELSE UNCHANGED <<dir, ino, fds, nextIno>>     \* ENOENT
     ELSE /\ ino' = IF Cur.trunc THEN [ino EXCEPT ![dir[Cur.name]] = [ver |-> -1, len |-> 0, stale |-> 0]] ELSE ino
          /\ fds' = [fds EXCEPT ![Cur.fd] = [ino |-> dir[Cur.name], off |-> 0]]
          /\ UNCHANGED <<dir, nextIno>>
DoWrite ==
  /\ Cur.op = "write" /\ fds[Cur.fd].ino # 0
  /\ ino' = Written(Cur.fd, WriteLen(pc))
  /\ fds' = [fds EXCEPT ![Cur.fd].off = @ + WriteLen(pc)]
  /\ UNCHANGED <<dir, nextIno>>
DoSync  == Cur.op = "fsync" /\ UNCHANGED <<dir, ino, fds, nextIno>>
DoClose == Cur.op = "close" /\ fds' = [fds EXCEPT ![Cur.fd] = [ino |-> 0, off |-> 0]] /\ UNCHANGED <<dir, ino, nextIno>>
DoRename ==
  /\ Cur.op = "rename" /\ dir[Cur.name] # 0
  /\ dir' = [dir EXCEPT ![Cur.name2] = dir[Cur.name], ![Cur.name] = 0]
  /\ UNCHANGED <<ino, fds, nextIno>>
DoUnlink == Cur.op = "unlink" /\ dir' = [dir EXCEPT ![Cur.name] = 0] /\ UNCHANGED <<ino, fds, nextIno>>

Step ==
  /\ Running
  /\ (DoOpen \/ DoWrite \/ DoSync \/ DoClose \/ DoRename \/ DoUnlink)
  /\ pc' = pc + 1 /\ UNCHANGED <<killed, gen, loaded, refused>>
  /\ act' = [name |-> "step", pc |-> pc, op |-> Cur.op, gen |-> gen]

(* the process dies between two calls *)
Kill ==
  /\ Running
  /\ killed' = TRUE
  /\ act' = [name |-> "kill", pc |-> pc, part |-> "none", gen |-> gen]
  /\ UNCHANGED <<dir, ino, fds, pc, nextIno, gen, loaded, refused>>

(* the process dies inside a write: only a proper, non-empty prefix of the call's bytes is in the file *)
KillInWrite ==
  /\ Running /\ Cur.op = "write" /\ fds[Cur.fd].ino # 0 /\ WriteLen(pc) > 1
  /\ \E part \in {"first", "mid", "allbutone"} :
       LET k == CASE part = "first" -> 1 [] part = "mid" -> WriteLen(pc) \div 2 [] OTHER -> WriteLen(pc) - 1 IN
       /\ k >= 1 /\ k < WriteLen(pc)
       /\ ino' = Written(Cur.fd, k)
       /\ act' = [name |-> "kill", pc |-> pc, part |-> part, gen |-> gen]
  /\ killed' = TRUE
  /\ UNCHANGED <<dir, fds, pc, nextIno, gen, loaded, refused>>

(* What a start finds: the version the state file holds completely, -1 for no file, -2 for a file it cannot read *)
Found ==
  LET i == dir["state"] IN
  IF i = 0 THEN -1
  ELSE IF ino[i].ver >= 0 /\ ino[i].stale = 0 /\ ino[i].len = LenOf(ino[i].ver) THEN ino[i].ver
  ELSE -2

(* the router starts again - after a kill or after a completed shutdown - loads the file and will shut down once more *)
Restart ==
  /\ killed \/ pc > Len(Prog)
  /\ gen < MaxGen /\ ~refused
  /\ IF Found = -2
     THEN refused' = TRUE /\ UNCHANGED <<gen, loaded, pc, killed, fds>>
     ELSE /\ loaded' = Found /\ gen' = gen + 1 /\ pc' = 1 /\ killed' = FALSE
          /\ fds' = [f \in Fds |-> [ino |-> 0, off |-> 0]]
          /\ UNCHANGED refused
  /\ act' = [name |-> "restart", found |-> Found, gen |-> gen]
  /\ UNCHANGED <<dir, ino, nextIno>>

Next == Step \/ Kill \/ KillInWrite \/ Restart
Spec == Init /\ [][Next]_vars

(* C18: wherever the kill hits, the next start finds the complete state the router had loaded or the complete new one *)
Recoverable == killed => Found \in {loaded, gen}
(* the same at every moment (an observer that copies the file while the router shuts down) *)
AlwaysLoadable == Found \in {loaded, gen}
(* a shutdown that is not disturbed stores the new state *)
SaveCompletes == (~killed /\ pc > Len(Prog)) => Found = gen
(* no start ever refuses the file *)
NeverRefuses == ~refused

DumpEdge == PrintT("EDGE " \o ToJson(<<dir, ino, pc, killed, gen, loaded, refused>>) \o "\t" \o ToJson(act') \o "\t" \o ToJson(<<dir', ino', pc', killed', gen', loaded', refused'>>))
=============================================================================
