------------------------------ MODULE StateFile ------------------------------
(***************************************************************************)
(* The persisted router state (storage/storage_json.go), serving C18.       *)
(*                                                                          *)
(* A directory maps names to inodes; an inode holds a prefix of the         *)
(* serialisation of one version of the state ("old" = what the previous     *)
(* shutdown wrote, "new" = what this shutdown writes).  The writing process *)
(* executes a PROGRAM of system calls - the program is a parameter: the     *)
(* model configurations instantiate it with candidate designs, the trace    *)
(* specification with the calls the real Stop() was observed to make under  *)
(* strace.  The process can be killed between any two calls and inside any  *)
(* write (a prefix of the bytes reaches the file).  Process-kill semantics: *)
(* completed calls are visible, nothing is reordered.                       *)
(* At the next start the loader succeeds iff the state file is absent or    *)
(* holds a complete version.                                                *)
(***************************************************************************)
EXTENDS Integers, Sequences, FiniteSets, TLC, Json

CONSTANTS Prog,     \* sequence of [op, name, name2, fd, n, trunc, creat]
          OldLen,   \* bytes of the old serialisation; 0 = there was no file
          NewLen    \* bytes of the new serialisation
ASSUME NewLen > 0

Names == ({"state"} \cup {Prog[i].name : i \in 1..Len(Prog)} \cup {Prog[i].name2 : i \in 1..Len(Prog)}) \ {""}
MaxIno == 1 + Len(Prog)

VARIABLES dir,    \* name -> inode number, 0 = no such file
          ino,    \* inode number -> [ver, len]
          fds,    \* fd -> [ino, off], ino 0 = closed
          pc, killed, nextIno, act
vars == <<dir, ino, fds, pc, killed, nextIno, act>>

Fds == {Prog[i].fd : i \in 1..Len(Prog)}

Init ==
  /\ dir = [nm \in Names |-> IF nm = "state" /\ OldLen > 0 THEN 1 ELSE 0]
  /\ ino = [i \in 1..MaxIno |-> IF i = 1 /\ OldLen > 0 THEN [ver |-> "old", len |-> OldLen] ELSE [ver |-> "none", len |-> 0]]
  /\ fds = [f \in Fds |-> [ino |-> 0, off |-> 0]]
  /\ pc = 1 /\ killed = FALSE /\ nextIno = 2
  /\ act = [name |-> "init"]

Cur == Prog[pc]
Running == ~killed /\ pc <= Len(Prog)

(* what a prefix of k more bytes written through fd does to the file: the   *)
(* bytes are the new serialisation in order (checked concretely by the      *)
(* driver); writing anywhere else than at the end of a "new" prefix makes   *)
(* the content garbage *)
Written(f, k) ==
  LET i == fds[f].ino
      c == ino[i]
  IN IF k = 0 THEN ino
     ELSE IF c.ver \in {"new", "none"} /\ fds[f].off = c.len /\ (c.ver = "new" \/ c.len = 0)
          THEN [ino EXCEPT ![i] = [ver |-> "new", len |-> c.len + k]]
          ELSE [ino EXCEPT ![i] = [ver |-> "garbage", len |-> c.len + k]]

DoOpen ==
  /\ Cur.op = "open"
  /\ IF dir[Cur.name] = 0
     THEN IF Cur.creat
          THEN /\ dir' = [dir EXCEPT ![Cur.name] = nextIno]
               /\ ino' = [ino EXCEPT ![nextIno] = [ver |-> "none", len |-> 0]]
               /\ fds' = [fds EXCEPT ![Cur.fd] = [ino |-> nextIno, off |-> 0]]
               /\ nextIno' = nextIno + 1
          ELSE UNCHANGED <<dir, ino, fds, nextIno>>     \* ENOENT
     ELSE /\ ino' = IF Cur.trunc THEN [ino EXCEPT ![dir[Cur.name]] = [ver |-> "none", len |-> 0]] ELSE ino
          /\ fds' = [fds EXCEPT ![Cur.fd] = [ino |-> dir[Cur.name], off |-> 0]]
          /\ UNCHANGED <<dir, nextIno>>
DoWrite ==
  /\ Cur.op = "write" /\ fds[Cur.fd].ino # 0
  /\ ino' = Written(Cur.fd, Cur.n)
  /\ fds' = [fds EXCEPT ![Cur.fd].off = @ + Cur.n]
  /\ UNCHANGED <<dir, nextIno>>
DoSync  == Cur.op = "fsync" /\ UNCHANGED <<dir, ino, fds, nextIno>>
DoClose == Cur.op = "close" /\ fds' = [fds EXCEPT ![Cur.fd] = [ino |-> 0, off |-> 0]] /\ UNCHANGED <<dir, ino, nextIno>>
DoRename ==
  /\ Cur.op = "rename" /\ dir[Cur.name] # 0
  /\ dir' = [dir EXCEPT ![Cur.name2] = dir[Cur.name], ![Cur.name] = 0]
  /\ UNCHANGED <<ino, fds, nextIno>>
DoUnlink == Cur.op = "unlink" /\ dir' = [dir EXCEPT ![Cur.name] = 0] /\ UNCHANGED <<ino, fds, nextIno>>

Step ==
  /\ Running
  /\ (DoOpen \/ DoWrite \/ DoSync \/ DoClose \/ DoRename \/ DoUnlink)
  /\ pc' = pc + 1 /\ UNCHANGED killed
  /\ act' = [name |-> "step", pc |-> pc, op |-> Cur.op]

(* the process dies between two calls *)
Kill ==
  /\ Running
  /\ killed' = TRUE
  /\ act' = [name |-> "kill", pc |-> pc, part |-> "none"]
  /\ UNCHANGED <<dir, ino, fds, pc, nextIno>>

(* the process dies inside a write: only a proper, non-empty prefix of the call's bytes is in the file *)
KillInWrite ==
  /\ Running /\ Cur.op = "write" /\ fds[Cur.fd].ino # 0 /\ Cur.n > 1
  /\ \E part \in {"first", "mid", "allbutone"} :
       LET k == CASE part = "first" -> 1 [] part = "mid" -> Cur.n \div 2 [] OTHER -> Cur.n - 1 IN
       /\ k >= 1 /\ k < Cur.n
       /\ ino' = Written(Cur.fd, k)
       /\ act' = [name |-> "kill", pc |-> pc, part |-> part]
  /\ killed' = TRUE
  /\ UNCHANGED <<dir, fds, pc, nextIno>>

Next == Step \/ Kill \/ KillInWrite
Spec == Init /\ [][Next]_vars

(* What the next start finds. *)
Load ==
  LET i == dir["state"] IN
  IF i = 0 THEN "absent"
  ELSE IF ino[i].ver = "old" /\ ino[i].len = OldLen THEN "old"
  ELSE IF ino[i].ver = "new" /\ ino[i].len = NewLen THEN "new"
  ELSE "corrupt"

Previous == IF OldLen > 0 THEN "old" ELSE "absent"

(* C18: wherever the kill hits, the next start finds the complete previous or the complete new state *)
Recoverable == killed => Load \in {Previous, "new"}
(* the same at every moment (an observer that copies the file while the router shuts down) *)
AlwaysLoadable == Load \in {Previous, "new"}
(* a shutdown that is not disturbed stores the new state *)
SaveCompletes == (~killed /\ pc > Len(Prog)) => Load = "new"

DumpEdge == PrintT("EDGE " \o ToJson(<<dir, ino, pc, killed>>) \o "\t" \o ToJson(act') \o "\t" \o ToJson(<<dir', ino', pc', killed'>>))
=============================================================================
