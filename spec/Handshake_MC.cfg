INIT Init
NEXT Next
INVARIANTS AuthOnRegister AbortOnFault CleanCompletes DumpFinal
