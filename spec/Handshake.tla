------------------------------ MODULE Handshake ------------------------------
(***************************************************************************)
(* The peering handshake (peering/init.go handlePeeringRequest / Response / *)
(* Ack, peering/link.go handleSetupMessages), serving C04.                  *)
(*                                                                         *)
(* Two honest routers A (dialler, key-exchange client) and B (listener) on  *)
(* one connection; both send a signed request with a fresh challenge, answer *)
(* the peer's request with a response (echoed challenge, universe proof,     *)
(* client key share) and acknowledge the response (server key share).  A     *)
(* router registers the link after it accepted the peer's ack.               *)
(* A wire adversary applies ONE fault (the plan, chosen at the start) to the *)
(* i-th message of one direction: drop, corrupt an authenticated byte,       *)
(* truncate, duplicate, swap with the next message, replace by the same       *)
(* message of an earlier connection of this pair, or reflect the receiver's   *)
(* own message back to it.  `forgot` says whether the receiver lost its       *)
(* session state since the earlier connection (stale time stamps acceptable). *)
(* "splice" is the composition of replay and alteration: the message is put    *)
(* together from the message in flight and material the receiver has seen and  *)
(* verified before (a message of an earlier connection of this pair, or an      *)
(* earlier message of this connection) - e.g. today's bytes under the           *)
(* signature of the earlier message, or the earlier message with today's time   *)
(* stamp.  Whatever the mix, its sender never produced these bytes.             *)
(* When a router aborts it closes the connection, which aborts the other      *)
(* router unless it is already done.                                          *)
(***************************************************************************)
EXTENDS Integers, Sequences, FiniteSets, TLC, Json

Ends == {"A", "B"}
Peer(x) == IF x = "A" THEN "B" ELSE "A"
Kinds == <<"req", "resp", "ack">>
Ops == {"none", "drop", "corrupt", "truncate", "dup", "swap", "replayold", "reflect", "splice"}
Secrets == {"", "s", "t"}
(* The configuration space also holds what an operator can write and the handshake code never asked for:      *)
(*  - a router WITHOUT a universe name (the default universe, uni = "") - with or without a universe secret;  *)
(*    the property puts no condition on the name: a router that has a secret registers no link without proof.  *)
(*  - secrets that differ from "s" only in surrounding white space or in case: other secrets.                  *)
(* A response carries a universe proof only inside a named universe (handlePeeringRequest); in the nameless     *)
(* universe nobody proves anything, so a router with a secret completes with nobody there.                     *)
Variants == {" s", "s ", "S"}
AllSecrets == Secrets \cup Variants

VARIABLES cfg,    \* [uniA, uniB, secA, secB]
          plan,   \* [op, dir (sender of the direction), idx (1..3), forgot]
          step,   \* router -> 1 waiting for request, 2 response, 3 ack, 4 done (registered), 0 aborted
          nsent,  \* router -> messages sent so far (1 = its request)
          q,      \* sender -> sequence of messages towards the peer (after the adversary)
          passed, \* sender -> number of its messages that have passed the adversary
          stale,  \* router -> it accepted a request of an EARLIER connection (its response echoes an old challenge)
          act

vars == <<cfg, plan, step, nsent, q, passed, stale, act>>

(* msg: [from, kind, good]  good = intact, current connection, produced by `from` *)
Msg(x, k) == [from |-> x, kind |-> k, good |-> TRUE, why |-> "genuine"]

Init == /\ cfg \in [uniA : {"u", ""}, uniB : {"u", "v", "U", ""}, secA : AllSecrets, secB : AllSecrets]
        /\ ((cfg.secA \in Variants \/ cfg.secB \in Variants)      \* the near-miss secrets: named universe, against "s", each other, none
               => cfg.uniA = "u" /\ cfg.uniB = "u" /\ cfg.secA # "t" /\ cfg.secB # "t")
        /\ plan \in [op : Ops, dir : Ends, idx : 1..3, forgot : BOOLEAN]
        /\ (plan.op = "none" => plan.dir = "A" /\ plan.idx = 1 /\ ~plan.forgot)
        /\ (plan.op # "replayold" => ~plan.forgot)
        /\ (plan.op = "swap" => plan.idx < 3)
        /\ (cfg.uniB # "u" => plan.op = "none")               \* configuration faults are explored without wire faults
        /\ (plan.op # "none" => cfg.secA = cfg.secB /\ cfg.secA \in {"", "s"} /\ cfg.uniA = "u")
        /\ step = [x \in Ends |-> 1]
        /\ nsent = [x \in Ends |-> 0]
        /\ q = [x \in Ends |-> <<>>]
        /\ passed = [x \in Ends |-> 0]
        /\ stale = [x \in Ends |-> FALSE]
        /\ act = [name |-> "init"]

(* the adversary sits between sender x and its peer *)
Through(x, m) ==
  LET i == passed[x] + 1
      hit == plan.dir = x /\ plan.idx = i
  IN IF ~hit \/ plan.op = "none" THEN <<m>>
     ELSE CASE plan.op = "drop" -> <<>>
            [] plan.op \in {"corrupt", "truncate", "splice"} -> <<[m EXCEPT !.good = FALSE, !.why = plan.op]>>
            [] plan.op = "dup" -> <<m, [m EXCEPT !.good = FALSE, !.why = "dup"]>>      \* the copy repeats a time stamp
            [] plan.op = "swap" -> <<[m EXCEPT !.why = "held"]>>                          \* held back, see Send
            [] plan.op = "replayold" -> <<[m EXCEPT !.good = (plan.forgot /\ m.kind = "req"), !.why = "old"]>>
            [] plan.op = "reflect" -> <<[from |-> Peer(x), kind |-> m.kind, good |-> FALSE, why |-> "reflected"]>>

(* x sends its next message (its request at the start, a response or an ack after accepting a message) *)
Send(x) ==
  /\ step[x] \in {1, 2, 3}
  /\ nsent[x] < step[x]              \* one message per completed step: request when in step 1, ...
  /\ LET k == Kinds[nsent[x] + 1]
         out == Through(x, IF k = "resp" /\ stale[x] THEN [Msg(x, k) EXCEPT !.good = FALSE, !.why = "echoes-old-challenge"] ELSE Msg(x, k))
         held == Len(q[x]) > 0 /\ q[x][Len(q[x])].why = "held"
     IN /\ q' = [q EXCEPT ![x] = IF held
                                  THEN \* swap: the new message overtakes the one held back; the overtaken one then carries an older stamp
                                       SubSeq(@, 1, Len(@) - 1) \o out \o <<[@[Len(@)] EXCEPT !.good = FALSE, !.why = "overtaken"]>>
                                  ELSE @ \o out]
        /\ act' = [name |-> "send", at |-> x, kind |-> k]
  /\ nsent' = [nsent EXCEPT ![x] = @ + 1]
  /\ passed' = [passed EXCEPT ![x] = @ + 1]
  /\ UNCHANGED <<cfg, plan, step, stale>>

Uni(x) == IF x = "A" THEN cfg.uniA ELSE cfg.uniB
Sec(x) == IF x = "A" THEN cfg.secA ELSE cfg.secB
(* the checks of the receiving router y on an otherwise good message of the expected kind *)
ConfigOK(y, k) ==
  CASE k = "req" -> Uni(y) = Uni(Peer(y))                                   \* same universe
    [] k = "resp" -> (Sec(y) # "" => Sec(Peer(y)) = Sec(y) /\ Uni(Peer(y)) # "")   \* peer proved knowledge of MY secret (no proof is made in the nameless universe)
    [] k = "ack" -> TRUE

Abort(y) == [x \in Ends |-> IF x = y THEN 0 ELSE IF step[x] = 4 THEN 4 ELSE 0]

Recv(x) ==   \* the peer y of x takes the head of q[x]
  /\ Len(q[x]) > 0 /\ q[x][1].why # "held"
  /\ LET y == Peer(x)
         m == q[x][1]
     IN /\ step[y] \in {1, 2, 3}
        /\ nsent[y] >= step[y]           \* it has sent what precedes (requests go out before anything is read)
        /\ IF m.good /\ m.from = x /\ m.kind = Kinds[step[y]] /\ ConfigOK(y, m.kind)
           THEN /\ step' = [step EXCEPT ![y] = @ + 1]
                /\ stale' = [stale EXCEPT ![y] = @ \/ m.why = "old"]
                /\ q' = [q EXCEPT ![x] = Tail(@)]
                /\ act' = [name |-> "recv", at |-> y, kind |-> m.kind, outcome |-> "accepted"]
           ELSE /\ step' = Abort(y)
                /\ UNCHANGED stale
                /\ q' = [z \in Ends |-> <<>>]    \* the connection is closed
                /\ act' = [name |-> "recv", at |-> y, kind |-> m.kind, outcome |-> "abort:" \o m.why]
  /\ UNCHANGED <<cfg, plan, nsent, passed>>

(* nothing can move any more although somebody still waits (a dropped message): the connection times out *)
Stuck == /\ \E x \in Ends : step[x] \in {1, 2, 3}
         /\ \A x \in Ends : ~(step[x] \in {1, 2, 3} /\ nsent[x] < step[x])
         /\ \A x \in Ends : IF Len(q[x]) = 0 THEN TRUE
                            ELSE (step[Peer(x)] \notin {1, 2, 3} \/ q[x][1].why = "held" \/ nsent[Peer(x)] < step[Peer(x)])
Timeout == /\ Stuck
           /\ step' = [x \in Ends |-> IF step[x] = 4 THEN 4 ELSE 0]
           /\ q' = [z \in Ends |-> <<>>]
           /\ act' = [name |-> "timeout"]
           /\ UNCHANGED <<cfg, plan, nsent, passed, stale>>

Next == (\E x \in Ends : Send(x) \/ Recv(x)) \/ Timeout
Spec == Init /\ [][Next]_vars

Final == \A x \in Ends : step[x] \in {0, 4}
(* Properties (C04). *)
(* a link is registered only if the peer really answered THIS connection's challenge, in the same universe, *)
(* with proof of the secret when this router has one: i.e. only without any fault before its completion *)
AuthOnRegister == \A x \in Ends : step[x] = 4 =>
                    /\ Uni("A") = Uni("B")
                    /\ (Sec(x) # "" => Sec(Peer(x)) = Sec(x))
AbortOnFault == \* the receiver of the faulty message never registers (a duplicate of the LAST message arrives after
                \* the genuine copy completed the handshake: it is post-handshake garbage, C05's business)
  Final /\ plan.op # "none" /\ ~(plan.op = "dup" /\ plan.idx = 3) => step[Peer(plan.dir)] # 4
(* completion is demanded where the code can deliver it: in the nameless universe only without secrets (the property demands none at all) *)
CleanCompletes == Final /\ plan.op = "none" /\ Uni("A") = Uni("B") /\ (Sec("A") = "" \/ Sec("B") = Sec("A")) /\ (Sec("B") = "" \/ Sec("A") = Sec("B"))
                    /\ (Uni("A") = "" => Sec("A") = "" /\ Sec("B") = "")
                    => step["A"] = 4 /\ step["B"] = 4

DumpFinal == Final => PrintT("OUT " \o ToJson([cfg |-> cfg, plan |-> plan, regA |-> step["A"] = 4, regB |-> step["B"] = 4]))
=============================================================================
