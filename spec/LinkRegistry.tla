---------------------------- MODULE LinkRegistry ----------------------------
(***************************************************************************)
(* The link registry of the peering module (peering/peering.go AddLink,      *)
(* RemoveLink, CloseLink; peering/link.go handleSetup / setupWorker,         *)
(* assignSwitchLabel, Close; peering/init.go "already connected" check),     *)
(* serving C16.                                                              *)
(*                                                                          *)
(* A CONNECTION joins a dialler and a listener; each end is a LINK object    *)
(* owned by one router.  A link's set-up runs, on its own goroutine:         *)
(*   Checked   the handshake is through (the listener's step-1 check         *)
(*             "no link to this peer yet" passed), the peer is known          *)
(*   Labelled  assignSwitchLabel probed a label nobody holds and took it      *)
(*   Added     AddLink put peer route, by-peer and by-label entries           *)
(* and Close (local, remote end gone, broken connection, failed set-up):     *)
(*   Closing   the closing flag was won                                       *)
(*   Removed   RemoveLink took the entries out                                *)
(* Every step is its own action, so set-ups and closes of different links     *)
(* interleave freely - two routers dialling each other at the same time are   *)
(* two connections whose steps interleave.                                    *)
(* IdentityChecked = FALSE is the registry as first written (AddLink and      *)
(* RemoveLink never look at which link an entry points to); TRUE is the       *)
(* registry that refuses a second link and only removes its own entries.      *)
(*                                                                          *)
(* SetupDeadline: the router as it is closes no link in the middle of its     *)
(* set-up from outside ("none").  A router that gives ACCEPTED connections a  *)
(* deadline for the set-up does: a timer calls Close on the link - closing    *)
(* flag won, RemoveLink finds nothing of this link, connection closed - and   *)
(* it may do so when the set-up has read its last message already and goes on *)
(* without any further I/O (DeadlineClose; the phases "checkedX", "labelledX" *)
(* are "checked", "labelled" with the closing flag set).  "unguarded": the    *)
(* set-up does not look at the flag again: it registers the link ("addedX"),  *)
(* and as the flag is taken nobody will ever call RemoveLink for it - TLC     *)
(* refutes Consistent.  "guarded": AddLink is not done for a link whose flag  *)
(* is set (the set-up ends like a failed one) - Consistent holds.  Slow       *)
(* set-ups through real listeners: stage T-slow of the driver.                *)
(***************************************************************************)
EXTENDS Integers, Sequences, FiniteSets, TLC, Json

CONSTANTS Routers,          \* router names
          Conns,            \* connection ids, each with a fixed dialler and listener
          Dialler, Listener, \* Conns -> Routers
          Labels,           \* the label space (small, to force collisions)
          Derived,          \* Routers -> Labels: the label derived from a peer's address
          IdentityChecked,
          SetupDeadline,    \* "none" | "guarded" | "unguarded" (see above; only meaningful with IdentityChecked)
          HandshakeMayFail  \* a handshake may also fail for reasons outside the registry (signature time stamps of
                            \* two handshakes between the same routers within a few milliseconds, I/O errors)

Sides == {"d", "l"}
Links == Conns \X Sides
Owner(k) == IF k[2] = "d" THEN Dialler[k[1]] ELSE Listener[k[1]]
Peer(k)  == IF k[2] = "d" THEN Listener[k[1]] ELSE Dialler[k[1]]
Other(k) == <<k[1], IF k[2] = "d" THEN "l" ELSE "d">>
None == <<0, "none">>

VARIABLES phase,    \* link -> "idle" | "checked" | "labelled" | "added" | "closing" | "removed"
                    \*         | "checkedX" | "labelledX" | "addedX" (closing flag set by the set-up deadline)
          label,    \* link -> label or 0
          byPeer,   \* router -> peer -> link or None
          byLabel,  \* router -> label -> link or None
          routes,   \* router -> set of peers with a direct route
          act
vars == <<phase, label, byPeer, byLabel, routes, act>>
View == <<phase, label, byPeer, byLabel, routes>>

Init ==
  /\ phase = [k \in Links |-> "idle"]
  /\ label = [k \in Links |-> 0]
  /\ byPeer = [r \in Routers |-> [p \in Routers |-> None]]
  /\ byLabel = [r \in Routers |-> [x \in Labels |-> None]]
  /\ routes = [r \in Routers |-> {}]
  /\ act = [name |-> "init"]

(* the handshake of a connection completes: both ends handle the other's peering request and each checks
   that it has no link to that router yet *)
Connected(c) == byPeer[Listener[c]][Dialler[c]] # None \/ byPeer[Dialler[c]][Listener[c]] # None
Handshake(c) ==
  /\ phase[<<c, "d">>] = "idle" /\ phase[<<c, "l">>] = "idle"
  /\ ~Connected(c)
  /\ phase' = [phase EXCEPT ![<<c, "d">>] = "checked", ![<<c, "l">>] = "checked"]
  /\ act' = [name |-> "handshake", conn |-> c]
  /\ UNCHANGED <<label, byPeer, byLabel, routes>>
(* ... or is refused: "already connected"; both ends close without ever knowing a label (the peer is
   not yet assigned at the listener, so nothing in the registry is touched) *)
Refused(c) ==
  /\ phase[<<c, "d">>] = "idle" /\ phase[<<c, "l">>] = "idle"
  /\ Connected(c)
  /\ phase' = [phase EXCEPT ![<<c, "d">>] = "removed", ![<<c, "l">>] = "removed"]
  /\ act' = [name |-> "refused", conn |-> c]
  /\ UNCHANGED <<label, byPeer, byLabel, routes>>

HandshakeFails(c) ==
  /\ HandshakeMayFail
  /\ phase[<<c, "d">>] = "idle" /\ phase[<<c, "l">>] = "idle"
  /\ phase' = [phase EXCEPT ![<<c, "d">>] = "removed", ![<<c, "l">>] = "removed"]
  /\ act' = [name |-> "handshakefails", conn |-> c]
  /\ UNCHANGED <<label, byPeer, byLabel, routes>>

(* assignSwitchLabel: the derived label if nobody holds it, else any free one *)
Free(r, x) == byLabel[r][x] = None
AssignLabel(k) ==
  /\ phase[k] \in {"checked", "checkedX"}
  /\ \E x \in Labels :
       /\ Free(Owner(k), x)
       /\ (x = Derived[Peer(k)] \/ ~Free(Owner(k), Derived[Peer(k)]))
       /\ label' = [label EXCEPT ![k] = x]
  /\ phase' = [phase EXCEPT ![k] = IF phase[k] = "checked" THEN "labelled" ELSE "labelledX"]
  /\ act' = [name |-> "label", conn |-> k[1], side |-> k[2]]
  /\ UNCHANGED <<byPeer, byLabel, routes>>

Occupied(k) == byPeer[Owner(k)][Peer(k)] # None \/ byLabel[Owner(k)][label[k]] # None
AddLink(k) ==
  /\ phase[k] = "labelled"
  /\ IF IdentityChecked /\ Occupied(k)
     THEN (* refused: the set-up fails and the link closes itself *)
          /\ phase' = [phase EXCEPT ![k] = "closing"]
          /\ act' = [name |-> "addrefused", conn |-> k[1], side |-> k[2]]
          /\ UNCHANGED <<byPeer, byLabel, routes>>
     ELSE /\ byPeer' = [byPeer EXCEPT ![Owner(k)][Peer(k)] = k]
          /\ byLabel' = [byLabel EXCEPT ![Owner(k)][label[k]] = k]
          /\ routes' = [routes EXCEPT ![Owner(k)] = @ \cup {Peer(k)}]
          /\ phase' = [phase EXCEPT ![k] = "added"]
          /\ act' = [name |-> "add", conn |-> k[1], side |-> k[2]]
  /\ UNCHANGED label

(* Close of an established link: win the closing flag.  why: "local" (CloseLink / link.Close / stop-all / a broken
   connection noticed by this end's reader or writer), "remote" (the other end closed the connection, which
   it does after its RemoveLink).  Nothing closes a link in the middle of its set-up except the set-up itself. *)
CloseFlag(k, why) ==
  /\ phase[k] = "added"
  /\ why = "remote" => phase[Other(k)] \in {"removed", "checkedX", "labelledX", "addedX"}
  /\ phase' = [phase EXCEPT ![k] = "closing"]
  /\ act' = [name |-> "close", conn |-> k[1], side |-> k[2], why |-> why]
  /\ UNCHANGED <<label, byPeer, byLabel, routes>>

(* RemoveLink *)
RemoveLink(k) ==
  /\ phase[k] = "closing"
  /\ LET r == Owner(k)
         mineP == byPeer[r][Peer(k)] = k
         mineL == label[k] # 0 /\ byLabel[r][label[k]] = k
     IN IF IdentityChecked
        THEN /\ byPeer' = IF mineP THEN [byPeer EXCEPT ![r][Peer(k)] = None] ELSE byPeer
             /\ byLabel' = IF mineL THEN [byLabel EXCEPT ![r][label[k]] = None] ELSE byLabel
             /\ routes' = IF mineP THEN [routes EXCEPT ![r] = @ \ {Peer(k)}] ELSE routes
        ELSE /\ byPeer' = [byPeer EXCEPT ![r][Peer(k)] = None]
             /\ byLabel' = IF label[k] # 0 THEN [byLabel EXCEPT ![r][label[k]] = None] ELSE byLabel
             /\ routes' = [routes EXCEPT ![r] = @ \ {Peer(k)}]
  /\ phase' = [phase EXCEPT ![k] = "removed"]
  /\ act' = [name |-> "remove", conn |-> k[1], side |-> k[2]]
  /\ UNCHANGED label

(* The set-up deadline of an accepted connection fires when the set-up has read its last message: Close by the timer
   - closing flag won; RemoveLink finds no entry of this link (the registry is identity-checked, the link not
   registered); the connection is closed.  The set-up goes on: it needs no more I/O. *)
DeadlineClose(k) ==
  /\ SetupDeadline # "none" /\ IdentityChecked
  /\ k[2] = "l"
  /\ phase[k] \in {"checked", "labelled"}
  /\ phase' = [phase EXCEPT ![k] = phase[k] \o "X"]
  /\ act' = [name |-> "deadline", conn |-> k[1], side |-> k[2]]
  /\ UNCHANGED <<label, byPeer, byLabel, routes>>
(* AddLink of a link whose flag the deadline has set.  guarded: not done, the set-up ends as a failed one (its own
   Close finds the flag taken; nothing of the link is registered).  unguarded: done like for any other link; where
   the registry refuses it the set-up's Close is a no-op likewise; where it accepts, the link is registered and
   closing - reader and writer fail on the closed connection and their Close finds the flag taken: final. *)
AddClosedLink(k) ==
  /\ phase[k] = "labelledX"
  /\ IF SetupDeadline = "guarded" \/ Occupied(k)
     THEN /\ phase' = [phase EXCEPT ![k] = "removed"]
          /\ act' = [name |-> "addrefused", conn |-> k[1], side |-> k[2]]
          /\ UNCHANGED <<byPeer, byLabel, routes>>
     ELSE /\ byPeer' = [byPeer EXCEPT ![Owner(k)][Peer(k)] = k]
          /\ byLabel' = [byLabel EXCEPT ![Owner(k)][label[k]] = k]
          /\ routes' = [routes EXCEPT ![Owner(k)] = @ \cup {Peer(k)}]
          /\ phase' = [phase EXCEPT ![k] = "addedX"]
          /\ act' = [name |-> "add", conn |-> k[1], side |-> k[2]]
  /\ UNCHANGED label

Next ==
  \/ \E c \in Conns : Handshake(c) \/ Refused(c) \/ HandshakeFails(c)
  \/ \E k \in Links : AssignLabel(k) \/ AddLink(k) \/ RemoveLink(k) \/ DeadlineClose(k) \/ AddClosedLink(k)
  \/ \E k \in Links, why \in {"local", "remote"} : CloseFlag(k, why)
Spec == Init /\ [][Next]_vars

(* ---- Properties (C16) *)
Live(k) == phase[k] = "added"
(* nothing is in flight: no set-up or close half way, and no live link whose other end is gone *)
Quiescent ==
  /\ \A k \in Links : phase[k] \in {"idle", "added", "removed", "addedX"}
  /\ \A k \in Links : Live(k) => Live(Other(k))
Findable == \A k \in Links : Live(k) => byPeer[Owner(k)][Peer(k)] = k /\ byLabel[Owner(k)][label[k]] = k
NoGhosts == \A r \in Routers :
              /\ \A p \in Routers : byPeer[r][p] # None => Live(byPeer[r][p])
              /\ \A x \in Labels : byLabel[r][x] # None => Live(byLabel[r][x])
UniqueLabels == \A k1, k2 \in Links : Live(k1) /\ Live(k2) /\ k1 # k2 /\ Owner(k1) = Owner(k2) => label[k1] # label[k2] /\ label[k1] # 0
RoutesMatch == \A r \in Routers : routes[r] = {Peer(k) : k \in {j \in Links : Live(j) /\ Owner(j) = r}}
Consistent == Quiescent => (Findable /\ NoGhosts /\ UniqueLabels /\ RoutesMatch)

DumpEdge == PrintT("EDGE " \o ToJson(<<phase, label, byPeer, byLabel, routes, Quiescent>>) \o "\t" \o ToJson(act') \o "\t" \o ToJson(<<phase', label', byPeer', byLabel', routes', Quiescent'>>))
=============================================================================
