INIT Init
NEXT Next
INVARIANTS AcceptIffProved BindingOnlyIfProved NoTakeover GeneratorSound
ACTION_CONSTRAINT DumpEdge
