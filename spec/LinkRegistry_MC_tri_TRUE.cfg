CONSTANTS
  IdentityChecked = TRUE
  Shape = "tri"
  HandshakeMayFail = TRUE
INIT Init
NEXT Next
VIEW View
INVARIANTS Consistent
