--------------------------- MODULE Identity_Trace ---------------------------
(***************************************************************************)
(* Trace validation for C01.                                                *)
(*  present   entry eased ip hash type key easing  outcome session stored    *)
(*            boundkey        - one identity presented through a real entry  *)
(*  generated accept ignore possible returned panic inaccept inignored       *)
(*            internal digestok verifies reloadsame - one generator call     *)
(* (digestok comes from the driver's independent digest implementation)      *)
(***************************************************************************)
EXTENDS Identity

Trace == ndJsonDeserialize("trace.ndjson")
VARIABLE l
Ev == Trace[l]
TraceInit == l = 1 /\ Init

PresentOK ==
  LET acc == Acceptable(Ev.entry, Ev.eased, Ev.ip, Ev.hash, Ev.type, Ev.key, Ev.easing) IN
  /\ Ev.outcome \in {"ok", "error"}                 \* never a crash
  /\ (Ev.outcome = "ok") = acc                      \* AcceptIffProved
  /\ ~Ev.met /\ acc => (Ev.session /\ Ev.stored /\ Ev.boundkey = "presented")
  /\ ~Ev.met /\ ~acc /\ Ev.ip # "known" => (~Ev.session /\ ~Ev.stored /\ Ev.boundkey = "none")   \* BindingOnlyIfProved
  /\ ~Ev.met /\ ~acc /\ Ev.ip = "known" => Ev.boundkey = "previous"                              \* NoTakeover
  \* met: the victim learned the TRUE identity of this address earlier (completed handshake, link closed since);
  \* whatever tuple the holder of the key presents now, the key learned then stays bound
  /\ Ev.met => (Ev.session /\ Ev.boundkey = "previous")

GeneratedOK ==
  /\ ~Ev.panic
  /\ Ev.returned => (Ev.inaccept /\ ~Ev.inignored /\ ~Ev.internal /\ Ev.digestok /\ Ev.verifies /\ Ev.reloadsame)   \* GeneratorSound
  /\ Ev.possible => Ev.returned

TraceNext ==
  /\ l <= Len(Trace) /\ l' = l + 1
  /\ \/ Ev.ev = "present" /\ PresentOK = TRUE
     \/ Ev.ev = "generated" /\ GeneratedOK = TRUE
  /\ UNCHANGED vars

TraceAccepted ==
  LET dd == TLCGet("stats").diameter
  IN IF dd - 1 = Len(Trace) THEN TRUE
     ELSE PrintT("OUT REJECT " \o ToString(dd)) /\ FALSE
=============================================================================
