--------------------------- MODULE Identity_Trace ---------------------------
(***************************************************************************)
(* Trace validation for C01.                                                *)
(*  present   entry eased ip hash type key easing  outcome session stored    *)
(*            boundkey        - one identity presented through a real entry  *)
(*  generated accept ignore possible returned panic inaccept inignored       *)
(*            internal digestok verifies reloadsame - one generator call     *)
(* (digestok comes from the driver's independent digest implementation)      *)
(*  frame     via claimed addr hdr signer outcome session stored - one step  *)
(*            of a HISTORY against one long-lived victim: a ping, hop record *)
(*            or peering request that claims the address of cast member      *)
(*            `claimed` (addr: own / one bit flipped), shows the key material *)
(*            of member `hdr` and is signed with the key of member `signer`   *)
(*  hist      op outcome - the other steps of such a history: every session   *)
(*            idles and the real cleaner ticks; the victim pings a member     *)
(***************************************************************************)
EXTENDS Identity

Trace == ndJsonDeserialize("trace.ndjson")
VARIABLE l
Ev == Trace[l]
TraceInit == l = 1 /\ Init

PresentOK ==
  LET acc == Acceptable(Ev.entry, Ev.eased, Ev.ip, Ev.hash, Ev.type, Ev.key, Ev.easing) IN
  /\ Ev.outcome \in {"ok", "error"}                 \* never a crash
  /\ (Ev.outcome = "ok") = acc                      \* AcceptIffProved
  /\ ~Ev.met /\ acc => (Ev.session /\ Ev.stored /\ Ev.boundkey = "presented")
  /\ ~Ev.met /\ ~acc /\ Ev.ip # "known" => (~Ev.session /\ ~Ev.stored /\ Ev.boundkey = "none")   \* BindingOnlyIfProved
  /\ ~Ev.met /\ ~acc /\ Ev.ip = "known" => Ev.boundkey = "previous"                              \* NoTakeover
  \* met: the victim learned the TRUE identity of this address earlier (completed handshake, link closed since);
  \* whatever tuple the holder of the key presents now, the key learned then stays bound
  /\ Ev.met => (Ev.session /\ Ev.boundkey = "previous")

(* A history: sessions are made, used, idle away, are removed by the cleaner and made again - for the same and for  *)
(* other addresses.  Whatever came before, the victim accepts something in the name of address X only under the key   *)
(* X is the digest of (every member of the cast is a genuine identity: its address is the digest of its own key and   *)
(* of nobody else's); the frame or request X signs itself is accepted; an address that is the digest of nothing       *)
(* presented gets neither session nor record.  (A genuine hop record need not be accepted: the announcement around it *)
(* may be stale.)                                                                                                      *)
FrameOK ==
  LET own == Ev.addr = "own" /\ Ev.signer = Ev.claimed IN
  /\ Ev.outcome \in {"ok", "error"}                                                 \* never a crash
  /\ Ev.outcome = "ok" => own                                                       \* AcceptOnlyUnderTheKeyOfTheAddress
  /\ (own /\ Ev.hdr = Ev.claimed /\ Ev.via \in {"ping", "peering"}) => Ev.outcome = "ok"
  /\ Ev.addr # "own" => (~Ev.session /\ ~Ev.stored)                                 \* BindingOnlyIfProved

HistOK == Ev.outcome \in {"ok", "error"}

GeneratedOK ==
  /\ ~Ev.panic
  /\ Ev.returned => (Ev.inaccept /\ ~Ev.inignored /\ ~Ev.internal /\ Ev.digestok /\ Ev.verifies /\ Ev.reloadsame)   \* GeneratorSound
  /\ Ev.possible => Ev.returned

TraceNext ==
  /\ l <= Len(Trace) /\ l' = l + 1
  /\ \/ Ev.ev = "present" /\ PresentOK = TRUE
     \/ Ev.ev = "generated" /\ GeneratedOK = TRUE
     \/ Ev.ev = "frame" /\ FrameOK = TRUE
     \/ Ev.ev = "hist" /\ HistOK = TRUE
  /\ UNCHANGED vars

TraceAccepted ==
  LET dd == TLCGet("stats").diameter
  IN IF dd - 1 = Len(Trace) THEN TRUE
     ELSE PrintT("OUT REJECT " \o ToString(dd)) /\ FALSE
=============================================================================
