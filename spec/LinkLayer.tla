------------------------------ MODULE LinkLayer ------------------------------
(***************************************************************************)
(* The link layer after the handshake (peering/link_frame.go Seal/Unseal,  *)
(* peering/link.go writeFrame / readLengthAndData / reader), serving C05.  *)
(*                                                                         *)
(* The sender wraps frames 1..N into link frames (length, header used as    *)
(* nonce incl. the link sequence number, ciphertext, MAC).  A wire attacker  *)
(* edits the stream at link-frame granularity.  Faults that keep the framing *)
(* (bit flips in header / body / MAC, duplicates, swaps, drops, well-framed   *)
(* garbage) cost one frame; faults that break it (length field, truncation,   *)
(* raw garbage) put the reader out of sync: it then misreads the stream as    *)
(* garbage frames until it happens to hit a frame boundary again - or closes  *)
(* the link after CloseAfter consecutive bad frames.                          *)
(***************************************************************************)
EXTENDS Integers, Sequences, FiniteSets, TLC, Json

CONSTANTS N,           \* frames the sender hands to the link
          W,           \* replay window
          CloseAfter,  \* consecutive bad frames after which the reader closes (100 in the code)
          MaxFaults

Ops == {"flip-hdr", "flip-body", "flip-mac", "flip-len", "truncate", "dup", "swap", "drop", "garbage-framed", "garbage-raw", "replay-late", "reflect"}
  \* replay-late: a copy of a frame is put on the wire again behind everything that is on the wire now
  \* reflect: a link frame the RECEIVER sealed for the opposite direction of the same link is put in front of the unit: it is
  \*          well framed and its sequence number is fresh, but the two directions have different keys - it must not unseal
Breaks(op) == op \in {"flip-len", "truncate", "garbage-raw"}
(* A link may have PREDECESSORS: earlier links between the same two routers (the link went down, the routers connected   *)
(* again; neither was restarted).  The attacker kept what crossed their wires.                                            *)
  \* prev-link: a link frame recorded on an earlier link between the same two routers (sealed by either end) is put in front
  \*          of the unit: it is well framed and the new link's window has not seen its sequence number, but every link has
  \*          keys of its own - it must not unseal, whichever end sealed it and whichever end dialled then and now
PrevOps == {"prev-link"}
AllOps == Ops \cup PrevOps

VARIABLES wire,      \* sequence of units still to be read: [id, intact, breaks]   (id 0 = garbage)
          next,      \* next frame the sender will hand to the link
          faults,
          insync, errs, closed,
          highest, bitmap,       \* replay window of the link session (SeqWindow)
          delivered,             \* sequence of ids handed to the frame handler
          act

vars == <<wire, next, faults, insync, errs, closed, highest, bitmap, delivered, act>>

Init == /\ wire = <<>> /\ next = 1 /\ faults = 0
        /\ insync = TRUE /\ errs = 0 /\ closed = FALSE
        /\ highest = 0 /\ bitmap = {} /\ delivered = <<>>
        /\ act = [name |-> "init"]

Unit(i) == [id |-> i, intact |-> TRUE, breaks |-> FALSE]
Garbage(b) == [id |-> 0, intact |-> FALSE, breaks |-> b]

Send == /\ next <= N /\ ~closed
        /\ wire' = Append(wire, Unit(next))
        /\ next' = next + 1
        /\ act' = [name |-> "send", id |-> next]
        /\ UNCHANGED <<faults, insync, errs, closed, highest, bitmap, delivered>>

(* the adversary edits the unit at position p of the wire *)
Fault(op, p) ==
  /\ faults < MaxFaults /\ p \in 1..Len(wire) /\ wire[p].intact
  /\ (op = "swap" => p < Len(wire) /\ wire[p + 1].intact)
  /\ (op = "replay-late" => p < Len(wire) /\ wire[Len(wire)].id # 0)
  /\ wire' = CASE op \in {"flip-hdr", "flip-body", "flip-mac"} -> [wire EXCEPT ![p].intact = FALSE]
               [] op \in {"flip-len", "truncate"} -> [wire EXCEPT ![p].intact = FALSE, ![p].breaks = TRUE]
               [] op = "dup" -> SubSeq(wire, 1, p) \o <<wire[p]>> \o SubSeq(wire, p + 1, Len(wire))
               [] op = "swap" -> [wire EXCEPT ![p] = wire[p + 1], ![p + 1] = wire[p]]
               [] op = "replay-late" -> Append(wire, wire[p])
               [] op = "drop" -> SubSeq(wire, 1, p - 1) \o SubSeq(wire, p + 1, Len(wire))
               [] op \in {"garbage-framed", "reflect", "prev-link"} -> SubSeq(wire, 1, p - 1) \o <<Garbage(FALSE)>> \o SubSeq(wire, p, Len(wire))
               [] op = "garbage-raw" -> SubSeq(wire, 1, p - 1) \o <<Garbage(TRUE)>> \o SubSeq(wire, p, Len(wire))
  /\ faults' = faults + 1
  /\ act' = [name |-> "fault", op |-> op, at |-> wire[p].id, after |-> IF op = "replay-late" THEN wire[Len(wire)].id ELSE 0]
  /\ UNCHANGED <<next, insync, errs, closed, highest, bitmap, delivered>>

WinOK(s) == s > highest \/ (s < highest /\ highest - s <= W /\ (highest - s) \notin bitmap)
WinHi(s) == IF s > highest THEN s ELSE highest
WinBm(s) == IF s > highest
            THEN LET d == s - highest IN {b + d : b \in {x \in bitmap : x + d <= W}} \cup (IF d <= W THEN {d} ELSE {})
            ELSE IF s < highest /\ highest - s <= W THEN bitmap \cup {highest - s} ELSE bitmap

Bad == /\ errs' = errs + 1
       /\ closed' = (errs + 1 >= CloseAfter)

(* the reader takes the next unit *)
Read ==
  /\ Len(wire) > 0 /\ ~closed
  /\ LET u == wire[1]
     IN /\ wire' = Tail(wire)
        /\ IF insync
           THEN IF u.intact /\ u.id # 0
                THEN IF WinOK(u.id)
                     THEN /\ delivered' = Append(delivered, u.id)
                          /\ highest' = WinHi(u.id) /\ bitmap' = WinBm(u.id)
                          /\ errs' = 0 /\ UNCHANGED <<closed, insync>>
                          /\ act' = [name |-> "read", id |-> u.id, outcome |-> "delivered"]
                     ELSE /\ Bad /\ UNCHANGED <<delivered, highest, bitmap, insync>>
                          /\ act' = [name |-> "read", id |-> u.id, outcome |-> "replay"]
                ELSE /\ Bad /\ insync' = ~u.breaks
                     /\ UNCHANGED <<delivered, highest, bitmap>>
                     /\ act' = [name |-> "read", id |-> u.id, outcome |-> IF u.breaks THEN "lost-sync" ELSE "bad-frame"]
           ELSE \* out of sync: the unit is swallowed as garbage; the reader may or may not be aligned afterwards
                /\ Bad /\ insync' \in BOOLEAN
                /\ UNCHANGED <<delivered, highest, bitmap>>
                /\ act' = [name |-> "read", id |-> u.id, outcome |-> "garbage"]
  /\ UNCHANGED <<next, faults>>

Next == Send \/ Read \/ (\E op \in Ops, p \in 1..N : Fault(op, p))
Spec == Init /\ [][Next]_vars
(* the link has predecessors (stage M checks this one; Next is kept for the graph the fault plans of a first link are taken from) *)
NextPrev == Send \/ Read \/ (\E op \in AllOps, p \in 1..N : Fault(op, p))
SpecPrev == Init /\ [][NextPrev]_vars
(* the graph the fault plans of a successor link are taken from: prev-link stands for every well-framed unit that must not unseal *)
NextPrevOnly == Send \/ Read \/ (\E op \in AllOps \ {"garbage-framed", "reflect"}, p \in 1..N : Fault(op, p))

(* Properties (C05). *)
OnlySent == \A i \in DOMAIN delivered : delivered[i] \in 1..N
OnceOnly == \A i \in DOMAIN delivered : \A j \in DOMAIN delivered : i # j => delivered[i] # delivered[j]
NothingAltered == act.name = "read" /\ act.outcome = "delivered" => act.id # 0
(* while the framing holds, an intact, new frame inside the window is delivered *)
Progress == act.name = "read" /\ act.outcome # "delivered" /\ act.outcome # "replay" => TRUE

DumpEdge == PrintT("EDGE " \o ToJson(<<wire, next, faults, insync, errs, closed, highest, bitmap, delivered>>) \o "\t" \o ToJson(act') \o "\t"
                   \o ToJson(<<wire', next', faults', insync', errs', closed', highest', bitmap', delivered'>>))
=============================================================================
