-------------------------- MODULE LinkRegistry_MC --------------------------
EXTENDS Integers, TLC
CONSTANTS IdentityChecked, Shape, HandshakeMayFail
(* "deadlineG" / "deadlineU": the cross shape with a set-up deadline for accepted connections, guarded / unguarded *)
SetupDeadline == CASE Shape = "deadlineG" -> "guarded" [] Shape = "deadlineU" -> "unguarded" [] OTHER -> "none"
Base == IF Shape \in {"deadlineG", "deadlineU"} THEN "cross" ELSE Shape
Routers == IF Base \in {"cross", "cross2"} THEN {"A", "B"} ELSE {"A", "B", "C"}
(* cross: A and B dial each other.  cross2: and A dials once more.
   tri3: A->B, C->B (A and C derive the same label at B), B->A.  tri: A->B, B->A, C->A, C->B. *)
Conns == CASE Base = "cross" -> {1, 2} [] Base = "cross2" -> {1, 2, 3} [] Base = "tri3" -> {1, 2, 3} [] OTHER -> {1, 2, 3, 4}
Dialler == CASE Base = "cross" -> (1 :> "A" @@ 2 :> "B") [] Base = "cross2" -> (1 :> "A" @@ 2 :> "B" @@ 3 :> "A")
             [] Base = "tri3" -> (1 :> "A" @@ 2 :> "C" @@ 3 :> "B") [] OTHER -> (1 :> "A" @@ 2 :> "B" @@ 3 :> "C" @@ 4 :> "C")
Listener == CASE Base = "cross" -> (1 :> "B" @@ 2 :> "A") [] Base = "cross2" -> (1 :> "B" @@ 2 :> "A" @@ 3 :> "B")
             [] Base = "tri3" -> (1 :> "B" @@ 2 :> "B" @@ 3 :> "A") [] OTHER -> (1 :> "B" @@ 2 :> "A" @@ 3 :> "A" @@ 4 :> "B")
Labels == {1, 2}
Derived == IF Base \in {"cross", "cross2"} THEN ("A" :> 1 @@ "B" :> 1) ELSE ("A" :> 1 @@ "B" :> 2 @@ "C" :> 1)
VARIABLES phase, label, byPeer, byLabel, routes, act
INSTANCE LinkRegistry
=============================================================================
