\* C05 stage M: 4 frames, window 2, the reader closes after 3 consecutive bad frames, <= 2 faults anywhere, the link may have predecessors (prev-link).
CONSTANTS
  N = 4
  W = 2
  CloseAfter = 3
  MaxFaults = 2
INIT Init
NEXT NextPrev
INVARIANTS OnlySent OnceOnly NothingAltered
