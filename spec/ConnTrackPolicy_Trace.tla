------------------------- MODULE ConnTrackPolicy_Trace -------------------------
(***************************************************************************)
(* The traffic policy of C06 asked of WHOLE HISTORIES of one router        *)
(* (the behaviours of ConnTrack.tla executed on a real router): whatever    *)
(* happened before - verdicts cached, error pings of any router about any   *)
(* other, time passing, the cleaner, hello exchanges - a local packet       *)
(* enters the mesh only if the outbound policy admits its destination, and  *)
(* a packet from the mesh is handed to the local interface only if a        *)
(* configured service admits it or it answers a flow the local host opened  *)
(* itself.  Only what the local host and the mesh SAW is judged (tomesh /   *)
(* totun); the connection table is not looked at here (ConnTrack_Trace      *)
(* does that, at implementation level).                                     *)
(*   {"ev":"reset","isolated":B}                                            *)
(*   {"ev":"out","r","s","lp","tomesh"}   {"ev":"in","r","s","lp","dir","totun"} *)
(*   any other event: no constraint                                         *)
(***************************************************************************)
EXTENDS Integers, Sequences, FiniteSets, TLC, Json

Trace == ndJsonDeserialize("trace.ndjson")
VARIABLES l, iso, opened
Ev == Trace[l]

Friends == {2}
OpenSvcs == {"t80"}
OutAllowed(r) == ~iso \/ r \in Friends
InAllowed(s, dir) == dir = "in" /\ s \in OpenSvcs

Init == l = 1 /\ iso = FALSE /\ opened = {}

Next ==
  /\ l <= Len(Trace) /\ l' = l + 1
  /\ CASE Ev.ev = "reset" -> iso' = Ev.isolated /\ opened' = {}
       [] Ev.ev = "out" ->
            /\ (Ev.tomesh => OutAllowed(Ev.r)) = TRUE                      \* outbound isolation
            /\ opened' = IF Ev.tomesh THEN opened \cup {<<Ev.r, Ev.s, Ev.lp>>} ELSE opened
            /\ UNCHANGED iso
       [] Ev.ev = "in" ->
            /\ (Ev.totun => (InAllowed(Ev.s, Ev.dir) \/ (Ev.dir = "out" /\ <<Ev.r, Ev.s, Ev.lp>> \in opened))) = TRUE   \* default deny
            /\ UNCHANGED <<iso, opened>>
       [] OTHER -> UNCHANGED <<iso, opened>>

TraceAccepted ==
  LET d == TLCGet("stats").diameter
  IN IF d - 1 = Len(Trace) THEN TRUE
     ELSE PrintT("OUT REJECT " \o ToString(d)) /\ FALSE
=============================================================================
