CONSTANTS
  IdentityChecked = FALSE
  Shape = "cross2"
  HandshakeMayFail = TRUE
INIT Init
NEXT Next
VIEW View
INVARIANTS Consistent
