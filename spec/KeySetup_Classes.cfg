\* enumerate mismatch classes of the code as it is for larger bounds (2 starts per router, 1 loss)
CONSTANTS
  MaxStarts = 2
  MaxDrops = 1
  MaxForget = 0
  MaxLinks = 0
  MaxDups = 0
  TieBreak = FALSE
  RoleByAddress = FALSE
INIT Init
NEXT Next
VIEW View
INVARIANTS ClassProbe
