INIT Init
NEXT Next
POSTCONDITION TraceAccepted
CHECK_DEADLOCK FALSE
