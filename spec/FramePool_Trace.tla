--------------------------- MODULE FramePool_Trace ---------------------------
(***************************************************************************)
(* Trace validation for C17: operations executed on a real frame.Builder.  *)
(* After every operation the driver records, for each frame slot,          *)
(*   live, digest (hash of FrameDataWithMargins(0,0) and accessor values),  *)
(*   link (id of RecvLink, 0 = nil), buf (identity of the pooled buffer),   *)
(*   ok (bytes, accessors and - for new frames - the zeroed remainder of    *)
(*       the buffer equal what the driver's own layout of the inputs says). *)
(* Event: {"op":..,"s":S,"c":C,"err":B,"frames":[...]}                      *)
(* op "read": the frame of slot S was born in the LINK READER of a real     *)
(* link (peering.LinkBase, both routers running the real set-up): the       *)
(* reader took a pooled buffer of the shared builder by the length on the   *)
(* wire, parsed in place and handed the frame to the router's frame         *)
(* handler; "k" is the identity of that link.  On histories with reader-    *)
(* born frames `ok` also says that every live frame can be had with the     *)
(* margins the link writer asks for.                                        *)
(***************************************************************************)
EXTENDS Integers, Sequences, FiniteSets, TLC, Json

Trace == ndJsonDeserialize("trace.ndjson")
VARIABLES l, prev, cur, op
tvars == <<l, prev, cur, op>>
Ev == Trace[l]

None == [live |-> FALSE, digest |-> 0, link |-> 0, buf |-> 0, ok |-> TRUE]
TraceInit == l = 1 /\ prev = <<>> /\ cur = <<>> /\ op = [op |-> "init"]

TraceNext == /\ l <= Len(Trace)
             /\ l' = l + 1
             /\ prev' = IF Ev.op = "reset" THEN <<>> ELSE cur
             /\ cur' = Ev.frames
             /\ op' = Ev

Slots == DOMAIN cur
Live == {s \in Slots : cur[s].live}
Target == IF op.op = "clone" THEN {op.c} ELSE IF op.op \in {"init", "reset"} THEN {} ELSE {op.s}

NoSharing == \A a \in Live : \A b \in Live : a # b => cur[a].buf # cur[b].buf
(* Untargeted frames are untouched by any operation on another frame -      *)
(* including release of another frame and growth of its appendix.           *)
Isolation == \A s \in Slots \ Target :
               (s \in DOMAIN prev /\ prev[s].live) =>
                 /\ cur[s].live
                 /\ cur[s].digest = prev[s].digest
                 /\ cur[s].link = prev[s].link
                 /\ cur[s].buf = prev[s].buf
CloneEqual == op.op = "clone" =>
                /\ ~op.err
                /\ cur[op.c].live
                /\ cur[op.c].digest = prev[op.s].digest
                /\ cur[op.c].link = prev[op.s].link
                /\ cur[op.s].digest = prev[op.s].digest
NoRemnant == /\ op.op \in {"new", "parse", "reply"} /\ ~op.err =>
                   cur[op.s].live /\ cur[op.s].link = 0
             /\ op.op = "read" /\ ~op.err =>
                   cur[op.s].live /\ cur[op.s].link = op.k
ContentOK == \A s \in Live : cur[s].ok
(* A failed operation changes nothing.                                       *)
FailedIsNoop == (op.op \in {"setapx", "reply", "new", "parse", "read"} /\ op.err /\ op.s \in DOMAIN prev /\ prev[op.s].live) =>
                   cur[op.s].digest = prev[op.s].digest
NoPanic == op.op # "init" => ~op.panic

TraceAccepted ==
  LET d == TLCGet("stats").diameter
  IN IF d - 1 = Len(Trace) THEN TRUE
     ELSE PrintT("OUT REJECT " \o ToString(d)) /\ FALSE
=============================================================================
