CONSTANTS UdpOpensTcp = FALSE
INIT Init
NEXT Next
INVARIANTS DefaultDeny OnlyAuthenticated TcpIsTcp UdpIsUdp IsolationHolds NoSpoofing
ACTION_CONSTRAINT DumpEdge
