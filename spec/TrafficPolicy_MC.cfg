CONSTANTS UdpOpensTcp = FALSE
INIT Init
NEXT Next
INVARIANTS DefaultDeny OnlyAuthenticated TcpIsTcp UdpIsUdp IsolationHolds NoSpoofing NoFriendsNoEntry QuoteBuysNothing
ACTION_CONSTRAINT DumpEdge
