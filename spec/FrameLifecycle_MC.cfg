CONSTANTS
  ErrAfterConsume = FALSE
INIT Init
NEXT Next
INVARIANTS ReleaseAtMostOnce NeverPanics Settled
ACTION_CONSTRAINT DumpEdge
