CONSTANTS
  Dsts = {1, 2, 3, 4, 5, 6, 7, 8, 9, 10, 11, 12}
  PrefixA = {1, 2, 3}
  Relays = {1, 2, 4}
  Limit = 16
  MaxOps = 0
  MaxRelays = 2
INIT TraceInit
NEXT TraceNext
INVARIANTS P1 P2 P3 P4 P5 P6 P7 OnlyShrinks LookupOK ResetOK AgeOK ReadOK ParAdded ParRemoved ParPeers ParExpired ParDuring
POSTCONDITION TraceAccepted
