---------------------------- MODULE FrameLifecycle ----------------------------
(***************************************************************************)
(* What a router does with one frame that comes off a link (peering/link.go  *)
(* reader, switchr, router/router.go frameHandler and its handlers, link     *)
(* writer), serving C13.                                                     *)
(*                                                                          *)
(* Part 1 - ownership of the frame buffer.  The buffer comes from the pool   *)
(* in the reader, is handed from stage to stage and must go back to the pool *)
(* at most once (a second return panics in ReturnToPool).  A handler leaves   *)
(* by one of the exit paths of the code: it consumed the frame (released it,  *)
(* queued it on a link, handed it to the tun device) and reports success, or  *)
(* it reports an error and the worker releases the frame.  ErrAfterConsume    *)
(* adds the path "consumed AND error" - the shape of a double release.        *)
(*                                                                          *)
(* Part 2 - the input classes: pipeline stage x malformation kind.  The      *)
(* property allows two outcomes for every class: handled, or dropped with an *)
(* error; a panic or a stalled worker is none of them.                        *)
(***************************************************************************)
EXTENDS Integers, Sequences, FiniteSets, TLC, Json

CONSTANTS ErrAfterConsume

VARIABLES owner,    \* "pool" | "reader" | "switch" | "router" | "handler" | "link" | "tun"
          releases, \* how often the buffer went back to the pool
          result,   \* "none" | "ok" | "error" | "panic"
          cls,      \* the input class being processed: [stage, kind]
          act
vars == <<owner, releases, result, cls, act>>

Stages == {"parse", "link-pre", "link-mid", "link-post", "sealed", "kx", "sched", "flood", "churn"}
Kinds == [ parse |-> {"random", "truncated", "bit", "lengths", "tiers"},
           linkpre |-> {"len0to3", "len4to11", "len12to27", "lenbeyond", "lenmax", "garbage", "mutated"},
           linkmid |-> {"mutated2", "mutated3", "lengths", "garbage", "signed-fields", "paused-handshake"},
           linkpost |-> {"len0to3", "len4to11", "len12to27", "lenbeyond", "garbage", "replayed-handshake", "peer-stops-reading"},
           sealed |-> {"msgtype", "header", "switchblock", "pinghdr-version", "pinghdr-length", "pinghdr-cbor", "pinghdr-type", "pinghdr-code",
                       "pinghdr-identity", "body-random", "body-truncated", "body-wrongtype", "body-deep", "body-hugelen", "body-crossfed",
                       "hopchain-truncated", "hopchain-deep", "hopchain-random", "hopchain-oversized", "traffic-short", "traffic-version",
                       "traffic-mismatch", "traffic-proto", "traffic-nokeys", "forward-unknown", "forward-ttl", "forward-noroute", "appendix-stray", "clone-sizes", "raw-oversized"},
           kx |-> {"cross-handshake"},
           sched |-> {"pong-retry"},    \* responses that race the retry of their request (PingPong.tla)
           \* tens of thousands of well-formed frames of ONE authenticated peer that differ in a field the router keeps
           \* state for (per source address, per identity, per connection): the tables behind the handlers grow past
           \* any size an ordinary run reaches, the cleaners have their tick, the tables grow again
           flood |-> {"loop-sources", "identity-sources", "traffic-ports"},
           \* frames that are switched and routed WHILE the link registry of the router changes: a running router
           \* registers links (a peer's handshake completes) and removes them (a peer disconnects or misbehaves) at
           \* the moment its workers look up routes and links for frames; both are driven by the network.  The
           \* first six are frames by what has to be looked up for them, the last three the registry's own inputs
           churn |-> {"transit-peer", "transit-learned", "transit-unknown", "switch-label", "ping-relayed", "ping-peer",
                      "link-up", "link-down", "link-handshake"} ]
KindsOf(s) == CASE s = "parse" -> Kinds.parse [] s = "link-pre" -> Kinds.linkpre [] s = "link-mid" -> Kinds.linkmid
                [] s = "link-post" -> Kinds.linkpost [] s = "sealed" -> Kinds.sealed [] s = "sched" -> Kinds.sched [] s = "flood" -> Kinds.flood [] s = "churn" -> Kinds.churn [] OTHER -> Kinds.kx

Init ==
  /\ owner = "pool" /\ releases = 0 /\ result = "none"
  /\ cls = [stage |-> "none", kind |-> "none"]
  /\ act = [name |-> "init"]

(* the reader takes a buffer from the pool for an input of some class *)
Alloc(s, k) ==
  /\ owner = "pool" /\ result = "none" /\ releases = 0
  /\ owner' = "reader" /\ cls' = [stage |-> s, kind |-> k]
  /\ act' = [name |-> "alloc", stage |-> s, kind |-> k]
  /\ UNCHANGED <<releases, result>>

(* the reader / parser refuses the bytes: it releases the buffer and reports the error *)
ReaderDrops ==
  /\ owner = "reader"
  /\ owner' = "pool" /\ releases' = releases + 1 /\ result' = "error"
  /\ act' = [name |-> "readerdrops"]
  /\ UNCHANGED cls
ReaderPasses ==
  /\ owner = "reader" /\ cls.stage \in {"sealed", "link-post", "parse", "flood", "churn"}
  /\ owner' = "switch"
  /\ act' = [name |-> "readerpasses"]
  /\ UNCHANGED <<releases, result, cls>>

(* the switch forwards by label, escalates to the router or drops *)
SwitchForwards == owner = "switch" /\ owner' = "link" /\ result' = "ok" /\ act' = [name |-> "switchforwards"] /\ UNCHANGED <<releases, cls>>
SwitchEscalates == owner = "switch" /\ owner' = "router" /\ act' = [name |-> "switchescalates"] /\ UNCHANGED <<releases, result, cls>>
SwitchDrops == owner = "switch" /\ owner' = "pool" /\ releases' = releases + 1 /\ result' = "error" /\ act' = [name |-> "switchdrops"] /\ UNCHANGED cls

(* the router worker gives the frame to a handler *)
Dispatch == owner = "router" /\ owner' = "handler" /\ act' = [name |-> "dispatch"] /\ UNCHANGED <<releases, result, cls>>

(* exit paths of a handler *)
HandlerConsumes(how) ==   \* success: the frame was released, replied in place / forwarded (queued on a link) or given to the tun device
  /\ owner = "handler"
  /\ owner' = CASE how = "release" -> "pool" [] how = "link" -> "link" [] OTHER -> "tun"
  /\ releases' = IF how = "release" THEN releases + 1 ELSE releases
  /\ result' = "ok"
  /\ act' = [name |-> "consumes", how |-> how]
  /\ UNCHANGED cls
HandlerErrors ==          \* error: the frame is still the worker's, which releases it
  /\ owner = "handler"
  /\ owner' = "pool" /\ releases' = releases + 1 /\ result' = "error"
  /\ act' = [name |-> "errors"]
  /\ UNCHANGED cls
HandlerErrorsAfterConsume == \* the defect shape: released by the handler, then released again by the worker
  /\ ErrAfterConsume /\ owner = "handler"
  /\ owner' = "pool" /\ releases' = releases + 2 /\ result' = "panic"
  /\ act' = [name |-> "errorsafterconsume"]
  /\ UNCHANGED cls

(* the link writer sends and releases; the tun writer likewise *)
WriterDone == owner \in {"link", "tun"} /\ owner' = "pool" /\ releases' = releases + 1 /\ act' = [name |-> "written"] /\ UNCHANGED <<result, cls>>

Next ==
  \/ \E s \in Stages : \E k \in KindsOf(s) : Alloc(s, k)
  \/ ReaderDrops \/ ReaderPasses \/ SwitchForwards \/ SwitchEscalates \/ SwitchDrops \/ Dispatch
  \/ \E how \in {"release", "link", "tun"} : HandlerConsumes(how)
  \/ HandlerErrors \/ HandlerErrorsAfterConsume \/ WriterDone
Spec == Init /\ [][Next]_vars

(* ---- Properties (C13) *)
ReleaseAtMostOnce == releases <= 1
NeverPanics == result # "panic"
(* when everything is done the buffer is back exactly once *)
Settled == (owner = "pool" /\ result # "none") => releases = 1

DumpEdge == PrintT("EDGE " \o ToJson(<<owner, releases, result, cls>>) \o "\t" \o ToJson(act') \o "\t" \o ToJson(<<owner', releases', result', cls'>>))
=============================================================================
