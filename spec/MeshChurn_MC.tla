---------------------------- MODULE MeshChurn_MC ----------------------------
EXTENDS Integers, FiniteSets
CONSTANTS Shape, MaxAnn, MaxChurn, MaxAge, MaxData
Nodes == IF Shape = "tri" THEN {1, 2, 3} ELSE {1, 2, 3, 4}
PossibleEdges == IF Shape = "tri" THEN {{1, 2}, {2, 3}, {1, 3}} ELSE {{1, 2}, {2, 3}, {3, 4}, {1, 4}}
InitEdges == IF Shape = "tri" THEN {{1, 2}, {2, 3}, {1, 3}} ELSE {{1, 2}, {2, 3}, {3, 4}, {1, 4}}
VARIABLES edges, table, latest, inflight, ann, churn, ages, sinceChurn, annSinceAge, data, ndata, dlatest, clock, act
INSTANCE MeshChurn
=============================================================================
