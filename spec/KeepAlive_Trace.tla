--------------------------- MODULE KeepAlive_Trace ---------------------------
(***************************************************************************)
(* Trace validation for KeepAlive (X03): every line is one thing that      *)
(* happened while the REAL keepAlivePeer ran against a scripted peer on a  *)
(* virtual link, in the order it happened (one mutex orders the records).  *)
(*   {"ev":"start","fast":B}              a new check on a fresh link      *)
(*   {"ev":"send","k":n,"promise":B}      request n left the router        *)
(*   {"ev":"senderr","closed":B}          the link refused the send        *)
(*   {"ev":"answer","k":n} {"ev":"lose","k":n}                             *)
(*   {"ev":"resp","k":n,"res":"notified"|"no state"}  what the real router *)
(*                                        worker did with response n       *)
(*   {"ev":"data"} {"ev":"otherclose"}                                     *)
(*   {"ev":"timeout"}                     the worker logged "timed out"    *)
(*   {"ev":"end","how":h,"ds":n}          the call returned after n/10 s   *)
(* The specification's actions are re-used; the logged outcome of every    *)
(* step is compared with the one the action computes.                      *)
(***************************************************************************)
EXTENDS Integers, Sequences, TLC, Json

Trace == ndJsonDeserialize("trace.ndjson")

VARIABLES l, fast, pc, fails, att, senderrs, req, resp, promised, held, chClosed, heard, closing, byOther, elapsed, answered, act

KA == INSTANCE KeepAlive

tvars == <<l, fast, pc, fails, att, senderrs, req, resp, promised, held, chClosed, heard, closing, byOther, elapsed, answered, act>>
Ev == Trace[l]

TraceInit == l = 1 /\ KA!Init

Start ==
  /\ Ev.ev = "start"
  /\ fast' = Ev.fast
  /\ pc' = "top" /\ fails' = 0 /\ att' = 0 /\ senderrs' = 0
  /\ req' = {} /\ resp' = {} /\ promised' = {}
  /\ held' = FALSE /\ chClosed' = FALSE
  /\ heard' = FALSE /\ closing' = FALSE /\ byOther' = FALSE
  /\ elapsed' = 0 /\ answered' = {}
  /\ act' = [name |-> "init"]

\* how long the call may have taken: the time-outs and pauses it sat through (timers never fire early), plus the wait it
\* was woken from when it ended "ok", plus scheduling slack of 3 s
Took(ds, how) ==
  /\ ds >= 10 * elapsed' - 1
  /\ ds <= 10 * elapsed' + (IF how = "ok" THEN 10 * (1 + 2 * fails') ELSE 0) + 30

Step ==
  \/ /\ Ev.ev = "send" /\ KA!SendOK(Ev.promise) /\ act'.k = Ev.k
  \/ /\ Ev.ev = "senderr" /\ KA!SendErr(Ev.closed)
  \/ /\ Ev.ev = "answer" /\ KA!PeerAnswer(Ev.k)
  \/ /\ Ev.ev = "lose" /\ KA!Lose(Ev.k)
  \/ /\ Ev.ev = "resp" /\ KA!HandleResp(Ev.k) /\ act'.res = Ev.res
  \/ /\ Ev.ev = "data" /\ KA!Data
  \/ /\ Ev.ev = "otherclose" /\ KA!OtherClose
  \/ /\ Ev.ev = "timeout" /\ KA!Timeout
  \/ /\ Ev.ev = "end" /\ Ev.how = "ok" /\ KA!Notified /\ Took(Ev.ds, "ok")
  \/ /\ Ev.ev = "end" /\ Ev.how = "alive" /\ KA!GiveUp /\ pc' = "alive" /\ Took(Ev.ds, "alive")
  \/ /\ Ev.ev = "end" /\ Ev.how = "closed" /\ KA!GiveUp /\ pc' = "closed" /\ Took(Ev.ds, "closed")
  \/ /\ Ev.ev = "end" /\ Ev.how = "aborted" /\ pc # "aborted" /\ KA!Abort /\ Took(Ev.ds, "aborted")
  \/ /\ Ev.ev = "end" /\ Ev.how = "aborted" /\ pc = "aborted"
     /\ UNCHANGED <<fast, pc, fails, att, senderrs, req, resp, promised, held, chClosed, heard, closing, byOther, elapsed, answered, act>>
     /\ Took(Ev.ds, "aborted")

TraceNext == /\ l <= Len(Trace)
             /\ l' = l + 1
             /\ (Start \/ (Ev.ev # "start" /\ Step))

TraceSpec == TraceInit /\ [][TraceNext]_tvars

(* the model's safety properties, asked of the real behaviour *)
CloseOnlySilent == KA!CloseOnlySilent
OkOnlyAnswered == KA!OkOnlyAnswered
AbortOnlyClosing == KA!AbortOnlyClosing
AliveOnlyHeard == KA!AliveOnlyHeard
PromiseKept == KA!PromiseKept
Budget == KA!Budget
TimeBound == KA!TimeBound
SilentMeansClosed == KA!SilentMeansClosed

TraceAccepted ==
  LET d == TLCGet("stats").diameter
  IN IF d - 1 = Len(Trace) THEN TRUE
     ELSE PrintT("OUT REJECT " \o ToString(d)) /\ FALSE
=============================================================================
