\* C14: a hello exchange (one initiator, nothing lost, nothing duplicated) and a link handshake between the same two
\* routers, every placement of the hello messages between the handshake's messages.  Whole graph, every transition printed.
CONSTANTS
  MaxStarts = 1
  MaxDrops = 0
  MaxForget = 0
  MaxLinks = 1
  MaxDups = 0
  TieBreak = FALSE
  RoleByAddress = FALSE
INIT Init
NEXT NextLink
VIEW View
ACTION_CONSTRAINT DumpEdge
