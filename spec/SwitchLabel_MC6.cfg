\* C12 stage M (low representatives of the three size classes), 2..5 hops.
CONSTANTS
  MaxHops = 6
  Reps = {1, 128, 16384}
  SimMinHops = 2
  SimMaxHops = 2
  SimBigOnly = FALSE
INIT Init
NEXT Next
INVARIANTS LabelsInOrder NeverOutside ReversesExactly SizeSufficientAndMinimal
