\* C17 replay graph: 2 structs, 3 buffers, 2 tiers, <= 4 operations, every transition printed.
CONSTANTS
  Structs = {1, 2}
  Bufs = {1, 2, 3}
  Tiers = {1, 2}
  MaxOps = 4
  CloneSameTier = TRUE
  ParseResetsLink = TRUE
INIT Init
NEXT Next
VIEW View
INVARIANTS NoSharing
ACTION_CONSTRAINT DumpEdge
PROPERTIES NoPanicA CloneEqualA IsolationA NoRemnantA
