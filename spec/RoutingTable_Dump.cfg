\* C11 replay graph: every transition of sequences of <= 3 operations (Limit 1).
CONSTANTS
  Dsts = {1, 2, 3, 4}
  PrefixA = {1, 2, 3}
  Relays = {1, 2, 4}
  Limit = 1
  MaxOps = 3
  MaxRelays = 2
INIT Init
NEXT Next
VIEW View
INVARIANTS P1 P2 P3 P4 P5 P6 P7
ACTION_CONSTRAINT DumpEdge
