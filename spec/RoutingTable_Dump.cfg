\* C11 replay graph: every transition of sequences of <= 3 operations (Limit 1).
CONSTANTS
  Dsts = {1, 2, 3, 4}
  PrefixA = {1, 2, 3}
  Relays = {1, 2, 4}
  Limit = 1
  MaxOps = 3
  MaxRelays = 2
INIT Init
NEXT Next
VIEW View
INVARIANTS P1 P4
ACTION_CONSTRAINT DumpEdge
PROPERTIES P2A P3A P5A P6A P7A
