---------------------------- MODULE SignedReplay ----------------------------
(***************************************************************************)
(* Design analysis behind the open findings C03                            *)
(* signed/accepted-again-after-session-cleaned and C07                      *)
(* lost/replayed-after-session-loss: where does a receiver keep the newest *)
(* accepted time stamp of the signed class, and what survives the loss of  *)
(* the session object (session cleaner, clean restart, kill)?              *)
(*                                                                         *)
(* One sender, one receiver. The sender stamps its signed frames with its  *)
(* own clock (receiver clock + Skew); the network delivers any frame ever  *)
(* sent at any later time, any number of times. Designs:                   *)
(*   "session"  the code as it is: the stamp lives in the Session object   *)
(*   "memory"   the cleaner hands the stamp to a table of the state        *)
(*              manager that outlives sessions (not restarts)              *)
(*   "persist"  the stamp is written to the stored router record when the  *)
(*              session is cleaned and at a clean shutdown                 *)
(*   "fresh"    a new session starts its time sequence at now - Window     *)
(*              (a freshness bound against the receiver's clock)           *)
(* Properties: AtMostOnce (C03 clause 1 / C07 "replayed pings change       *)
(* nothing") and MustAccept (a frame newer than everything accepted is     *)
(* accepted when it arrives first - C03 clause 2 for the signed class).    *)
(* TLC's verdicts per design are recorded in DESIGN 0a.4.                  *)
(***************************************************************************)
EXTENDS Integers, FiniteSets

CONSTANTS Design,    \* "session" | "memory" | "persist" | "fresh"
          MaxTime,   \* receiver clock runs 1..MaxTime
          Ahead, Behind,  \* sender clock = receiver clock + Ahead - Behind
          Window,    \* "fresh": how far behind its clock a new session starts
          Idle,      \* the cleaner removes a session that was idle for Idle ticks
          Losses     \* subset of {"clean", "restart", "kill"}: how sessions get lost

VARIABLES now, sent, sess, latest, lastUse, mem, disk, accepted, act
vars == <<now, sent, sess, latest, lastUse, mem, disk, accepted, act>>

Skew == Ahead - Behind
Stamps == (1 + Skew)..(MaxTime + Skew)

Init == /\ now = 1 /\ sent = {} /\ sess = FALSE /\ latest = 0 /\ lastUse = 0
        /\ mem = 0 /\ disk = 0
        /\ accepted = [s \in Stamps |-> 0]
        /\ act = [name |-> "init"]

Tick == /\ now < MaxTime /\ now' = now + 1
        /\ act' = [name |-> "tick"]
        /\ UNCHANGED <<sent, sess, latest, lastUse, mem, disk, accepted>>

\* the sender seals one signed frame per tick of its clock at most (strictly increasing stamps)
Send == /\ now + Skew \notin sent
        /\ sent' = sent \cup {now + Skew}
        /\ act' = [name |-> "send", s |-> now + Skew]
        /\ UNCHANGED <<now, sess, latest, lastUse, mem, disk, accepted>>

\* where a new session object starts its time sequence
Start == CASE Design = "session" -> 0
           [] Design = "memory"  -> mem
           [] Design = "persist" -> disk
           [] Design = "fresh"   -> now - Window

Deliver(s) ==
  /\ s \in sent
  /\ LET l0 == IF sess THEN latest ELSE Start
         ok == s > l0
     IN /\ sess' = TRUE
        /\ lastUse' = now
        /\ latest' = IF ok THEN s ELSE l0
        /\ accepted' = IF ok THEN [accepted EXCEPT ![s] = @ + 1] ELSE accepted
        /\ act' = [name |-> "deliver", s |-> s, ok |-> ok,
                   fresh |-> /\ \A t \in Stamps : accepted[t] > 0 => t < s
                             \* "fresh" can only be asked to accept what was in flight for less than its window
                             /\ Design = "fresh" => now - (s - Skew) < Window]
  /\ UNCHANGED <<now, sent, mem, disk>>

Clean == /\ "clean" \in Losses /\ sess /\ now - lastUse >= Idle
         /\ sess' = FALSE /\ latest' = 0
         /\ mem' = IF Design = "memory" THEN latest ELSE mem
         /\ disk' = IF Design = "persist" THEN latest ELSE disk
         /\ act' = [name |-> "clean"]
         /\ UNCHANGED <<now, sent, lastUse, accepted>>

Restart == /\ "restart" \in Losses
           /\ sess' = FALSE /\ latest' = 0 /\ mem' = 0
           /\ disk' = IF Design = "persist" /\ sess THEN latest ELSE disk
           /\ act' = [name |-> "restart"]
           /\ UNCHANGED <<now, sent, lastUse, accepted>>

Kill == /\ "kill" \in Losses
        /\ sess' = FALSE /\ latest' = 0 /\ mem' = 0
        /\ act' = [name |-> "kill"]
        /\ UNCHANGED <<now, sent, lastUse, disk, accepted>>

Next == Tick \/ Send \/ (\E s \in Stamps : Deliver(s)) \/ Clean \/ Restart \/ Kill
Spec == Init /\ [][Next]_vars

AtMostOnce == \A s \in Stamps : accepted[s] <= 1
\* a frame newer than everything accepted so far is accepted (as an action property: every transition)
MustAcceptA == [][act'.name = "deliver" /\ act'.fresh => act'.ok]_vars
=============================================================================
