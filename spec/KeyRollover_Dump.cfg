\* C15 replay graph with scaled constants is not an exact image of the real thresholds (255 / 2^32-256
\* cannot be scaled together with the window), so the graph is used for M only; replay uses the Sim configs.
CONSTANTS
  Wrap = 16
  RollLo = 3
  RollHi = 12
  W = 3
  D = 1
  StartOff = {2}
  MaxSeal = 4
  Duplex = FALSE
  Dups = FALSE
  SplitReset = TRUE
INIT Init
NEXT Next
VIEW View
PROPERTIES NonceUniqueA OnlyOnceA
