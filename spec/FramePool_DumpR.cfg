\* C17 replay graph, reader-born frames: 2 structs, 3 buffers, 2 tiers, <= 4 operations; every frame is born in the
\* link reader; every transition printed; the action properties checked on every transition.
CONSTANTS
  Structs = {1, 2}
  Bufs = {1, 2, 3}
  Tiers = {1, 2}
  MaxOps = 4
  CloneSameTier = TRUE
  ParseResetsLink = TRUE
INIT Init
NEXT NextR
VIEW View
INVARIANTS NoSharing OwnerOK
ACTION_CONSTRAINT DumpEdge
PROPERTIES NoPanicA CloneEqualA IsolationA NoRemnantA NoDirtA
