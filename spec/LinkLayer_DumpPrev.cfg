\* C05: graph used to enumerate the fault plans of a link that has predecessors (<= 2 faults on 4 frames, at least one of them
\* a frame of an earlier link between the same routers)
CONSTANTS
  N = 4
  W = 2
  CloseAfter = 3
  MaxFaults = 2
INIT Init
NEXT NextPrevOnly
ACTION_CONSTRAINT DumpEdge
