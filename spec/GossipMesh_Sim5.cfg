\* generated by the block in DESIGN/C09: GossipMesh_Sim5.cfg
CONSTANTS
  Nodes = {1, 2, 3, 4, 5}
  Topologies = {{{1, 2}, {2, 3}, {3, 4}, {4, 5}}, {{1, 2}, {1, 3}, {1, 4}, {1, 5}}, {{1, 2}, {2, 3}, {3, 4}, {4, 5}, {5, 1}}, {{1, 2}, {2, 3}, {3, 1}, {3, 4}, {4, 5}}, {{1, 2}, {2, 3}, {3, 4}, {4, 1}, {1, 3}, {4, 5}}}
  OriginSets = {{1, 2, 3, 4, 5}}
  PerLink = TRUE
INIT Init
NEXT NextSim
VIEW View
INVARIANTS NoEcho LoopFree Reach AtMostThree
ACTION_CONSTRAINT DumpStep
PROPERTIES OncePerPathA
