--------------------------- MODULE HandshakeInsider ---------------------------
(***************************************************************************)
(* The universe proof of the peering handshake against a PARTICIPANT that   *)
(* does not know the universe secret (peering/init.go makeUniverseAuth,      *)
(* handlePeeringRequest / handlePeeringResponse), serving C04.               *)
(*                                                                          *)
(* Handshake.tla has a wire adversary between two honest routers.  Here the  *)
(* adversary is a router M with a valid identity of its own and the right    *)
(* universe NAME but without the secret.  It speaks the protocol itself: its  *)
(* messages are correctly signed by M, and it may put into their fields any   *)
(* value it has seen on this connection (Dolev-Yao on fields): any challenge  *)
(* as its own challenge, any proof it observed as its own proof.  The victim  *)
(* V has the secret.                                                          *)
(*                                                                          *)
(* A proof is a hash over (universe, challenge, secret, two addresses).       *)
(* Binding = "directed": the addresses go in as (verifier, prover) - the      *)
(* proof V makes for M differs from the proof V expects from M.               *)
(* Binding = "sorted": the addresses are sorted first - the two coincide      *)
(* (the shape of a plausible 'clean-up' of makeUniverseAuth).                 *)
(***************************************************************************)
EXTENDS Integers, Sequences, FiniteSets, TLC, Json

CONSTANTS Binding,      \* "directed" | "sorted"
          MHasSecret    \* control: M does know the secret

Challenges == {"cV", "cM"}
(* the proof the holder of the secret `prover` makes for `verifier`'s challenge c *)
Proof(c, prover, verifier) ==
  IF Binding = "directed" THEN <<c, prover, verifier>>
  ELSE <<c, "M", "V">>      \* whichever way round: the same two addresses in sorted order
NoProof == <<"none", "", "">>

VARIABLES vstep,    \* V: 1 waiting for M's request, 2 waiting for M's response, 3 waiting for M's ack, 4 registered, 0 aborted
          known,    \* proofs M has observed
          mreq,     \* the challenge M put into its request ("" = not sent yet)
          act
vars == <<vstep, known, mreq, act>>

Init == vstep = 1 /\ known = {} /\ mreq = "" /\ act = [name |-> "init"]

(* M sends its request; V's request (with cV) is already on the wire, so M may copy cV *)
MRequest(c) ==
  /\ mreq = "" /\ vstep = 1
  /\ mreq' = c
  (* V answers with the echoed challenge and ITS proof for M's challenge; M reads it *)
  /\ known' = known \cup {Proof(c, "V", "M")}
  /\ vstep' = 2
  /\ act' = [name |-> "mrequest", challenge |-> c]

(* M answers V's request: it echoes cV and attaches a proof of its choice *)
MResponse(p) ==
  /\ vstep = 2
  /\ p \in known \cup {NoProof} \cup (IF MHasSecret THEN {Proof("cV", "M", "V")} ELSE {})
  /\ vstep' = IF p = Proof("cV", "M", "V") THEN 3 ELSE 0       \* V's check: exactly what a holder of the secret would send
  /\ act' = [name |-> "mresponse", proof |-> IF p = NoProof THEN "none" ELSE IF p \in known THEN "observed" ELSE "own",
             accepted |-> p = Proof("cV", "M", "V")]
  /\ UNCHANGED <<known, mreq>>

MAck == vstep = 3 /\ vstep' = 4 /\ act' = [name |-> "mack"] /\ UNCHANGED <<known, mreq>>

Next == (\E c \in Challenges : MRequest(c)) \/ (\E p \in known \cup {NoProof, Proof("cV", "M", "V")} : MResponse(p)) \/ MAck
Spec == Init /\ [][Next]_vars

(* C04: V registers a link only with a router that knows the secret *)
AuthOnRegister == vstep = 4 => MHasSecret
(* and a router that knows it is admitted *)
DumpEdge == PrintT("EDGE " \o ToJson(<<vstep, mreq>>) \o "\t" \o ToJson(act') \o "\t" \o ToJson(<<vstep', mreq'>>))
=============================================================================
