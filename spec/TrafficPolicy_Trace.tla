--------------------------- MODULE TrafficPolicy_Trace ---------------------------
(***************************************************************************)
(* Trace validation for C06: real packets against a real router whose      *)
(* configuration went through the real parser.                              *)
(*  {"ev":"in","svcs":[..],"isolate":B,"who":S,"proto":N,"dport":N,          *)
(*   "variant":V,"flow":B,"friends":"both"|"none","totun":B,"panic":B}                               *)
(*  {"ev":"in",...,"variant":"icmp-quote","proto":58,"dport":0,"flow":B (local host pinged who),"kind":S,"what":S,"hist":S,"icmp":text} *)
(*  {"ev":"in",...,"variant":"history","again":N,"handed":B,"late":B,"behind":N,...}  one delivery of a delivery history *)
(*  {"ev":"out","isolate":B,"srcisme":B,"dst":S,"proto":N,"tomesh":B}        *)
(*  {"ev":"policy","svcs":[..],"who":S,"proto":N,"port":N,"allowed":B}       *)
(*       return value of CheckInboundTrafficPolicy                           *)
(***************************************************************************)
EXTENDS TrafficPolicy

Trace == ndJsonDeserialize("trace.ndjson")
VARIABLE l
Ev == Trace[l]
TraceInit == l = 1 /\ Init

(* variant "exthdr": the packet of an "ok" case with IPv6 extension headers in front of its transport header.     *)
(* A router may or may not look behind them (the code as it is does not: such a packet matches no service);       *)
(* the property only says when a packet may be handed on: if a service admits ITS protocol and ITS port.         *)
(* variant "icmp-quote": a genuine, correctly sealed ICMPv6 message of `who` that quotes a packet (see CaseIcmp in     *)
(* TrafficPolicy).  Ev.flow says whether the local host had sent an ICMPv6 packet to `who` before; what the message   *)
(* quotes and what happened on the quoted connection (Ev.icmp, Ev.hist) is in the event for the reader only - it is   *)
(* no ground for admitting an ICMPv6 packet, and none for refusing one an icmp6/ping6 service admits.                 *)
InOK == /\ ~Ev.panic
        /\ IF Ev.variant = "icmp-quote"
           THEN /\ Ev.proto = 58
                \* handed on only if an icmp6/ping6 service admits `who` or the established-flow reading permits it ...
                /\ Ev.totun => InboundToTun(Ev.svcs, Ev.isolate, Ev.who, 58, 0, "ok", Ev.flow, Ev.friends)
                \* ... and a service that admits ICMPv6 from `who` admits this message (the flow reading is a permission only:
                \* a router may well refuse an error message that has nothing to do with the echo the local host sent)
                /\ InboundToTun(Ev.svcs, Ev.isolate, Ev.who, 58, 0, "ok", FALSE, Ev.friends) => Ev.totun
           ELSE IF Ev.variant = "history"
           \* one delivery of a delivery history of one sender (genuine frames, sealed by `who`, inner = outer addresses):
           \* Ev.again = number of earlier deliveries of this very frame, Ev.handed = one of them was handed to the interface,
           \* Ev.late = a frame sealed after this one had been delivered before it (Ev.behind, Ev.note, Ev.via: for the reader)
           THEN /\ Ev.totun => MayHandOn(Ev.svcs, Ev.isolate, Ev.who, Ev.proto, Ev.dport, Ev.flow, Ev.friends, Ev.handed)
                /\ MustHandOn(Ev.svcs, Ev.isolate, Ev.who, Ev.proto, Ev.dport, Ev.flow, Ev.friends, Ev.again > 0, Ev.late) => Ev.totun
           ELSE IF Ev.variant = "exthdr"
           THEN Ev.totun => InboundToTun(Ev.svcs, Ev.isolate, Ev.who, Ev.proto, Ev.dport, "ok", FALSE, Ev.friends)
           ELSE Ev.totun <=> InboundToTun(Ev.svcs, Ev.isolate, Ev.who, Ev.proto, Ev.dport, Ev.variant, Ev.flow, Ev.friends)
OutOK == Ev.tomesh <=> OutboundToMesh(Ev.isolate, Ev.srcisme, Ev.dst)
PolicyOK == Ev.allowed <=> PolicyAdmits(Ev.svcs, Ev.proto, Ev.port, Ev.who, Ev.friends)

TraceNext == /\ l <= Len(Trace) /\ l' = l + 1 /\ UNCHANGED vars
             /\ \/ (Ev.ev = "in" /\ InOK = TRUE)
                \/ (Ev.ev = "out" /\ OutOK = TRUE)
                \/ (Ev.ev = "policy" /\ PolicyOK = TRUE)

TraceAccepted ==
  LET dd == TLCGet("stats").diameter
  IN IF dd - 1 = Len(Trace) THEN TRUE
     ELSE PrintT("OUT REJECT " \o ToString(dd)) /\ FALSE
=============================================================================
