--------------------------- MODULE TrafficPolicy_Trace ---------------------------
(***************************************************************************)
(* Trace validation for C06: real packets against a real router whose      *)
(* configuration went through the real parser.                              *)
(*  {"ev":"in","svcs":[..],"isolate":B,"who":S,"proto":N,"dport":N,          *)
(*   "variant":V,"flow":B,"friends":"both"|"none","totun":B,"panic":B}                               *)
(*  {"ev":"out","isolate":B,"srcisme":B,"dst":S,"proto":N,"tomesh":B}        *)
(*  {"ev":"policy","svcs":[..],"who":S,"proto":N,"port":N,"allowed":B}       *)
(*       return value of CheckInboundTrafficPolicy                           *)
(***************************************************************************)
EXTENDS TrafficPolicy

Trace == ndJsonDeserialize("trace.ndjson")
VARIABLE l
Ev == Trace[l]
TraceInit == l = 1 /\ Init

(* variant "exthdr": the packet of an "ok" case with IPv6 extension headers in front of its transport header.     *)
(* A router may or may not look behind them (the code as it is does not: such a packet matches no service);       *)
(* the property only says when a packet may be handed on: if a service admits ITS protocol and ITS port.         *)
InOK == /\ ~Ev.panic
        /\ IF Ev.variant = "exthdr"
           THEN Ev.totun => InboundToTun(Ev.svcs, Ev.isolate, Ev.who, Ev.proto, Ev.dport, "ok", FALSE, Ev.friends)
           ELSE Ev.totun <=> InboundToTun(Ev.svcs, Ev.isolate, Ev.who, Ev.proto, Ev.dport, Ev.variant, Ev.flow, Ev.friends)
OutOK == Ev.tomesh <=> OutboundToMesh(Ev.isolate, Ev.srcisme, Ev.dst)
PolicyOK == Ev.allowed <=> PolicyAdmits(Ev.svcs, Ev.proto, Ev.port, Ev.who, Ev.friends)

TraceNext == /\ l <= Len(Trace) /\ l' = l + 1 /\ UNCHANGED vars
             /\ \/ (Ev.ev = "in" /\ InOK = TRUE)
                \/ (Ev.ev = "out" /\ OutOK = TRUE)
                \/ (Ev.ev = "policy" /\ PolicyOK = TRUE)

TraceAccepted ==
  LET dd == TLCGet("stats").diameter
  IN IF dd - 1 = Len(Trace) THEN TRUE
     ELSE PrintT("OUT REJECT " \o ToString(dd)) /\ FALSE
=============================================================================
