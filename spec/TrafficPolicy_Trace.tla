--------------------------- MODULE TrafficPolicy_Trace ---------------------------
(***************************************************************************)
(* Trace validation for C06: real packets against a real router whose      *)
(* configuration went through the real parser.                              *)
(*  {"ev":"in","svcs":[..],"isolate":B,"who":S,"proto":N,"dport":N,          *)
(*   "variant":V,"flow":B,"friends":"both"|"none","totun":B,"panic":B}                               *)
(*  {"ev":"out","isolate":B,"srcisme":B,"dst":S,"proto":N,"tomesh":B}        *)
(*  {"ev":"policy","svcs":[..],"who":S,"proto":N,"port":N,"allowed":B}       *)
(*       return value of CheckInboundTrafficPolicy                           *)
(***************************************************************************)
EXTENDS TrafficPolicy

Trace == ndJsonDeserialize("trace.ndjson")
VARIABLE l
Ev == Trace[l]
TraceInit == l = 1 /\ Init

InOK == /\ ~Ev.panic
        /\ Ev.totun <=> InboundToTun(Ev.svcs, Ev.isolate, Ev.who, Ev.proto, Ev.dport, Ev.variant, Ev.flow, Ev.friends)
OutOK == Ev.tomesh <=> OutboundToMesh(Ev.isolate, Ev.srcisme, Ev.dst)
PolicyOK == Ev.allowed <=> PolicyAdmits(Ev.svcs, Ev.proto, Ev.port, Ev.who, Ev.friends)

TraceNext == /\ l <= Len(Trace) /\ l' = l + 1 /\ UNCHANGED vars
             /\ \/ (Ev.ev = "in" /\ InOK = TRUE)
                \/ (Ev.ev = "out" /\ OutOK = TRUE)
                \/ (Ev.ev = "policy" /\ PolicyOK = TRUE)

TraceAccepted ==
  LET dd == TLCGet("stats").diameter
  IN IF dd - 1 = Len(Trace) THEN TRUE
     ELSE PrintT("OUT REJECT " \o ToString(dd)) /\ FALSE
=============================================================================
