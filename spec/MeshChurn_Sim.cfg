CONSTANTS
  Shape = "tri"
  MaxAnn = 3
  MaxChurn = 2
  MaxAge = 3
  MaxData = 2
INIT Init
NEXT Next
