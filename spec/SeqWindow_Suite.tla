--------------------------- MODULE SeqWindow_Suite ---------------------------
(***************************************************************************)
(* Trace validation for C03 in the OTHER direction: the traces are not made *)
(* by a driver of ours but recorded from the repository's own test suite    *)
(* (go test -tags verif ./state/ ./frame/ ./peering/ with VERIF_SEQ_TRACE):  *)
(* every decision of every SequenceHandler the tests create, logged inside   *)
(* Check while the handler's lock is still held.                             *)
(*   {"ev":"reset","h":H}                     new handler / new key epoch    *)
(*   {"ev":"check","h":H,"hi":A,"lo":B,"ok":B}  number A*65536+B (TLC's      *)
(*                                            integers are 32 bit signed)    *)
(* Judged by the property-level rule of SeqWindow: never a number twice;     *)
(* a number that is new and newer than, or at most W behind, the newest      *)
(* accepted one is accepted.                                                 *)
(***************************************************************************)
EXTENDS Integers, Sequences, FiniteSets, TLC, Json

CONSTANT W

Trace == ndJsonDeserialize("trace.ndjson")

VARIABLES l, acc, newest
tvars == <<l, acc, newest>>
Ev == Trace[l]
Num(e) == <<e.hi, e.lo>>
Less(a, b) == a[1] < b[1] \/ (a[1] = b[1] /\ a[2] < b[2])
(* b - a <= W for a <= b, without leaving 32 bits *)
Within(a, b) == \/ a[1] = b[1] /\ b[2] - a[2] <= W
                \/ b[1] = a[1] + 1 /\ (b[2] + 65536) - a[2] <= W
None == <<-1, 0>>

TraceInit == /\ l = 1
             /\ acc = [h \in {} |-> {}]
             /\ newest = [h \in {} |-> None]

Reset == /\ Ev.ev = "reset"
         /\ acc' = [h \in DOMAIN acc \cup {Ev.h} |-> IF h = Ev.h THEN {} ELSE acc[h]]
         /\ newest' = [h \in DOMAIN newest \cup {Ev.h} |-> IF h = Ev.h THEN None ELSE newest[h]]

MustReject(h, s) == s \in acc[h]
MustAccept(h, s) == /\ s \notin acc[h]
                    /\ s # <<0, 0>>                \* zero is the roll-over indicator, never a frame's number
                    /\ (newest[h] = None \/ Less(newest[h], s) \/ Within(s, newest[h]))

Check == /\ Ev.ev = "check"
         /\ Ev.h \in DOMAIN acc
         /\ Ev.ok => ~MustReject(Ev.h, Num(Ev))
         /\ MustAccept(Ev.h, Num(Ev)) => Ev.ok
         /\ acc' = IF Ev.ok THEN [acc EXCEPT ![Ev.h] = @ \cup {Num(Ev)}] ELSE acc
         /\ newest' = IF Ev.ok /\ (newest[Ev.h] = None \/ Less(newest[Ev.h], Num(Ev))) THEN [newest EXCEPT ![Ev.h] = Num(Ev)] ELSE newest

TraceNext == /\ l <= Len(Trace)
             /\ l' = l + 1
             /\ (Reset \/ Check)

TraceAccepted ==
  LET d == TLCGet("stats").diameter
  IN IF d - 1 = Len(Trace) THEN TRUE
     ELSE PrintT("OUT REJECT " \o ToString(d)) /\ FALSE
=============================================================================
