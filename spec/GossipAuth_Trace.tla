--------------------------- MODULE GossipAuth_Trace ---------------------------
(***************************************************************************)
(* Trace validation for C08: forgery campaigns against a real router.      *)
(* Every event is one delivered (forged or genuine) announcement:           *)
(*  {"ev":"case","len":L,"op":OP,"depth":D,"seen":B,"accepted":B,"path":[..], *)
(*   seen      = the victim had already processed the genuine announcement    *)
(*   "via":N,"nexthop":N,"unchanged":B,"genuine":B,"peer":N}                 *)
(*   peer      = op "handover" only (0 otherwise): the peer of the victim that *)
(*               hands over the copy whose chain is the genuine suffix         *)
(*               depth..len (9 origin, 8 uninvolved peer, i = i-th forwarder)  *)
(*   accepted  = a route to the origin was installed / refreshed             *)
(*   path      = routers of the installed route between victim and origin    *)
(*               (1 = delivering forwarder, i = i-th forwarder, 7/8 others)   *)
(*   unchanged = routing table and emitted frames unchanged by the delivery  *)
(*   genuine   = every accepted hop record is byte-identical to a record its *)
(*               signer emitted for this announcement (or is the deliverer's *)
(*               own fresh record)                                           *)
(***************************************************************************)
EXTENDS GossipAuth

Trace == ndJsonDeserialize("trace.ndjson")
VARIABLE l
Ev == Trace[l]
TraceInit == l = 1 /\ Init

CaseOK ==
  LET want == PropAccept(Ev.len, Ev.op, Ev.depth, Ev.peer)
  IN /\ Ev.accepted => want
     /\ (want /\ ~Ev.seen) => Ev.accepted                        \* (a copy of an announcement already processed may be a no-op)
     /\ Ev.accepted =>
                /\ Ev.path = Path(Ev.len, Ev.op, Ev.depth)       \* exactly the routers whose records were attached, in order
                /\ Ev.nexthop = Deliverer(Ev.len, Ev.op, Ev.peer)          \* next hop is the peer that delivered it
                /\ Ev.genuine
     /\ ~want => Ev.unchanged                                     \* rejected: neither table nor forwarded frames change

(* {"ev":"deep","records":N,"tampered":D,"accepted":B,"listed":K,"matches":B,"unchanged":B}: the forwarder next to *)
(* the victim delivers an announcement with N validly signed hop records (its own and N-1 of routers with throwaway   *)
(* identities between it and the origin); tampered = depth of one record that was altered after signing (0: none).   *)
(* A router may refuse chains it considers too long - but what it accepts lists exactly the attached records.        *)
DeepOK ==
  /\ Ev.accepted => (Ev.tampered = 0 /\ Ev.listed = Ev.records /\ Ev.matches)
  /\ ~Ev.accepted => Ev.unchanged

TraceNext == /\ l <= Len(Trace) /\ l' = l + 1
             /\ \/ Ev.ev = "case" /\ CaseOK = TRUE
                \/ Ev.ev = "deep" /\ DeepOK = TRUE
             /\ UNCHANGED vars

TraceAccepted ==
  LET dd == TLCGet("stats").diameter
  IN IF dd - 1 = Len(Trace) THEN TRUE
     ELSE PrintT("OUT REJECT " \o ToString(dd)) /\ FALSE
=============================================================================
