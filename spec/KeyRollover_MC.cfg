\* C15 stage M: one direction, scaled constants, every interleaving of <= 7 seals with deliveries, D = 2, duplicates on.
CONSTANTS
  Wrap = 16
  RollLo = 3
  RollHi = 12
  W = 3
  D = 2
  StartOff = {1, 2, 4}
  MaxSeal = 7
  Duplex = FALSE
  Dups = TRUE
  SplitReset = TRUE
INIT Init
NEXT Next
VIEW View
INVARIANTS NeverAhead
PROPERTIES NonceUniqueA OnlyOnceA CurrentAcceptedA OldKeyRejectedA RollsInStepA PrioRestartA
