\* C17 stage M: 3 frame structs, 4 buffers, 3 tiers, sequences of <= 4 operations.
CONSTANTS
  Structs = {1, 2, 3}
  Bufs = {1, 2, 3, 4}
  Tiers = {1, 2, 3}
  MaxOps = 4
  CloneSameTier = TRUE
  ParseResetsLink = TRUE
INIT Init
NEXT Next
VIEW View
INVARIANTS NoSharing OwnerOK
PROPERTIES NoPanicA CloneEqualA IsolationA NoRemnantA NoDirtA
