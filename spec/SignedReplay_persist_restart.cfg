SPECIFICATION Spec
CONSTANTS
  Design = "persist"
  MaxTime = 5
  Ahead = 0
  Behind = 0
  Window = 0
  Idle = 2
  Losses = {"clean", "restart"}
INVARIANT AtMostOnce
PROPERTY MustAcceptA
CHECK_DEADLOCK FALSE
