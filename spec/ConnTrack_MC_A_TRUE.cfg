SPECIFICATION Spec
CONSTANTS
  Remotes = {1, 2}
  Friends = {2}
  Isolated = TRUE
  OpenSvcs = {"t80"}
  OutKeys <- AOutKeys
  InKeys <- AInKeys
  Senders = {2}
  Codes = {"unreachable", "denied"}
VIEW View
INVARIANTS TypeOK PolicyHolds EntriesSound
PROPERTIES ErrScoped OnlyNamed NeverBetter
CHECK_DEADLOCK FALSE
