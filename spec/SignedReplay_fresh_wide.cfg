SPECIFICATION Spec
CONSTANTS
  Design = "fresh"
  MaxTime = 5
  Ahead = 0
  Behind = 0
  Window = 3
  Idle = 2
  Losses = {"clean", "restart", "kill"}
INVARIANT AtMostOnce
PROPERTY MustAcceptA
CHECK_DEADLOCK FALSE
