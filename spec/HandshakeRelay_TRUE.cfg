SPECIFICATION Spec
CONSTANTS DstChecked = TRUE
INVARIANTS NoLinkWithoutProof
ACTION_CONSTRAINT DumpEdge
CHECK_DEADLOCK FALSE
