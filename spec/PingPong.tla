------------------------------ MODULE PingPong ------------------------------
(***************************************************************************)
(* The request/response matcher of the router's pong pings                 *)
(* (router/ping_pong.go), as the keep-alive worker (router/keepalive.go)    *)
(* and routed requests use it.  Serves C13 (no input from the network can   *)
(* panic a router worker) and documents the handler's contract.             *)
(*                                                                         *)
(* One action per critical section of the code:                            *)
(*   Get   Send: `getActive(pingID)` for a retry, a new state otherwise      *)
(*   Tx    Send: `sendPingMsg` hands the request to the link                 *)
(*   TxErr Send: `sendPingMsg` fails - the state is not stored               *)
(*   Set   Send: `setActive(pingID, state)`                                  *)
(*   Pluck handleResponse: `pluckActive(pingID)` (takes the state out)       *)
(*   Close handleResponse: `close(state.notify)`                             *)
(* Get..Set is ONE call of Send and is not atomic: the router workers       *)
(* (Pluck/Close) run beside the keep-alive worker.  The remote router is an *)
(* authenticated peer that may answer late, not at all, or more often than  *)
(* it was asked (it knows the ping ID once it has seen a request).           *)
(*                                                                         *)
(* DoneFlag = FALSE is the code as it was first written: a response handled *)
(* between Get and Set takes the state out and closes its channel, Set puts *)
(* the same state back, and the response to the retried request closes the  *)
(* channel a second time - a panic in the router worker (found by TLC, then *)
(* executed on the real handler: fixed in 84ed759).  DoneFlag = TRUE is the *)
(* code as it is: a state remembers that its response was processed.        *)
(***************************************************************************)
EXTENDS Integers, Sequences, FiniteSets, TLC

CONSTANTS DoneFlag,    \* TRUE: the code as it is; FALSE: pinned negative control
          MaxFails,    \* attempts per call of the keep-alive worker (5 in the code)
          MaxCalls,    \* calls (keep-alive rounds, routed requests); call k uses ping ID k
          MaxExtra,    \* pongs the peer makes up on top of its answers
          MaxLoss,     \* frames the network loses
          Workers,     \* router workers that handle responses side by side
          AllowClean,  \* the cleaner may forget stored states (30 s in the code)
          AllowTxErr,  \* handing the request to the link may fail
          AtomicHandle \* TRUE: a worker's Pluck and Close are one step (the grain at which behaviours are replayed on the real handler)

IDs == 1..MaxCalls

VARIABLES objs,     \* sequence of state objects ever made: [id, closes, done]
          active,   \* ping ID -> index into objs, 0 = none          (h.active)
          pc,       \* the caller: "idle" | "get" | "tx" | "set" | "wait"
          held,     \* the state object Send works with between Get and Set
          cur,      \* ping ID of the current call, 0 = none
          retry,    \* the current Send is a retry (retryPingID # 0)
          fails,
          calls,
          pings, pongs,   \* frames in flight per ping ID
          answered, \* ping IDs for which the peer produced at least one pong (history)
          known,    \* ping IDs the peer has seen in a request
          extra, loss,
          wpc, wobj,      \* router workers: "idle" | "plucked", and the object a worker took out
          act

vars == <<objs, active, pc, held, cur, retry, fails, calls, pings, pongs, answered, known, extra, loss, wpc, wobj, act>>
View == <<objs, active, pc, held, cur, retry, fails, calls, pings, pongs, answered, known, extra, loss, wpc, wobj>>

Init ==
  /\ objs = <<>>
  /\ active = [i \in IDs |-> 0]
  /\ pc = "idle" /\ held = 0 /\ cur = 0 /\ retry = FALSE /\ fails = 0 /\ calls = 0
  /\ pings = [i \in IDs |-> 0] /\ pongs = [i \in IDs |-> 0]
  /\ answered = {} /\ known = {}
  /\ extra = 0 /\ loss = 0
  /\ wpc = [w \in Workers |-> "idle"] /\ wobj = [w \in Workers |-> 0]
  /\ act = [name |-> "init"]

-----------------------------------------------------------------------------
(* The caller (keepAlivePeer; a routed request is a call with MaxFails 1). *)

Call ==
  /\ pc = "idle" /\ calls < MaxCalls
  /\ calls' = calls + 1 /\ cur' = calls + 1 /\ retry' = FALSE /\ fails' = 0
  /\ pc' = "get"
  /\ UNCHANGED <<objs, active, held, pings, pongs, answered, known, extra, loss, wpc, wobj>>
  /\ act' = [name |-> "call", id |-> calls + 1]

Get ==
  /\ pc = "get"
  /\ IF retry /\ active[cur] # 0
       THEN /\ held' = active[cur] /\ UNCHANGED objs
       ELSE /\ objs' = Append(objs, [id |-> cur, closes |-> 0, done |-> FALSE])
            /\ held' = Len(objs) + 1
  /\ pc' = "tx"
  /\ UNCHANGED <<active, cur, retry, fails, calls, pings, pongs, answered, known, extra, loss, wpc, wobj>>
  /\ act' = [name |-> "get", id |-> cur, retry |-> retry, reused |-> (retry /\ active[cur] # 0)]

Tx ==
  /\ pc = "tx"
  /\ pings' = [pings EXCEPT ![cur] = @ + 1]
  /\ pc' = "set"
  /\ UNCHANGED <<objs, active, held, cur, retry, fails, calls, pongs, answered, known, extra, loss, wpc, wobj>>
  /\ act' = [name |-> "tx", id |-> cur]

(* sendPingMsg failed (no route, link closing): nothing is stored, the      *)
(* keep-alive worker counts a failure and tries again with the same ID.     *)
TxErr ==
  /\ AllowTxErr /\ pc = "tx"
  /\ fails' = fails + 1
  /\ IF fails + 1 >= MaxFails
       THEN pc' = "idle" /\ cur' = 0 /\ retry' = FALSE
       ELSE pc' = "get" /\ retry' = TRUE /\ UNCHANGED cur
  /\ held' = 0
  /\ UNCHANGED <<objs, active, calls, pings, pongs, answered, known, extra, loss, wpc, wobj>>
  /\ act' = [name |-> "txerr", id |-> cur]

Set ==
  /\ pc = "set"
  /\ active' = [active EXCEPT ![cur] = held]
  /\ pc' = "wait"
  /\ UNCHANGED <<objs, held, cur, retry, fails, calls, pings, pongs, answered, known, extra, loss, wpc, wobj>>
  /\ act' = [name |-> "set", id |-> cur, closed |-> (objs[held].closes > 0)]

(* The caller's select: the channel Send returned is closed.                *)
Notified ==
  /\ pc = "wait" /\ objs[held].closes > 0
  /\ pc' = "idle" /\ cur' = 0 /\ retry' = FALSE /\ held' = 0
  /\ UNCHANGED <<objs, active, fails, calls, pings, pongs, answered, known, extra, loss, wpc, wobj>>
  /\ act' = [name |-> "notified", id |-> cur]

Timeout ==
  /\ pc = "wait" /\ objs[held].closes = 0
  /\ fails' = fails + 1
  /\ IF fails + 1 >= MaxFails
       THEN pc' = "idle" /\ cur' = 0 /\ retry' = FALSE      \* gives up (the keep-alive worker closes the link)
       ELSE pc' = "get" /\ retry' = TRUE /\ UNCHANGED cur
  /\ held' = 0
  /\ UNCHANGED <<objs, active, calls, pings, pongs, answered, known, extra, loss, wpc, wobj>>
  /\ act' = [name |-> "timeout", id |-> cur]

-----------------------------------------------------------------------------
(* The remote router and the network.                                      *)

PeerPong(i) ==
  /\ pings[i] > 0
  /\ pings' = [pings EXCEPT ![i] = @ - 1]
  /\ pongs' = [pongs EXCEPT ![i] = @ + 1]
  /\ answered' = answered \cup {i} /\ known' = known \cup {i}
  /\ UNCHANGED <<objs, active, pc, held, cur, retry, fails, calls, extra, loss, wpc, wobj>>
  /\ act' = [name |-> "peerpong", id |-> i]

PeerExtra(i) ==
  /\ i \in known /\ extra < MaxExtra
  /\ extra' = extra + 1
  /\ pongs' = [pongs EXCEPT ![i] = @ + 1]
  /\ UNCHANGED <<objs, active, pc, held, cur, retry, fails, calls, pings, answered, known, loss, wpc, wobj>>
  /\ act' = [name |-> "extra", id |-> i]

LosePing(i) ==
  /\ pings[i] > 0 /\ loss < MaxLoss
  /\ loss' = loss + 1 /\ pings' = [pings EXCEPT ![i] = @ - 1]
  /\ UNCHANGED <<objs, active, pc, held, cur, retry, fails, calls, pongs, answered, known, extra, wpc, wobj>>
  /\ act' = [name |-> "loseping", id |-> i]

LosePong(i) ==
  /\ pongs[i] > 0 /\ loss < MaxLoss
  /\ loss' = loss + 1 /\ pongs' = [pongs EXCEPT ![i] = @ - 1]
  /\ UNCHANGED <<objs, active, pc, held, cur, retry, fails, calls, pings, answered, known, extra, wpc, wobj>>
  /\ act' = [name |-> "losepong", id |-> i]

-----------------------------------------------------------------------------
(* A router worker handles a response.                                      *)

Pluck(w, i) ==
  /\ ~AtomicHandle /\ wpc[w] = "idle" /\ pongs[i] > 0
  /\ pongs' = [pongs EXCEPT ![i] = @ - 1]
  /\ IF active[i] = 0
       THEN /\ UNCHANGED <<active, wpc, wobj>>
            /\ act' = [name |-> "pong", w |-> w, id |-> i, outcome |-> "no state"]
       ELSE /\ active' = [active EXCEPT ![i] = 0]
            /\ wpc' = [wpc EXCEPT ![w] = "plucked"] /\ wobj' = [wobj EXCEPT ![w] = active[i]]
            /\ act' = [name |-> "pluck", w |-> w, id |-> i]
  /\ UNCHANGED <<objs, pc, held, cur, retry, fails, calls, pings, answered, known, extra, loss>>

Close(w) ==
  /\ wpc[w] = "plucked"
  /\ LET o == wobj[w] IN
       IF DoneFlag /\ objs[o].done
         THEN /\ UNCHANGED objs
              /\ act' = [name |-> "pong", w |-> w, id |-> objs[o].id, outcome |-> "already processed"]
         ELSE /\ objs' = [objs EXCEPT ![o].closes = @ + 1, ![o].done = TRUE]
              /\ act' = [name |-> "pong", w |-> w, id |-> objs[o].id,
                         outcome |-> IF objs[o].closes = 0 THEN "notified" ELSE "panic"]
  /\ wpc' = [wpc EXCEPT ![w] = "idle"] /\ wobj' = [wobj EXCEPT ![w] = 0]
  /\ UNCHANGED <<active, pc, held, cur, retry, fails, calls, pings, pongs, answered, known, extra, loss>>

(* Pluck and Close of one response as a single step: nothing but local      *)
(* computation lies between them in the code, so for the stored states this *)
(* is every behaviour of one worker; the separate steps above add the       *)
(* moment at which the caller sees the channel closed.                      *)
Handle(w, i) ==
  /\ AtomicHandle /\ wpc[w] = "idle" /\ pongs[i] > 0
  /\ pongs' = [pongs EXCEPT ![i] = @ - 1]
  /\ IF active[i] = 0
       THEN /\ UNCHANGED <<active, objs>>
            /\ act' = [name |-> "pong", w |-> w, id |-> i, outcome |-> "no state"]
       ELSE LET o == active[i] IN
            /\ active' = [active EXCEPT ![i] = 0]
            /\ IF DoneFlag /\ objs[o].done
                 THEN /\ UNCHANGED objs
                      /\ act' = [name |-> "pong", w |-> w, id |-> i, outcome |-> "already processed"]
                 ELSE /\ objs' = [objs EXCEPT ![o].closes = @ + 1, ![o].done = TRUE]
                      /\ act' = [name |-> "pong", w |-> w, id |-> i,
                                 outcome |-> IF objs[o].closes = 0 THEN "notified" ELSE "panic"]
  /\ UNCHANGED <<pc, held, cur, retry, fails, calls, pings, answered, known, extra, loss, wpc, wobj>>

(* PingPongHandler.Clean: stored states older than 30 s are forgotten.      *)
Clean(i) ==
  /\ AllowClean /\ active[i] # 0
  /\ active' = [active EXCEPT ![i] = 0]
  /\ UNCHANGED <<objs, pc, held, cur, retry, fails, calls, pings, pongs, answered, known, extra, loss, wpc, wobj>>
  /\ act' = [name |-> "clean", id |-> i]

Next ==
  \/ Call \/ Get \/ Tx \/ TxErr \/ Set \/ Notified \/ Timeout
  \/ \E i \in IDs : PeerPong(i) \/ PeerExtra(i) \/ LosePing(i) \/ LosePong(i) \/ Clean(i)
  \/ \E w \in Workers : Close(w) \/ \E j \in IDs : Pluck(w, j) \/ Handle(w, j)

Spec == Init /\ [][Next]_vars
FairSpec == Spec /\ WF_vars(Get) /\ WF_vars(Tx) /\ WF_vars(Set) /\ WF_vars(Notified)
                 /\ \A i \in IDs : WF_vars(PeerPong(i))
                 /\ \A w \in Workers : WF_vars(Close(w)) /\ \A j \in IDs : WF_vars(Pluck(w, j))

-----------------------------------------------------------------------------
(* Properties.                                                              *)

TypeOK ==
  /\ \A k \in DOMAIN objs : objs[k].id \in IDs /\ objs[k].closes \in 0..2
  /\ \A i \in IDs : active[i] \in 0..Len(objs)
  /\ pc \in {"idle", "get", "tx", "set", "wait"}

(* C13: no schedule of responses closes a channel twice (a Go panic).       *)
NoPanic == \A k \in DOMAIN objs : objs[k].closes <= 1
NoPanicA == [][act'.name = "pong" => act'.outcome # "panic"]_vars

(* A stored state belongs to the ping ID it is stored under.                *)
ActiveOwn == \A i \in IDs : active[i] # 0 => objs[active[i]].id = i

(* The caller is only told "answered" when the remote router produced a     *)
(* response for exactly this call's ping ID.                                 *)
NotifiedOnlyIfAnsweredA == [][act'.name = "notified" => act'.id \in answered \/ extra > 0]_vars
ClosedOnlyIfAnswered == \A k \in DOMAIN objs : objs[k].closes > 0 => (objs[k].id \in answered \/ extra > 0)

(* A response for one call never completes another call.                    *)
NoCrossTalkA == [][(act'.name = "pong" /\ act'.outcome = "notified") =>
                    \E k \in DOMAIN objs : objs[k].id = act'.id /\ objs'[k].closes = objs[k].closes + 1]_vars

(* Liveness (FairSpec, no loss, no cleaner): an answered call is notified.  *)
AnsweredIsNotified == (pc = "wait" /\ cur \in answered /\ pongs[cur] > 0) ~> (pc # "wait" \/ objs[held].closes > 0)
=============================================================================
