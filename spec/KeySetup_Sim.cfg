\* C14 simulation: up to 3 starts per router, 2 lost messages, long random schedules.
CONSTANTS
  MaxStarts = 3
  MaxDrops = 2
  MaxForget = 2
  MaxLinks = 0
  MaxDups = 2
  TieBreak = FALSE
  RoleByAddress = FALSE
INIT Init
NEXT NextSim
ACTION_CONSTRAINT DumpStep
