------------------------------ MODULE KeyRollover ------------------------------
(***************************************************************************)
(* Sequence numbers and key roll-over of an encryption session             *)
(* (state/session_encryption.go: Out, In, NextOut, RolloverRequired,       *)
(* Reset, Check), serving C15.  Two endpoints A and B share one duplex     *)
(* session: each has, per priority class, an outgoing counter and an       *)
(* incoming window, plus an out-key epoch and an in-key epoch.  Keys are    *)
(* symbolic: a frame opens iff its epoch equals the receiver's in-epoch.    *)
(*                                                                         *)
(* Seal(X,c) is one action because EncryptionSession.Out runs under the    *)
(* session lock.  Deliver takes one of the first D+1 undelivered frames of  *)
(* a direction (bounded reordering, no loss, optional duplication).         *)
(*                                                                         *)
(* SplitReset = TRUE is the code as it is now (fix: commit): a wrap of the  *)
(* outgoing regular sequence restarts only the outgoing priority counter,   *)
(* a wrap seen on the incoming side restarts only the incoming priority     *)
(* window.  FALSE is the pinned code, where SequenceHandler.Reset cleared   *)
(* both, so that in duplex use the other direction's priority numbering     *)
(* restarted under an unchanged key.                                        *)
(***************************************************************************)
EXTENDS Integers, Sequences, FiniteSets, TLC, Json

CONSTANTS Wrap,      \* sequence numbers are 1..Wrap-1 (2^32 in the code)
          RollLo,    \* 255
          RollHi,    \* Wrap - 256
          W,         \* replay window (64)
          D,         \* reordering bound (displacement)
          StartOff,  \* set of start offsets: regular out counter starts at Wrap - off
          MaxSeal,   \* seals per endpoint
          Duplex,    \* both endpoints seal
          Dups,      \* deliveries may leave the frame in flight (duplication)
          SplitReset

Ends == {"A", "B"}
Peer(x) == IF x = "A" THEN "B" ELSE "A"
Cls == {"r", "p"}

VARIABLES out,   \* [end][cls] -> outgoing counter
          hi,    \* [end][cls] -> highest received
          bm,    \* [end][cls] -> window bitmap (set of distances)
          kout,  \* [end] -> out-key epoch
          kin,   \* [end] -> in-key epoch
          q,     \* [end] -> sequence of frames in flight towards the peer of `end`
          sealed,   \* history: frames sealed so far
          accepted, \* history: frames accepted so far
          nseal,
          step,  \* step counter (replay binding only, hidden by the VIEW)
          act

vars == <<out, hi, bm, kout, kin, q, sealed, accepted, nseal, step, act>>
View == <<out, hi, bm, kout, kin, q, sealed, accepted, nseal>>

Frame(x, c, s, e) == [from |-> x, cls |-> c, seq |-> s, ep |-> e]

Init == /\ \E off \in StartOff :
             /\ out = [x \in Ends |-> [c \in Cls |-> IF c = "r" THEN Wrap - off ELSE 0]]
             \* the receivers have seen the frame just before (positions the window)
             /\ hi = [x \in Ends |-> [c \in Cls |-> IF c = "r" THEN Wrap - off ELSE 0]]
        /\ bm = [x \in Ends |-> [c \in Cls |-> {}]]
        /\ kout = [x \in Ends |-> 0] /\ kin = [x \in Ends |-> 0]
        /\ q = [x \in Ends |-> <<>>]
        /\ sealed = {} /\ accepted = {}
        /\ nseal = [x \in Ends |-> 0]
        /\ step = 0
        /\ act = [name |-> "init"]

(* EncryptionSession.Out *)
Seal(x, c) ==
  /\ nseal[x] < MaxSeal
  /\ Duplex \/ x = "A"
  /\ LET n1 == (out[x][c] + 1) % Wrap
         roll == n1 = 0
         s == IF roll THEN 1 ELSE n1
     IN IF roll /\ c = "p"
        THEN \* priority wrap is refused; the counter has advanced
             /\ out' = [out EXCEPT ![x][c] = s]
             /\ act' = [name |-> "seal", at |-> x, cls |-> c, err |-> TRUE, seq |-> 0, ep |-> kout[x], dup |-> FALSE]
             /\ UNCHANGED <<hi, bm, kout, q, sealed>>
        ELSE LET e == IF roll THEN kout[x] + 1 ELSE kout[x]
                 f == Frame(x, c, s, e)
             IN /\ out' = IF roll THEN [out EXCEPT ![x]["r"] = s, ![x]["p"] = 0]
                                  ELSE [out EXCEPT ![x][c] = s]
                /\ hi' = IF roll /\ ~SplitReset THEN [hi EXCEPT ![x]["p"] = 0] ELSE hi
                /\ kout' = [kout EXCEPT ![x] = e]
                /\ q' = [q EXCEPT ![x] = Append(@, f)]
                /\ sealed' = sealed \cup {f}
                /\ act' = [name |-> "seal", at |-> x, cls |-> c, err |-> FALSE, seq |-> s, ep |-> e,
                           dup |-> f \in sealed]
                /\ UNCHANGED bm
  /\ nseal' = [nseal EXCEPT ![x] = @ + 1]
  /\ step' = step + 1
  /\ UNCHANGED <<kin, accepted>>

(* SequenceHandler.Check on (h, b) for sequence number s: <<ok, h', b'>>.   *)
WinCheck(h, b, s) ==
  IF s = h THEN <<FALSE, h, b>>
  ELSE IF s > h
       THEN LET d == s - h
            IN <<TRUE, s, {x + d : x \in {y \in b : y + d <= W}} \cup (IF d <= W THEN {d} ELSE {})>>
       ELSE LET d == h - s
            IN IF d > W \/ d \in b THEN <<FALSE, h, b>> ELSE <<TRUE, h, b \cup {d}>>

(* FrameV1.Unseal / LinkFrame.Unseal at y = Peer(x): In, open, Check.        *)
Deliver(x, i, keep) ==
  /\ i \in 1..Len(q[x]) /\ i <= D + 1
  /\ keep => Dups
  /\ LET y == Peer(x)
         f == q[x][i]
         c == f.cls
         rollreq == hi[y][c] >= RollHi /\ f.seq <= RollLo
         hi1 == IF rollreq THEN [hi EXCEPT ![y][c] = 0] ELSE hi
         prioErr == rollreq /\ c = "p"
         rolls == rollreq /\ c = "r"
         hi2 == IF rolls THEN [hi1 EXCEPT ![y]["p"] = 0] ELSE hi1
         kin2 == IF rolls THEN kin[y] + 1 ELSE kin[y]
         opens == ~prioErr /\ f.ep = kin2
         wc == WinCheck(hi2[y][c], bm[y][c], f.seq)
         ok == opens /\ wc[1]
     IN /\ hi' = IF opens THEN [hi2 EXCEPT ![y][c] = wc[2]] ELSE hi2
        /\ bm' = IF opens THEN [bm EXCEPT ![y][c] = wc[3]] ELSE bm
        /\ kin' = [kin EXCEPT ![y] = kin2]
        /\ out' = IF rolls /\ ~SplitReset THEN [out EXCEPT ![y]["p"] = 0] ELSE out
        /\ accepted' = IF ok THEN accepted \cup {f} ELSE accepted
        /\ q' = IF keep THEN q ELSE [q EXCEPT ![x] = SubSeq(@, 1, i - 1) \o SubSeq(@, i + 1, Len(@))]
        /\ act' = [name |-> "deliver", from |-> x, cls |-> c, seq |-> f.seq, ep |-> f.ep, idx |-> i, keep |-> keep,
                   ok |-> ok, again |-> f \in accepted,
                   kinBefore |-> kin[y], kinAfter |-> kin2,
                   \* the frame is current (sealed under the receiver's key after this step), new and in the window
                   must |-> (f.ep = kin2 /\ f \notin accepted /\ ~prioErr
                             /\ (f.seq > hi2[y][c] \/ hi2[y][c] - f.seq <= W))]
  /\ step' = step + 1
  /\ UNCHANGED <<kout, sealed, nseal>>

Next == \/ \E x \in Ends, c \in Cls : Seal(x, c)
        \/ \E x \in Ends, i \in 1..(D + 1), keep \in BOOLEAN : Deliver(x, i, keep)

(* Simulation: a random enabled step; in-flight frames are kept below      *)
(* D + 6 per direction so that sealing and delivering stay balanced.        *)
NextSim ==
  /\ nseal["A"] >= 0
  /\ \E k \in {RandomElement(1..10)} : \E x \in {RandomElement(Ends)} :
       LET busy == IF q[x] # <<>> THEN x ELSE Peer(x)
           canSeal == \E e \in Ends : (Duplex \/ e = "A") /\ nseal[e] < MaxSeal
           mustDeliver == Len(q["A"]) > D + 6 \/ Len(q["B"]) > D + 6 \/ ~canSeal
           long == IF Len(q["A"]) >= Len(q["B"]) THEN "A" ELSE "B"
       IN IF (k <= 5 /\ ~mustDeliver) \/ (q["A"] = <<>> /\ q["B"] = <<>>)
          THEN \E xx \in {IF Duplex THEN x ELSE "A"} : \E cc \in {IF RandomElement(1..4) = 1 THEN "p" ELSE "r"} :
                 IF nseal[xx] < MaxSeal THEN Seal(xx, cc) ELSE Seal(Peer(xx), cc)
          ELSE \E xx \in {IF mustDeliver THEN long ELSE busy} :
                 \E i \in {RandomElement(1..(IF Len(q[xx]) < D + 1 THEN Len(q[xx]) ELSE D + 1))} :
                   \E keep \in {Dups /\ RandomElement(1..8) = 1} : Deliver(xx, i, keep)

Spec == Init /\ [][Next]_vars

-----------------------------------------------------------------------------
(* Properties (C15).                                                       *)
NonceUnique == act.name = "seal" /\ ~act.err => ~act.dup
OnlyOnce == act.name = "deliver" /\ act.ok => ~act.again
CurrentAccepted == act.name = "deliver" /\ act.must => act.ok
OldKeyRejected == act.name = "deliver" /\ act.ep < act.kinAfter => ~act.ok
(* The receiver moves to the next key exactly when the first regular frame  *)
(* of the next epoch arrives - never spuriously, never too late.            *)
RollsInStep == act.name = "deliver" =>
                 /\ (act.kinAfter # act.kinBefore) => (act.cls = "r" /\ act.ep = act.kinBefore + 1 /\ act.kinAfter = act.ep)
                 /\ (act.cls = "r" /\ act.ep = act.kinBefore + 1) => act.kinAfter = act.ep
NeverAhead == \A x \in Ends : kin[Peer(x)] <= kout[x]
(* No loss, no duplication: everything in flight was sealed; counters agree. *)
(* After a wrap the priority numbering restarts at 1 under the new key.      *)
PrioRestart ==
  (act.name = "seal" /\ ~act.err /\ act.cls = "p" /\ act.ep > 0
     /\ ~(\E f \in sealed : f.from = act.at /\ f.cls = "p" /\ f.ep = act.ep /\ f # Frame(act.at, "p", act.seq, act.ep)))
  => act.seq = 1

DumpStep == PrintT("OUT " \o ToJson([i |-> step', a |-> act',
                                      start |-> IF step = 0 THEN Wrap - out["A"]["r"] ELSE 0]))
DumpEdge == PrintT("EDGE " \o ToJson(View) \o "\t" \o ToJson(act') \o "\t" \o ToJson(View'))
(***************************************************************************)
(* `act` (the step's observed outcome) is not part of the VIEW: as a state  *)
(* predicate an invariant over act would be evaluated only for the first     *)
(* representative TLC finds of each view class.  The action forms below are  *)
(* evaluated for EVERY transition TLC generates; the configurations that use *)
(* a VIEW check these.                                                       *)
(***************************************************************************)
NonceUniqueA == [][NonceUnique']_vars
OnlyOnceA == [][OnlyOnce']_vars
CurrentAcceptedA == [][CurrentAccepted']_vars
OldKeyRejectedA == [][OldKeyRejected']_vars
RollsInStepA == [][RollsInStep']_vars
PrioRestartA == [][PrioRestart']_vars

=============================================================================
