CONSTANTS UdpOpensTcp = TRUE
INIT Init
NEXT Next
INVARIANTS DefaultDeny OnlyAuthenticated TcpIsTcp UdpIsUdp IsolationHolds NoSpoofing
