\* C14 stage M: <= 2 starts per router, <= 1 lost message, every delivery order.
CONSTANTS
  MaxStarts = 2
  MaxDrops = 1
  MaxForget = 0
  MaxLinks = 0
  MaxDups = 0
  TieBreak = TRUE
  RoleByAddress = FALSE
INIT Init
NEXT Next
VIEW View
INVARIANTS NoSilentMismatch
