--------------------------- MODULE Forwarding_Trace ---------------------------
(***************************************************************************)
(* Trace validation for C10 (property level): every frame that crosses a   *)
(* virtual link between real router stacks.                                 *)
(*  {"ev":"topo","n":N,"links":[...]}   optionally "lite":[..], "stubs":[..] *)
(*      the routers configured with router.lite / router.stub                *)
(*  {"ev":"originate","id":I,"src":S,"dst":D,"ttl":T,"conv":B}              *)
(*  {"ev":"cross","id":I,"from":F,"to":T,"ttl":N,"same":B,"known":B}        *)
(*      same  = all bytes outside TTL, flow flags and switch block equal     *)
(*              the bytes of the frame's previous crossing / its origin      *)
(*      known = the driver originated this frame (else a router did, e.g.    *)
(*              an error ping: first crossing defines it)                    *)
(*  {"ev":"reply","id":I,"by":N}      a router answered request I            *)
(*  {"ev":"end","id":I,"replied":B}                                          *)
(*  {"ev":"refused","src":S,"dst":D,"conv":B}                                *)
(*      router S refused to send its own request to D (nothing left S).      *)
(*      In a converged mesh (conv) the request is handed to D's handlers,    *)
(*      so it has to leave S: a refusal is only legal where nothing is       *)
(*      claimed (e.g. a lite router whose only relay is a dead end).         *)
(*  {"ev":"maint","node":N,"ticks":[..],"idle_s":S,"removed":K}              *)
(*      router N's periodic workers (routing table / connection state /      *)
(*      ping handler / session cleaners) ticked after S seconds of idle      *)
(*      time; K routes left its table. Housekeeping is no step of the        *)
(*      forwarding machine: topology and frames stay as they are, and what   *)
(*      is claimed of later requests ("conv") is claimed as before.          *)
(***************************************************************************)
EXTENDS Integers, Sequences, FiniteSets, TLC, Json

Trace == ndJsonDeserialize("trace.ndjson")
VARIABLES l, n, links, fr   \* fr: frame id -> [pos, ttl, ttl0, count, dst, conv]
Ev == Trace[l]
ToSet(sq) == {sq[sk] : sk \in DOMAIN sq}
Linked(x, y) == \E le \in links : (le.a = x /\ le.b = y) \/ (le.a = y /\ le.b = x)

TraceInit == l = 1 /\ n = 0 /\ links = {} /\ fr = [fi \in {} |-> 0]

Topo == /\ Ev.ev = "topo" /\ n' = Ev.n /\ links' = ToSet(Ev.links) /\ fr' = [fi \in {} |-> 0]
        /\ "lite" \in DOMAIN Ev => ToSet(Ev.lite) \subseteq 1..Ev.n
        /\ "stubs" \in DOMAIN Ev => ToSet(Ev.stubs) \subseteq 1..Ev.n

Put(id, rec) == [fi \in DOMAIN fr \cup {id} |-> IF fi = id THEN rec ELSE fr[fi]]

Originate == /\ Ev.ev = "originate"
             /\ fr' = Put(Ev.id, [pos |-> Ev.src, ttl |-> Ev.ttl, ttl0 |-> Ev.ttl, count |-> 0, dst |-> Ev.dst, conv |-> Ev.conv])
             /\ UNCHANGED <<n, links>>

CrossOK ==
  /\ Linked(Ev.from, Ev.to)
  /\ Ev.ttl >= 1                                           \* a frame whose TTL would reach zero is not forwarded
  /\ Ev.same                                               \* only TTL, flow flags (and the switch block) change
  /\ Ev.id \in DOMAIN fr =>
       /\ Ev.from = fr[Ev.id].pos                          \* continuity
       /\ Ev.ttl < fr[Ev.id].ttl                           \* every forwarding step strictly decreases the TTL
       /\ fr[Ev.id].count + 1 <= fr[Ev.id].ttl0 - 1        \* at most initial TTL minus one crossings
  /\ Ev.id \notin DOMAIN fr => Ev.ttl <= 31                \* frames routers originate start at 32

Cross == /\ Ev.ev = "cross"
         /\ CrossOK = TRUE
         /\ fr' = IF Ev.id \in DOMAIN fr
                  THEN [fr EXCEPT ![Ev.id].pos = Ev.to, ![Ev.id].ttl = Ev.ttl, ![Ev.id].count = @ + 1]
                  ELSE Put(Ev.id, [pos |-> Ev.to, ttl |-> Ev.ttl, ttl0 |-> Ev.ttl + 1, count |-> 1, dst |-> 0, conv |-> FALSE])
         /\ UNCHANGED <<n, links>>

Reply == /\ Ev.ev = "reply"
         /\ (Ev.id \in DOMAIN fr /\ fr[Ev.id].dst # 0) => Ev.by = fr[Ev.id].dst    \* only the destination's handlers answer
         /\ UNCHANGED <<n, links, fr>>

End == /\ Ev.ev = "end"
       /\ (Ev.id \in DOMAIN fr /\ fr[Ev.id].conv) => Ev.replied                  \* converged mesh: the reply reaches A
       /\ UNCHANGED <<n, links, fr>>

Refused == /\ Ev.ev = "refused"
           /\ Ev.src \in 1..n /\ Ev.dst \in 1..n /\ Ev.src # Ev.dst
           /\ ~Ev.conv                                                         \* converged mesh: the request leaves A (it is handed to B)
           /\ UNCHANGED <<n, links, fr>>

Maint == /\ Ev.ev = "maint"
         /\ Ev.node \in 1..n
         /\ Ev.removed >= 0 /\ Ev.idle_s >= 0
         /\ UNCHANGED <<n, links, fr>>

TraceNext == l <= Len(Trace) /\ l' = l + 1 /\ (Topo \/ Originate \/ Cross \/ Reply \/ End \/ Refused \/ Maint)

TraceAccepted ==
  LET d == TLCGet("stats").diameter
  IN IF d - 1 = Len(Trace) THEN TRUE
     ELSE PrintT("OUT REJECT " \o ToString(d)) /\ FALSE
=============================================================================
