SPECIFICATION Spec
CONSTANTS
  DoneFlag = TRUE
  MaxFails = 3
  MaxCalls = 2
  MaxExtra = 1
  MaxLoss = 1
  Workers = {1, 2}
  AllowClean = FALSE
  AtomicHandle = FALSE
  AllowTxErr = TRUE
VIEW View
INVARIANTS TypeOK NoPanic ActiveOwn ClosedOnlyIfAnswered
PROPERTIES NoPanicA NotifiedOnlyIfAnsweredA NoCrossTalkA
CHECK_DEADLOCK FALSE
