--------------------------- MODULE StateFile_Trace ---------------------------
(***************************************************************************)
(* StateFile instantiated with the program the real                         *)
(* JSONFileStorage.Stop() was observed to execute (strace of a helper       *)
(* process built from the repository): prog.ndjson holds one system call     *)
(* per line, meta.ndjson the byte lengths of the old and new serialisation.  *)
(* TLC then kills that program everywhere.                                   *)
(***************************************************************************)
EXTENDS Integers, Sequences, FiniteSets, TLC, Json
Prog == ndJsonDeserialize("prog.ndjson")
Meta == ndJsonDeserialize("meta.ndjson")[1]
OldLen == Meta.oldlen
NewLen == Meta.newlen
(* the router is restarted twice more: it then writes a shorter and a longer state than the first one *)
NextLens == <<(IF NewLen > 4 THEN NewLen \div 3 ELSE 1), NewLen + 5>>
VARIABLES dir, ino, fds, pc, killed, nextIno, gen, loaded, refused, act
INSTANCE StateFile
=============================================================================
