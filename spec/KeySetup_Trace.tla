--------------------------- MODULE KeySetup_Trace ---------------------------
(***************************************************************************)
(* Trace validation for C14 (property level): at every point of a real run  *)
(* of two routers where no key set-up message is in flight the driver       *)
(* records what it observes:                                                *)
(*  {"ev":"quiet","aset":B,"bset":B,"a2b":B,"b2a":B,"class":S}               *)
(*     aset/bset: Session.Encryption().IsSetUp() on A for B / on B for A     *)
(*     a2b: a frame sealed by A unseals at B; b2a likewise                   *)
(*  {"ev":"step","what":S}   the schedule step that was executed              *)
(***************************************************************************)
EXTENDS Integers, Sequences, TLC, Json

Trace == ndJsonDeserialize("trace.ndjson")
VARIABLE l
Ev == Trace[l]

TraceInit == l = 1
Step == Ev.ev \in {"step", "reset"}
(* never both established while unable to decrypt each other *)
Quiet == Ev.ev = "quiet" /\ ~(Ev.aset /\ Ev.bset /\ ~(Ev.a2b /\ Ev.b2a))
TraceNext == l <= Len(Trace) /\ l' = l + 1 /\ (Step \/ Quiet)

TraceAccepted ==
  LET d == TLCGet("stats").diameter
  IN IF d - 1 = Len(Trace) THEN TRUE
     ELSE PrintT("OUT REJECT " \o ToString(d)) /\ FALSE
=============================================================================
