SPECIFICATION FairSpec
CONSTANTS
  DoneFlag = TRUE
  MaxFails = 3
  MaxCalls = 2
  MaxExtra = 0
  MaxLoss = 0
  Workers = {1, 2}
  AllowClean = FALSE
  AtomicHandle = FALSE
  AllowTxErr = TRUE
PROPERTIES AnsweredIsNotified
CHECK_DEADLOCK FALSE
