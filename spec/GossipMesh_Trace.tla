--------------------------- MODULE GossipMesh_Trace ---------------------------
(***************************************************************************)
(* Trace validation for C09 (property level).  The driver runs a mesh of   *)
(* real router stacks over virtual links and records                        *)
(*   {"ev":"topo","n":N,"links":[{"a":..,"b":..,"la":..,"lb":..}],...}      *)
(*   {"ev":"announce","o":O,"k":K}                                          *)
(*        (+ "clock_ms":D when the wall clock of honest router O is D ms      *)
(*        off the clock of the others: its announcement carries the sequence  *)
(*        time and the expiry of ITS clock.  A clock is configuration of an   *)
(*        honest router, not an event of the protocol: the judgement - the    *)
(*        flooding rules, drained, Reach - is the same, so the field is only  *)
(*        carried for the reader of a rejected trace.)                        *)
(*   {"ev":"send","o":O,"k":K,"hops":[..],"from":F,"to":T}   every frame     *)
(*        that crosses a virtual link (hop list decoded from the bytes)      *)
(*   {"ev":"deliver",...same fields...}                                      *)
(*   {"ev":"quiet","tables":[[route,..],..],"announced":[..]}  at the end    *)
(* A new "topo" event starts a new mesh.                                     *)
(*   {"ev":"relink","links":[...]}   a living mesh: while the network is     *)
(*        quiet links of the SAME running routers were lost and (perhaps     *)
(*        later) established again, possibly with other switch labels; the   *)
(*        event carries the links as they are from now on.  Flooding rules   *)
(*        and Reach are judged against the links as they are NOW.            *)
(*                                                                         *)
(* Two TLC facts shape this module: guards with existential quantifiers     *)
(* are compared with TRUE so that TLC evaluates them as expressions (inside  *)
(* an action it would enumerate every witness as a successor state), and     *)
(* bound variable names are unique (operator arguments are passed lazily;    *)
(* a re-used name in a nested scope sent TLC into an endless recursion).     *)
(***************************************************************************)
EXTENDS Integers, Sequences, FiniteSets, TLC, Json

Trace == ndJsonDeserialize("trace.ndjson")
VARIABLES l, n, links, sent, delivered
tvars == <<l, n, links, sent, delivered>>
Ev == Trace[l]
ToSet(sq) == {sq[sk] : sk \in DOMAIN sq}
InSeq(x, sq) == \E sk \in DOMAIN sq : sq[sk] = x

TraceInit == l = 1 /\ n = 0 /\ links = {} /\ sent = {} /\ delivered = {}

Linked(x, y) == \E le \in links : (le.a = x /\ le.b = y) \/ (le.a = y /\ le.b = x)
(* the neighbours of x reached over x's link with label lb *)
Via(x, lb) == {vy \in 1..n : \E ve \in links : (ve.a = x /\ ve.la = lb /\ ve.b = vy) \/ (ve.b = x /\ ve.lb = lb /\ ve.a = vy)}

Topo == /\ Ev.ev = "topo"
        /\ n' = Ev.n
        /\ links' = ToSet(Ev.links)
        /\ sent' = {} /\ delivered' = {}

(* links are lost / re-established between drained rounds; the routers (and  *)
(* what they sent so far: k keeps counting per origin) stay                  *)
Relink == /\ Ev.ev = "relink"
          /\ sent = delivered
          /\ links' = ToSet(Ev.links)
          /\ UNCHANGED <<n, sent, delivered>>

Announce == Ev.ev = "announce" /\ UNCHANGED <<n, links, sent, delivered>>

SendOK ==
  LET h == Ev.hops
      prev == IF Len(h) > 1 THEN h[2] ELSE Ev.o
  IN /\ Linked(Ev.from, Ev.to)                                 \* only over real links
     /\ Ev.from = (IF Len(h) = 0 THEN Ev.o ELSE h[1])          \* the sender signed the outermost record
     /\ Ev.to # Ev.o                                           \* never to its origin
     /\ ~InSeq(Ev.to, h)                                       \* never to a router already in the hop list
     /\ Len(h) > 0 => Ev.to # prev                             \* never back over the link it arrived on
     /\ \A hi \in DOMAIN h : h[hi] # Ev.o /\ \A hj \in DOMAIN h : hi # hj => h[hi] # h[hj]   \* loop-free
     /\ \A hk \in 1..(Len(h) - 1) : Linked(h[hk], h[hk + 1])
     /\ Len(h) > 0 => Linked(h[Len(h)], Ev.o)
     /\ <<Ev.o, Ev.k, h, Ev.to>> \notin sent                   \* each loop-free path at most once

Send == /\ Ev.ev = "send"
        /\ SendOK = TRUE
        /\ sent' = sent \cup {<<Ev.o, Ev.k, Ev.hops, Ev.to>>}
        /\ UNCHANGED <<n, links, delivered>>

Deliver ==
  /\ Ev.ev = "deliver"
  /\ <<Ev.o, Ev.k, Ev.hops, Ev.to>> \in sent
  /\ <<Ev.o, Ev.k, Ev.hops, Ev.to>> \notin delivered
  /\ delivered' = delivered \cup {<<Ev.o, Ev.k, Ev.hops, Ev.to>>}
  /\ UNCHANGED <<n, links, sent>>

(* The driver follows the route's forward labels through the real routers'  *)
(* label lookups and records the routers visited (rt.walk); every step is    *)
(* checked against the topology, so the walk is only a witness.              *)
Reaches(rr, rd, rt) ==
  /\ rt.dst = rd
  /\ \/ (Len(rt.labels) = 0 /\ rt.peer /\ Linked(rr, rd))
     \/ /\ Len(rt.labels) > 0
        /\ Len(rt.walk) = Len(rt.labels) + 1
        /\ rt.walk[1] = rr /\ rt.walk[Len(rt.walk)] = rd
        /\ \A wi \in 1..Len(rt.labels) : rt.walk[wi + 1] \in Via(rt.walk[wi], rt.labels[wi])

ReachOK == \A qr \in 1..n : \A qd \in ToSet(Ev.announced) \ {qr} :
             \E ti \in DOMAIN Ev.tables[qr] : Reaches(qr, qd, Ev.tables[qr][ti])

Quiet == /\ Ev.ev = "quiet"
         /\ sent = delivered             \* the network has drained
         /\ ReachOK = TRUE               \* Reach
         /\ UNCHANGED <<n, links, sent, delivered>>

TraceNext == l <= Len(Trace) /\ l' = l + 1 /\ (Topo \/ Relink \/ Announce \/ Send \/ Deliver \/ Quiet)

TraceAccepted ==
  LET d == TLCGet("stats").diameter
  IN IF d - 1 = Len(Trace) THEN TRUE
     ELSE PrintT("OUT REJECT " \o ToString(d)) /\ FALSE
=============================================================================
