SPECIFICATION Spec
CONSTANTS
  SharedKx = FALSE
  FinalizeChecked = TRUE
INVARIANTS OwnKeys LinkHasSession
CHECK_DEADLOCK FALSE
