\* Variant: the pinned code (no record on shift). TLC must find 1,2,3,2.
CONSTANTS
  W = 4
  MaxSeq = 9
  MaxLen = 7
  Reach = 0
  RecordOnShift = FALSE
INIT Init
NEXT Next
VIEW View
PROPERTIES AtMostOnceA
