CONSTANTS
  Insts = {"A", "B"}
  MaxCycles = 4
  MaxWorkers = 3
  NilCheckFirst = TRUE
  HonourCancel = TRUE
  Churn = {"peering", "router", "state", "switch", "api"}
  TunChoices = {TRUE}
  AllowStartFail = FALSE
INIT TraceInit
NEXT TraceNext
INVARIANTS ConstructOK StartOrder StopReverse NoStrayWorkers CleanStop NoTimeout
POSTCONDITION TraceAccepted
