CONSTANTS
  Insts = {"A"}
  MaxCycles = 1
  MaxWorkers = 1
  NilCheckFirst = FALSE
  HonourCancel = TRUE
  Churn = {"peering", "router"}
  TunChoices = {TRUE, FALSE}
  AllowStartFail = TRUE
INIT Init
NEXT Next
INVARIANTS ConstructOK
