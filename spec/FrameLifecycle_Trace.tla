------------------------- MODULE FrameLifecycle_Trace -------------------------
(***************************************************************************)
(* Trace validation for C13: one event per input fed to a real router.      *)
(*  input stage kind outcome("handled"|"dropped"|"panic"|"stalled")          *)
(*        doublerelease(bool) alive(bool: the router still handles a         *)
(*        well-formed frame afterwards)                                       *)
(***************************************************************************)
EXTENDS FrameLifecycle
Trace == ndJsonDeserialize("trace.ndjson")
VARIABLE l
Ev == Trace[l]
TraceInit == l = 1 /\ Init
InputOK ==
  /\ Ev.stage \in Stages /\ Ev.kind \in KindsOf(Ev.stage)
  /\ Ev.outcome \in {"handled", "dropped"}      \* NeverPanics; no stall
  /\ ~Ev.doublerelease                           \* ReleaseAtMostOnce
  /\ Ev.alive
TraceNext == l <= Len(Trace) /\ l' = l + 1 /\ Ev.ev = "input" /\ InputOK = TRUE /\ UNCHANGED vars
TraceAccepted ==
  LET dd == TLCGet("stats").diameter
  IN IF dd - 1 = Len(Trace) THEN TRUE
     ELSE PrintT("OUT REJECT " \o ToString(dd)) /\ FALSE
=============================================================================
