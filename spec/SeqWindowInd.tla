---------------------------- MODULE SeqWindowInd ----------------------------
(***************************************************************************)
(* Inductive argument for the anti-replay window (SeqWindow, C03) at the    *)
(* REAL window size (64) and for behaviours of ANY length, checked with     *)
(* Apalache: IndInv holds initially, and from ANY state satisfying IndInv   *)
(* (not only reachable ones) every Check step leads to a state satisfying    *)
(* it.  IndInv ties the implementation state (highest, bitmap) to the        *)
(* property state (accepted) and contains C03's two action-level claims,      *)
(* recorded in lastDup / lastMust / lastOK.  TLC cannot do this: its          *)
(* exhaustive configurations use windows of 2..4.                             *)
(*                                                                          *)
(*   apalache-mc check --init=Init    --inv=IndInv   --length=0 SeqWindowInd.tla  *)
(*   apalache-mc check --init=IndInit --inv=<clause> --length=1 SeqWindowInd.tla  *)
(* for the clauses C1 .. C8 (measured here: 2 s .. 10 min each, 28 min in     *)
(* total on one core; the driver of C03 runs them in parallel in its          *)
(* thorough tier).  MaxSeq bounds the sequence numbers (three windows wide),  *)
(* not the length of a behaviour.                                             *)
(***************************************************************************)
EXTENDS Integers, FiniteSets

W == 64           \* the window of the code
MaxSeq == 200     \* sequence numbers 1..MaxSeq

VARIABLES
  \* @type: Int;
  highest,
  \* @type: Set(Int);
  bitmap,
  \* @type: Set(Int);
  accepted,
  \* @type: Bool;
  lastOK,
  \* @type: Bool;
  lastDup,
  \* @type: Bool;
  lastMust

ImplOK(s) == \/ s > highest
             \/ (s < highest /\ highest - s <= W /\ (highest - s) \notin bitmap)
ImplHighest(s) == IF s > highest THEN s ELSE highest
ImplBitmap(s) ==
  IF s > highest
  THEN LET d == s - highest
       IN {b + d : b \in {x \in bitmap : x + d <= W}} \cup (IF d <= W THEN {d} ELSE {})
  ELSE IF s < highest /\ highest - s <= W THEN bitmap \cup {highest - s} ELSE bitmap

Init == highest = 0 /\ bitmap = {} /\ accepted = {} /\ lastOK = TRUE /\ lastDup = FALSE /\ lastMust = TRUE

Check(s) ==
  /\ lastOK' = ImplOK(s)
  /\ lastDup' = (s \in accepted)
  /\ lastMust' = (s \notin accepted /\ (s > highest \/ highest - s <= W))
  /\ highest' = ImplHighest(s)
  /\ bitmap' = ImplBitmap(s)
  /\ accepted' = IF ImplOK(s) THEN accepted \cup {s} ELSE accepted
Next == \E s \in 1..MaxSeq : Check(s)

C1 == highest \in 0..MaxSeq /\ bitmap \subseteq 1..W /\ accepted \subseteq 1..MaxSeq
C2 == \A s \in accepted : s <= highest                                   \* nothing above the newest
C3 == (highest = 0) = (accepted = {})
C4 == highest > 0 => highest \in accepted
(* the bitmap IS the recent history (plus, possibly, a mark for the never-used number 0 that was "previous highest"
   before anything arrived) *)
C5 == \A d \in 1..W : (d \in bitmap => (highest - d >= 0 /\ (highest - d = 0 \/ (highest - d) \in accepted)))
C6 == \A d \in 1..W : ((highest - d >= 1 /\ (highest - d) \in accepted) => d \in bitmap)
C7 == lastDup => ~lastOK                                                 \* C03: never accepted twice
C8 == lastMust => lastOK                                                 \* C03: new and inside the window is accepted
IndInv == C1 /\ C2 /\ C3 /\ C4 /\ C5 /\ C6 /\ C7 /\ C8
IndInit ==
  /\ highest \in 0..MaxSeq /\ bitmap \in SUBSET (1..W) /\ accepted \in SUBSET (1..MaxSeq)
  /\ lastOK \in BOOLEAN /\ lastDup \in BOOLEAN /\ lastMust \in BOOLEAN
  /\ IndInv
=============================================================================
