\* C14: the whole bounded graph of the code as it is (no tie-break), every transition printed; the
\* driver looks for quiescent mismatch states itself so that ALL classes are found, not only the first.
CONSTANTS
  MaxStarts = 2
  MaxDrops = 0
  MaxForget = 0
  MaxLinks = 0
  MaxDups = 0
  TieBreak = FALSE
  RoleByAddress = FALSE
INIT Init
NEXT Next
VIEW View
ACTION_CONSTRAINT DumpEdge
