CONSTANTS
  Insts = {"A", "B"}
  MaxCycles = 3
  MaxWorkers = 1
  NilCheckFirst = TRUE
  HonourCancel = TRUE
  Churn = {}
  TunChoices = {TRUE}
  AllowStartFail = FALSE
INIT Init
NEXT Next
