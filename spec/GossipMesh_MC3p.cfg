\* generated by the block in DESIGN/C09: GossipMesh_MC3.cfg
CONSTANTS
  Nodes = {1, 2, 3}
  Topologies = {{{1, 2}, {1, 3}}, {{1, 2}, {2, 3}}, {{1, 3}, {2, 3}}, {{1, 2}, {1, 3}, {2, 3}}}
  OriginSets = {{1}, {2}, {3}, {1, 2}}
  PerLink = TRUE
SPECIFICATION FairSpec
VIEW View
INVARIANTS NoEcho LoopFree Reach AtMostThree
PROPERTIES OncePerPathA Termination
