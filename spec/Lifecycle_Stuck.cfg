CONSTANTS
  Insts = {"A"}
  MaxCycles = 1
  MaxWorkers = 1
  NilCheckFirst = TRUE
  HonourCancel = FALSE
  Churn = {"peering", "router"}
  TunChoices = {TRUE, FALSE}
  AllowStartFail = TRUE
INIT Init
NEXT Next
INVARIANTS CleanStop NoTimeout
