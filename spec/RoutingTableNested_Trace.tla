----------------------- MODULE RoutingTableNested_Trace -----------------------
(***************************************************************************)
(* Trace validation for C11 on a table whose routable prefixes are NESTED, *)
(* as the router configures them (m.GetRoutablePrefixesFor: own prefix      *)
(* inside the regions of the own continent inside the continents).  The     *)
(* entries of one routing prefix are then not contiguous in the table: the  *)
(* own country sits in the middle of its region.                            *)
(*                                                                         *)
(* Every event is one operation on a real m.RoutingTable followed by the    *)
(* projection of the whole real table and real lookups for every address    *)
(* of the universe.  An entry carries the routing prefix (pfx) and the      *)
(* limit of that prefix as the DRIVER derives them from the configuration   *)
(* (most specific routable prefix that contains the destination; the        *)
(* destination cut to that prefix's routing bits) - not what the table      *)
(* stored.  The property-level clauses of C11 are evaluated on the real     *)
(* data: P1 (lookups), P3 (peers), P4 (three per destination), P5 (bounds   *)
(* per routing prefix, limit after a cleanup), P6 (no expired route after a *)
(* cleanup), P7 (removals); calls of the table's read-only methods between  *)
(* the operations are events of their own (ReadOnly).                       *)
(***************************************************************************)
EXTENDS Integers, Sequences, FiniteSets, TLC, Json

Trace == ndJsonDeserialize("trace.ndjson")
VARIABLES l, entries, prev
Ev == Trace[l]
ToSet(s) == {s[k] : k \in DOMAIN s}

Init == l = 1 /\ entries = {} /\ prev = {}

Sec(T, d) == {e \in T : e.dst = d}
Pfxs(T) == {e.pfx : e \in T}
Gossips(T, p) == {e \in T : e.pfx = p /\ e.src = "gossip"}
LimitOf(T, p) == (CHOOSE e \in T : e.pfx = p).limit
PeersOf(T) == {e.dst : e \in {x \in T : x.src = "peer"}}

After == ToSet(Ev.after)

P1 == \A k \in DOMAIN Ev.lookups :
        LET lk == Ev.lookups[k]
            sec == Sec(After, lk.a)
        IN IF sec = {}
           THEN ~lk.isdst
           ELSE /\ lk.found /\ lk.isdst /\ lk.dst = lk.a
                /\ \E e \in sec : e.nh = lk.nh /\ e.hops = lk.hops /\ e.delay = lk.delay /\ e.src = lk.src
                /\ (\E x \in sec : x.src = "peer") => lk.src = "peer"
                /\ \A x \in sec : ~(x.hops < lk.hops \/ (x.hops = lk.hops /\ x.delay < lk.delay))
P2 == Ev.ev = "add" => IF Ev.added THEN \E e \in After : e.dst = Ev.route.dst /\ e.nh = Ev.route.nh /\ e.hops = Ev.route.hops /\ e.delay = Ev.route.delay
                       ELSE After = entries
P3 == \A p \in PeersOf(entries) : p \in PeersOf(After)
           \/ (Ev.ev = "rmnh" /\ Ev.peer = p) \/ (Ev.ev = "rmdis" /\ Ev.router = p)
P4 == \A d \in {e.dst : e \in After} : Cardinality({e \in Sec(After, d) : e.src # "peer"}) <= 3
P5 == /\ \A p \in Pfxs(After) : Cardinality(Gossips(After, p)) <= 3 * (2 * LimitOf(After, p) + 1)
      /\ Ev.ev = "clean" => \A p \in Pfxs(After) : Cardinality(Gossips(After, p)) <= LimitOf(After, p)
P6 == Ev.ev = "clean" => \A e \in After : e.src = "peer" \/ e.exp = "fresh"
P7 == /\ Ev.ev = "rmnh" => \A e \in After : e.nh # Ev.peer
      /\ Ev.ev = "rmdis" => \A e \in After : e.dst # Ev.router /\ e.nh # Ev.router /\ Ev.router \notin ToSet(e.relays)
OnlyShrinks == Ev.ev \in {"rmnh", "rmdis", "clean"} => After \subseteq entries
(* "read": an exported read-only method of the table (Format - the          *)
(* dashboard's table page -, LookupNearest, LookupNearestRoute,             *)
(* LookupPossiblePaths, ...; Ev.fn) was called on the live table between    *)
(* two operations.  Additions, removals and cleanups are the operations     *)
(* that change the table: a reader call is a stuttering step of it, and     *)
(* all the clauses (P1 on the lookups taken after the call first of all)    *)
(* hold behind it as behind every operation.                                *)
ReadOnly == Ev.ev = "read" => After = entries

Step ==
  /\ IF Ev.ev = "reset" THEN After = {}
     ELSE P1 = TRUE /\ P2 = TRUE /\ P3 = TRUE /\ P4 = TRUE /\ P5 = TRUE /\ P6 = TRUE /\ P7 = TRUE /\ OnlyShrinks = TRUE /\ ReadOnly = TRUE
  /\ entries' = After /\ prev' = entries

Next == l <= Len(Trace) /\ l' = l + 1 /\ Step

TraceAccepted ==
  LET d == TLCGet("stats").diameter
  IN IF d - 1 = Len(Trace) THEN TRUE
     ELSE PrintT("OUT REJECT " \o ToString(d)) /\ FALSE
=============================================================================
