SPECIFICATION TraceSpec
INVARIANTS CloseOnlySilent OkOnlyAnswered AbortOnlyClosing AliveOnlyHeard PromiseKept Budget TimeBound SilentMeansClosed
POSTCONDITION TraceAccepted
CHECK_DEADLOCK FALSE
