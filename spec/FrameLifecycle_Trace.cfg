CONSTANTS
  ErrAfterConsume = FALSE
INIT TraceInit
NEXT TraceNext
POSTCONDITION TraceAccepted
