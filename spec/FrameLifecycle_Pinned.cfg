CONSTANTS
  ErrAfterConsume = TRUE
INIT Init
NEXT Next
INVARIANTS ReleaseAtMostOnce NeverPanics
