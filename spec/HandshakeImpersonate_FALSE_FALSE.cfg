CONSTANTS
  VerifyFirst = FALSE
  MaxConns = 3
  KnownBefore = FALSE
INIT Init
NEXT Next
INVARIANTS AuthOnRegister
ACTION_CONSTRAINT DumpEdge
CHECK_DEADLOCK FALSE
