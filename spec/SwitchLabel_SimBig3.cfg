\* C12 simulation: random labels over the whole 16-bit range, 41..101 hops (what an announcement can carry); sizes above 255 must be refused.
CONSTANTS
  MaxHops = 2
  Reps = {1}
  SimMinHops = 70
  SimMaxHops = 101
  SimBigOnly = TRUE
INIT Init
NEXT NextSim
INVARIANTS LabelsInOrder NeverOutside ReversesExactly SizeSufficient
ACTION_CONSTRAINT DumpStep
