--------------------------- MODULE FrameSeal_Trace ---------------------------
(***************************************************************************)
(* Trace validation for C02: streams of real frames sealed on one session  *)
(* and delivered - possibly altered, duplicated, reordered, or to another  *)
(* session - with the outcome of the real Unseal.  The rule of FrameSeal   *)
(* is composed with the replay window of SeqWindow so that a replay        *)
(* rejection is not mistaken for an integrity rejection.                   *)
(* h names the receiving session (one replay state per session).           *)
(* {"ev":"reset","h":H}                                                    *)
(* {"ev":"unseal","h":H,"cls":C,"mut":[regions],"rel":R,"seq":N,          *)
(*  "ok":B,"dup":B,"same":B,"clear":B}                                     *)
(* {"ev":"rekey","h":H}  the two routers ran a key exchange again: the     *)
(*  receiving session H - which exists - has new keys now (set up on a new *)
(*  session object or in place, the property does not care) and the        *)
(*  sender's frames under the new keys are new frames: numbering (seq is   *)
(*  relative to the sender's first frame under the current keys) and the   *)
(*  set of accepted frames start over.                                     *)
(* an unseal event may carry "stale":TRUE - the frame was sealed under     *)
(*  keys that a later key exchange of the same two routers has replaced;   *)
(*  it no longer belongs to the session and is never delivered.            *)
(***************************************************************************)
EXTENDS FrameSeal

CONSTANT W
Trace == ndJsonDeserialize("trace.ndjson")
VARIABLES l, acc, newest
Ev == Trace[l]
ToSet(s) == {s[k] : k \in DOMAIN s}

TraceInit == l = 1 /\ Init /\ acc = [h \in {} |-> {}] /\ newest = [h \in {} |-> 0]

Reset == /\ Ev.ev = "reset"
         /\ acc' = [h \in DOMAIN acc \cup {Ev.h} |-> IF h = Ev.h THEN {} ELSE acc[h]]
         /\ newest' = [h \in DOMAIN newest \cup {Ev.h} |-> IF h = Ev.h THEN 0 ELSE newest[h]]

Rekey == /\ Ev.ev = "rekey"
         /\ Ev.h \in DOMAIN acc
         /\ acc' = [acc EXCEPT ![Ev.h] = {}]
         /\ newest' = [newest EXCEPT ![Ev.h] = 0]

Intact == ToSet(Ev.mut) \cap Protected = {}
Stale == "stale" \in DOMAIN Ev /\ Ev.stale
RelOK == ~Stale /\ (Ev.rel = "correct" \/ (Ev.rel = "otherReceiver" /\ Ev.cls = "signed"))
Fresh == Ev.seq \notin acc[Ev.h]
InWindow == Ev.seq > newest[Ev.h] \/ (Ev.cls # "signed" /\ newest[Ev.h] - Ev.seq <= W)

Unseal == /\ Ev.ev = "unseal"
          /\ Ev.h \in DOMAIN acc
          /\ Ev.ok => (Intact /\ RelOK /\ Fresh)             \* nothing altered / foreign / replayed is delivered
          /\ Ev.ok => Ev.same                                  \* delivered payload is the original
          \* a hop ping refused as "immediate duplicate" is handed to its handler all the same (the router tolerates
          \* that one error: announcements arrive once per peer): only an UNALTERED copy of the newest frame this
          \* session has accepted may get that far
          /\ Ev.dup => (Intact /\ RelOK /\ Ev.cls = "signed" /\ Ev.seq = newest[Ev.h] /\ Ev.same)
          /\ (Intact /\ RelOK /\ Fresh /\ InWindow) => Ev.ok   \* untouched fresh frames do unseal
          /\ (Ev.cls # "signed") => ~Ev.clear                  \* encrypted classes never carry the payload in clear
          /\ acc' = IF Ev.ok THEN [acc EXCEPT ![Ev.h] = @ \cup {Ev.seq}] ELSE acc
          /\ newest' = IF Ev.ok /\ Ev.seq > newest[Ev.h]
                       THEN [newest EXCEPT ![Ev.h] = Ev.seq] ELSE newest

TraceNext == l <= Len(Trace) /\ l' = l + 1 /\ (Reset \/ Rekey \/ Unseal) /\ UNCHANGED vars

TraceAccepted ==
  LET d == TLCGet("stats").diameter
  IN IF d - 1 = Len(Trace) THEN TRUE
     ELSE PrintT("OUT REJECT " \o ToString(d)) /\ FALSE
=============================================================================
