SPECIFICATION TraceSpec
INVARIANTS PolicyHoldsF PolicyHoldsT EntriesSoundF EntriesSoundT
POSTCONDITION TraceAccepted
CHECK_DEADLOCK FALSE
