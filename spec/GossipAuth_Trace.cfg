CONSTANTS MaxLen = 24
INIT TraceInit
NEXT TraceNext
POSTCONDITION TraceAccepted
