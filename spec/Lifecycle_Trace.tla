--------------------------- MODULE Lifecycle_Trace ---------------------------
(***************************************************************************)
(* Trace validation for C20.  Events of real instances (mycoria.New,         *)
(* Group.Start, peering over loopback, Group.Stop) in one process:           *)
(*  construct  inst tunoff api ok panic group(seq of slot names)             *)
(*  startmodule inst module          ("started" log line of Group.Start)      *)
(*  started    inst ok workers(seq of counts per slot)                        *)
(*  peer       a b                                                             *)
(*  stoprequest inst                                                           *)
(*  stopmodule inst module           ("stopped" log line of Group.Stop)       *)
(*  stopped    inst ok workers                                                 *)
(*  reset                            (next scenario: all instances gone)      *)
(* Worker counts are observations: they are bound to the model's workers      *)
(* (capped at MaxWorkers) and must be explainable by spawns/exits.            *)
(***************************************************************************)
EXTENDS Lifecycle

Trace == ndJsonDeserialize("trace.ndjson")
VARIABLE l
Ev == Trace[l]
tvars == <<vars, l>>
TraceInit == l = 1 /\ Init

Consume(e) == l <= Len(Trace) /\ Ev.ev = e /\ l' = l + 1
Cap(n) == IF n > MaxWorkers THEN MaxWorkers ELSE n
NamesOf(g) == [k \in 1..Len(g) |-> Slots[g[k]]]

TConstruct ==
  /\ Consume("construct")
  /\ ~Ev.panic /\ Ev.ok
  /\ Construct(Ev.inst, Ev.tunoff, Ev.api)
  /\ NamesOf(group'[Ev.inst]) = Ev.group
(* a construction that panicked or failed is no behaviour of the spec with NilCheckFirst = TRUE: rejected *)

TStartModule ==
  /\ Consume("startmodule")
  /\ StartModule(Ev.inst)
  /\ act'.module = Ev.module

(* observation after Start returned *)
Observe(i, w) ==
  /\ \A s \in 1..NSlots :
       /\ (w[s] > 0) => s \in Range(started[i])                    \* NoStrayWorkers
       /\ (s \in cancelled[i]) => Cap(w[s]) <= workers[i][s]       \* after Cancel counts only fall
  /\ workers' = [workers EXCEPT ![i] = [s \in 1..NSlots |-> Cap(w[s])]]
TStarted ==
  /\ Consume("started")
  /\ Ev.ok /\ phase[Ev.inst] = "running"
  /\ Observe(Ev.inst, Ev.workers)
  (* starting brings up state, peering, switch and router workers *)
  /\ \A nm \in {"state", "peering", "switch", "router"} : Ev.workers[SlotOf(nm)] > 0
  /\ UNCHANGED <<phase, slot, group, started, stopped, cancelled, stopok, links, cycle, timedout, act>>

TPeer == Consume("peer") /\ Peer(Ev.a, Ev.b)
TStopRequest == Consume("stoprequest") /\ StopRequest(Ev.inst)
(* one "stopped" line = Cancel, the workers leave, WaitForWorkers returns *)
TStopModule ==
  /\ Consume("stopmodule")
  /\ LET i == Ev.inst IN
     /\ phase[i] = "stopping" /\ Len(stopped[i]) < Len(started[i])
     /\ Slots[NextToStop(i)] = Ev.module
     /\ cancelled' = [cancelled EXCEPT ![i] = @ \cup {NextToStop(i)}]
     /\ links' = IF Ev.module = "peering" THEN {x \in links : i \notin x} ELSE links
     /\ workers' = [workers EXCEPT ![i][NextToStop(i)] = 0]
     /\ stopped' = [stopped EXCEPT ![i] = Append(@, NextToStop(i))]
     /\ phase' = [phase EXCEPT ![i] = IF Len(stopped[i]) + 1 = Len(started[i]) THEN "stopped" ELSE "stopping"]
     /\ act' = [name |-> "stopwait", inst |-> i, module |-> Ev.module]
  /\ UNCHANGED <<slot, group, started, stopok, cycle, timedout>>
TStopped ==
  /\ Consume("stopped")
  /\ Ev.ok /\ phase[Ev.inst] = "stopped"
  /\ \A s \in 1..NSlots : Ev.workers[s] = 0
  /\ UNCHANGED vars
TReset ==
  /\ Consume("reset")
  /\ \A i \in Insts : phase[i] \in {"none", "stopped"}
  /\ phase' = [i \in Insts |-> "none"] /\ cycle' = [i \in Insts |-> 0] /\ links' = {}
  /\ UNCHANGED <<slot, group, started, stopped, workers, cancelled, stopok, timedout, act>>

TraceNext == TConstruct \/ TStartModule \/ TStarted \/ TPeer \/ TStopRequest \/ TStopModule \/ TStopped \/ TReset

TraceAccepted ==
  LET dd == TLCGet("stats").diameter
  IN IF dd - 1 = Len(Trace) THEN TRUE
     ELSE PrintT("OUT REJECT " \o ToString(dd)) /\ FALSE
=============================================================================
