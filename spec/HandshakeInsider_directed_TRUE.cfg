CONSTANTS
  Binding = "directed"
  MHasSecret = TRUE
INIT Init
NEXT Next
INVARIANTS AuthOnRegister
ACTION_CONSTRAINT DumpEdge
