INIT Init
NEXT Next
INVARIANTS Recoverable NeverRefuses
