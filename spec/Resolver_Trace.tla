--------------------------- MODULE Resolver_Trace ---------------------------
(***************************************************************************)
(* Trace validation for C19: queries against a real dns.Server.            *)
(*  {"ev":"query","kind":K,"tld":T,"type":TY,"class":CL,"inres":B,"infr":B,  *)
(*   "inmap":B,"rcode":"ok"|"nxdomain"|..,"source":S,"addrok":B,"panic":B,   *)
(*   "lookup":S,"lookupaddrok":B}                                            *)
(*   source/addrok: source TXT of the reply and whether every address record  *)
(*   carries exactly the address that source holds; lookup*: Lookup() result  *)
(*  "fault": "none", or the transport fault (a failed WriteMsg / WriteTo /     *)
(*   SetWriteDeadline of the server) that hit this query.  One event per       *)
(*   message that REACHED the client; a query that a fault hit may also have   *)
(*   reached the client with nothing: rcode "silent" (the client repeats it).  *)
(*   Whatever does reach the client is judged as without fault.                *)
(***************************************************************************)
EXTENDS Resolver

Trace == ndJsonDeserialize("trace.ndjson")
VARIABLE l
Ev == Trace[l]
TraceInit == l = 1 /\ Init

QueryOK ==
  LET want == Answer(Ev.kind, Ev.tld, Ev.type, Ev.class, Ev.inres, Ev.infr, Ev.inmap)
      wantLookup == Lookup(Ev.kind, Ev.inres, Ev.infr, Ev.inmap)
  IN /\ ~Ev.panic
     /\ \/ Ev.fault # "none" /\ Ev.rcode = "silent"
        \/ IF want = "nxdomain" THEN Ev.rcode = "nxdomain"
           ELSE Ev.rcode = "ok" /\ Ev.source = want /\ Ev.addrok
     /\ (Ev.tld = "myco") => (Ev.lookup = (IF wantLookup = "none" THEN "" ELSE wantLookup)
                              /\ (Answered(wantLookup) => Ev.lookupaddrok))

TraceNext == l <= Len(Trace) /\ l' = l + 1 /\ Ev.ev = "query" /\ QueryOK = TRUE /\ UNCHANGED vars

TraceAccepted ==
  LET dd == TLCGet("stats").diameter
  IN IF dd - 1 = Len(Trace) THEN TRUE
     ELSE PrintT("OUT REJECT " \o ToString(dd)) /\ FALSE
=============================================================================
