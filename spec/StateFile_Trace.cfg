INIT Init
NEXT Next
INVARIANTS Recoverable SaveCompletes NeverRefuses
