CONSTANTS
  Nodes = {1, 2, 3, 4}
  Edges = {{1, 2}, {1, 3}, {1, 4}, {2, 3}, {2, 4}, {3, 4}}
  D = 5
  InitTTLs = {1, 2, 3, 5}
  MaxWalk = 4
INIT Init
NEXT Next
INVARIANTS Bounded TTLDecreases NeverZero
ACTION_CONSTRAINT DumpEdge
