CONSTANTS MaxLen = 4
INIT Init
NEXT Next
INVARIANTS Agree
ACTION_CONSTRAINT DumpEdge
