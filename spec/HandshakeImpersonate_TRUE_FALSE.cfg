CONSTANTS
  VerifyFirst = TRUE
  MaxConns = 3
  KnownBefore = FALSE
INIT Init
NEXT Next
INVARIANTS AuthOnRegister NoForeignBinding
ACTION_CONSTRAINT DumpEdge
CHECK_DEADLOCK FALSE
