CONSTANTS UdpOpensTcp = FALSE
INIT TraceInit
NEXT TraceNext
POSTCONDITION TraceAccepted
