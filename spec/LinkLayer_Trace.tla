--------------------------- MODULE LinkLayer_Trace ---------------------------
(***************************************************************************)
(* Trace validation for C05 (property level): one real link per "link"     *)
(* event, frames handed to it, faults applied on the wire by the proxy,    *)
(* frames that arrived at the remote frame handler, and a final summary.   *)
(*  {"ev":"link"}                                                           *)
(*  {"ev":"delivered","id":I,"identical":B}   I = index of the sent frame    *)
(*        with exactly these bytes (0 = no sent frame has these bytes)       *)
(*  {"ev":"end","sent":N,"touched":[ids],"breaks":B,"unsync":B,"closed":B,   *)
(*   "stalled":B,"resumed":B,"clear":B}                                      *)
(*     touched = frames a fault was applied to (or that were dropped)        *)
(*     breaks  = some fault broke the framing                                *)
(*     resumed = a frame sent after the last fault was delivered             *)
(*     stalled = the reader neither delivered nor closed within the bound    *)
(*     clear   = some 16-byte window of a payload was seen on the wire       *)
(*     unsync  = (old links only) a well-framed unit that is no frame of     *)
(*               this direction carried a clear sequence number <= 255       *)
(*               while the receiver was within 256 of the 2^32 wrap and had  *)
(*               not seen the sender's wrap: the code takes it for the wrap  *)
(*               and changes the incoming key before authenticating (known,  *)
(*               KeyRollover!ForgedTrigger); the frames the sender seals up  *)
(*               to its own wrap are lost.  Such an end is judged like a     *)
(*               framing break: closed, or deliveries resumed.               *)
(* Old links: the "link" may have a long past - its link sequence numbers    *)
(* are next to the 2^32 wrap where both ends move to the next key (the       *)
(* driver moves the counters of the real link sessions after the handshake   *)
(* and sends a few frames of recent past, which are frames 1..h of this      *)
(* link).  Nothing changes in what is demanded: ids are positions in the     *)
(* sequence of frames handed to the link, whatever their sequence numbers;   *)
(* a frame sealed before the wrap that was put on the wire behind a frame    *)
(* sealed after it is listed in touched (reordering across the wrap).  The   *)
(* opposite, undisturbed direction of such a link is a "link" segment of     *)
(* its own (events carry a "note").                                          *)
(* Successor links: the two routers of a "link" event may have had links     *)
(* before (each with a "link" event of its own).  The frames handed to a     *)
(* link are numbered per link: what arrives on this link and is a frame of   *)
(* an earlier link (its sealed record was put on this link's wire, op        *)
(* prev-link of LinkLayer) has id 0 here - it was never handed to THIS link  *)
(* - and is refused by Delivered like any other foreign frame; the fields    *)
(* "prev" and "note" of such an event only name it.                          *)
(***************************************************************************)
EXTENDS Integers, Sequences, FiniteSets, TLC, Json

Trace == ndJsonDeserialize("trace.ndjson")
VARIABLES l, got
Ev == Trace[l]
ToSet(sq) == {sq[sk] : sk \in DOMAIN sq}
TraceInit == l = 1 /\ got = {}

Link == Ev.ev = "link" /\ got' = {}
Delivered == /\ Ev.ev = "delivered"
             /\ Ev.id # 0 /\ Ev.identical          \* byte-identical to a frame that was handed to the link
             /\ Ev.id \notin got                   \* and never a second copy
             /\ got' = got \cup {Ev.id}
EndOK == /\ ~Ev.clear                                                   \* no payload bytes in clear on the wire
         /\ ~Ev.stalled                                                 \* intact later frames keep arriving or the link is closed
         /\ (~Ev.breaks /\ ~Ev.unsync /\ ~Ev.closed) => (1..Ev.sent) \ ToSet(Ev.touched) \subseteq got
         /\ (Ev.breaks \/ Ev.unsync) => (Ev.closed \/ Ev.resumed)
End == Ev.ev = "end" /\ EndOK = TRUE /\ UNCHANGED got

TraceNext == l <= Len(Trace) /\ l' = l + 1 /\ (Link \/ Delivered \/ End)

TraceAccepted ==
  LET dd == TLCGet("stats").diameter
  IN IF dd - 1 = Len(Trace) THEN TRUE
     ELSE PrintT("OUT REJECT " \o ToString(dd)) /\ FALSE
=============================================================================
