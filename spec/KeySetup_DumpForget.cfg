\* C14: re-keying.  No loss, no duplication: one router forgets its keys (restart / idle session cleaned up) and the
\* set-up runs a second time against a peer that still holds the old keys.  Whole graph, every transition printed.
CONSTANTS
  MaxStarts = 2
  MaxDrops = 0
  MaxForget = 1
  MaxLinks = 0
  MaxDups = 0
  TieBreak = FALSE
  RoleByAddress = FALSE
INIT Init
NEXT NextRekey
VIEW View
ACTION_CONSTRAINT DumpEdge
