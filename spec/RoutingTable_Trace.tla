--------------------------- MODULE RoutingTable_Trace ---------------------------
(***************************************************************************)
(* Trace validation for C11.  Every event is one operation executed on a   *)
(* real m.RoutingTable followed by the projection of the whole real table  *)
(* (VerifEntries) and the real LookupNearest / LookupNearestRoute results  *)
(* for every address of the universe.  The real snapshots drive the        *)
(* variables of RoutingTable, whose property invariants P1..P7 are then    *)
(* evaluated on the real data; LookupOK binds the real lookups to P1.      *)
(***************************************************************************)
EXTENDS RoutingTable

Trace == ndJsonDeserialize("trace.ndjson")
VARIABLE l
Ev == Trace[l]

ToSet(s) == {s[k] : k \in DOMAIN s}

TraceInit == l = 1 /\ Init

Event ==
  /\ entries' = ToSet(Ev.after)
  /\ nops' = nops
  /\ act' = CASE Ev.ev = "reset" -> [name |-> "reset", lookups |-> <<>>]
            [] Ev.ev = "add" -> [name |-> "add", route |-> Ev.route, added |-> Ev.added,
                                 before |-> entries, lookups |-> Ev.lookups]
            [] Ev.ev = "rmnh" -> [name |-> "rmnh", peer |-> Ev.peer, before |-> entries, lookups |-> Ev.lookups]
            [] Ev.ev = "rmdis" -> [name |-> "rmdis", router |-> Ev.router, peers |-> ToSet(Ev.peers),
                                   before |-> entries, lookups |-> Ev.lookups]
            [] Ev.ev = "clean" -> [name |-> "clean", before |-> entries, lookups |-> Ev.lookups]
            [] Ev.ev = "age" -> [name |-> "age", before |-> entries, lookups |-> Ev.lookups]
            [] Ev.ev = "read" -> [name |-> "read", fn |-> Ev.fn, before |-> entries, lookups |-> Ev.lookups]
            [] Ev.ev = "par" -> [name |-> "par", last |-> ToSet(Ev.last), removals |-> ToSet(Ev.removals),
                                 cleans |-> Ev.cleans, during |-> Ev.during,
                                 before |-> entries, lookups |-> Ev.lookups]

TraceNext == l <= Len(Trace) /\ l' = l + 1 /\ Event

(* A fresh table starts empty; ageing only flips expiry.                    *)
ResetOK == act.name = "reset" => entries = {}
AgeOK == act.name = "age" => entries = Age(act.before)

(* "read": one of the table's exported read-only methods (Format, the       *)
(* lookups, ... - enumerated by the driver by reflection) was called on the *)
(* live table between two operations of the history.  The property counts   *)
(* additions, removals and cleanups as the operations that change the       *)
(* table; a reader call is a stuttering step of it.  P1, P4, P5 and         *)
(* LookupOK (on the lookups taken AFTER the call) are evaluated behind it   *)
(* like behind every other event.                                           *)
ReadOK == act.name = "read" => entries = act.before

(* P1 on the real lookups.                                                  *)
LookupOK ==
  act.name # "init" =>
    \A k \in DOMAIN act.lookups :
      LET lk == act.lookups[k]
          sec == Sec(entries, lk.a)
      IN IF sec = {}
         THEN ~lk.isdst
         ELSE /\ lk.found /\ lk.isdst /\ lk.dst = lk.a
              /\ \E e \in sec : e.nh = lk.nh /\ e.hops = lk.hops /\ e.delay = lk.delay /\ e.src = lk.src
              /\ (\E x \in sec : x.src = "peer") => lk.src = "peer"
              /\ \A x \in sec : ~(x.hops < lk.hops \/ (x.hops = lk.hops /\ x.delay < lk.delay))

-----------------------------------------------------------------------------
(* Concurrent episodes ("par").  Several goroutines called the table at the *)
(* same time - AddRoute (mostly re-announcements of known routes),          *)
(* RemoveNextHop, lookups - while another goroutine ran Clean `cleans`      *)
(* times; the event is written after ALL calls have returned, `after` and   *)
(* `lookups` are taken from the quiescent table.  The only order known is   *)
(* the program order of each goroutine (g = goroutine, k = position of the  *)
(* call in it).  `last` holds, for every route key written in the episode,  *)
(* the last AddRoute of it (a key is written by one goroutine only);        *)
(* `removals` the last RemoveNextHop per peer; `during` lookups that        *)
(* returned while the episode ran.                                          *)
(* The clauses demand only what EVERY sequential order of the calls that    *)
(* respects the program orders yields (a result no such order explains is   *)
(* the violation); where some order lets a route legitimately go - a        *)
(* removal of its next hop not ordered before the write, a cleanup that may *)
(* trim its routing prefix, more keys than a destination keeps - nothing is *)
(* demanded.                                                                *)
OrderedBefore(g1, k1, g2, k2) == g1 = g2 /\ k1 < k2
KeyOf(r) == IF r.src = "peer" THEN <<r.dst, 0, 0, <<>>>> ELSE <<r.dst, r.hops, r.plen, r.relays>>
ParPrefKeys(p) == {KeyOf(e) : e \in PrefSec(act.before, p)} \cup
                  {KeyOf(w.route) : w \in {x \in act.last : Prefix(x.route.dst) = p}}
ParDstKeys(d) == {KeyOf(e) : e \in Sec(act.before, d)} \cup
                 {KeyOf(w.route) : w \in {x \in act.last : x.route.dst = d}}
(* no cleanup of the episode can find more than Limit entries in the prefix *)
NoTrim(d) == Cardinality(ParPrefKeys(Prefix(d))) <= Limit
(* no addition of the episode can find the destination's section full       *)
NoEvict(d) == Cardinality(ParDstKeys(d)) <= 3

(* P2, 'added' means present: the last write of a route that was reported   *)
(* as added is in the table when everything has returned.                   *)
ParAdded ==
  act.name = "par" =>
    \A w \in act.last :
      ( /\ w.added
        /\ \A r \in act.removals : r.peer = w.route.nh => OrderedBefore(r.g, r.k, w.g, w.k)
        /\ (w.route.src # "peer" => NoEvict(w.route.dst))
        /\ (w.route.src = "gossip" => NoTrim(w.route.dst)) )
      => w.route \in entries
(* P7: no route keeps a removed next hop (unless some write of a route over  *)
(* it may have come later).                                                  *)
ParRemoved ==
  act.name = "par" =>
    \A r \in act.removals :
      (\A w \in act.last : w.route.nh = r.peer => OrderedBefore(w.g, w.k, r.g, r.k))
      => \A e \in entries : e.nh # r.peer
(* P3: a direct-peer route disappears only through a removal naming it.     *)
ParPeers ==
  act.name = "par" =>
    \A p \in PeersOf(act.before) : p \in PeersOf(entries) \/ \E r \in act.removals : r.peer = p
(* P6: no route that had expired before the episode survives its cleanups   *)
(* (nothing expires during an episode, every write is fresh).               *)
ParExpired ==
  (act.name = "par" /\ act.cleans > 0) => \A e \in entries : e.src = "peer" \/ e.exp = "fresh"
(* P1, first half, while the episode runs: an address that has a route all  *)
(* the way through is looked up exactly.                                    *)
ParDuring ==
  act.name = "par" =>
    \A i \in DOMAIN act.during :
      LET lk == act.during[i]
      IN (\E e \in Sec(act.before, lk.a) :
             /\ \A r \in act.removals : r.peer # e.nh
             /\ \/ e.src = "peer"
                \/ /\ e.exp = "fresh" /\ NoEvict(e.dst)
                   /\ (e.src = "gossip" => NoTrim(e.dst)))
         => (lk.found /\ lk.isdst /\ lk.dst = lk.a)

TraceAccepted ==
  LET d == TLCGet("stats").diameter
  IN IF d - 1 = Len(Trace) THEN TRUE
     ELSE PrintT("OUT REJECT " \o ToString(d)) /\ FALSE
=============================================================================
