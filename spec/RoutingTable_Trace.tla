--------------------------- MODULE RoutingTable_Trace ---------------------------
(***************************************************************************)
(* Trace validation for C11.  Every event is one operation executed on a   *)
(* real m.RoutingTable followed by the projection of the whole real table  *)
(* (VerifEntries) and the real LookupNearest / LookupNearestRoute results  *)
(* for every address of the universe.  The real snapshots drive the        *)
(* variables of RoutingTable, whose property invariants P1..P7 are then    *)
(* evaluated on the real data; LookupOK binds the real lookups to P1.      *)
(***************************************************************************)
EXTENDS RoutingTable

Trace == ndJsonDeserialize("trace.ndjson")
VARIABLE l
Ev == Trace[l]

ToSet(s) == {s[k] : k \in DOMAIN s}

TraceInit == l = 1 /\ Init

Event ==
  /\ entries' = ToSet(Ev.after)
  /\ nops' = nops
  /\ act' = CASE Ev.ev = "reset" -> [name |-> "reset", lookups |-> <<>>]
            [] Ev.ev = "add" -> [name |-> "add", route |-> Ev.route, added |-> Ev.added,
                                 before |-> entries, lookups |-> Ev.lookups]
            [] Ev.ev = "rmnh" -> [name |-> "rmnh", peer |-> Ev.peer, before |-> entries, lookups |-> Ev.lookups]
            [] Ev.ev = "rmdis" -> [name |-> "rmdis", router |-> Ev.router, peers |-> ToSet(Ev.peers),
                                   before |-> entries, lookups |-> Ev.lookups]
            [] Ev.ev = "clean" -> [name |-> "clean", before |-> entries, lookups |-> Ev.lookups]
            [] Ev.ev = "age" -> [name |-> "age", before |-> entries, lookups |-> Ev.lookups]

TraceNext == l <= Len(Trace) /\ l' = l + 1 /\ Event

(* A fresh table starts empty; ageing only flips expiry.                    *)
ResetOK == act.name = "reset" => entries = {}
AgeOK == act.name = "age" => entries = Age(act.before)

(* P1 on the real lookups.                                                  *)
LookupOK ==
  act.name # "init" =>
    \A k \in DOMAIN act.lookups :
      LET lk == act.lookups[k]
          sec == Sec(entries, lk.a)
      IN IF sec = {}
         THEN ~lk.isdst
         ELSE /\ lk.found /\ lk.isdst /\ lk.dst = lk.a
              /\ \E e \in sec : e.nh = lk.nh /\ e.hops = lk.hops /\ e.delay = lk.delay /\ e.src = lk.src
              /\ (\E x \in sec : x.src = "peer") => lk.src = "peer"
              /\ \A x \in sec : ~(x.hops < lk.hops \/ (x.hops = lk.hops /\ x.delay < lk.delay))

TraceAccepted ==
  LET d == TLCGet("stats").diameter
  IN IF d - 1 = Len(Trace) THEN TRUE
     ELSE PrintT("OUT REJECT " \o ToString(d)) /\ FALSE
=============================================================================
