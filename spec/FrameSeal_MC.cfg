INIT Init
NEXT Next
INVARIANTS Agree OnlyRightSender EncryptedNeedRightReceiver TransitHarmless ProtectedDetected NoClear
ACTION_CONSTRAINT DumpEdge
