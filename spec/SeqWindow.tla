------------------------------ MODULE SeqWindow ------------------------------
(***************************************************************************)
(* Anti-replay window of mycoria (state/session_encryption.go,             *)
(* SequenceHandler.Check), serving C03 (and instantiated by C05, C15).     *)
(*                                                                         *)
(* Implementation level: `highest` and a bitmap of the W sequence numbers  *)
(* below it, shifted on advance, test-and-set behind - one action, Check,  *)
(* per call of the Go method (it runs under the handler's lock).           *)
(* Property level: the set of sequence numbers accepted so far under the   *)
(* current key and the newest of them.                                     *)
(*                                                                         *)
(* RecordOnShift = TRUE is the code as it is now (fix: commit recorded in  *)
(* known_findings.json): advancing records the previous highest in the     *)
(* bitmap.  FALSE is the code as pinned, where `bitMap <<= diff` forgot    *)
(* it, so that 1,2,3,2 accepted 2 twice - kept as a variant so that TLC    *)
(* demonstrates the defect (selftest).                                     *)
(***************************************************************************)
EXTENDS Integers, FiniteSets, Sequences, TLC, Json

CONSTANTS W,             \* window size (64 in the code)
          MaxSeq,        \* sequence numbers 1..MaxSeq are delivered
          MaxLen,        \* bound on the number of deliveries (0 = unbounded)
          Reach,         \* deliveries are drawn from highest-Reach .. highest+Reach (0 = anywhere)
          RecordOnShift

VARIABLES highest,   \* impl: highest sequence number seen
          bitmap,    \* impl: set of d in 1..W such that highest-d is marked received
          accepted,  \* property: sequence numbers accepted so far
          newest,    \* property: the newest accepted sequence number (0 = none)
          n,         \* number of deliveries so far
          act        \* last action with its predicted outcome (replay binding)

vars == <<highest, bitmap, accepted, newest, n, act>>
View == <<highest, bitmap, accepted, newest, n>>

Newest == newest

Init == /\ highest = 0
        /\ bitmap = {}
        /\ accepted = {}
        /\ newest = 0
        /\ n = 0
        /\ act = [name |-> "init"]

(* The verdict of the Go method on sequence number s, and the new state.   *)
ImplOK(s) == \/ s > highest
             \/ (s < highest /\ highest - s <= W /\ (highest - s) \notin bitmap)

ImplHighest(s) == IF s > highest THEN s ELSE highest

ImplBitmap(s) ==
  IF s > highest
  THEN LET d == s - highest
       IN {b + d : b \in {x \in bitmap : x + d <= W}}
            \cup (IF RecordOnShift /\ d <= W THEN {d} ELSE {})
  ELSE IF s < highest /\ highest - s <= W
       THEN bitmap \cup {highest - s}
       ELSE bitmap

(* What the property allows for delivering s in the current state.         *)
MustReject(s) == s \in accepted
MustAccept(s) == s \notin accepted /\ (s > Newest \/ Newest - s <= W)

Max(a, b) == IF a > b THEN a ELSE b
Min(a, b) == IF a < b THEN a ELSE b
Candidates == IF Reach = 0 THEN 1..MaxSeq
              ELSE Max(1, highest - Reach)..Min(MaxSeq, highest + Reach)

Check(s) ==
  /\ MaxLen = 0 \/ n < MaxLen
  /\ n' = n + 1
  /\ highest' = ImplHighest(s)
  /\ bitmap' = ImplBitmap(s)
  /\ accepted' = IF ImplOK(s) THEN accepted \cup {s} ELSE accepted
  /\ newest' = IF ImplOK(s) /\ s > newest THEN s ELSE newest
  /\ act' = [name |-> "check", s |-> s, i |-> n + 1, ok |-> ImplOK(s),
             dup |-> MustReject(s), must |-> MustAccept(s)]

Next == \E s \in Candidates : Check(s)

(* Simulation: one random candidate per step (TLC -simulate would otherwise *)
(* enumerate all successors of every state it walks through).              *)
NextSim == LET s == RandomElement(Candidates) IN Check(s)
DumpStep == PrintT("OUT " \o ToJson(act'))

Spec == Init /\ [][Next]_vars

-----------------------------------------------------------------------------
(* Properties (C03).                                                       *)

AtMostOnce == act.name = "check" /\ act.ok => ~act.dup
AcceptsFresh == act.name = "check" /\ act.must => act.ok

(* Refinement: inside the window the bitmap is exactly the accepted set.   *)
Refines == \A d \in 1..W :
              (highest - d >= 1) => ((d \in bitmap) <=> (highest - d \in accepted))
HighestIsNewest == highest = newest
NewestIsMax == /\ newest = 0 <=> accepted = {}
               /\ newest # 0 => newest \in accepted /\ \A y \in accepted : y <= newest

TypeOK == /\ highest \in 0..MaxSeq
          /\ bitmap \subseteq 1..W
          /\ accepted \subseteq 1..MaxSeq

-----------------------------------------------------------------------------
(* Graph dump for replay: one line per transition.                         *)
DumpInit == PrintT("INIT " \o ToJson(View))
DumpEdge == PrintT("EDGE " \o ToJson(View) \o "\t" \o ToJson(act') \o "\t" \o ToJson(View'))
(***************************************************************************)
(* `act` (the step's observed outcome) is not part of the VIEW: as a state  *)
(* predicate an invariant over act would be evaluated only for the first     *)
(* representative TLC finds of each view class.  The action forms below are  *)
(* evaluated for EVERY transition TLC generates; the configurations that use *)
(* a VIEW check these.                                                       *)
(***************************************************************************)
AtMostOnceA == [][AtMostOnce']_vars
AcceptsFreshA == [][AcceptsFresh']_vars

=============================================================================
