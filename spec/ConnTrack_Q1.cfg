SPECIFICATION Spec
CONSTANTS
  Remotes = {1, 2}
  Friends = {2}
  Isolated = FALSE
  OpenSvcs = {"t80"}
  OutKeys <- BOutKeys
  InKeys <- BInKeys
  Senders = {2}
  Mirror = TRUE
  Codes = {"denied"}
VIEW View
PROPERTIES DeniedOnlyByDst
CHECK_DEADLOCK FALSE
