------------------------- MODULE HandshakeImpersonate -------------------------
(***************************************************************************)
(* The identity clause of C04 ("a link to peer address P is registered     *)
(* only after the remote end has proved possession of the private key P is  *)
(* derived from") against a participant M that CLAIMS another router's       *)
(* address, over a HISTORY of connections to the same victim                 *)
(* (peering/init.go handlePeeringRequest; state.AddRouter / GetSession).     *)
(*                                                                          *)
(* M owns its key only.  In every connection it presents an identity for     *)
(* the address of a router P that never takes part: either P's address with  *)
(* M's key ("swapped": not self-certifying) or P's genuine public identity   *)
(* ("genuine": self-certifying, but M cannot sign for it), and signs every   *)
(* message with its own key - or ("recorded") presents P's genuine identity   *)
(* and signs nothing at all: P and the victim completed a genuine handshake   *)
(* earlier which M observed, and M puts the signatures P made THEN under the  *)
(* messages it writes NOW (own challenge, the victim's fresh challenge echoed,*)
(* own key share, a newer time stamp).  A signature over other bytes proves   *)
(* nothing, however often the victim has verified it before.                  *)
(* The victim keeps what it stored between                                    *)
(* connections: AddRouter never overwrites a stored record, and the session  *)
(* - the key signatures are verified with - is made from the STORED record.  *)
(*                                                                          *)
(* Code order as it is (VerifyFirst = TRUE): source = presented address,     *)
(* VerifyAddress, already-connected check, GetSession/AddRouter, Unseal.     *)
(* VerifyFirst = FALSE is the negative control: the address check moved      *)
(* behind GetSession/AddRouter ("grouped with the signature check") - each   *)
(* connection on its own is still refused, but the first one leaves P's      *)
(* address bound to M's key and the second one is accepted.                  *)
(***************************************************************************)
EXTENDS Integers, Sequences, FiniteSets, TLC, Json

CONSTANTS VerifyFirst,   \* TRUE: the code as it is
          MaxConns,
          KnownBefore    \* TRUE: the victim already holds P's genuine record (it has met P)

Claims == {"swapped", "genuine", "recorded"}

VARIABLES bound,       \* the key stored under P's address at the victim: "none" | "P" | "M"
          registered,  \* a link to P is registered at the victim
          conns,
          act
vars == <<bound, registered, conns, act>>

Init == /\ bound = IF KnownBefore THEN "P" ELSE "none"
        /\ registered = FALSE /\ conns = 0
        /\ act = [name |-> "init"]

PresentedKey(cl) == IF cl = "swapped" THEN "M" ELSE "P"
SelfCertifying(cl) == cl # "swapped"

(* one whole connection: M's request with claim cl, signed by M *)
Connect(cl) ==
  /\ conns < MaxConns /\ ~registered
  /\ conns' = conns + 1
  /\ LET addrOK == SelfCertifying(cl)
         \* what is stored after GetSession/AddRouter ran (first writer wins)
         stored == IF bound = "none" THEN PresentedKey(cl) ELSE bound
         sigOK(k) == cl # "recorded" /\ k = "M"  \* M signs with its own key; a recorded signature fits no new bytes
     IN IF VerifyFirst
          THEN IF ~addrOK
                 THEN /\ UNCHANGED <<bound, registered>>
                      /\ act' = [name |-> "connect", claim |-> cl, outcome |-> "refused-address", bound |-> bound, registered |-> FALSE]
                 ELSE /\ bound' = stored
                      /\ registered' = sigOK(stored)
                      /\ act' = [name |-> "connect", claim |-> cl,
                                 outcome |-> IF sigOK(stored) THEN "registered" ELSE "refused-signature",
                                 bound |-> stored, registered |-> sigOK(stored)]
          ELSE \* the session (and the stored record) first, then address and signature together
               /\ bound' = stored
               /\ registered' = (addrOK /\ sigOK(stored))
               /\ act' = [name |-> "connect", claim |-> cl,
                          outcome |-> IF ~addrOK THEN "refused-address" ELSE IF sigOK(stored) THEN "registered" ELSE "refused-signature",
                          bound |-> stored, registered |-> (addrOK /\ sigOK(stored))]

Next == \E cl \in Claims : Connect(cl)
Spec == Init /\ [][Next]_vars

(* C04: M never gets a link that is registered under P's address *)
AuthOnRegister == ~registered
(* C01 seen from here: the address of P is only ever bound to P's key *)
NoForeignBinding == bound \in {"none", "P"}

DumpEdge == PrintT("EDGE " \o ToJson(<<bound, registered, conns>>) \o "\t" \o ToJson(act') \o "\t" \o ToJson(<<bound', registered', conns'>>))
=============================================================================
