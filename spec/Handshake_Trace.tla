--------------------------- MODULE Handshake_Trace ---------------------------
(***************************************************************************)
(* Trace validation for C04 (property level): real link set-ups between    *)
(* two real routers through the adversary proxy.                            *)
(*  {"ev":"setup","uniA":S,"uniB":S,"secA":S,"secB":S,"op":OP,"dir":D,       *)
(*   "idx":N,"forgot":B,"regA":B,"regB":B,"peersok":B,"trafficok":B}         *)
(*   regX      = X has a live registered link to the other router afterwards *)
(*   peersok   = each registered link reports the other's true address       *)
(*   trafficok = (both registered) a frame sent over either link end arrived  *)
(*               byte-identical at the other router's frame handler           *)
(*   op "splice" (Handshake.tla): the idx-th message of dir was replaced by   *)
(*   one put together from it and from material its receiver had verified      *)
(*   before (an earlier completed connection of the pair, earlier messages of  *)
(*   this connection) - "detail" says which bytes under which signature.  It   *)
(*   is a faulty message like any other: its receiver registers no link.       *)
(*   uniX / secX are the strings the DRIVER wrote into router X's configuration *)
(*   (never what the parsed configuration reports back); the router was built   *)
(*   from them the way "via" says (the configuration parser of the real program: *)
(*   MakeTestConfig, Store.Parse, LoadConfig of a .json / .yaml file).  A name   *)
(*   may be empty (the default universe) whether or not there is a secret, and   *)
(*   secrets that differ in white space or case are different secrets.           *)
(***************************************************************************)
EXTENDS Integers, Sequences, TLC, Json

Trace == ndJsonDeserialize("trace.ndjson")
VARIABLE l
Ev == Trace[l]
TraceInit == l = 1

Reg(x) == IF x = "A" THEN Ev.regA ELSE Ev.regB
Uni(x) == IF x = "A" THEN Ev.uniA ELSE Ev.uniB
Sec(x) == IF x = "A" THEN Ev.secA ELSE Ev.secB
Other(x) == IF x = "A" THEN "B" ELSE "A"

SetupOK ==
  /\ \A x \in {"A", "B"} : Reg(x) =>
        /\ Uni("A") = Uni("B")                                   \* named the same universe
        /\ (Sec(x) # "" => Sec(Other(x)) = Sec(x))               \* proved knowledge of this router's secret
  /\ (Ev.op # "none" /\ ~(Ev.op = "dup" /\ Ev.idx = 3)) => ~Reg(Other(Ev.dir))   \* the receiver of a faulty message aborts
  /\ (Ev.op = "none" /\ Uni("A") = Uni("B") /\ (Sec("A") = "" \/ Sec("B") = Sec("A")) /\ (Sec("B") = "" \/ Sec("A") = Sec("B"))
        /\ (Uni("A") = "" => Sec("A") = "" /\ Sec("B") = ""))   \* no proof is made in the nameless universe: completion not demanded there
        => (Ev.regA /\ Ev.regB)                                  \* an undisturbed admissible set-up completes
  /\ (Ev.regA \/ Ev.regB) => Ev.peersok                           \* each end reports the other's true address
  /\ (Ev.regA /\ Ev.regB) => Ev.trafficok                         \* traffic sealed by either link end unseals at the other

(*  {"ev":"insider","challenge":"cV"|"cM","proof":"none"|"observed"|"own","mhassecret":B,"registered":B}          *)
(*   a router M with its own valid identity and the right universe name speaks the handshake itself against a     *)
(*   victim that has the universe secret (HandshakeInsider.tla): challenge = what M put into its request (the      *)
(*   victim's own challenge or a fresh one), proof = what M put into its response                                  *)
InsiderOK ==
  /\ Ev.registered => Ev.mhassecret                                   \* AuthOnRegister
  /\ (Ev.mhassecret /\ Ev.proof = "own") => Ev.registered              \* who knows the secret is admitted

(*  {"ev":"relay","vrole","prole","challenge","resp":"P"|"M","ack":"P"|"M","registered":B}                        *)
(*   a router M in a handshake with the victim V and with an honest router P at the same time hands V messages   *)
(*   P made for M (HandshakeRelay.tla).  P never spoke on V's connection and M does not hold P's key.            *)
RelayOK == ~Ev.registered                                             \* NoLinkWithoutProof

(*  {"ev":"overlap","regD":B,"regL":B,"trafficok":B,"clear":B}                                                    *)
(*   two connections between the same routers whose handshakes overlap (HandshakeOverlap.tla, the schedule of       *)
(*   ScheduleReached enforced by the proxy): whatever link is registered at the end carries traffic, encrypted       *)
OverlapOK == /\ (Ev.regD /\ Ev.regL) => (Ev.trafficok /\ ~Ev.clear)
             /\ Ev.regD = Ev.regL                          \* at quiescence a link has two ends or none

(*  {"ev":"impersonate","claim":"swapped"|"genuine","conn":N,"registered":B,"bound":"none"|"P"|"M"|"other"}       *)
(*   a router M claims the address of a router P that never takes part, over a history of connections to one      *)
(*   victim (HandshakeImpersonate.tla): P's address with M's key, or P's genuine identity; all signed by M.       *)
(*   claim "recorded" ("sigs": how they were chosen, "meetings": genuine handshakes of P and the victim before):   *)
(*   P's genuine identity, M's own messages, under each a signature P made for another message in an earlier      *)
(*   genuine handshake with this victim.  P does not take part in THIS connection: the same two rules.             *)
ImpersonateOK == /\ ~Ev.registered                           \* AuthOnRegister
                 /\ Ev.bound \in {"none", "P"}                \* NoForeignBinding

TraceNext == /\ l <= Len(Trace) /\ l' = l + 1
             /\ \/ (Ev.ev = "setup" /\ SetupOK = TRUE)
                \/ (Ev.ev = "impersonate" /\ ImpersonateOK = TRUE)
                \/ (Ev.ev = "insider" /\ InsiderOK = TRUE)
                \/ (Ev.ev = "relay" /\ RelayOK = TRUE)
                \/ (Ev.ev = "overlap" /\ OverlapOK = TRUE)

TraceAccepted ==
  LET dd == TLCGet("stats").diameter
  IN IF dd - 1 = Len(Trace) THEN TRUE
     ELSE PrintT("OUT REJECT " \o ToString(dd)) /\ FALSE
=============================================================================
