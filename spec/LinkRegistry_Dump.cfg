CONSTANTS
  IdentityChecked = TRUE
  Shape = "cross"
  HandshakeMayFail = FALSE
INIT Init
NEXT Next
VIEW View
ACTION_CONSTRAINT DumpEdge
