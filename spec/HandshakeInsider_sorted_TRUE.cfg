CONSTANTS
  Binding = "sorted"
  MHasSecret = TRUE
INIT Init
NEXT Next
INVARIANTS AuthOnRegister
ACTION_CONSTRAINT DumpEdge
