CONSTANTS
  IdentityChecked = FALSE
  Shape = "tri3"
  HandshakeMayFail = TRUE
INIT Init
NEXT Next
VIEW View
INVARIANTS Consistent
