CONSTANTS
  IdentityChecked = TRUE
  Shape = "tri3"
  HandshakeMayFail = FALSE
INIT Init
NEXT Next
