INIT Init
NEXT Next
ACTION_CONSTRAINT DumpEdge
