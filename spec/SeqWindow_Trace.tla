--------------------------- MODULE SeqWindow_Trace ---------------------------
(***************************************************************************)
(* Trace validation for C03: every event is one call of the real code      *)
(* (SequenceHandler.Check, FrameV1.Unseal, LinkFrame.Unseal) on a frame    *)
(* the peer really sealed, with the outcome the real code returned.  The   *)
(* property-level rule of SeqWindow decides whether that outcome is        *)
(* allowed; a line that is not allowed stops the trace (REJECT <line>).    *)
(*                                                                         *)
(*   {"ev":"reset","h":H}            new receiver / new key epoch          *)
(*   {"ev":"check","h":H,"s":N,"ok":B}    windowed classes (N < 2^31)      *)
(*   {"ev":"tcheck","h":H,"t":N,"ok":B}   signed class, t = ms since base  *)
(*   {"ev":"ownsend","h":H,"wrap":B}  the receiver sealed frames of its own *)
(*        (with wrap: across its own 2^32 counter wrap and outgoing key    *)
(*        rollover); what it has accepted from the sender is unchanged     *)
(***************************************************************************)
EXTENDS Integers, Sequences, FiniteSets, TLC, Json

CONSTANT W

Trace == ndJsonDeserialize("trace.ndjson")

VARIABLES l,        \* next line to consume
          acc,      \* handler -> set of accepted sequence numbers
          newest,   \* handler -> newest accepted (0 = none)
          latest    \* handler -> newest accepted timestamp (signed class)

tvars == <<l, acc, newest, latest>>

TraceInit == /\ l = 1
             /\ acc = [h \in {} |-> {}]
             /\ newest = [h \in {} |-> 0]
             /\ latest = [h \in {} |-> 0]

Ev == Trace[l]

Reset == /\ Ev.ev = "reset"
         /\ acc' = [h \in DOMAIN acc \cup {Ev.h} |-> IF h = Ev.h THEN {} ELSE acc[h]]
         /\ newest' = [h \in DOMAIN newest \cup {Ev.h} |-> IF h = Ev.h THEN 0 ELSE newest[h]]
         /\ latest' = [h \in DOMAIN latest \cup {Ev.h} |-> IF h = Ev.h THEN 0 ELSE latest[h]]

MustReject(h, s) == s \in acc[h]
MustAccept(h, s) == s \notin acc[h] /\ (s > newest[h] \/ newest[h] - s <= W)

Check == /\ Ev.ev = "check"
         /\ Ev.h \in DOMAIN acc
         /\ Ev.ok => ~MustReject(Ev.h, Ev.s)          \* at most once
         /\ MustAccept(Ev.h, Ev.s) => Ev.ok           \* fresh and in window => accepted
         /\ acc' = IF Ev.ok THEN [acc EXCEPT ![Ev.h] = @ \cup {Ev.s}] ELSE acc
         /\ newest' = IF Ev.ok /\ Ev.s > newest[Ev.h] THEN [newest EXCEPT ![Ev.h] = Ev.s] ELSE newest
         /\ UNCHANGED latest

TCheck == /\ Ev.ev = "tcheck"
          /\ Ev.h \in DOMAIN latest
          /\ Ev.ok <=> Ev.t > latest[Ev.h]            \* strictly increasing timestamps only
          /\ latest' = IF Ev.ok THEN [latest EXCEPT ![Ev.h] = Ev.t] ELSE latest
          /\ UNCHANGED <<acc, newest>>

OwnSend == /\ Ev.ev = "ownsend"
           /\ Ev.h \in DOMAIN acc
           /\ UNCHANGED <<acc, newest, latest>>
(*   {"ev":"nokeys","h":H}   the receiver handled a "no encryption keys" error of the sender: the session's       *)
(*        keys are dropped, what was accepted from the sender (signed class: the newest time stamp) is not        *)
NoKeys == /\ Ev.ev = "nokeys"
          /\ Ev.h \in DOMAIN latest
          /\ UNCHANGED <<acc, newest, latest>>

(*   {"ev":"forged","h":H,"s":N,"ok":B}  a copy of frame N that does not authenticate (a bit of its MAC or of its   *)
(*        sequence field flipped on the wire) was delivered: it is refused and leaves no trace in the receiver   *)
Forged == /\ Ev.ev = "forged"
          /\ Ev.h \in DOMAIN acc
          /\ ~Ev.ok
          /\ UNCHANGED <<acc, newest, latest>>

(*   {"ev":"cleaned","h":H,"idle_s":N,"removed":K}  nothing arrived for N seconds and the receiver's session      *)
(*        cleaner ran once (K idle session objects were removed).  Which objects a receiver keeps is its own      *)
(*        business: what it has accepted is what it has accepted.  (The driver delivers a stamp newer than every   *)
(*        earlier one first after a removal, so nothing is claimed about old stamps at a receiver that dropped     *)
(*        its session.)  The copies of a frame that follow are `tcheck` lines like any other.                     *)
Cleaned == /\ Ev.ev = "cleaned"
           /\ Ev.h \in DOMAIN latest
           /\ UNCHANGED <<acc, newest, latest>>

(*   {"ev":"refusedsetup","h":H,"side":S,"kind":K,"on":O,"via":V,"call":C,"outcome":"refused"|"abandoned","err":E}      *)
(*        a key set-up on the receiver's session that is in use (server side in place as the hello handler does it,    *)
(*        client side, a derivation) was REFUSED part-way or abandoned: unsupported key-exchange type, share of the    *)
(*        wrong size, low-order share, completion of an exchange that is not open ...  The session's keys stay in      *)
(*        place, so the frames it has accepted under them are frames it has accepted: nothing changes.  (A set-up      *)
(*        that goes through is a new key epoch: `reset`.)                                                              *)
RefusedSetup == /\ Ev.ev = "refusedsetup"
                /\ Ev.h \in DOMAIN acc
                /\ UNCHANGED <<acc, newest, latest>>

TraceNext == /\ l <= Len(Trace)
             /\ l' = l + 1
             /\ (Reset \/ Check \/ TCheck \/ OwnSend \/ NoKeys \/ Forged \/ Cleaned \/ RefusedSetup)

TraceSpec == TraceInit /\ [][TraceNext]_tvars

TraceAccepted ==
  LET d == TLCGet("stats").diameter
  IN IF d - 1 = Len(Trace) THEN TRUE
     ELSE PrintT("OUT REJECT " \o ToString(d)) /\ FALSE
=============================================================================
