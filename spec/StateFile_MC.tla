---------------------------- MODULE StateFile_MC ----------------------------
(* Candidate designs of the shutdown write, as programs for StateFile. *)
EXTENDS Integers, Sequences
CONSTANTS Design, OldLen, NewLen
NextLens == <<3, 12>>   \* a shorter, then a longer state in the next two generations
Op(op, name, name2, fd, n, trunc, creat) == [op |-> op, name |-> name, name2 |-> name2, fd |-> fd, n |-> n, trunc |-> trunc, creat |-> creat]
(* os.WriteFile: open with O_TRUNC, write, close *)
TruncWrite == << Op("open", "state", "", 3, 0, TRUE, TRUE), Op("write", "", "", 3, NewLen, FALSE, FALSE), Op("close", "", "", 3, 0, FALSE, FALSE) >>
(* write a temporary file in the same directory, then rename over the state file *)
TempRename == << Op("open", "tmp", "", 3, 0, TRUE, TRUE), Op("write", "", "", 3, NewLen, FALSE, FALSE), Op("fsync", "", "", 3, 0, FALSE, FALSE),
                 Op("close", "", "", 3, 0, FALSE, FALSE), Op("rename", "tmp", "state", 0, 0, FALSE, FALSE) >>
(* the same with the bytes handed over in two write calls *)
TempRename2 == << Op("open", "tmp", "", 3, 0, TRUE, TRUE), Op("write", "", "", 3, NewLen \div 2, FALSE, FALSE), Op("write", "", "", 3, NewLen - NewLen \div 2, FALSE, FALSE),
                  Op("close", "", "", 3, 0, FALSE, FALSE), Op("rename", "tmp", "state", 0, 0, FALSE, FALSE) >>
(* remove the old file first, then write: loses the previous state *)
UnlinkWrite == << Op("unlink", "state", "", 0, 0, FALSE, FALSE), Op("open", "state", "", 3, 0, FALSE, TRUE), Op("write", "", "", 3, NewLen, FALSE, FALSE), Op("close", "", "", 3, 0, FALSE, FALSE) >>
(* the temporary file is opened without O_TRUNC: harmless until a shorter state follows a killed longer one *)
TempNoTrunc == << Op("open", "tmp", "", 3, 0, FALSE, TRUE), Op("write", "", "", 3, NewLen, FALSE, FALSE), Op("fsync", "", "", 3, 0, FALSE, FALSE),
                  Op("close", "", "", 3, 0, FALSE, FALSE), Op("rename", "tmp", "state", 0, 0, FALSE, FALSE) >>
(* the temporary file is written, cannot be renamed over the state file (the call fails: it is not part of the program),
   is removed, and the state is written IN PLACE instead: two sessions of NewLen bytes each; the second one is TruncWrite *)
TempThenInPlace == << Op("open", "tmp", "", 3, 0, TRUE, TRUE), Op("write", "", "", 3, NewLen, FALSE, FALSE), Op("fsync", "", "", 3, 0, FALSE, FALSE),
                      Op("close", "", "", 3, 0, FALSE, FALSE), Op("unlink", "tmp", "", 0, 0, FALSE, FALSE),
                      Op("open", "state", "", 3, 0, TRUE, TRUE), Op("write", "", "", 3, NewLen \div 2, FALSE, FALSE), Op("write", "", "", 3, NewLen - NewLen \div 2, FALSE, FALSE),
                      Op("close", "", "", 3, 0, FALSE, FALSE) >>
(* the temporary file is written and left behind, the rename is refused, the save fails as a whole: the state file is
   never touched (Recoverable and NeverRefuses hold; SaveCompletes is not demanded of a refused save) *)
TempRefused == << Op("open", "tmp", "", 3, 0, TRUE, TRUE), Op("write", "", "", 3, NewLen, FALSE, FALSE), Op("fsync", "", "", 3, 0, FALSE, FALSE),
                  Op("close", "", "", 3, 0, FALSE, FALSE) >>
Prog == CASE Design = "tempinplace" -> TempThenInPlace [] Design = "temprefused" -> TempRefused [] Design = "truncwrite" -> TruncWrite [] Design = "temprename" -> TempRename [] Design = "temprename2" -> TempRename2
          [] Design = "tempnotrunc" -> TempNoTrunc [] OTHER -> UnlinkWrite
VARIABLES dir, ino, fds, pc, killed, nextIno, gen, loaded, refused, act
INSTANCE StateFile
=============================================================================
