--------------------------- MODULE ConnTrack_Trace ---------------------------
(***************************************************************************)
(* Trace validation for ConnTrack (X02): every line is one step taken on a *)
(* real router; "table" is the real connection table after it, projected   *)
(* on the model's 5-tuples (verdict, age class, direction flag).           *)
(*   {"ev":"reset","isolated":B}                new router                 *)
(*   {"ev":"out","r","s","lp","tomesh","icmp","table"}                     *)
(*   {"ev":"in","r","s","lp","dir","totun","table"}                        *)
(*   {"ev":"err","from","code","r","s","table"}                            *)
(*   {"ev":"tick"|"jump"|"clean"|"heal","table"}                           *)
(*   {"ev":"hello","r","table"}   a hello exchange with router r completed *)
(* The cool-down state of the error handler is not logged: TLC infers it.  *)
(* Which similar entry an outbound flow inherits from is Go's map order:   *)
(* the spec's Out allows every candidate, the log says which one it was.   *)
(***************************************************************************)
EXTENDS Integers, Sequences, FiniteSets, TLC, Json

Trace == ndJsonDeserialize("trace.ndjson")

VARIABLES l, iso, ent, rcvd, quiet, act

CT(i) == INSTANCE ConnTrack WITH Remotes <- {1, 2}, Friends <- {2}, Isolated <- i, OpenSvcs <- {"t80"},
            OutKeys <- {<<1, "t80", 1, "out">>, <<1, "t80", 2, "out">>, <<1, "t81", 1, "out">>, <<1, "ic", 0, "out">>, <<2, "t80", 1, "out">>},
            InKeys <- {<<1, "t80", 0, "in">>, <<2, "t81", 0, "in">>},
            Senders <- {1, 2}, Codes <- {"unreachable", "denied", "rejected"}, Mirror <- TRUE

tvars == <<l, iso, ent, rcvd, quiet, act>>
Ev == Trace[l]
Keys == CT(FALSE)!Keys

Logged(e) == [k \in Keys |->
               IF \E i \in 1..Len(e.table) : <<e.table[i].r, e.table[i].s, e.table[i].lp, e.table[i].dir>> = k
               THEN LET i == CHOOSE j \in 1..Len(e.table) : <<e.table[j].r, e.table[j].s, e.table[j].lp, e.table[j].dir>> = k
                    IN [st |-> e.table[i].st, age |-> e.table[i].age, inb |-> e.table[i].inb]
               ELSE [st |-> "none", age |-> 0, inb |-> FALSE]]

TraceInit == /\ l = 1 /\ iso = FALSE /\ CT(FALSE)!Init

Reset == /\ Ev.ev = "reset"
         /\ iso' = Ev.isolated
         /\ ent' = [k \in Keys |-> [st |-> "none", age |-> 0, inb |-> FALSE]]
         /\ rcvd' = [p \in {1, 2} \X {"unreachable", "denied", "rejected"} |-> 2]
         /\ quiet' = FALSE
         /\ act' = [name |-> "init"]

Step(i) ==
  \/ /\ Ev.ev = "out" /\ CT(i)!Out(<<Ev.r, Ev.s, Ev.lp, "out">>)
     \* what the local host saw agrees with the verdict: a frame left for the mesh iff allowed, an ICMP error otherwise
     /\ Ev.tomesh = (act'.verdict = "allowed") /\ Ev.icmp = (act'.verdict # "allowed")
  \/ /\ Ev.ev = "in" /\ CT(i)!In(<<Ev.r, Ev.s, Ev.lp, Ev.dir>>)
     /\ Ev.totun = (act'.verdict = "allowed")
  \/ /\ Ev.ev = "err" /\ CT(i)!Err(Ev.from, Ev.code, Ev.r, IF Ev.code = "unreachable" THEN "t80" ELSE Ev.s)
  \/ /\ Ev.ev = "tick" /\ CT(i)!Tick
  \/ /\ Ev.ev = "jump" /\ CT(i)!Jump
  \/ /\ Ev.ev = "clean" /\ CT(i)!Clean
  \/ /\ Ev.ev = "heal" /\ CT(i)!Heal
  \/ /\ Ev.ev = "hello" /\ CT(i)!Hello(Ev.r)

TraceNext == /\ l <= Len(Trace)
             /\ l' = l + 1
             /\ \/ Reset
                \/ /\ Ev.ev # "reset" /\ UNCHANGED iso
                   /\ (IF iso THEN Step(TRUE) ELSE Step(FALSE))
                   /\ ent' = Logged(Ev)

TraceSpec == TraceInit /\ [][TraceNext]_tvars

(* the model's safety properties, asked of the real behaviour *)
PolicyHoldsF == ~iso => CT(FALSE)!PolicyHolds
PolicyHoldsT == iso => CT(TRUE)!PolicyHolds
EntriesSoundF == ~iso => CT(FALSE)!EntriesSound
EntriesSoundT == iso => CT(TRUE)!EntriesSound

TraceAccepted ==
  LET d == TLCGet("stats").diameter
  IN IF d - 1 = Len(Trace) THEN TRUE
     ELSE PrintT("OUT REJECT " \o ToString(d)) /\ FALSE
=============================================================================
