INIT Init
NEXT Next
INVARIANTS OnlyMyco OnlyAddressQueries NoShadow MappingOnlyLast
ACTION_CONSTRAINT DumpEdge
