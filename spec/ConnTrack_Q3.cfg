SPECIFICATION Spec
CONSTANTS
  Remotes = {1, 2}
  Friends = {2}
  Isolated = FALSE
  OpenSvcs = {"t80"}
  OutKeys <- AOutKeys
  InKeys <- AInKeys
  Senders = {}
  Mirror = TRUE
  Codes = {"unreachable"}
VIEW View
PROPERTIES OutFollowsPolicyA
CHECK_DEADLOCK FALSE
