------------------------------ MODULE Forwarding ------------------------------
(***************************************************************************)
(* Unicast forwarding (router/routing.go RouteFrame, router/router.go       *)
(* handleFrame, switchr/switch.go handleFrame / forwardToLink), serving     *)
(* C10.  One frame travels through a mesh whose routing towards the         *)
(* destination D is an ARBITRARY next-hop function (cyclic and inconsistent  *)
(* tables included), or along an arbitrary label-switched walk.             *)
(*                                                                         *)
(* forwardToLink: TTL := TTL - 1, a frame whose TTL reaches 0 is dropped,   *)
(* otherwise it crosses the link.  RouteFrame refuses to send a frame back   *)
(* to the peer it came from ("would loop"); the switch ignores frames that  *)
(* come back to the router named as their source.  The originating router   *)
(* forwards through the same code, so its own hop counts too.                *)
(***************************************************************************)
EXTENDS Integers, Sequences, FiniteSets, TLC, Json

CONSTANTS Nodes, Edges, D, InitTTLs, MaxWalk

VARIABLES nh,      \* next hop towards D at every other node (arbitrary)
          walk,    \* label-switched walk (sequence of nodes) or <<>> when routed
          at, from, ttl, ttl0, src, status, crossings, act

vars == <<nh, walk, at, from, ttl, ttl0, src, status, crossings, act>>
Nb(n) == {x \in Nodes : {n, x} \in Edges}

Walks == UNION {{w \in [1..k -> Nodes] : \A i \in 1..(k - 1) : {w[i], w[i + 1]} \in Edges} : k \in 2..MaxWalk}

NhFuncs == {f \in [Nodes \ {D} -> Nodes] : \A x \in Nodes \ {D} : f[x] \in Nb(x)}
Init == /\ \/ (walk = <<>> /\ nh \in NhFuncs /\ src \in Nodes \ {D})
           \/ (walk \in Walks /\ src = walk[1] /\ nh = CHOOSE f \in NhFuncs : TRUE)
        /\ at = src /\ from = 0
        /\ ttl0 \in InitTTLs /\ ttl = ttl0
        /\ status = "travelling" /\ crossings = 0
        /\ act = [name |-> "originate"]

(* A routed frame at x. *)
RouteStep ==
  /\ status = "travelling" /\ walk = <<>>
  /\ IF at = src /\ from # 0
     THEN \* the switch ignores frames that carry its own address as source
          /\ status' = "own"
          /\ act' = [name |-> "drop", at |-> at, why |-> "own"]
          /\ UNCHANGED <<at, from, ttl, crossings>>
     ELSE IF at = D
     THEN /\ status' = "delivered"
          /\ act' = [name |-> "deliver", at |-> at]
          /\ UNCHANGED <<at, from, ttl, crossings>>
     ELSE IF nh[at] = from
     THEN /\ status' = "wouldloop"
          /\ act' = [name |-> "drop", at |-> at, why |-> "wouldloop"]
          /\ UNCHANGED <<at, from, ttl, crossings>>
     ELSE IF ttl - 1 = 0
     THEN /\ status' = "expired"
          /\ act' = [name |-> "drop", at |-> at, why |-> "ttl"]
          /\ UNCHANGED <<at, from, ttl, crossings>>
     ELSE /\ at' = nh[at] /\ from' = at /\ ttl' = ttl - 1 /\ crossings' = crossings + 1
          /\ act' = [name |-> "cross", from |-> at, to |-> nh[at], ttl |-> ttl - 1]
          /\ UNCHANGED status
  /\ UNCHANGED <<nh, walk, ttl0, src>>

(* A label-switched frame: the switch block names the walk; position = crossings + 1. *)
SwitchStep ==
  /\ status = "travelling" /\ walk # <<>>
  /\ LET pos == crossings + 1
     IN IF at = src /\ from # 0
        THEN /\ status' = "own"
             /\ act' = [name |-> "drop", at |-> at, why |-> "own"]
             /\ UNCHANGED <<at, from, ttl, crossings>>
        ELSE IF pos = Len(walk)
        THEN /\ status' = "delivered"
             /\ act' = [name |-> "deliver", at |-> at]
             /\ UNCHANGED <<at, from, ttl, crossings>>
        ELSE IF ttl - 1 = 0
        THEN /\ status' = "expired"
             /\ act' = [name |-> "drop", at |-> at, why |-> "ttl"]
             /\ UNCHANGED <<at, from, ttl, crossings>>
        ELSE /\ at' = walk[pos + 1] /\ from' = at /\ ttl' = ttl - 1 /\ crossings' = crossings + 1
             /\ act' = [name |-> "cross", from |-> at, to |-> walk[pos + 1], ttl |-> ttl - 1]
             /\ UNCHANGED status
  /\ UNCHANGED <<nh, walk, ttl0, src>>

Next == RouteStep \/ SwitchStep
Spec == Init /\ [][Next]_vars /\ WF_vars(Next)

(* Properties (C10). *)
Bounded == crossings <= ttl0 - 1
TTLDecreases == act.name = "cross" => act.ttl >= 1 /\ act.ttl = ttl0 - crossings
NeverZero == ttl >= 1
Stops == <>(status # "travelling")

Case == [nh |-> nh, walk |-> walk, src |-> src, ttl0 |-> ttl0]
DumpEdge == PrintT("EDGE " \o ToJson(<<Case, at, from, ttl, status, crossings>>) \o "\t" \o ToJson(act') \o "\t"
                   \o ToJson(<<Case, at', from', ttl', status', crossings'>>))
=============================================================================
