\* C11 stage M: 3 destinations in prefix 1 and 1 in prefix 2, limit 2, sequences of <= 4 operations.
CONSTANTS
  Dsts = {1, 2, 3, 4}
  PrefixA = {1, 2, 3}
  Relays = {1, 2, 4}
  Limit = 2
  MaxOps = 4
  MaxRelays = 2
INIT Init
NEXT Next
VIEW View
INVARIANTS P1 P4 KeyUnique
PROPERTIES P2A P3A P5A P6A P7A OnlyShrinksA
