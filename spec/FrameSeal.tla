------------------------------ MODULE FrameSeal ------------------------------
(***************************************************************************)
(* Sealed end-to-end frames (frame/frame_v1.go, frame_v1_crypto.go),       *)
(* serving C02.  A frame is a set of named regions; the property-level     *)
(* rule says which regions are protected; the implementation level says    *)
(* what the code feeds into the signature / AEAD (nonce, associated data,  *)
(* ciphertext) and how parsing depends on the structural fields.  TLC      *)
(* enumerates every case (class x switch block x appendix x mutated region *)
(* x in-transit changes x session relation) as one transition and checks   *)
(* that both levels agree; the driver expands each case over bytes/bits.   *)
(***************************************************************************)
EXTENDS Integers, FiniteSets, Sequences, TLC, Json

Classes == {"signed", "prio", "enc"}
Regions == {"ver", "ttl", "flow", "rate", "type", "nonce", "seq", "src", "dst",
            "swlen", "sw", "msglen", "msg", "auth", "apx"}
Protected == Regions \ {"ttl", "flow", "apx"}
(* Session relations: who tries to unseal with which session.              *)
Rels == {"correct",        \* B with its session for A
         "otherSender",    \* B with its session for C
         "otherReceiver",  \* C with its session for A
         "reflected"}      \* A itself with its session for B

VARIABLES phase, act
vars == <<phase, act>>

(* Implementation level. *)
SigCovers == Regions \ {"ttl", "flow", "auth", "apx"}      \* data[:authIndex], ttl/flow zeroed
AeadNonce == {"type", "nonce", "seq"}                        \* data[4:16]
AeadAAD == {"ver", "rate", "type", "nonce", "seq", "src", "dst", "swlen", "sw", "msglen"}
AeadCipher == {"msg", "auth"}
Structural == {"ver", "type", "swlen", "msglen"}             \* change what the parser sees
Exists(r, sw, apx) == (r = "sw" => sw) /\ (r = "apx" => apx)

AuthBreaks(cls, r) ==
  IF cls = "signed" THEN r \in SigCovers \cup {"auth"}
  ELSE r \in AeadNonce \cup AeadAAD \cup AeadCipher
ImplOK(cls, mut, rel) ==
  /\ (mut = "none" \/ ~(AuthBreaks(cls, mut) \/ mut \in Structural))
  /\ CASE rel = "correct" -> TRUE
       [] rel = "otherSender" -> FALSE               \* other public key / other shared secret
       [] rel = "otherReceiver" -> cls = "signed"    \* anyone holding A's public key verifies
       [] rel = "reflected" -> FALSE                 \* own key is not the peer's; in-key # out-key
PropOK(cls, mut, rel) ==
  /\ (mut = "none" \/ mut \notin Protected)
  /\ (rel = "correct" \/ (rel = "otherReceiver" /\ cls = "signed"))

Init == phase = "start" /\ act = [name |-> "init"]

Case(cls, sw, apx, mut, transit, rel) ==
  /\ phase = "start"
  /\ mut = "none" \/ Exists(mut, sw, apx)
  /\ phase' = "done"
  /\ act' = [name |-> "case", cls |-> cls, sw |-> sw, apx |-> apx, mut |-> mut, transit |-> transit,
             rel |-> rel, ok |-> ImplOK(cls, mut, rel), propok |-> PropOK(cls, mut, rel),
             clearOnWire |-> (cls = "signed")]

Next == phase = "start" /\ \E cls \in Classes, sw \in BOOLEAN, apx \in BOOLEAN, mut \in Regions \cup {"none"},
           transit \in BOOLEAN, rel \in Rels : Case(cls, sw, apx, mut, transit, rel)
Spec == Init /\ [][Next]_vars

(* Properties (C02). *)
Agree == act.name = "case" => (act.ok <=> act.propok)
OnlyRightSender == act.name = "case" /\ act.ok => act.rel \in {"correct", "otherReceiver"}
EncryptedNeedRightReceiver == act.name = "case" /\ act.ok /\ act.cls # "signed" => act.rel = "correct"
TransitHarmless == act.name = "case" /\ act.mut \in {"none", "ttl", "flow", "apx"} /\ act.rel = "correct" => act.ok
ProtectedDetected == act.name = "case" /\ act.mut \in Protected => ~act.ok
NoClear == act.name = "case" /\ act.cls # "signed" => ~act.clearOnWire

DumpEdge == PrintT("EDGE " \o ToJson(phase) \o "\t" \o ToJson(act') \o "\t" \o ToJson(<<phase', act'>>))
=============================================================================
