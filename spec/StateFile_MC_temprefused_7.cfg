CONSTANTS
  Design = "temprefused"
  OldLen = 7
  NewLen = 9
INIT Init
NEXT Next
INVARIANTS Recoverable AlwaysLoadable NeverRefuses
