CONSTANTS
  MaxHops = 2
  Reps = {1}
  SimMinHops = 2
  SimMaxHops = 2
  SimBigOnly = FALSE
INIT TraceInit
NEXT TraceNext
POSTCONDITION TraceAccepted
