SPECIFICATION Spec
CONSTANTS
  Design = "session"
  MaxTime = 5
  Ahead = 0
  Behind = 0
  Window = 0
  Idle = 2
  Losses = {"clean"}
INVARIANT AtMostOnce
PROPERTY MustAcceptA
CHECK_DEADLOCK FALSE
