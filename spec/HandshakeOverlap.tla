--------------------------- MODULE HandshakeOverlap ---------------------------
(***************************************************************************)
(* Two connections between the same two routers whose handshakes overlap    *)
(* (peering/link.go handleSetup, peering/init.go, state/session_encryption) *)
(* - both dialled by D, or one by each end (simultaneous cross-connect) -    *)
(* serving the key-agreement clause of C04: "when both ends complete ...     *)
(* traffic sealed by either link end unseals at the other".                  *)
(*                                                                         *)
(* Each handshake does a key-exchange step at either end (Kx: D when it      *)
(* answers the request, L when it handles that answer) and later finalizes   *)
(* (Fin: derive the link-layer session, register the link).                  *)
(* SharedKx = TRUE is the code as it was first written: the key-exchange     *)
(* state lived in the ONE session a router keeps per peer, so a second       *)
(* handshake with the same peer overwrote it and the first finalize wiped    *)
(* it: a connection could finalize with the other connection's key material  *)
(* (link registered at both ends, keys different) or with none.              *)
(* SharedKx = FALSE is the code after the repair: every handshake owns its   *)
(* key-exchange state.                                                       *)
(***************************************************************************)
EXTENDS Integers, FiniteSets, TLC, Json

CONSTANTS SharedKx,           \* TRUE: pinned negative control (as first written); FALSE: the code as it is
          FinalizeChecked     \* FALSE: negative control - a finalize without key material does not abort the set-up

Conns == {1, 2}
Ends == {"D", "L"}
Peer(e) == IF e = "D" THEN "L" ELSE "D"

VARIABLES kx,      \* end -> connection whose key-exchange state the shared per-peer session holds (0 = none; SharedKx only)
          pc,      \* <<end, conn>> -> "start" | "kx" | "reg" | "regnosess" | "aborted" | "closed"
          used,    \* <<end, conn>> -> the connection whose key material a registered end derived its link keys from
          act
vars == <<kx, pc, used, act>>

Init == /\ kx = [e \in Ends |-> 0]
        /\ pc = [p \in Ends \X Conns |-> "start"]
        /\ used = [p \in Ends \X Conns |-> 0]
        /\ act = [name |-> "init"]

Live(e) == {c \in Conns : pc[<<e, c>>] \in {"reg", "regnosess"}}

Kx(e, c) ==
  /\ pc[<<e, c>>] = "start"
  /\ (e = "L" => pc[<<"D", c>>] # "start")           \* the other end's key-exchange value must have been sent
  /\ kx' = IF SharedKx THEN [kx EXCEPT ![e] = c] ELSE kx
  /\ pc' = [pc EXCEPT ![<<e, c>>] = "kx"]
  /\ UNCHANGED used
  /\ act' = [name |-> "kx", e |-> e, c |-> c]

Fin(e, c) ==
  /\ pc[<<e, c>>] = "kx"
  /\ pc[<<Peer(e), c>>] # "start"
  /\ LET material == IF SharedKx THEN kx[e] ELSE c
     IN IF Live(e) # {}
          THEN \* already connected to that peer: refused whatever the keys
               /\ pc' = [pc EXCEPT ![<<e, c>>] = "aborted"] /\ UNCHANGED <<kx, used>>
               /\ act' = [name |-> "fin", e |-> e, c |-> c, outcome |-> "refused"]
          ELSE IF material # 0
               THEN /\ pc' = [pc EXCEPT ![<<e, c>>] = "reg"]
                    /\ used' = [used EXCEPT ![<<e, c>>] = material]
                    /\ kx' = IF SharedKx THEN [kx EXCEPT ![e] = 0] ELSE kx
                    /\ act' = [name |-> "fin", e |-> e, c |-> c, outcome |-> "registered"]
               ELSE IF FinalizeChecked
                    THEN /\ pc' = [pc EXCEPT ![<<e, c>>] = "aborted"] /\ UNCHANGED <<kx, used>>
                         /\ act' = [name |-> "fin", e |-> e, c |-> c, outcome |-> "aborted"]
                    ELSE /\ pc' = [pc EXCEPT ![<<e, c>>] = "regnosess"] /\ UNCHANGED <<kx, used>>
                         /\ act' = [name |-> "fin", e |-> e, c |-> c, outcome |-> "registered-without-session"]

(* a connection dies (an end gives up, I/O error): both ends forget it *)
Close(c) ==
  /\ \E e \in Ends : pc[<<e, c>>] # "start"
  /\ pc' = [p \in Ends \X Conns |-> IF p[2] = c THEN "closed" ELSE pc[p]]
  /\ UNCHANGED <<kx, used>>
  /\ act' = [name |-> "close", c |-> c]

Next == (\E e \in Ends, c \in Conns : Kx(e, c) \/ Fin(e, c)) \/ (\E c \in Conns : Close(c))
Spec == Init /\ [][Next]_vars

(* C04, key agreement: a registered link end derived its keys from ITS OWN handshake (so two registered ends of one   *)
(* connection hold matching keys), and never goes without a link-layer session                                       *)
OwnKeys == \A p \in Ends \X Conns : pc[p] = "reg" => used[p] = p[2]
LinkHasSession == \A p \in Ends \X Conns : pc[p] # "regnosess"
=============================================================================
