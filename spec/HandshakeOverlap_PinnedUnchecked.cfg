SPECIFICATION Spec
CONSTANTS
  SharedKx = TRUE
  FinalizeChecked = FALSE
INVARIANTS LinkHasSession
CHECK_DEADLOCK FALSE
