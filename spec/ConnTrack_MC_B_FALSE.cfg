SPECIFICATION Spec
CONSTANTS
  Remotes = {1, 2}
  Friends = {2}
  Isolated = FALSE
  OpenSvcs = {"t80"}
  OutKeys <- BOutKeys
  InKeys <- BInKeys
  Senders = {2}
  Mirror = TRUE
  Codes = {"unreachable", "denied"}
VIEW View
INVARIANTS TypeOK EntriesSound
PROPERTIES PolicyHoldsA ErrScoped OnlyNamed NeverBetter
CHECK_DEADLOCK FALSE
