---------------------------- MODULE ConnTrack_MC ----------------------------
EXTENDS ConnTrack
(* seven 5-tuples: two connections to one tcp service of router 1, another service of router 1, an ICMP flow,  *)
(* one flow to router 2, and two inbound ones (an open and a closed service)                                   *)
MCOutKeys == {<<1, "t80", 1, "out">>, <<1, "t80", 2, "out">>, <<1, "t81", 1, "out">>, <<1, "ic", 0, "out">>, <<2, "t80", 1, "out">>}
MCInKeys == {<<1, "t80", 0, "in">>, <<2, "t81", 0, "in">>}
(* the exhaustive configurations.  A: three 5-tuples with one remote (inheritance between similar flows, the     *)
(* short-lived class, answers on outbound 5-tuples); B: two remotes and a service (scoping of errors)            *)
AOutKeys == {<<1, "t80", 1, "out">>, <<1, "t80", 2, "out">>, <<1, "ic", 0, "out">>}
AInKeys == {}
BOutKeys == {<<1, "t80", 1, "out">>, <<2, "t80", 1, "out">>}
BInKeys == {<<1, "t80", 0, "in">>}
AllCodes == {"unreachable", "denied", "rejected"}
=============================================================================
