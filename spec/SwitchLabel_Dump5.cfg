\* C12 replay graph: every transition printed (2..4 hops quick; the driver switches MaxHops for thorough).
CONSTANTS
  MaxHops = 5
  Reps = {1, 128, 16384}
  SimMinHops = 2
  SimMaxHops = 2
  SimBigOnly = FALSE
INIT Init
NEXT Next
VIEW View
ACTION_CONSTRAINT DumpEdge
