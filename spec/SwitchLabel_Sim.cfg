\* C12 simulation: random labels over the whole 16-bit range, 7..40 hops.
CONSTANTS
  MaxHops = 2
  Reps = {1}
  SimMinHops = 7
  SimMaxHops = 40
  SimBigOnly = FALSE
INIT Init
NEXT NextSim
INVARIANTS LabelsInOrder NeverOutside ReversesExactly SizeSufficient
ACTION_CONSTRAINT DumpStep
