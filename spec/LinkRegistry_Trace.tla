------------------------- MODULE LinkRegistry_Trace -------------------------
(***************************************************************************)
(* Observed registries of real routers at quiescent points (C16).  One       *)
(* event per router and snapshot:                                            *)
(*  snapshot router live(seq of [id, peer, label]) bypeer(seq of [peer, id])  *)
(*           bylabel(seq of [label, id]) routes(seq of peers with a peer       *)
(*           route) nexthops(seq of next hops of all routes)                   *)
(* id is the driver's number of a live link object, 0 for an entry that       *)
(* points to anything else (a closing link, a link the driver saw fail).      *)
(* The predicates are Consistent of LinkRegistry, restated on observations.   *)
(* Between the snapshots of a history whose routers run their router          *)
(* subsystem (stage T-learned) the trace also names the steps that write      *)
(* learned routes into the tables:                                            *)
(*  ping kind("announce" | "disconnect") router                               *)
(* - the router sent that ping over its live links and the receivers handled  *)
(* it.  The property says nothing about such a step by itself (it is always   *)
(* accepted); what it demands is demanded of the next snapshot: nexthops then *)
(* also lists the next hops of the learned routes.                            *)
(***************************************************************************)
EXTENDS Integers, Sequences, FiniteSets, TLC, Json

Trace == ndJsonDeserialize("trace.ndjson")
VARIABLE l
Ev == Trace[l]
TraceInit == l = 1

Rng(s) == {s[i] : i \in 1..Len(s)}
Findable(e) == \A k \in Rng(e.live) :
                 /\ \E x \in Rng(e.bypeer) : x.peer = k.peer /\ x.id = k.id
                 /\ \E x \in Rng(e.bylabel) : x.label = k.label /\ x.id = k.id
NoGhosts(e) == /\ \A x \in Rng(e.bypeer) : \E k \in Rng(e.live) : k.id = x.id /\ k.peer = x.peer
               /\ \A x \in Rng(e.bylabel) : \E k \in Rng(e.live) : k.id = x.id /\ k.label = x.label
UniqueLabels(e) == \A i, j \in 1..Len(e.live) : e.live[i].label # 0 /\ (i # j => e.live[i].label # e.live[j].label /\ e.live[i].peer # e.live[j].peer)
RoutesMatch(e) == /\ Rng(e.routes) = {k.peer : k \in Rng(e.live)}
                  /\ Rng(e.nexthops) \subseteq {k.peer : k \in Rng(e.live)}
Consistent(e) == Findable(e) /\ NoGhosts(e) /\ UniqueLabels(e) /\ RoutesMatch(e)

RouterStep(e) == e.ev = "ping" /\ e.kind \in {"announce", "disconnect"}
TraceNext == /\ l <= Len(Trace) /\ l' = l + 1
             /\ \/ RouterStep(Ev)
                \/ Ev.ev = "snapshot" /\ Consistent(Ev) = TRUE

TraceAccepted ==
  LET dd == TLCGet("stats").diameter
  IN IF dd - 1 = Len(Trace) THEN TRUE
     ELSE PrintT("OUT REJECT " \o ToString(dd)) /\ FALSE
=============================================================================
